(* Proofs/PageFacts.v -- the page of a file: the aggregator invariant (no second module entry,
   AggInv.module_only_first) combined with the block structure of pages (RstStructure.page_shape):
   one title, then exactly one module directive, then the entries as top-level siblings. *)
From Coq Require Import String List NArith Bool Arith.
From CMinx Require Import Base.Str Model.Lexer Model.Parser Model.Writer Model.DocTypes
     Model.Aggregator Model.Pipeline Proofs.WriterFacts Proofs.RstStructure Proofs.AggInv.
Import ListNotations.

Lemma no_module_tail : forall l,
  AggInv.no_module l = true -> forallb (fun e => negb (RstStructure.is_module e)) l = true.
Proof.
  intros l H. unfold AggInv.no_module in H. rewrite forallb_forall in *. intros e He.
  specialize (H e He). destruct e; cbn in *; try reflexivity; exact H.
Qed.

Theorem finalize_tail_no_module :
  forall fl trigger strip_fn strip_mac strip_mem f st title modname,
    aggregate fl trigger strip_fn strip_mac strip_mem f = Ok st ->
    forallb (fun e => negb (RstStructure.is_module e))
            (tl (snd (finalize title modname (documented st)))) = true.
Proof.
  intros fl trigger strip_fn strip_mac strip_mem f st title modname H.
  destruct (module_only_first trigger strip_fn strip_mac strip_mem fl f st H) as [Hnone Hsome].
  destruct (f_module f) as [t|] eqn:Em.
  - destruct (Hsome t eq_refl) as [rest [Hd Hr]]. rewrite Hd.
    unfold module_entry. cbn [finalize].
    match goal with |- context [match ?n with [] => _ | _ :: _ => _ end] => destruct n end;
      cbn [snd tl]; apply no_module_tail; exact Hr.
  - specialize (Hnone eq_refl).
    destruct (documented st) as [|e r] eqn:Ed; [reflexivity|].
    assert (He : RstStructure.is_module e = false).
    { unfold AggInv.no_module in Hnone. cbn [forallb] in Hnone.
      apply andb_true_iff in Hnone. destruct Hnone as [H1 _].
      destruct e; cbn in *; try reflexivity; discriminate H1. }
    destruct e; cbn [finalize snd tl]; try (apply no_module_tail; exact Hnone).
    cbn in He. discriminate He.
Qed.

(* the page of every accepted file: its top-level blocks are the module directive followed by one
   block per entry, in order; exactly one module block *)
Theorem pipeline_page_shape :
  forall fl trigger strip_fn strip_mac strip_mem hdrs f st title modname,
    aggregate fl trigger strip_fn strip_mac strip_mem f = Ok st ->
    let ds := snd (finalize title modname (documented st)) in
    forallb entry_plain ds = true ->
    exists mname mdoc rest,
      ds = EModule mname mdoc :: rest
      /\ top_blocks (body_lines hdrs ds)
         = block_lines hdrs (render_entry (EModule mname mdoc))
           :: map (fun e => block_lines hdrs (render_entry e)) rest
      /\ is_module_block (hd [] (top_blocks (body_lines hdrs ds))) = true
      /\ length (filter is_module_block (top_blocks (body_lines hdrs ds))) = 1.
Proof.
  intros fl trigger strip_fn strip_mac strip_mem hdrs f st title modname H ds Hp.
  apply (page_shape hdrs title modname (documented st)); [exact Hp|].
  exact (finalize_tail_no_module fl trigger strip_fn strip_mac strip_mem f st title modname H).
Qed.

(* ==== MAIN THEOREMS ==== *)
Print Assumptions finalize_tail_no_module.
Print Assumptions pipeline_page_shape.
