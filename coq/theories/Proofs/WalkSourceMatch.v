(* Proofs/WalkSourceMatch.v -- document() and document_single_file() of src/cminx/__init__.py, as
   regenerated from the current source into Gen/PyWalkSource.v by translators/pywalk2coq.py, produce on
   the abstract world of Base/PyWalkSem.v exactly the action list of the hand-written model
   Model/Walk.v -- for every tree, settings, exclusion predicate, header list and documenter, and
   wherever the output directory is: when it is a directory of the input tree the source prunes it
   from the walk exactly like a directory matched by an exclusion pattern, which the model expresses
   by the exclusion predicate excl_with_output; and a symbolic link to a directory that os.walk is not
   going to follow (follow_symlinks off) is pruned in the same way, which the model (it has no symbolic
   links) expresses by the exclusion predicate excl_with_output_links. *)
From Coq Require Import String List NArith ZArith Bool Arith Lia Permutation.
From CMinx Require Import Base.Str Base.PySem Base.PyWalkSem Model.Writer Model.Path Model.Naming
     Model.Pipeline Model.Walk Gen.PyWalkSource Proofs.WalkFacts.
Import ListNotations.

(* ---- spec ---- *)

(* settings.output.directory as a path *)
Definition out_root : apath := APath AOutput [] false.

(* the Settings object the model's wsettings / header list / exclusion predicate stand for *)
Definition py_settings_of (st : wsettings) (hdrs : list str) (excl : list str -> bool -> bool)
           (follow : bool) : pysettings :=
  PySettings (if ws_out st then Some out_root else None) (ws_recursive st) follow
             (ws_auto_exclude st) excl (ws_prefix st) (ws_sep st) (ws_ext_titles st)
             (ws_ext_modules st) hdrs.

(* assumption A5 of Base/PyWalkSem.v for the input *)
Definition kind_distinct (k : input_kind) : bool :=
  match k with KDir ch => names_distinct ch | _ => true end.

(* recording a list of actions *)
Definition emits (log : pylog) (acts : list action) : pylog := fold_left py_emit acts log.

(* o : where the output directory is relative to the input (pw_out_in_input of the world, A11):
   Some rel = it is the directory at rel below the input directory, None = not in the input tree *)
Definition is_nil {A : Type} (l : list A) : bool := match l with [] => true | _ :: _ => false end.
Definition is_output_dir (o : option (list str)) (rel : list str) : bool :=
  match o with Some q => strs_eqb rel q | None => false end.
(* the exclusion predicate of the model that absorbs the pruning of the output directory: the
   patterns, or (for a directory other than the input directory itself) being the output directory.
   The input directory and the files are judged by the patterns alone. *)
Definition excl_with_output (excl : list str -> bool -> bool) (o : option (list str))
           (rel : list str) (isdir : bool) : bool :=
  excl rel isdir || (isdir && negb (is_nil rel) && is_output_dir o rel).
(* the world and the settings agree: without a configured output directory there is none in the
   input tree *)
Definition out_consistent (st : wsettings) (o : option (list str)) : bool :=
  ws_out st || match o with None => true | Some _ => false end.

(* links : which entries below the input are symbolic links (pw_links of the world, A12); follow :
   settings.input.follow_symlinks.  The exclusion predicate of the model that absorbs both prunings:
   excl_with_output, or (for a directory other than the input directory itself, when symbolic links
   are not followed) being a symbolic link. *)
Definition excl_with_output_links (excl : list str -> bool -> bool) (o : option (list str))
           (follow : bool) (links : list str -> bool) (rel : list str) (isdir : bool) : bool :=
  excl_with_output excl o rel isdir || (isdir && negb (is_nil rel) && negb follow && links rel).

Lemma excl_with_output_none : forall excl rel isdir, excl_with_output excl None rel isdir = excl rel isdir.
Proof.
  intros excl rel isdir. unfold excl_with_output, is_output_dir. rewrite andb_false_r, orb_false_r. reflexivity.
Qed.

Lemma excl_with_output_file : forall excl o rel, excl_with_output excl o rel false = excl rel false.
Proof. intros excl o rel. unfold excl_with_output. cbn [andb]. apply orb_false_r. Qed.

Lemma excl_with_output_input : forall excl o isdir, excl_with_output excl o [] isdir = excl [] isdir.
Proof.
  intros excl o isdir. unfold excl_with_output. cbn [is_nil negb]. rewrite andb_false_r. cbn [andb]. apply orb_false_r.
Qed.

Lemma excl_with_output_dir : forall excl o rel d,
  excl_with_output excl o (rel ++ [d]) true = excl (rel ++ [d]) true || is_output_dir o (rel ++ [d]).
Proof.
  intros excl o rel d. unfold excl_with_output.
  assert (H : is_nil (rel ++ [d]) = false) by (destruct rel; reflexivity).
  rewrite H. reflexivity.
Qed.

Lemma excl_with_output_links_file : forall excl o follow links rel,
  excl_with_output_links excl o follow links rel false = excl rel false.
Proof.
  intros excl o follow links rel. unfold excl_with_output_links. rewrite excl_with_output_file.
  cbn [andb]. apply orb_false_r.
Qed.

Lemma excl_with_output_links_input : forall excl o follow links isdir,
  excl_with_output_links excl o follow links [] isdir = excl [] isdir.
Proof.
  intros excl o follow links isdir. unfold excl_with_output_links. rewrite excl_with_output_input.
  cbn [is_nil negb]. rewrite andb_false_r. cbn [andb]. apply orb_false_r.
Qed.

Lemma excl_with_output_links_dir : forall excl o follow links rel d,
  excl_with_output_links excl o follow links (rel ++ [d]) true
  = excl (rel ++ [d]) true || is_output_dir o (rel ++ [d]) || (negb follow && links (rel ++ [d])).
Proof.
  intros excl o follow links rel d. unfold excl_with_output_links. rewrite excl_with_output_dir.
  assert (H : is_nil (rel ++ [d]) = false) by (destruct rel; reflexivity).
  rewrite H. reflexivity.
Qed.

(* symbolic links are followed: they are ordinary directories *)
Lemma excl_with_output_links_followed : forall excl o links rel isdir,
  excl_with_output_links excl o true links rel isdir = excl_with_output excl o rel isdir.
Proof.
  intros excl o links rel isdir. unfold excl_with_output_links. cbn [negb]. rewrite andb_false_r. cbn [andb].
  apply orb_false_r.
Qed.

(* there are no symbolic links *)
Lemma excl_with_output_links_none : forall excl o follow rel isdir,
  excl_with_output_links excl o follow (fun _ => false) rel isdir = excl_with_output excl o rel isdir.
Proof.
  intros excl o follow rel isdir. unfold excl_with_output_links. rewrite andb_false_r. apply orb_false_r.
Qed.

Lemma if_or : forall {A : Type} (a b : bool) (x y : A),
  (if a then x else if b then x else y) = if a || b then x else y.
Proof. intros A a b x y. destruct a, b; reflexivity. Qed.

(* ================================================================== *)
(* effects                                                             *)

Lemma py_stopped_app : forall l a, py_stopped (l ++ [a]) = py_stopped l || py_is_stop a.
Proof.
  intros l a. unfold py_stopped. rewrite existsb_app. cbn [existsb]. rewrite orb_false_r. reflexivity.
Qed.

Lemma emits_spec : forall acts log,
  emits log acts = if py_stopped log then log else log ++ cut_at_abort acts.
Proof.
  unfold emits. induction acts as [|a r IH]; intros log.
  - cbn [fold_left cut_at_abort]. rewrite app_nil_r. destruct (py_stopped log); reflexivity.
  - cbn [fold_left]. rewrite IH. unfold py_emit.
    destruct (py_stopped log) eqn:E.
    + rewrite E. reflexivity.
    + rewrite py_stopped_app, E. cbn [orb].
      destruct a; cbn [py_is_stop cut_at_abort]; rewrite <- ?app_assoc; reflexivity.
Qed.

Lemma emits_nil : forall acts, emits [] acts = cut_at_abort acts.
Proof. intros acts. rewrite emits_spec. reflexivity. Qed.

Lemma emits_app : forall a b log, emits (emits log a) b = emits log (a ++ b).
Proof. intros a b log. unfold emits. rewrite fold_left_app. reflexivity. Qed.

Lemma emits_none : forall log, emits log [] = log.
Proof. reflexivity. Qed.

Lemma py_emit_after_stop : forall log a b, py_is_stop a = true -> py_emit (py_emit log a) b = py_emit log a.
Proof.
  intros log a b Ha. unfold py_emit. destruct (py_stopped log) eqn:E.
  - rewrite E. reflexivity.
  - rewrite py_stopped_app, E, Ha. reflexivity.
Qed.

(* ================================================================== *)
(* lists                                                               *)

Lemma str_eqb_refl' : forall a, str_eqb a a = true.
Proof. intros a. apply str_eqb_eq. reflexivity. Qed.

Lemma last_opt_snoc : forall {A} (l : list A) x, last_opt (l ++ [x]) = Some x.
Proof.
  intros A l x. induction l as [|a r IH]; [reflexivity|].
  cbn [app last_opt]. destruct (r ++ [x]) eqn:E.
  - destruct r; discriminate E.
  - exact IH.
Qed.

Lemma drop_last_snoc : forall {A} (l : list A) x, drop_last (l ++ [x]) = l.
Proof.
  intros A l x. induction l as [|a r IH]; [reflexivity|].
  cbn [app drop_last]. destruct (r ++ [x]) eqn:E.
  - destruct r; discriminate E.
  - rewrite IH. reflexivity.
Qed.

Lemma py_list_remove_skip : forall pre x rest,
  (forall y, In y pre -> str_eqb y x = false) ->
  py_list_remove (pre ++ x :: rest) x = pre ++ rest.
Proof.
  intros pre x rest. induction pre as [|y r IH]; intros H.
  - cbn [app py_list_remove]. rewrite str_eqb_refl'. reflexivity.
  - cbn [app py_list_remove]. rewrite (H y (or_introl eq_refl)). rewrite IH; [reflexivity|].
    intros z Hz. apply H. right. exact Hz.
Qed.

(* does the loop body  b  remove the element it is at *)
Definition rm_test (b : list str -> str -> list str) (x : str) : bool :=
  match b [x] x with [] => true | _ :: _ => false end.

(* for x in copy.copy(xs): if P(x): xs.remove(x)     is a filter *)
Lemma py_for_remove_filter : forall (b : list str -> str -> list str) (xs : list str),
  (forall acc x, b acc x = if rm_test b x then py_list_remove acc x else acc) ->
  py_for xs b xs = filter (fun x => negb (rm_test b x)) xs.
Proof.
  intros b xs Hb. unfold py_for.
  assert (G : forall rest pre, (forall y, In y pre -> rm_test b y = false) ->
              fold_left b rest (pre ++ rest) = pre ++ filter (fun x => negb (rm_test b x)) rest).
  { induction rest as [|x r IH]; intros pre Hpre.
    - reflexivity.
    - cbn [fold_left filter]. rewrite Hb. destruct (rm_test b x) eqn:E; cbn [negb].
      + rewrite py_list_remove_skip.
        * apply IH. exact Hpre.
        * intros y Hy. destruct (str_eqb y x) eqn:Eyx; [|reflexivity].
          apply str_eqb_eq in Eyx. subst y. rewrite (Hpre x Hy) in E. discriminate E.
      + replace (pre ++ x :: r) with ((pre ++ [x]) ++ r) by (rewrite <- app_assoc; reflexivity).
        rewrite IH.
        * rewrite <- app_assoc. reflexivity.
        * intros y Hy. apply in_app_or in Hy. destruct Hy as [Hy|[Hy|[]]].
          -- apply Hpre. exact Hy.
          -- subst y. exact E. }
  apply (G xs []). intros y [].
Qed.

Definition ctl_is_break (c : py_ctl) : bool :=
  match c with CBreak | CReturn => true | CNormal | CContinue => false end.

(* a search loop without state: did it break *)
Lemma py_for_ctl_unit : forall {A} (b : unit -> A -> unit * py_ctl) (xs : list A),
  py_for_ctl xs b tt = (tt, existsb (fun x => ctl_is_break (snd (b tt x))) xs).
Proof.
  intros A b xs. induction xs as [|x r IH]; [reflexivity|].
  cbn [py_for_ctl existsb]. destruct (b tt x) as [[] c] eqn:E. cbn [snd].
  destruct c; cbn [ctl_is_break orb]; try reflexivity; exact IH.
Qed.

Lemma fold_left_ext_in : forall {A B} (f g : A -> B -> A) (l : list B) (a : A),
  (forall acc x, In x l -> f acc x = g acc x) -> fold_left f l a = fold_left g l a.
Proof.
  intros A B f g l. induction l as [|x r IH]; intros a H; [reflexivity|].
  cbn [fold_left]. rewrite H by (left; reflexivity). apply IH.
  intros acc y Hy. apply H. right. exact Hy.
Qed.

Lemma existsb_ext_in : forall {A} (f g : A -> bool) (l : list A),
  (forall x, In x l -> f x = g x) -> existsb f l = existsb g l.
Proof.
  intros A f g l. induction l as [|x r IH]; intros H; [reflexivity|].
  cbn [existsb]. rewrite H by (left; reflexivity). rewrite IH; [reflexivity|].
  intros y Hy. apply H. right. exact Hy.
Qed.

Lemma filter_ext_in' : forall {A} (f g : A -> bool) (l : list A),
  (forall x, In x l -> f x = g x) -> filter f l = filter g l.
Proof.
  intros A f g l. induction l as [|x r IH]; intros H; [reflexivity|].
  cbn [filter]. rewrite H by (left; reflexivity). rewrite IH; [reflexivity|].
  intros y Hy. apply H. right. exact Hy.
Qed.

Lemma existsb_map : forall {A B} (f : A -> B) (p : B -> bool) l,
  existsb p (map f l) = existsb (fun x => p (f x)) l.
Proof.
  intros A B f p l. induction l as [|x r IH]; [reflexivity|].
  cbn [map existsb]. rewrite IH. reflexivity.
Qed.

Lemma filter_map_comm : forall {A B} (f : A -> B) (p : B -> bool) l,
  filter p (map f l) = map f (filter (fun x => p (f x)) l).
Proof.
  intros A B f p l. induction l as [|x r IH]; [reflexivity|].
  cbn [map filter]. destruct (p (f x)); cbn [map]; rewrite IH; reflexivity.
Qed.

(* ================================================================== *)
(* paths                                                               *)

Lemma py_rpath_text_rel : forall l, py_rpath_text (RPath l false) = rel_string l.
Proof.
  intros l. unfold py_rpath_text, rel_string. cbn [rp_comps rp_slash].
  destruct l as [|a r]; [reflexivity|]. rewrite app_nil_r. reflexivity.
Qed.

Lemma py_rpath_of_rst : forall x, py_rpath_of_name (x ++ s".rst") = RPath [x ++ s".rst"] false.
Proof. reflexivity. Qed.

Lemma py_stem_is : forall name,
  py_join (s".") (py_slice_drop_last (py_split name (s"."))) = stem name.
Proof. reflexivity. Qed.

Lemma dir_at_snoc : forall rel top ch nm,
  dir_at top rel = Some ch -> dir_at top (rel ++ [nm]) = find_dir nm ch.
Proof.
  induction rel as [|c r IH]; intros top ch nm H.
  - cbn [dir_at] in H. inversion H; subst. cbn [app dir_at]. destruct (find_dir nm ch); reflexivity.
  - cbn [app dir_at] in *. destruct (find_dir c top) as [ch'|]; [|discriminate H].
    apply IH. exact H.
Qed.

Lemma file_at_snoc : forall rel top ch nm,
  dir_at top rel = Some ch -> file_at top (rel ++ [nm]) = find_file nm ch.
Proof.
  induction rel as [|c r IH]; intros top ch nm H.
  - cbn [dir_at] in H. inversion H; subst. reflexivity.
  - cbn [dir_at] in H. destruct (find_dir c top) as [ch'|] eqn:E; [|discriminate H].
    specialize (IH ch' ch nm H).
    cbn [app file_at]. rewrite E. destruct (r ++ [nm]) eqn:E2.
    + destruct r; discriminate E2.
    + exact IH.
Qed.

(* ================================================================== *)
(* document_single_file                                                *)

Section SingleFile.
  Variable st : wsettings.
  Variable hdrs : list str.
  Variable docfn : str -> str -> list N -> outcome.
  Variable excl : list str -> bool -> bool.
  Variable follow : bool.

  Lemma names_match : forall (prefix : option str) sep et em name,
    (let header_name :=
       match prefix with
       | Some p => if py_str_eq name sep then p else (p ++ sep) ++ name
       | None => name
       end in
     (if negb et then py_re_sub_cmake_ext header_name else header_name,
      if negb em then py_re_sub_cmake_ext header_name else header_name))
    = header_and_module prefix sep et em name.
  Proof.
    intros prefix sep et em name. unfold header_and_module, prefixed, py_str_eq, py_re_sub_cmake_ext.
    cbv zeta. destruct prefix as [p|].
    - destruct (str_eqb name sep); [|rewrite <- app_assoc]; destruct et, em; reflexivity.
    - destruct et, em; reflexivity.
  Qed.

  (* what document_single_file does once the names, the content and the output path are known *)
  Lemma single_file_tail : forall w log file title modname content comps,
    pw_file_at w (ap_comps file) = Some content ->
    (let '(log1, output_writer) :=
       py_documenter_process w docfn log (py_Documenter file title modname (py_settings_of st hdrs excl follow)) in
     match (if ws_out st then Some out_root else None) with
     | Some output_path =>
         let log2 := py_os_makedirs log1 output_path in
         py_rendered_write_to_file log2 output_writer (APath AOutput comps false)
     | None => py_print log1 (py_rendered_str output_writer ++ [nl])
     end)
    = emits log (match docfn title modname content with
                 | OOk text => if ws_out st then [AMkDirs []; AWrite comps text] else [APrint (text ++ [nl])]
                 | o => [AAbort o]
                 end).
  Proof.
    intros w log file title modname content comps Hc.
    unfold py_documenter_process, py_Documenter. cbn [dc_file dc_header dc_module]. rewrite Hc.
    destruct (docfn title modname content) eqn:E; destruct (ws_out st);
      unfold py_os_makedirs, py_rendered_write_to_file, py_print, py_rendered_str, out_root, emits;
      cbn [ap_anchor ap_comps fold_left];
      try reflexivity;
      repeat rewrite (py_emit_after_stop _ (AAbort _)) by reflexivity; reflexivity.
  Qed.
End SingleFile.

Section SingleFile2.
  Variable st : wsettings.
  Variable hdrs : list str.
  Variable docfn : str -> str -> list N -> outcome.
  Variable excl : list str -> bool -> bool.
  Variable follow : bool.

  Lemma single_file_dir : forall base top o links log rel ch name content sl,
    dir_at top rel = Some ch -> find_file name ch = Some content ->
    PyWalkSource.document_single_file (PyWorld base (KDir top) o links) docfn log
      (APath AInput (rel ++ [name]) false) (APath AInput [] sl) (py_settings_of st hdrs excl follow)
    = emits log (doc_actions st docfn (ws_prefix st) (rel_string (rel ++ [name])) rel name content).
  Proof.
    intros base top o links log rel ch name content sl Hd Hf.
    unfold PyWalkSource.document_single_file. cbv beta zeta.
    unfold py_settings_of.
    cbn [st_output_directory st_rst_prefix st_rst_module_path_separator st_rst_file_extensions_in_titles
         st_rst_file_extensions_in_modules].
    assert (Hisdir : forall s0, py_os_path_isdir (PyWorld base (KDir top) o links) (APath AInput [] s0) = true) by reflexivity.
    assert (Hrel : forall s0, py_os_path_relpath (APath AInput (rel ++ [name]) false) (APath AInput [] s0)
                   = RPath (rel ++ [name]) false) by reflexivity.
    assert (Hbase : py_os_path_basename (PyWorld base (KDir top) o links) (APath AInput (rel ++ [name]) false) = name).
    { unfold py_os_path_basename. cbn [ap_slash ap_comps]. rewrite last_opt_snoc. reflexivity. }
    rewrite !Hisdir, !Hrel, !Hbase, !py_rpath_text_rel.
    set (nm := rel_string (rel ++ [name])).
    match goal with |- context [py_Documenter _ ?t ?m _] =>
      replace t with (fst (header_and_module (ws_prefix st) (ws_sep st) (ws_ext_titles st) (ws_ext_modules st) nm));
      [replace m with (snd (header_and_module (ws_prefix st) (ws_sep st) (ws_ext_titles st) (ws_ext_modules st) nm))|]
    end.
    - assert (Hpath : py_os_path_join out_root
                (py_os_path_join_rel (py_os_path_dirname_rel (RPath (rel ++ [name]) false))
                   (py_rpath_of_name (py_join (s".") (py_slice_drop_last (py_split name (s"."))) ++ s".rst")))
              = APath AOutput (rel ++ [stem name ++ s".rst"]) false).
      { rewrite py_stem_is, py_rpath_of_rst. unfold py_os_path_dirname_rel. cbn [rp_comps].
        rewrite drop_last_snoc. destruct rel; reflexivity. }
      assert (Hc : pw_file_at (PyWorld base (KDir top) o links) (rel ++ [name]) = Some content).
      { unfold pw_file_at. cbn [pw_kind]. rewrite (file_at_snoc _ _ _ _ Hd). exact Hf. }
      unfold py_documenter_process, py_Documenter, doc_actions.
      cbn [dc_file dc_header dc_module ap_comps]. rewrite Hc.
      destruct (header_and_module (ws_prefix st) (ws_sep st) (ws_ext_titles st) (ws_ext_modules st) nm)
        as [title modname].
      cbn [fst snd].
      destruct (docfn title modname content); destruct (ws_out st); cbv iota beta;
        try change (py_os_path_isdir (PyWorld base (KDir top) o links) out_root) with true; cbv iota;
        rewrite ?Hpath;
        unfold py_os_makedirs, py_rendered_write_to_file, py_print, py_rendered_str, out_root, emits;
        cbn [ap_anchor ap_comps fold_left];
        repeat rewrite (py_emit_after_stop _ (AAbort _)) by reflexivity; reflexivity.
    - unfold header_and_module, prefixed, py_str_eq, py_re_sub_cmake_ext. cbn [snd].
      destruct (ws_prefix st) as [p|]; [destruct (str_eqb nm (ws_sep st))|];
        destruct (ws_ext_modules st); rewrite <- ?app_assoc; reflexivity.
    - unfold header_and_module, prefixed, py_str_eq, py_re_sub_cmake_ext. cbn [fst].
      destruct (ws_prefix st) as [p|]; [destruct (str_eqb nm (ws_sep st))|];
        destruct (ws_ext_titles st); rewrite <- ?app_assoc; reflexivity.
  Qed.

  Lemma single_file_file : forall base content o links log,
    PyWalkSource.document_single_file (PyWorld base (KFile content) o links) docfn log
      (APath AInput [] false) (APath AInput [] false) (py_settings_of st hdrs excl follow)
    = emits log (doc_actions st docfn (ws_prefix st) base [] base content).
  Proof.
    intros base content o links log.
    unfold PyWalkSource.document_single_file. cbv beta zeta.
    unfold py_settings_of.
    cbn [st_output_directory st_rst_prefix st_rst_module_path_separator st_rst_file_extensions_in_titles
         st_rst_file_extensions_in_modules].
    assert (Hisdir : py_os_path_isdir (PyWorld base (KFile content) o links) (APath AInput [] false) = false) by reflexivity.
    assert (Hbase : py_os_path_basename (PyWorld base (KFile content) o links) (APath AInput [] false) = base) by reflexivity.
    rewrite !Hisdir, !Hbase.
    match goal with |- context [py_Documenter _ ?t ?m _] =>
      replace t with (fst (header_and_module (ws_prefix st) (ws_sep st) (ws_ext_titles st) (ws_ext_modules st) base));
      [replace m with (snd (header_and_module (ws_prefix st) (ws_sep st) (ws_ext_titles st) (ws_ext_modules st) base))|]
    end.
    - assert (Hpath : py_os_path_join out_root
                (py_rpath_of_name (py_join (s".") (py_slice_drop_last (py_split base (s"."))) ++ s".rst"))
              = APath AOutput ([] ++ [stem base ++ s".rst"]) false).
      { rewrite py_stem_is, py_rpath_of_rst. reflexivity. }
      unfold py_documenter_process, py_Documenter, doc_actions.
      cbn [dc_file dc_header dc_module ap_comps pw_file_at pw_kind].
      destruct (header_and_module (ws_prefix st) (ws_sep st) (ws_ext_titles st) (ws_ext_modules st) base)
        as [title modname].
      cbn [fst snd].
      destruct (docfn title modname content); destruct (ws_out st); cbv iota beta;
        try change (py_os_path_isdir (PyWorld base (KFile content) o links) out_root) with true; cbv iota;
        rewrite ?Hpath;
        unfold py_os_makedirs, py_rendered_write_to_file, py_print, py_rendered_str, out_root, emits;
        cbn [ap_anchor ap_comps fold_left];
        repeat rewrite (py_emit_after_stop _ (AAbort _)) by reflexivity; reflexivity.
    - unfold header_and_module, prefixed, py_str_eq, py_re_sub_cmake_ext. cbn [snd].
      destruct (ws_prefix st) as [p|]; [destruct (str_eqb base (ws_sep st))|];
        destruct (ws_ext_modules st); rewrite <- ?app_assoc; reflexivity.
    - unfold header_and_module, prefixed, py_str_eq, py_re_sub_cmake_ext. cbn [fst].
      destruct (ws_prefix st) as [p|]; [destruct (str_eqb base (ws_sep st))|];
        destruct (ws_ext_titles st); rewrite <- ?app_assoc; reflexivity.
  Qed.
End SingleFile2.

(* ================================================================== *)
(* lookups by name in a directory without duplicate names              *)

Lemma mem_str_dir_names : forall nm c l, In (D nm c) l -> mem_str nm (dir_names l) = true.
Proof.
  intros nm c l H. apply mem_str_in. unfold dir_names. apply in_flat_map.
  exists (D nm c). split; [exact H|left; reflexivity].
Qed.

Lemma mem_str_file_names : forall nm c l, In (F nm c) l -> mem_str nm (file_names l) = true.
Proof.
  intros nm c l H. apply mem_str_in. unfold file_names. apply in_flat_map.
  exists (F nm c). split; [exact H|left; reflexivity].
Qed.

Lemma find_dir_in : forall l nm c,
  nodup_names (dir_names l) = true -> In (D nm c) l -> find_dir nm l = Some c.
Proof.
  induction l as [|x r IH]; intros nm c Hnd Hin; [destruct Hin|].
  destruct x as [fn fc|dn dc].
  - cbn [find_dir]. destruct Hin as [Hin|Hin]; [discriminate Hin|].
    apply IH; assumption.
  - cbn [dir_names flat_map app] in Hnd. fold (dir_names r) in Hnd.
    cbn [nodup_names] in Hnd. apply andb_true_iff in Hnd. destruct Hnd as [Hnot Hnd].
    cbn [find_dir]. destruct Hin as [Hin|Hin].
    + inversion Hin; subst. rewrite str_eqb_refl'. reflexivity.
    + destruct (str_eqb dn nm) eqn:E.
      * apply str_eqb_eq in E. subst dn.
        rewrite (mem_str_dir_names nm c r Hin) in Hnot. discriminate Hnot.
      * apply IH; assumption.
Qed.

Lemma find_file_in : forall l nm c,
  nodup_names (file_names l) = true -> In (F nm c) l -> find_file nm l = Some c.
Proof.
  induction l as [|x r IH]; intros nm c Hnd Hin; [destruct Hin|].
  destruct x as [fn fc|dn dc].
  - cbn [file_names flat_map app] in Hnd. fold (file_names r) in Hnd.
    cbn [nodup_names] in Hnd. apply andb_true_iff in Hnd. destruct Hnd as [Hnot Hnd].
    cbn [find_file]. destruct Hin as [Hin|Hin].
    + inversion Hin; subst. rewrite str_eqb_refl'. reflexivity.
    + destruct (str_eqb fn nm) eqn:E.
      * apply str_eqb_eq in E. subst fn.
        rewrite (mem_str_file_names nm c r Hin) in Hnot. discriminate Hnot.
      * apply IH; assumption.
  - cbn [find_file]. destruct Hin as [Hin|Hin]; [discriminate Hin|].
    apply IH; assumption.
Qed.

Lemma py_assoc_dir_in : forall {R} (g : node -> R) l nm c,
  nodup_names (dir_names l) = true -> In (D nm c) l ->
  py_assoc_dir (map (fun x => (node_name x, match x with D _ _ => Some (g x) | F _ _ => None end)) l) nm
  = Some (g (D nm c)).
Proof.
  intros R g. induction l as [|x r IH]; intros nm c Hnd Hin; [destruct Hin|].
  destruct x as [fn fc|dn dc].
  - cbn [map py_assoc_dir node_name]. destruct Hin as [Hin|Hin]; [discriminate Hin|].
    apply IH; assumption.
  - cbn [dir_names flat_map app] in Hnd. fold (dir_names r) in Hnd.
    cbn [nodup_names] in Hnd. apply andb_true_iff in Hnd. destruct Hnd as [Hnot Hnd].
    cbn [map py_assoc_dir node_name]. destruct Hin as [Hin|Hin].
    + inversion Hin; subst. rewrite str_eqb_refl'. reflexivity.
    + destruct (str_eqb dn nm) eqn:E.
      * apply str_eqb_eq in E. subst dn.
        rewrite (mem_str_dir_names nm c r Hin) in Hnot. discriminate Hnot.
      * apply IH; assumption.
Qed.

(* ================================================================== *)
(* os.walk with a body that does what one step of the model does       *)

Section WalkLoop.
  Variable st : wsettings.
  Variable hdrs : list str.
  Variable docfn : str -> str -> list N -> outcome.
  Variable excl : list str -> bool -> bool.
  Variable top : list node.
  Variable prefix : str.
  (* the world (only its symbolic links matter to os.walk) and followlinks *)
  Variable w : pyworld.
  Variable follow : bool.
  Variable body : apath -> list str -> list str -> pylog -> pylog * list str * py_ctl.

  (* the loop body, run on the directory at rel (children ch): records the actions of the model's
     visit_dir, leaves the names of the kept sub-directories in the list os.walk descends into, and
     ends by break without --recursive.  (Since the repair of F23 a recursive run processes every
     visited directory, so the continue branch below is never taken by the real body.) *)
  Definition body_ok : Prop :=
    forall rel ch sl log,
      dir_at top rel = Some ch -> level_distinct ch = true ->
      body (APath AInput rel sl) (dir_names ch) (file_names ch) log
      = (emits log (snd (visit_dir st hdrs docfn excl prefix rel ch)),
         map node_name (filter (keep_dir st excl rel) ch),
         if ws_recursive st
         then (if fst (visit_dir st hdrs docfn excl prefix rel ch) then CNormal else CContinue)
         else CBreak).

  Hypothesis Hbody : body_ok.

  (* a sub-directory the model keeps is one os.walk may descend into (A12): the exclusion predicate
     of the model covers the symbolic links that are not followed *)
  Definition links_covered : Prop :=
    forall rel d, excl (rel ++ [d]) true = false -> follow || negb (pw_links w (rel ++ [d])) = true.

  Hypothesis Hlinks : links_covered.

  Lemma visits_node_D : forall rel nm ch,
    visits_node st hdrs docfn excl prefix rel (D nm ch)
    = if keep_dir st excl rel (D nm ch)
      then visit_dir st hdrs docfn excl prefix (rel ++ [nm]) ch
           :: visits st hdrs docfn excl prefix (rel ++ [nm]) ch
      else [].
  Proof. reflexivity. Qed.

  Lemma py_walk_node_D : forall tp x ch log,
    py_walk_node w follow body tp (D x ch) log
    = let '(st1, dirs, c) := body tp (dir_names ch) (file_names ch) log in
      match c with
      | CBreak | CReturn => (st1, true)
      | CNormal | CContinue =>
          py_walk_each
            (fun nm st' =>
               if py_may_descend w follow (py_os_path_join tp (py_rpath_of_name nm)) then
                 match py_assoc_dir
                         (map (fun c => (node_name c,
                                         match c with
                                         | D _ _ => Some (fun tp' st'' => py_walk_node w follow body tp' c st'')
                                         | F _ _ => None
                                         end)) ch) nm with
                 | Some walk => walk (py_os_path_join tp (py_rpath_of_name nm)) st'
                 | None => (st', false)
                 end
               else (st', false)) dirs st1
      end.
  Proof. reflexivity. Qed.

  Lemma may_descend_kept : forall rel cn cc,
    keep_dir st excl rel (D cn cc) = true ->
    py_may_descend w follow (APath AInput (rel ++ [cn]) false) = true.
  Proof.
    intros rel cn cc Hk. unfold py_may_descend, py_os_path_islink. cbn [ap_anchor ap_comps ap_slash negb].
    rewrite andb_true_r. apply Hlinks.
    cbn [keep_dir] in Hk. apply andb_true_iff in Hk. destruct Hk as [Hk _].
    apply negb_true_iff in Hk. exact Hk.
  Qed.

  Lemma walk_node_norec : ws_recursive st = false ->
    forall x ch rel sl log, dir_at top rel = Some ch -> level_distinct ch = true ->
      py_walk_node w follow body (APath AInput rel sl) (D x ch) log
      = (emits log (snd (visit_dir st hdrs docfn excl prefix rel ch)), true).
  Proof.
    intros Hrec x ch rel sl log Hd Hl. rewrite py_walk_node_D, (Hbody rel ch sl log Hd Hl), Hrec.
    reflexivity.
  Qed.

  Lemma walk_node_rec : ws_recursive st = true ->
    forall n, node_distinct n = true ->
    forall x ch, n = D x ch ->
    forall rel sl log, dir_at top rel = Some ch ->
      py_walk_node w follow body (APath AInput rel sl) n log
      = (emits log (flat_map snd (visit_dir st hdrs docfn excl prefix rel ch
                                  :: visits st hdrs docfn excl prefix rel ch)), false).
  Proof.
    intros Hrec n. induction n as [fn fc|dn dc IH] using node_ind2; intros Hdist x ch Heq rel sl log Hd.
    - discriminate Heq.
    - inversion Heq; subst x ch. clear Heq.
      cbn [node_distinct] in Hdist. apply andb_true_iff in Hdist. destruct Hdist as [Hl Hall].
      rewrite py_walk_node_D, (Hbody rel dc sl log Hd Hl), Hrec.
      set (log1 := emits log (snd (visit_dir st hdrs docfn excl prefix rel dc))).
      cbn [flat_map]. rewrite <- emits_app. fold log1.
      set (step := fun (nm : str) (st' : pylog) =>
               if py_may_descend w follow (py_os_path_join (APath AInput rel sl) (py_rpath_of_name nm)) then
                 match py_assoc_dir
                         (map (fun c => (node_name c,
                                         match c with
                                         | D _ _ => Some (fun tp' st'' => py_walk_node w follow body tp' c st'')
                                         | F _ _ => None
                                         end)) dc) nm with
                 | Some walk => walk (py_os_path_join (APath AInput rel sl) (py_rpath_of_name nm)) st'
                 | None => (st', false)
                 end
               else (st', false)).
      assert (G : forall l, (forall c, In c l -> In c dc) -> forall log0,
                 py_walk_each step (map node_name (filter (keep_dir st excl rel) l)) log0
                 = (emits log0 (flat_map snd (visits st hdrs docfn excl prefix rel l)), false)).
      { induction l as [|c r IHl]; intros Hsub log0; [reflexivity|].
        assert (Hr : forall c', In c' r -> In c' dc) by (intros c' Hc'; apply Hsub; right; exact Hc').
        unfold visits. cbn [filter flat_map]. fold (visits st hdrs docfn excl prefix rel r).
        destruct c as [cn cc|cn cc].
        - cbn [keep_dir visits_node app]. apply IHl. exact Hr.
        - rewrite visits_node_D. destruct (keep_dir st excl rel (D cn cc)) eqn:Ek.
          + cbn [map node_name py_walk_each].
            assert (Hin : In (D cn cc) dc) by (apply Hsub; left; reflexivity).
            unfold level_distinct in Hl. apply andb_true_iff in Hl. destruct Hl as [Hld Hlf].
            unfold step at 1.
            assert (Hname : py_os_path_join (APath AInput rel sl) (py_rpath_of_name cn)
                            = APath AInput (rel ++ [cn]) false) by reflexivity.
            rewrite !Hname. rewrite (may_descend_kept rel cn cc Ek).
            rewrite (py_assoc_dir_in (fun c => fun tp' st'' => py_walk_node w follow body tp' c st'') dc cn cc Hld Hin).
            rewrite Forall_forall in IH.
            rewrite (IH (D cn cc) Hin) with (x := cn) (ch := cc).
            * rewrite IHl by exact Hr. rewrite emits_app. rewrite flat_map_app. reflexivity.
            * rewrite forallb_forall in Hall. apply Hall. exact Hin.
            * reflexivity.
            * rewrite (dir_at_snoc rel top dc cn Hd). apply find_dir_in; assumption.
          + cbn [app]. apply IHl. exact Hr. }
      destruct (fst (visit_dir st hdrs docfn excl prefix rel dc));
        rewrite (G dc (fun c Hc => Hc) log1); reflexivity.
  Qed.

  Lemma os_walk_dir : forall sl log,
    pw_kind w = KDir top ->
    names_distinct top = true ->
    py_os_walk w (APath AInput [] sl) follow body log
    = emits log (if ws_recursive st
                 then flat_map snd (visit_dir st hdrs docfn excl prefix [] top
                                    :: visits st hdrs docfn excl prefix [] top)
                 else snd (visit_dir st hdrs docfn excl prefix [] top)).
  Proof.
    intros sl log Hkind Hdist. unfold py_os_walk, pw_dir_at. rewrite Hkind. cbn [ap_anchor ap_comps dir_at].
    destruct (ws_recursive st) eqn:Hrec.
    - rewrite (walk_node_rec Hrec (D [] top) Hdist [] top eq_refl [] sl log eq_refl). reflexivity.
    - unfold names_distinct in Hdist. apply andb_true_iff in Hdist. destruct Hdist as [Hl _].
      rewrite (walk_node_norec Hrec [] top [] sl log eq_refl Hl). reflexivity.
  Qed.
End WalkLoop.

(* ================================================================== *)
(* the meaning of the loops of the walk body                           *)

(* for x in copy.copy(xs): if p(x): xs.remove(x) *)
Lemma loop_excl : forall (b : list str -> str -> list str) (p : str -> bool) (xs : list str),
  (forall acc x, b acc x = if p x then py_list_remove acc x else acc) ->
  py_for xs b xs = filter (fun x => negb (p x)) xs.
Proof.
  intros b p xs Hb.
  assert (Hp : forall x, rm_test b x = p x).
  { intros x. unfold rm_test. rewrite Hb. destruct (p x); [|reflexivity].
    cbn [py_list_remove]. rewrite str_eqb_refl'. reflexivity. }
  rewrite py_for_remove_filter.
  - apply filter_ext_in'. intros x _. rewrite Hp. reflexivity.
  - intros acc x. rewrite Hp. apply Hb.
Qed.

(* for x in xs: if c(x): break *)
Lemma search_loop : forall {A} (b : unit -> A -> unit * py_ctl) (c : A -> bool) (xs : list A),
  (forall x, In x xs -> ctl_is_break (snd (b tt x)) = c x) ->
  py_for_ctl xs b tt = (tt, existsb c xs).
Proof.
  intros A b c xs H. rewrite py_for_ctl_unit. f_equal. apply existsb_ext_in. exact H.
Qed.

Lemma file_names_entries : forall ch, file_names ch = map fst (file_entries ch).
Proof.
  induction ch as [|n r IH]; [reflexivity|].
  destruct n as [fn c|dn dc].
  - rewrite file_entries_F. cbn [file_names flat_map app map fst]. fold (file_names r). rewrite IH. reflexivity.
  - rewrite file_entries_D. cbn [file_names flat_map app]. fold (file_names r). exact IH.
Qed.

Lemma sort_by_map_fst : forall {B} (l : list (str * B)),
  sort_by (fun x => x) (map fst l) = map fst (sort_by fst l).
Proof.
  intros B l. unfold sort_by. induction l as [|x r IH]; [reflexivity|].
  cbn [map fold_right]. rewrite IH. generalize (fold_right (insert_sorted fst) [] r). intros acc.
  induction acc as [|y acc' IHa]; [reflexivity|].
  cbn [map insert_sorted]. destruct (str_leb (fst x) (fst y)); cbn [map]; [reflexivity|].
  rewrite IHa. reflexivity.
Qed.

(* ================================================================== *)
(* the index writer                                                    *)

Lemma wr_text_fold : forall hdrs title name args opts ts body,
  fold_left (fun w t => py_wr_text w [0] t) ts
            (PyWriter hdrs {| w_title := title; w_body := [Dir name args opts body] |})
  = PyWriter hdrs {| w_title := title; w_body := [Dir name args opts (body ++ map Para ts)] |}.
Proof.
  intros hdrs title name args opts ts. induction ts as [|t r IH]; intros body.
  - cbn [fold_left map]. rewrite app_nil_r. reflexivity.
  - cbn [fold_left map].
    replace (py_wr_text (PyWriter hdrs {| w_title := title; w_body := [Dir name args opts body] |}) [0] t)
      with (PyWriter hdrs {| w_title := title; w_body := [Dir name args opts (body ++ [Para t])] |})
      by reflexivity.
    rewrite IH. rewrite <- app_assoc. reflexivity.
Qed.

Lemma py_for_wr_text : forall {A} (g : A -> str) h xs w,
  py_for xs (fun idx x => py_wr_text idx h (g x)) w = fold_left (fun w t => py_wr_text w h t) (map g xs) w.
Proof.
  intros A g h xs. unfold py_for. induction xs as [|x r IH]; intros w; [reflexivity|].
  cbn [fold_left map]. apply IH.
Qed.

Lemma filter_filter : forall {A} (p q : A -> bool) l,
  filter p (filter q l) = filter (fun x => q x && p x) l.
Proof.
  intros A p q l. induction l as [|x r IH]; [reflexivity|].
  cbn [filter]. destruct (q x); cbn [filter andb]; [destruct (p x)|]; rewrite IH; reflexivity.
Qed.

Definition with_prefix (st : wsettings) (p : option str) : wsettings :=
  Build_wsettings (ws_out st) (ws_recursive st) p (ws_auto_exclude st) (ws_sep st) (ws_ext_titles st)
                  (ws_ext_modules st).

Section Body.
  Variable st : wsettings.
  Variable hdrs : list str.
  Variable docfn : str -> str -> list N -> outcome.
  Variable excl : list str -> bool -> bool.
  Variable follow : bool.

  (* the directory named d among the children ch0 directly contains a file that counts for
     auto-exclusion *)
  Definition has_cmake (rel : list str) (ch0 : list node) (d : str) : bool :=
    match find_dir d ch0 with
    | Some c => existsb (fun n => match n with
                                  | F fn _ => lc_cmake_suffix fn && negb (excl (rel ++ [d; fn]) false)
                                  | D _ _ => false
                                  end) c
    | None => false
    end.

  Lemma kept_names : forall rel ch0, nodup_names (dir_names ch0) = true ->
    forall l, (forall c, In c l -> In c ch0) ->
    filter (fun d => negb (excl (rel ++ [d]) true) && (negb (ws_auto_exclude st) || has_cmake rel ch0 d))
           (dir_names l)
    = map node_name (filter (keep_dir st excl rel) l).
  Proof.
    intros rel ch0 Hnd. induction l as [|n r IH]; intros Hsub; [reflexivity|].
    assert (Hr : forall c, In c r -> In c ch0) by (intros c Hc; apply Hsub; right; exact Hc).
    destruct n as [fn fc|dn dc].
    - cbn [dir_names flat_map app filter keep_dir]. fold (dir_names r). apply IH. exact Hr.
    - cbn [dir_names flat_map app filter]. fold (dir_names r).
      assert (Hf : find_dir dn ch0 = Some dc) by (apply find_dir_in; [exact Hnd|apply Hsub; left; reflexivity]).
      unfold has_cmake at 1. rewrite Hf.
      change (negb (excl (rel ++ [dn]) true)
              && (negb (ws_auto_exclude st)
                  || existsb (fun n => match n with
                                       | F fn _ => lc_cmake_suffix fn && negb (excl (rel ++ [dn; fn]) false)
                                       | D _ _ => false
                                       end) dc))
        with (keep_dir st excl rel (D dn dc)).
      destruct (keep_dir st excl rel (D dn dc)); cbn [map node_name]; rewrite IH by exact Hr; reflexivity.
  Qed.

  (* the per-file loop *)
  Lemma docs_loop : forall base top o links rel ch sl (b : pylog -> str -> pylog),
    dir_at top rel = Some ch -> nodup_names (file_names ch) = true ->
    (forall log0 file,
        b log0 file
        = if is_cmake_name file
          then PyWalkSource.document_single_file (PyWorld base (KDir top) o links) docfn log0
                 (APath AInput (rel ++ [file]) false) (APath AInput [] sl)
                 (py_settings_of st hdrs excl follow)
          else log0) ->
    forall (l : list (str * list N)), (forall f, In f l -> In (F (fst f) (snd f)) ch) -> forall log,
    py_for (map fst l) b log
    = emits log (flat_map (fun f => if is_cmake_name (fst f)
                                    then doc_actions st docfn (ws_prefix st) (rel_string (rel ++ [fst f]))
                                                     rel (fst f) (snd f)
                                    else []) l).
  Proof.
    intros base top o links rel ch sl b Hd Hnd Hb. unfold py_for.
    induction l as [|f r IH]; intros Hin log; [reflexivity|].
    cbn [map fold_left flat_map]. rewrite <- emits_app. rewrite <- IH.
    - f_equal. rewrite Hb. destruct (is_cmake_name (fst f)); [|reflexivity].
      apply (single_file_dir st hdrs docfn excl follow base top o links log rel ch (fst f) (snd f) sl Hd).
      apply find_file_in; [exact Hnd|]. apply Hin. left. reflexivity.
    - intros g Hg. apply Hin. right. exact Hg.
  Qed.
End Body.

Section Main.
  Variable st : wsettings.
  Variable hdrs : list str.
  Variable docfn : str -> str -> list N -> outcome.
  Variable excl : list str -> bool -> bool.
  Variable follow : bool.

  (* the new disjunct of the exclusion test of the sub-directories:
     os.path.abspath(os.path.join(root, subdir)) == output_dir *)
  Lemma outdir_test : forall base kind o links rel sl d,
    py_eq_optional (py_npath_eq (PyWorld base kind o links))
      (py_os_path_abspath_of (py_os_path_join (APath AInput rel sl) (py_rpath_of_name d)))
      (match (if ws_out st then Some out_root else None) with
       | Some p => Some (py_os_path_abspath_of p)
       | None => None
       end)
    = ws_out st && is_output_dir o (rel ++ [d]).
  Proof.
    intros base kind o links rel sl d. destruct (ws_out st); [|reflexivity].
    unfold py_eq_optional, py_npath_eq, py_os_path_abspath_of, py_os_path_join, py_rpath_of_name, out_root,
           py_same_position, is_output_dir.
    cbn [ap_anchor ap_comps rp_comps np_anchor np_comps pw_out_in_input andb].
    destruct o as [q|]; [rewrite app_nil_r|]; reflexivity.
  Qed.

  (* the new branch of the exclusion test of the sub-directories:
     not settings.input.follow_symlinks and os.path.islink(os.path.join(root, subdir)) *)
  Lemma links_test : forall base kind o links rel sl d,
    negb follow && py_os_path_islink (PyWorld base kind o links)
                     (py_os_path_join (APath AInput rel sl) (py_rpath_of_name d))
    = negb follow && links (rel ++ [d]).
  Proof.
    intros base kind o links rel sl d. unfold py_os_path_islink, py_os_path_join, py_rpath_of_name.
    cbn [ap_anchor ap_comps ap_slash rp_comps rp_slash pw_links negb]. rewrite andb_true_r. reflexivity.
  Qed.

  (* what a predicate E of the model has to be on the sub-directories: the patterns, or being the
     output directory, or being a symbolic link that is not followed *)
  Definition dir_pruned (o : option (list str)) (links : list str -> bool) (p : list str) : bool :=
    excl p true || (ws_out st && is_output_dir o p) || (negb follow && links p).

  (* The directory case for any predicate E of the model that is the patterns on the files and on
     the input directory, and dir_pruned on the sub-directories. *)
  Lemma document_dir_source_gen : forall (E : list str -> bool -> bool) o links base top input_file,
    (forall p, E p false = excl p false) ->
    E [] true = excl [] true ->
    (forall rel d, E (rel ++ [d]) true = dir_pruned o links (rel ++ [d])) ->
    names_distinct top = true ->
    PyWalkSource.document (PyWorld base (KDir top) o links) docfn [] input_file (py_settings_of st hdrs excl follow)
    = Walk.document st hdrs docfn E base (KDir top).
  Proof.
    intros E o links base top input_file HEf HE0 HEd Hdist.
    unfold PyWalkSource.document, Walk.document.
    set (w := PyWorld base (KDir top) o links).
    cbv zeta.
    assert (H1 : py_os_path_isdir w (py_os_path_abspath w input_file) = true) by reflexivity.
    rewrite !H1.
    assert (H2 : py_os_path_join (py_os_path_abspath w input_file) py_rpath_empty = APath AInput [] true) by reflexivity.
    rewrite !H2.
    assert (H3 : py_spec_match_file (py_pathspec_from_lines (st_input_exclude_filters (py_settings_of st hdrs excl follow)))
                   (APath AInput [] true) = excl [] true) by reflexivity.
    rewrite !H3, HE0.
    destruct (excl [] true) eqn:Etop; [reflexivity|].
    assert (H4 : py_os_path_exists w (APath AInput [] true) = true) by reflexivity.
    assert (H5 : py_os_path_isfile w (APath AInput [] true) = false) by reflexivity.
    assert (H6 : py_os_path_isdir w (APath AInput [] true) = true) by reflexivity.
    rewrite !H4, !H5, !H6. cbv iota beta. cbn [negb]. cbv iota beta.
    cbn [fst]. rewrite <- emits_nil. subst w.
    apply os_walk_dir; [| |reflexivity|exact Hdist].
    2:{ unfold links_covered. intros rel d HE. rewrite HEd in HE. unfold dir_pruned in HE.
        apply orb_false_iff in HE. destruct HE as [_ HE]. cbn [pw_links].
        destruct follow; [reflexivity|]. cbn [negb andb] in HE. rewrite HE. reflexivity. }
    unfold body_ok. intros rel ch sl log Hd Hl. cbv beta.
    unfold py_settings_of.
    cbn [st_output_directory st_input_recursive st_input_follow_symlinks
         st_input_auto_exclude_directories_without_cmake st_input_exclude_filters st_rst_prefix
         st_rst_module_path_separator st_rst_file_extensions_in_titles st_rst_file_extensions_in_modules
         st_rst_headers].
    unfold py_copy, py_pathspec_from_lines.
    assert (Hbn : py_os_path_basename (PyWorld base (KDir top) o links) (py_os_path_normpath (APath AInput [] true)) = base)
      by reflexivity.
    rewrite !Hbn.
    set (P := match ws_prefix st with Some p => p | None => base end).
    unfold level_distinct in Hl. apply andb_true_iff in Hl. destruct Hl as [Hld Hlf].
    (* the two exclusion loops: the files by the patterns alone, the sub-directories by the
       patterns or by being the output directory *)
    match goal with |- context [py_for (file_names ch) ?b (file_names ch)] =>
      rewrite (loop_excl b (fun x => E (rel ++ [x]) false) (file_names ch))
        by (intros acc x; rewrite HEf; reflexivity)
    end.
    match goal with |- context [py_for (dir_names ch) ?b (dir_names ch)] =>
      rewrite (loop_excl b (fun d => E (rel ++ [d]) true) (dir_names ch))
        by (intros acc x; rewrite HEd; unfold dir_pruned;
            rewrite <- (outdir_test base (KDir top) o links rel sl x), <- (links_test base (KDir top) o links rel sl x);
            cbv beta zeta; rewrite if_or; reflexivity)
    end.
    set (fs := filter (fun x => negb (E (rel ++ [x]) false)) (file_names ch)).
    set (ds1 := filter (fun d => negb (E (rel ++ [d]) true)) (dir_names ch)).
    (* is there a .cmake file here *)
    match goal with |- context [py_for_ctl fs ?b tt] =>
      rewrite (search_loop b lc_cmake_suffix fs)
        by (intros x _; cbv beta; unfold py_endswith, lc_cmake_suffix, cmake_ext;
            destruct (endswith (s".cmake") x); reflexivity)
    end.
    (* auto-exclusion of the sub-directories *)
    match goal with |- context [py_for ds1 ?b ds1] =>
      rewrite (loop_excl b (fun d => negb (has_cmake E rel ch d)) ds1)
    end.
    2:{ intros acc x.
        unfold py_os_scandir, py_os_path_join, py_rpath_of_name, pw_dir_at.
        cbn [ap_anchor ap_comps rp_comps rp_slash pw_kind].
        rewrite (dir_at_snoc rel top ch x Hd). unfold has_cmake.
        destruct (find_dir x ch) as [c|]; [|reflexivity].
        rewrite py_for_ctl_unit. cbv iota beta. rewrite existsb_map.
        rewrite (existsb_ext_in _ (fun n => match n with
                                            | F fn _ => lc_cmake_suffix fn && negb (E (rel ++ [x; fn]) false)
                                            | D _ _ => false
                                            end) c).
        - destruct (existsb _ c); reflexivity.
        - intros n _. destruct n as [fn fc|dn dc]; cbn [de_is_file de_path node_name andb]; [|reflexivity].
          unfold py_apath_endswith, py_spec_match_file. cbn [ap_comps ap_slash ap_anchor].
          rewrite last_opt_snoc. rewrite <- app_assoc. cbn [app negb andb]. rewrite HEf.
          unfold lc_cmake_suffix, cmake_ext.
          destruct (endswith (s".cmake") fn); destruct (excl (rel ++ [x; fn]) false); reflexivity. }
    set (ds2 := filter (fun d => negb (negb (has_cmake E rel ch d))) ds1).
    set (kept := map node_name (filter (keep_dir st E rel) ch)).
    set (files := filter (fun f => negb (E (rel ++ [fst f]) false)) (file_entries ch)).
    assert (Hfs : fs = map fst files).
    { unfold fs, files. rewrite file_names_entries, filter_map_comm. reflexivity. }
    assert (Hproc : existsb lc_cmake_suffix fs = existsb (fun f => lc_cmake_suffix (fst f)) files).
    { rewrite Hfs. apply existsb_map. }
    assert (Hkept : (if ws_auto_exclude st then ds2 else ds1) = kept).
    { unfold kept. rewrite <- (kept_names st E rel ch Hld ch (fun c Hc => Hc)).
      unfold ds2, ds1. destruct (ws_auto_exclude st).
      - rewrite filter_filter. apply filter_ext_in'. intros d _. rewrite negb_involutive. reflexivity.
      - apply filter_ext_in'. intros d _. cbn [negb orb]. rewrite andb_true_r. reflexivity. }
    lazymatch goal with |- context [if ws_auto_exclude st then ?a else ?b] =>
      replace (if ws_auto_exclude st then a else b)
        with (kept, if negb (ws_auto_exclude st) || existsb lc_cmake_suffix fs || ws_recursive st
                    then CNormal else CBreak)
    end.
    2:{ rewrite <- Hkept. destruct (ws_auto_exclude st); [|reflexivity].
        destruct (existsb lc_cmake_suffix fs); [reflexivity|]. destruct (ws_recursive st); reflexivity. }
    unfold visit_dir. cbv zeta. fold files. rewrite <- Hproc.
    destruct (negb (ws_auto_exclude st) || existsb lc_cmake_suffix fs || ws_recursive st) eqn:Eproc;
      cbv iota beta.
    2:{ cbn [snd fst]. apply orb_false_iff in Eproc. destruct Eproc as [_ Erec]. rewrite Erec.
        reflexivity. }
    cbn [snd fst].
    lazymatch goal with |- context [py_for (py_sorted fs) ?b ?init] =>
      assert (HX : py_for (py_sorted fs) b init
                   = emits log ((if ws_out st
                                 then [AMkDirs rel;
                                       AWrite (rel ++ [s"index.rst"])
                                         (index_text st hdrs P rel (sort_by (fun x => x) kept)
                                                     (map fst (sort_by fst files)))]
                                 else [])
                                ++ flat_map (fun f => if is_cmake_name (fst f)
                                                      then doc_actions st docfn (Some P) (rel_string (rel ++ [fst f]))
                                                                       rel (fst f) (snd f)
                                                      else []) (sort_by fst files)));
      [|rewrite !HX; destruct (ws_recursive st); reflexivity]
    end.
    assert (Hsorted : py_sorted fs = map fst (sort_by fst files)).
    { unfold py_sorted. rewrite Hfs. apply sort_by_map_fst. }
    rewrite Hsorted.
    rewrite (docs_loop (with_prefix st (Some P)) hdrs docfn excl follow base top o links rel ch true _ Hd Hlf).
    2:{ intros log0 file. reflexivity. }
    2:{ intros f Hf. apply (Permutation_in _ (sort_by_perm fst files)) in Hf.
        unfold files in Hf. apply filter_In in Hf. destruct Hf as [Hf _].
        destruct f as [fn fc]. apply in_file_entries. exact Hf. }
    rewrite <- emits_app.
    match goal with |- emits ?a ?l1 = emits ?b ?l2 => replace a with b; [reflexivity|] end.
    destruct (ws_out st); [|reflexivity]. cbv iota beta.
    symmetry.
    set (title := match rel with [] => P | _ :: _ => P ++ ws_sep st ++ rel_string rel end).
    assert (Hrp : py_os_path_relpath (APath AInput rel sl) (APath AInput [] true) = RPath rel false) by reflexivity.
    rewrite !Hrp, !py_rpath_text_rel.
    lazymatch goal with |- context [py_wr_directive ?W py_wr_top _ _] =>
      replace W with (PyWriter hdrs {| w_title := title; w_body := [] |})
    end.
    2:{ unfold title. destruct rel as [|r0 rel']; [reflexivity|].
        unfold py_is_not_none_value, py_rpath_eq, py_os_curdir. cbn [rp_comps strs_eqb andb].
        unfold py_wr_set_title, py_RSTWriter, py_wr_title. cbn [wr_hdrs wr_state st_rst_headers].
        rewrite <- app_assoc. reflexivity. }
    change (py_wr_directive (PyWriter hdrs {| w_title := title; w_body := [] |}) py_wr_top (s"toctree") [])
      with (PyWriter hdrs {| w_title := title; w_body := [Dir (s"toctree") [] [] []] |}, [0]).
    cbv iota beta.
    change (py_wr_option (PyWriter hdrs {| w_title := title; w_body := [Dir (s"toctree") [] [] []] |}) [0]
                         (s"maxdepth") (py_str_of_nat 2))
      with (PyWriter hdrs {| w_title := title; w_body := [Dir (s"toctree") [] [(s"maxdepth", s"2")] []] |}).
    rewrite !py_for_wr_text.
    unfold index_text. fold title.
    destruct (ws_recursive st); rewrite !wr_text_fold;
      unfold py_wr_write_to_file, py_os_makedirs, py_os_path_join, out_root, py_rpath_of_name, emits, py_wr_to_text,
             py_listcomp_if, py_sorted;
      cbn [ap_anchor ap_comps rp_comps rp_slash app fold_left wr_hdrs wr_state wstep snd w_title w_body py_wr_top];
      rewrite !map_map, ?map_id; reflexivity.
  Qed.

  Lemma document_file_source_gen : forall (E : list str -> bool -> bool) o links base content input_file,
    E [] false = excl [] false ->
    PyWalkSource.document (PyWorld base (KFile content) o links) docfn [] input_file (py_settings_of st hdrs excl follow)
    = Walk.document st hdrs docfn E base (KFile content).
  Proof.
    intros E o links base content input_file HE0.
    unfold PyWalkSource.document, Walk.document.
    set (w := PyWorld base (KFile content) o links).
    cbv zeta.
    assert (H1 : py_os_path_isdir w (py_os_path_abspath w input_file) = false) by reflexivity.
    rewrite !H1.
    assert (H2 : py_os_path_abspath w input_file = APath AInput [] false) by reflexivity.
    rewrite !H2.
    assert (H3 : py_spec_match_file (py_pathspec_from_lines (st_input_exclude_filters (py_settings_of st hdrs excl follow)))
                   (APath AInput [] false) = excl [] false) by reflexivity.
    rewrite !H3, HE0.
    destruct (excl [] false) eqn:Etop; [reflexivity|].
    assert (H4 : py_os_path_exists w (APath AInput [] false) = true) by reflexivity.
    assert (H5 : py_os_path_isfile w (APath AInput [] false) = true) by reflexivity.
    rewrite !H4, !H5. cbv iota beta. cbn [negb]. cbv iota beta. cbn [fst].
    unfold py_copy. subst w. rewrite single_file_file.
    rewrite <- emits_nil. rewrite <- emits_app. f_equal.
    unfold py_settings_of. cbn [st_output_directory].
    destruct (ws_out st); reflexivity.
  Qed.

  Lemma document_missing_source_gen : forall (E : list str -> bool -> bool) o links base input_file,
    E [] false = excl [] false ->
    PyWalkSource.document (PyWorld base KMissing o links) docfn [] input_file (py_settings_of st hdrs excl follow)
    = Walk.document st hdrs docfn E base KMissing.
  Proof.
    intros E o links base input_file HE0.
    unfold PyWalkSource.document, Walk.document.
    set (w := PyWorld base KMissing o links).
    cbv zeta.
    assert (H1 : py_os_path_isdir w (py_os_path_abspath w input_file) = false) by reflexivity.
    rewrite !H1.
    assert (H2 : py_os_path_abspath w input_file = APath AInput [] false) by reflexivity.
    rewrite !H2.
    assert (H3 : py_spec_match_file (py_pathspec_from_lines (st_input_exclude_filters (py_settings_of st hdrs excl follow)))
                   (APath AInput [] false) = excl [] false) by reflexivity.
    rewrite !H3, HE0.
    destruct (excl [] false) eqn:Etop; [reflexivity|].
    assert (H4 : py_os_path_exists w (APath AInput [] false) = false) by reflexivity.
    rewrite !H4. reflexivity.
  Qed.

  Lemma document_source_gen : forall (E : list str -> bool -> bool) o links base kind input_file,
    (forall p, E p false = excl p false) ->
    E [] true = excl [] true ->
    (forall rel d, E (rel ++ [d]) true = dir_pruned o links (rel ++ [d])) ->
    kind_distinct kind = true ->
    PyWalkSource.document (PyWorld base kind o links) docfn [] input_file (py_settings_of st hdrs excl follow)
    = Walk.document st hdrs docfn E base kind.
  Proof.
    intros E o links base kind input_file HEf HE0 HEd Hk. destruct kind as [|content|top].
    - apply document_missing_source_gen. apply HEf.
    - apply document_file_source_gen. apply HEf.
    - apply document_dir_source_gen; assumption.
  Qed.

  (* ---- the main theorem: document() of the current source is the model's document; the output
     directory (when it is a directory of the input tree) and, when symbolic links are not followed,
     every symbolic link to a directory are pruned like an excluded directory ---- *)
  Theorem document_matches_source : forall base kind input_file o links,
    kind_distinct kind = true -> out_consistent st o = true ->
    PyWalkSource.document (PyWorld base kind o links) docfn [] input_file (py_settings_of st hdrs excl follow)
    = Walk.document st hdrs docfn (excl_with_output_links excl o follow links) base kind.
  Proof.
    intros base kind input_file o links Hk Ho. apply document_source_gen.
    - intros p. apply excl_with_output_links_file.
    - apply excl_with_output_links_input.
    - intros rel d. rewrite excl_with_output_links_dir. unfold dir_pruned. f_equal. f_equal.
      unfold out_consistent in Ho. destruct (ws_out st); [reflexivity|].
      destruct o as [q|]; [discriminate Ho|reflexivity].
    - exact Hk.
  Qed.

  (* the three branches, in the shape of the main theorem *)
  Corollary document_dir_source : forall base top input_file o links,
    names_distinct top = true -> out_consistent st o = true ->
    PyWalkSource.document (PyWorld base (KDir top) o links) docfn [] input_file (py_settings_of st hdrs excl follow)
    = Walk.document st hdrs docfn (excl_with_output_links excl o follow links) base (KDir top).
  Proof.
    intros base top input_file o links Hd Ho. apply (document_matches_source base (KDir top) input_file o links Hd Ho).
  Qed.

  Corollary document_file_source : forall base content input_file o links,
    PyWalkSource.document (PyWorld base (KFile content) o links) docfn [] input_file (py_settings_of st hdrs excl follow)
    = Walk.document st hdrs docfn excl base (KFile content).
  Proof. intros base content input_file o links. apply document_file_source_gen. reflexivity. Qed.

  Corollary document_missing_source : forall base input_file o links,
    PyWalkSource.document (PyWorld base KMissing o links) docfn [] input_file (py_settings_of st hdrs excl follow)
    = Walk.document st hdrs docfn excl base KMissing.
  Proof. intros base input_file o links. apply document_missing_source_gen. reflexivity. Qed.

  (* no symbolic links below the input: the statement as it was before the pruning of the links
     existed, with the exclusion predicate excl_with_output *)
  Theorem document_matches_source_no_links : forall base kind input_file o,
    kind_distinct kind = true -> out_consistent st o = true ->
    PyWalkSource.document (PyWorld base kind o (fun _ => false)) docfn [] input_file
                          (py_settings_of st hdrs excl follow)
    = Walk.document st hdrs docfn (excl_with_output excl o) base kind.
  Proof.
    intros base kind input_file o Hk Ho. apply document_source_gen.
    - intros p. apply excl_with_output_file.
    - apply excl_with_output_input.
    - intros rel d. rewrite excl_with_output_dir. unfold dir_pruned. rewrite andb_false_r, orb_false_r. f_equal.
      unfold out_consistent in Ho. destruct (ws_out st); [reflexivity|].
      destruct o as [q|]; [discriminate Ho|reflexivity].
    - exact Hk.
  Qed.

  (* no symbolic links and the output directory is not in the input tree (or none is configured):
     the statement as it was before either pruning existed, with the exclusion patterns alone *)
  Theorem document_matches_source_output_outside : forall base kind input_file,
    kind_distinct kind = true ->
    PyWalkSource.document (PyWorld base kind None (fun _ => false)) docfn [] input_file
                          (py_settings_of st hdrs excl follow)
    = Walk.document st hdrs docfn excl base kind.
  Proof.
    intros base kind input_file Hk. apply document_source_gen.
    - reflexivity.
    - reflexivity.
    - intros rel d. unfold dir_pruned. cbn [is_output_dir]. rewrite !andb_false_r, !orb_false_r. reflexivity.
    - exact Hk.
  Qed.

  (* an input matched by the exclusion patterns: nothing at all, whatever is there and wherever
     the output directory is *)
  Theorem document_excluded_input_source : forall base kind input_file o links,
    excl [] (match kind with KDir _ => true | _ => false end) = true ->
    PyWalkSource.document (PyWorld base kind o links) docfn [] input_file (py_settings_of st hdrs excl follow) = [].
  Proof.
    intros base kind input_file o links He.
    unfold PyWalkSource.document. cbv zeta.
    destruct kind as [|content|top].
    - assert (H1 : py_os_path_isdir (PyWorld base KMissing o links) (py_os_path_abspath (PyWorld base KMissing o links) input_file) = false)
        by reflexivity.
      rewrite !H1.
      assert (H3 : py_spec_match_file (py_pathspec_from_lines (st_input_exclude_filters (py_settings_of st hdrs excl follow)))
                     (py_os_path_abspath (PyWorld base KMissing o links) input_file) = excl [] false) by reflexivity.
      rewrite !H3, He. reflexivity.
    - assert (H1 : py_os_path_isdir (PyWorld base (KFile content) o links)
                     (py_os_path_abspath (PyWorld base (KFile content) o links) input_file) = false) by reflexivity.
      rewrite !H1.
      assert (H3 : py_spec_match_file (py_pathspec_from_lines (st_input_exclude_filters (py_settings_of st hdrs excl follow)))
                     (py_os_path_abspath (PyWorld base (KFile content) o links) input_file) = excl [] false) by reflexivity.
      rewrite !H3, He. reflexivity.
    - assert (H1 : py_os_path_isdir (PyWorld base (KDir top) o links)
                     (py_os_path_abspath (PyWorld base (KDir top) o links) input_file) = true) by reflexivity.
      rewrite !H1.
      assert (H3 : py_spec_match_file (py_pathspec_from_lines (st_input_exclude_filters (py_settings_of st hdrs excl follow)))
                     (py_os_path_join (py_os_path_abspath (PyWorld base (KDir top) o links) input_file) py_rpath_empty)
                   = excl [] true) by reflexivity.
      rewrite !H3, He. reflexivity.
  Qed.

  (* ---- document_single_file of the current source is the model's doc_actions ---- *)
  (* a file below an input directory (the call from the walk) *)
  Theorem document_single_file_matches_source : forall base top o links log rel ch name content sl,
    dir_at top rel = Some ch -> find_file name ch = Some content ->
    PyWalkSource.document_single_file (PyWorld base (KDir top) o links) docfn log
      (APath AInput (rel ++ [name]) false) (APath AInput [] sl) (py_settings_of st hdrs excl follow)
    = emits log (doc_actions st docfn (ws_prefix st) (rel_string (rel ++ [name])) rel name content).
  Proof. exact (single_file_dir st hdrs docfn excl follow). Qed.

  (* the input is itself a regular file *)
  Theorem document_single_file_matches_source_file : forall base content o links log,
    PyWalkSource.document_single_file (PyWorld base (KFile content) o links) docfn log
      (APath AInput [] false) (APath AInput [] false) (py_settings_of st hdrs excl follow)
    = emits log (doc_actions st docfn (ws_prefix st) base [] base content).
  Proof. exact (single_file_file st hdrs docfn excl follow). Qed.
End Main.

(* symbolic links are followed (follow_symlinks on): whatever is a link, the statement with the
   exclusion predicate excl_with_output *)
Theorem document_matches_source_links_followed : forall st hdrs docfn excl base kind input_file o links,
  kind_distinct kind = true -> out_consistent st o = true ->
  PyWalkSource.document (PyWorld base kind o links) docfn [] input_file (py_settings_of st hdrs excl true)
  = Walk.document st hdrs docfn (excl_with_output excl o) base kind.
Proof.
  intros st hdrs docfn excl base kind input_file o links Hk Ho. apply document_source_gen.
  - intros p. apply excl_with_output_file.
  - apply excl_with_output_input.
  - intros rel d. rewrite excl_with_output_dir. unfold dir_pruned. cbn [negb andb]. rewrite orb_false_r. f_equal.
    unfold out_consistent in Ho. destruct (ws_out st); [reflexivity|].
    destruct o as [q|]; [discriminate Ho|reflexivity].
  - exact Hk.
Qed.

(* ================================================================== *)
(* link with the well-formedness predicate of Proofs/WalkFacts.v       *)

Lemma nodup_names_nodupb : forall l, nodup_names l = nodupb l.
Proof. induction l as [|x r IH]; [reflexivity|]. cbn [nodup_names nodupb]. rewrite IH. reflexivity. Qed.

Lemma nodupb_sub : forall (p : node -> bool) l,
  nodupb (map node_name l) = true -> nodupb (map node_name (filter p l)) = true.
Proof.
  intros p l. induction l as [|x r IH]; intros H; [reflexivity|].
  cbn [map nodupb] in H. apply andb_true_iff in H. destruct H as [Hx Hr].
  cbn [filter]. destruct (p x); [|apply IH; exact Hr].
  cbn [map nodupb]. rewrite (IH Hr), andb_true_r.
  destruct (mem_str (node_name x) (map node_name (filter p r))) eqn:E; [|reflexivity].
  apply mem_str_in in E. apply in_map_iff in E. destruct E as [y [Hy Hin]].
  apply filter_In in Hin. destruct Hin as [Hin _].
  assert (Hm : mem_str (node_name x) (map node_name r) = true).
  { apply mem_str_in. apply in_map_iff. exists y. split; assumption. }
  rewrite Hm in Hx. discriminate Hx.
Qed.

Lemma dir_names_filter : forall l,
  dir_names l = map node_name (filter (fun n => match n with D _ _ => true | F _ _ => false end) l).
Proof.
  induction l as [|x r IH]; [reflexivity|].
  destruct x; cbn [dir_names flat_map app filter map node_name]; fold (dir_names r); rewrite IH; reflexivity.
Qed.

Lemma file_names_filter : forall l,
  file_names l = map node_name (filter (fun n => match n with F _ _ => true | D _ _ => false end) l).
Proof.
  induction l as [|x r IH]; [reflexivity|].
  destruct x; cbn [file_names flat_map app filter map node_name]; fold (file_names r); rewrite IH; reflexivity.
Qed.

Lemma dir_ok_level_distinct : forall ch, dir_ok ch = true -> level_distinct ch = true.
Proof.
  intros ch H. unfold dir_ok in H. apply andb_true_iff in H. destruct H as [H _].
  apply andb_true_iff in H. destruct H as [H _].
  unfold level_distinct. rewrite !nodup_names_nodupb, dir_names_filter, file_names_filter.
  rewrite !nodupb_sub by exact H. reflexivity.
Qed.

Lemma node_ok_distinct : forall n, node_ok n = true -> node_distinct n = true.
Proof.
  induction n as [fn fc|dn dc IH] using node_ind2; intros H; [reflexivity|].
  cbn [node_ok] in H. apply andb_true_iff in H. destruct H as [Hd Ha].
  cbn [node_distinct]. rewrite (dir_ok_level_distinct dc Hd). cbn [andb].
  rewrite forallb_forall in *. rewrite Forall_forall in IH.
  intros x Hx. apply IH; [exact Hx|]. apply Ha. exact Hx.
Qed.

(* the trees of the directory-mode theorems of Proofs/WalkFacts.v satisfy the hypothesis *)
Theorem tree_ok_names_distinct : forall ch, tree_ok ch = true -> names_distinct ch = true.
Proof.
  intros ch H. unfold tree_ok in H. apply andb_true_iff in H. destruct H as [Hd Ha].
  unfold names_distinct. rewrite (dir_ok_level_distinct ch Hd). cbn [andb].
  rewrite forallb_forall in *. intros x Hx. apply node_ok_distinct. apply Ha. exact Hx.
Qed.

(* ================================================================== *)
(* examples                                                            *)

Module Examples.
  (* three levels below the input; an excluded directory; a directory without .cmake files (with
     a .cmake file further down); upper-case extension; a file on which the documenter fails *)
  Definition tree : list node :=
    [ F (s"b.cmake") [1%N]; F (s"README.md") [2%N]; F (s"A.CMake") [3%N];
      D (s"zsub") [ F (s"z.cmake") [4%N];
                    D (s"deep") [ F (s"d.cmake") [5%N]; D (s"deeper") [ F (s"e.cmake") [6%N] ] ];
                    D (s"nocmake") [ F (s"x.txt") [7%N]; D (s"below") [ F (s"y.cmake") [8%N] ] ] ];
      D (s"excluded") [ F (s"q.cmake") [9%N] ];
      D (s"asub") [ F (s"c.cmake") [10%N]; F (s"a.cmake") [11%N] ] ].
  Definition tree_bad : list node := tree ++ [ D (s"zz") [ F (s"bad.cmake") [66%N]; F (s"later.cmake") [12%N] ] ].

  Definition excl1 (p : list str) (isdir : bool) : bool := strs_eqb p [s"excluded"] && isdir.
  Definition docfn1 (t m : str) (c : list N) : outcome :=
    match c with [66%N] => OCrash | _ => OOk (t ++ s"|" ++ m) end.
  Definition hdrs1 : list str := [s"#"; s"*"; s"="].
  Definition mk (out rec : bool) (pre : option str) (auto : bool) : wsettings :=
    Build_wsettings out rec pre auto (s".") false true.
  (* o: where the output directory is relative to the input; links: the symbolic links below the
     input; follow: settings.input.follow_symlinks *)
  Definition run_links (follow : bool) (links : list str -> bool) (o : option (list str)) (st : wsettings)
             (kind : input_kind) : list action :=
    PyWalkSource.document (PyWorld (s"proj") kind o links) docfn1 [] (s"some/where/proj")
                          (py_settings_of st hdrs1 excl1 follow).
  Definition no_links (rel : list str) : bool := false.
  (* no symbolic links *)
  Definition run_at (o : option (list str)) (st : wsettings) (kind : input_kind) : list action :=
    run_links true no_links o st kind.
  (* the output directory outside the input tree *)
  Definition run (st : wsettings) (kind : input_kind) : list action := run_at None st kind.
  Definition model (st : wsettings) (kind : input_kind) : list action :=
    Walk.document st hdrs1 docfn1 excl1 (s"proj") kind.
  Definition wpaths (acts : list action) : list (list str) :=
    flat_map (fun a => match a with AWrite p _ => [p] | _ => [] end) acts.

  (* the hypothesis of the main theorem holds for these trees (non-vacuity) *)
  Example tree_distinct : names_distinct tree = true /\ names_distinct tree_bad = true.
  Proof. split; vm_compute; reflexivity. Qed.

  (* recursive, output directory, auto-exclusion: excluded/ and nocmake/ (and what is below it)
     are not visited; deep/ and deeper/ are *)
  Example run_rec_out_auto :
    run (mk true true None true) (KDir tree) = model (mk true true None true) (KDir tree)
    /\ wpaths (run (mk true true None true) (KDir tree))
       = [ [s"index.rst"]; [s"A.rst"]; [s"b.rst"];
           [s"zsub"; s"index.rst"]; [s"zsub"; s"z.rst"];
           [s"zsub"; s"deep"; s"index.rst"]; [s"zsub"; s"deep"; s"d.rst"];
           [s"zsub"; s"deep"; s"deeper"; s"index.rst"]; [s"zsub"; s"deep"; s"deeper"; s"e.rst"];
           [s"asub"; s"index.rst"]; [s"asub"; s"a.rst"]; [s"asub"; s"c.rst"] ].
  Proof. split; vm_compute; reflexivity. Qed.

  (* F23 repaired: auto-exclusion, no .cmake file directly in the input directory.  The translated
     source, like the model, writes the top index.rst in a recursive run and nothing otherwise *)
  Definition tree_f23 : list node := [ F (s"README") [1%N]; D (s"sub") [ F (s"c.cmake") [2%N] ] ].
  Example run_top_without_cmake :
    run (mk true true None true) (KDir tree_f23) = model (mk true true None true) (KDir tree_f23)
    /\ wpaths (run (mk true true None true) (KDir tree_f23))
       = [ [s"index.rst"]; [s"sub"; s"index.rst"]; [s"sub"; s"c.rst"] ]
    /\ run (mk true false None true) (KDir tree_f23) = [].
  Proof. repeat split; vm_compute; reflexivity. Qed.

  (* without auto-exclusion nocmake/ gets an index and nocmake/below/ is documented *)
  Example run_rec_out_noauto :
    run (mk true true (Some (s"P")) false) (KDir tree) = model (mk true true (Some (s"P")) false) (KDir tree)
    /\ In [s"zsub"; s"nocmake"; s"below"; s"y.rst"] (wpaths (run (mk true true (Some (s"P")) false) (KDir tree)))
    /\ ~ In [s"excluded"; s"q.rst"] (wpaths (run (mk true true (Some (s"P")) false) (KDir tree))).
  Proof.
    split; [vm_compute; reflexivity|]. split.
    - vm_compute. tauto.
    - vm_compute. intros H. repeat (destruct H as [H|H]; [discriminate H|]). exact H.
  Qed.

  (* not recursive: only the input directory *)
  Example run_norec_out :
    run (mk true false None true) (KDir tree) = model (mk true false None true) (KDir tree)
    /\ wpaths (run (mk true false None true) (KDir tree)) = [ [s"index.rst"]; [s"A.rst"]; [s"b.rst"] ].
  Proof. split; vm_compute; reflexivity. Qed.

  (* no output directory: everything is printed *)
  Example run_rec_noout :
    run (mk false true None true) (KDir tree) = model (mk false true None true) (KDir tree)
    /\ length (run (mk false true None true) (KDir tree)) = 7
    /\ wpaths (run (mk false true None true) (KDir tree)) = [].
  Proof. repeat split; vm_compute; reflexivity. Qed.

  Example run_norec_noout :
    run (mk false false (Some (s"P")) false) (KDir tree) = model (mk false false (Some (s"P")) false) (KDir tree)
    /\ length (run (mk false false (Some (s"P")) false) (KDir tree)) = 2.
  Proof. split; vm_compute; reflexivity. Qed.

  (* a failing documenter stops everything: later.cmake of the same directory is not written *)
  Example run_abort :
    run (mk true true None true) (KDir tree_bad) = model (mk true true None true) (KDir tree_bad)
    /\ last (run (mk true true None true) (KDir tree_bad)) AExit255 = AAbort OCrash
    /\ ~ In [s"zz"; s"later.rst"] (wpaths (run (mk true true None true) (KDir tree_bad))).
  Proof.
    split; [vm_compute; reflexivity|]. split; [vm_compute; reflexivity|].
    vm_compute. intros H. repeat (destruct H as [H|H]; [discriminate H|]). exact H.
  Qed.

  (* the other input kinds *)
  Definition runf (st : wsettings) : list action :=
    PyWalkSource.document (PyWorld (s"top.cmake") (KFile [1%N]) None no_links) docfn1 [] (s"top.cmake")
                          (py_settings_of st hdrs1 excl1 true).
  Example run_file :
    runf (mk true true None true) = Walk.document (mk true true None true) hdrs1 docfn1 excl1 (s"top.cmake") (KFile [1%N])
    /\ runf (mk false false (Some (s"P")) true)
       = Walk.document (mk false false (Some (s"P")) true) hdrs1 docfn1 excl1 (s"top.cmake") (KFile [1%N])
    /\ runf (mk true true None true) = [AMkDirs []; AMkDirs []; AWrite [s"top.rst"] (s"top|top.cmake")]
    /\ runf (mk false false (Some (s"P")) true) = [APrint (s"P.top|P.top.cmake" ++ [nl])].
  Proof. repeat split; vm_compute; reflexivity. Qed.
  Example run_missing : run (mk true true None true) KMissing = [AExit255].
  Proof. vm_compute. reflexivity. Qed.
  Example run_excluded_input :
    PyWalkSource.document (PyWorld (s"proj") (KDir tree) None no_links) docfn1 [] (s"proj")
                          (py_settings_of (mk true true None true) hdrs1 (fun _ _ => true) true) = [].
  Proof. vm_compute. reflexivity. Qed.

  (* ---- the output directory inside the input tree ----
     proj/_build/docs is the output directory and exists already (a second run): it holds the pages
     of the first run and, to make a descent visible, a left-over .cmake file and a sub-directory
     with one.  Recursive, auto-exclusion of directories without .cmake files switched off. *)
  Definition tree_out : list node :=
    [ F (s"top.cmake") [1%N];
      D (s"_build") [ F (s"notes.txt") [2%N];
                      D (s"docs") [ F (s"index.rst") [3%N]; F (s"stale.cmake") [4%N];
                                    D (s"sub") [ F (s"index.rst") [5%N]; F (s"x.cmake") [6%N] ] ];
                      D (s"other") [ F (s"o.cmake") [7%N] ] ];
      D (s"src") [ F (s"a.cmake") [8%N]; D (s"docs") [ F (s"d.cmake") [9%N] ] ] ].
  Definition out_here : option (list str) := Some [s"_build"; s"docs"].
  Definition st_out : wsettings := mk true true None false.
  (* every path the run creates or writes, below the output directory *)
  Definition touched (acts : list action) : list (list str) :=
    flat_map (fun a => match a with AWrite p _ | AMkDirs p => [p] | _ => [] end) acts.
  Definition below_output_dir (p : list str) : bool :=
    match p with a :: b :: _ => str_eqb a (s"_build") && str_eqb b (s"docs") | _ => false end.
  Definition index_of (rel : list str) (acts : list action) : list str :=
    flat_map (fun a => match a with
                       | AWrite p text => if strs_eqb p (rel ++ [s"index.rst"]) then [text] else []
                       | _ => []
                       end) acts.

  Example tree_out_hypotheses :
    names_distinct tree_out = true /\ out_consistent st_out out_here = true
    /\ dir_at tree_out [s"_build"; s"docs"] <> None.
  Proof. repeat split; vm_compute; try reflexivity. discriminate. Qed.

  (* nothing at or below proj/_build/docs is walked (no page, no index, no directory for it); the
     index of proj/_build lists other/index.rst and not docs/index.rst; the rest of the tree is
     documented as usual, proj/src/docs included (the pruning is by position, not by name); and the
     run is the model's with the predicate excl_with_output *)
  Example run_output_inside_input :
    run_at out_here st_out (KDir tree_out)
    = Walk.document st_out hdrs1 docfn1 (excl_with_output excl1 out_here) (s"proj") (KDir tree_out)
    /\ wpaths (run_at out_here st_out (KDir tree_out))
       = [ [s"index.rst"]; [s"top.rst"];
           [s"_build"; s"index.rst"];
           [s"_build"; s"other"; s"index.rst"]; [s"_build"; s"other"; s"o.rst"];
           [s"src"; s"index.rst"]; [s"src"; s"a.rst"];
           [s"src"; s"docs"; s"index.rst"]; [s"src"; s"docs"; s"d.rst"] ]
    /\ existsb below_output_dir (touched (run_at out_here st_out (KDir tree_out))) = false
    /\ map (contains (s"other/index.rst")) (index_of [s"_build"] (run_at out_here st_out (KDir tree_out))) = [true]
    /\ map (contains (s"docs/index.rst")) (index_of [s"_build"] (run_at out_here st_out (KDir tree_out))) = [false].
  Proof. repeat split; vm_compute; reflexivity. Qed.

  (* the same tree and settings with the output directory elsewhere: proj/_build/docs is an
     ordinary directory, walked and listed *)
  Example run_output_outside_same_tree :
    run_at None st_out (KDir tree_out) = Walk.document st_out hdrs1 docfn1 excl1 (s"proj") (KDir tree_out)
    /\ existsb below_output_dir (touched (run_at None st_out (KDir tree_out))) = true
    /\ In [s"_build"; s"docs"; s"sub"; s"x.rst"] (wpaths (run_at None st_out (KDir tree_out)))
    /\ map (contains (s"docs/index.rst")) (index_of [s"_build"] (run_at None st_out (KDir tree_out))) = [true].
  Proof.
    split; [vm_compute; reflexivity|]. split; [vm_compute; reflexivity|]. split; [|vm_compute; reflexivity].
    vm_compute. tauto.
  Qed.

  (* the output directory being the input directory itself prunes nothing; and without a configured
     output directory the world must not place one (out_consistent), else model and source differ *)
  Example run_output_is_input :
    run_at (Some []) st_out (KDir tree_out) = run_at None st_out (KDir tree_out).
  Proof. vm_compute. reflexivity. Qed.
  Example document_matches_source_without_out_consistent_refuted :
    out_consistent (mk false true None false) out_here = false
    /\ run_at out_here (mk false true None false) (KDir tree_out)
       <> Walk.document (mk false true None false) hdrs1 docfn1 (excl_with_output excl1 out_here) (s"proj") (KDir tree_out).
  Proof.
    split; [vm_compute; reflexivity|].
    intros H. apply (f_equal (@length action)) in H. vm_compute in H. discriminate H.
  Qed.

  (* ---- symbolic links to directories ----
     proj/vendor is a symbolic link to a directory holding v.cmake and a sub-directory inner with
     i.cmake; proj/src/ext is another one; proj/lib/ext is a real directory of the same name.
     Recursive, output directory configured (outside the input), auto-exclusion on. *)
  Definition tree_link : list node :=
    [ F (s"top.cmake") [1%N];
      D (s"vendor") [ F (s"v.cmake") [2%N]; D (s"inner") [ F (s"i.cmake") [3%N] ] ];
      D (s"src") [ F (s"a.cmake") [4%N]; D (s"ext") [ F (s"e.cmake") [5%N] ] ];
      D (s"lib") [ F (s"l.cmake") [6%N]; D (s"ext") [ F (s"f.cmake") [7%N] ] ] ].
  Definition links1 (rel : list str) : bool :=
    strs_eqb rel [s"vendor"] || strs_eqb rel [s"src"; s"ext"].
  Definition st_link : wsettings := mk true true None true.
  Definition below_vendor (p : list str) : bool :=
    match p with a :: _ => str_eqb a (s"vendor") | _ => false end.

  Example tree_link_hypotheses :
    names_distinct tree_link = true /\ out_consistent st_link None = true
    /\ dir_at tree_link [s"vendor"; s"inner"] <> None /\ links1 [s"vendor"] = true
    /\ links1 [s"lib"; s"ext"] = false.
  Proof. repeat split; vm_compute; try reflexivity. discriminate. Qed.

  (* follow_symlinks off: nothing at or below proj/vendor and proj/src/ext is written, the index of
     proj does not list vendor/index.rst, the index of proj/src does not list ext/index.rst, the
     real directory proj/lib/ext is documented; and the run is the model's with the predicate
     excl_with_output_links *)
  Example run_links_not_followed :
    run_links false links1 None st_link (KDir tree_link)
    = Walk.document st_link hdrs1 docfn1 (excl_with_output_links excl1 None false links1) (s"proj") (KDir tree_link)
    /\ wpaths (run_links false links1 None st_link (KDir tree_link))
       = [ [s"index.rst"]; [s"top.rst"];
           [s"src"; s"index.rst"]; [s"src"; s"a.rst"];
           [s"lib"; s"index.rst"]; [s"lib"; s"l.rst"];
           [s"lib"; s"ext"; s"index.rst"]; [s"lib"; s"ext"; s"f.rst"] ]
    /\ existsb below_vendor (touched (run_links false links1 None st_link (KDir tree_link))) = false
    /\ map (contains (s"vendor/index.rst")) (index_of [] (run_links false links1 None st_link (KDir tree_link))) = [false]
    /\ map (contains (s"src/index.rst")) (index_of [] (run_links false links1 None st_link (KDir tree_link))) = [true]
    /\ map (contains (s"ext/index.rst")) (index_of [s"src"] (run_links false links1 None st_link (KDir tree_link))) = [false]
    /\ map (contains (s"ext/index.rst")) (index_of [s"lib"] (run_links false links1 None st_link (KDir tree_link))) = [true].
  Proof. repeat split; vm_compute; reflexivity. Qed.

  (* follow_symlinks on: the links are documented like normal directories (the run is the one on
     the same tree without any link, and the model's with the patterns alone) *)
  Example run_links_followed :
    run_links true links1 None st_link (KDir tree_link)
    = Walk.document st_link hdrs1 docfn1 (excl_with_output_links excl1 None true links1) (s"proj") (KDir tree_link)
    /\ run_links true links1 None st_link (KDir tree_link) = run_links true no_links None st_link (KDir tree_link)
    /\ run_links true links1 None st_link (KDir tree_link) = model st_link (KDir tree_link)
    /\ wpaths (run_links true links1 None st_link (KDir tree_link))
       = [ [s"index.rst"]; [s"top.rst"];
           [s"vendor"; s"index.rst"]; [s"vendor"; s"v.rst"];
           [s"vendor"; s"inner"; s"index.rst"]; [s"vendor"; s"inner"; s"i.rst"];
           [s"src"; s"index.rst"]; [s"src"; s"a.rst"];
           [s"src"; s"ext"; s"index.rst"]; [s"src"; s"ext"; s"e.rst"];
           [s"lib"; s"index.rst"]; [s"lib"; s"l.rst"];
           [s"lib"; s"ext"; s"index.rst"]; [s"lib"; s"ext"; s"f.rst"] ]
    /\ map (contains (s"vendor/index.rst")) (index_of [] (run_links true links1 None st_link (KDir tree_link))) = [true].
  Proof. repeat split; vm_compute; reflexivity. Qed.

  (* the link pruning and the output pruning together: the output directory is proj/lib/ext *)
  Example run_links_and_output_inside :
    run_links false links1 (Some [s"lib"; s"ext"]) st_link (KDir tree_link)
    = Walk.document st_link hdrs1 docfn1 (excl_with_output_links excl1 (Some [s"lib"; s"ext"]) false links1)
                    (s"proj") (KDir tree_link)
    /\ wpaths (run_links false links1 (Some [s"lib"; s"ext"]) st_link (KDir tree_link))
       = [ [s"index.rst"]; [s"top.rst"]; [s"src"; s"index.rst"]; [s"src"; s"a.rst"];
           [s"lib"; s"index.rst"]; [s"lib"; s"l.rst"] ].
  Proof. split; vm_compute; reflexivity. Qed.

  (* os.walk itself (A12), with a body that prunes nothing and records the directories it is run
     for: with followlinks=False a link left in the list is listed (it is among the names the body
     sees) but not descended into; with followlinks=True it is walked like any directory.  This is
     what a document() without the new branch would run on: the link stays in the toctree of its
     parent and gets no index.rst, which no instance of the model does. *)
  Definition seen (follow : bool) : list action :=
    py_os_walk (PyWorld (s"proj") (KDir tree_link) None links1) (APath AInput [] true) follow
      (fun root subdirs filenames (log : pylog) =>
         (log ++ [APrint (join [slash] (ap_comps root) ++ s":" ++ join (s",") subdirs)], subdirs, CNormal)) [].
  Example os_walk_lists_but_does_not_enter_unfollowed_link :
    seen false = [ APrint (s":vendor,src,lib"); APrint (s"src:ext"); APrint (s"lib:ext"); APrint (s"lib/ext:") ]
    /\ seen true = [ APrint (s":vendor,src,lib"); APrint (s"vendor:inner"); APrint (s"vendor/inner:");
                     APrint (s"src:ext"); APrint (s"src/ext:"); APrint (s"lib:ext"); APrint (s"lib/ext:") ].
  Proof. split; vm_compute; reflexivity. Qed.

  (* The hypothesis names_distinct cannot be dropped: on a tree with two sibling directories of
     the same name (which no file system has) the lookups by name of os.scandir / os.walk reach
     the first one twice, while the model treats the two nodes separately. *)
  Definition tree_dup : list node :=
    [ F (s"t.cmake") [1%N]; D (s"a") [ F (s"x.cmake") [2%N] ]; D (s"a") [ F (s"y.txt") [3%N] ] ].
  Example document_matches_source_without_distinct_names_refuted :
    names_distinct tree_dup = false
    /\ run (mk true true None true) (KDir tree_dup) <> model (mk true true None true) (KDir tree_dup).
  Proof.
    split; [vm_compute; reflexivity|].
    intros H. apply (f_equal (@length action)) in H. vm_compute in H. discriminate H.
  Qed.
End Examples.

(* ==== MAIN THEOREMS ==== *)
(* document_matches_source                 document() of the current source = Walk.document with the
                                           exclusion predicate excl_with_output_links excl o follow links,
                                           o = where the output directory is relative to the input,
                                           links = the symbolic links below the input
   document_matches_source_no_links        links = fun _ => false: = Walk.document with excl_with_output excl o
   document_matches_source_output_outside  and o = None: = Walk.document with excl (the statement as it was)
   excl_with_output_none / _file / _input / _dir   what excl_with_output is
   excl_with_output_links_file / _input / _dir / _followed / _none   what excl_with_output_links is
   document_source_gen                     the same for any predicate that is the patterns on files and on the
                                           input, and the patterns or being the output directory on sub-directories
   document_dir_source / document_file_source / document_missing_source   its three branches
   document_excluded_input_source          an excluded input gives no action
   document_single_file_matches_source     document_single_file for a file below an input directory
   document_single_file_matches_source_file   ... for an input that is a regular file
   tree_ok_names_distinct                  WalkFacts.tree_ok implies the hypothesis names_distinct
   document_matches_source_links_followed  follow = true: = Walk.document with excl_with_output excl o
   os_walk_dir / walk_node_rec             os.walk with a body that does one model step is the model walk, when
                                           the model predicate covers the links that are not followed (links_covered)
   Examples.document_matches_source_without_distinct_names_refuted *)
Print Assumptions document_matches_source.
Print Assumptions document_matches_source_no_links.
Print Assumptions document_matches_source_output_outside.
Print Assumptions document_matches_source_links_followed.
Print Assumptions document_source_gen.
Print Assumptions excl_with_output_links_dir.
Print Assumptions Examples.run_top_without_cmake.
Print Assumptions Examples.run_links_not_followed.
Print Assumptions Examples.run_links_followed.
Print Assumptions Examples.os_walk_lists_but_does_not_enter_unfollowed_link.
Print Assumptions excl_with_output_none.
Print Assumptions Examples.run_output_inside_input.
Print Assumptions document_excluded_input_source.
Print Assumptions document_single_file_matches_source.
Print Assumptions document_single_file_matches_source_file.
Print Assumptions tree_ok_names_distinct.
Print Assumptions os_walk_dir.
Print Assumptions Examples.document_matches_source_without_distinct_names_refuted.
