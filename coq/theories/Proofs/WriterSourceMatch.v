(* Proofs/WriterSourceMatch.v -- the translated document-building API of rstwriter.py
   IMPLEMENTS the hand-written model Model/Writer.v.

   How the tie works.  On every verification run translators/pywriter2coq.py reads the CURRENT
   source of the classes RSTWriter and Directive with the ast module and regenerates
   Gen/PyWriterSource.v: one Gallina function per method (RSTWriter.__init__, clear, the title
   getter / setter, bulleted_list, enumerated_list, field, doctest, section, text, directive,
   build_heading, to_text, __str__; Directive.__init__, build_heading, option, to_text), the
   statement-by-statement rendering of the method body over the object representation of
   Base/PyWriterSem.v (an object = its class and its attributes; self.document = a list of built
   strings and nested objects; a reference to a nested object = its path of positions).  The
   string builders the methods call (get_indents, the build_* methods, format_arguments) are the
   functions of Gen/PySource.v, already proved equal to the model in Proofs/SourceMatch.v.

   This file proves, for ALL model states, handles and arguments:
     A  to_text of the object tree that represents a model state = the model text (doc_text /
        elem_text), through the recursion of str() over nested writers;
     C-F each API method, applied through dynamic dispatch to the object at the handle of a tree
        that represents the model state w, yields the tree that represents wstep w op, the same
        result (the returned reference of section() / directive() = the model handle), and raises
        exactly when the model reports WError (py_step_matches);
     F  any history of API calls followed by to_text = the model run (history_to_text_matches,
        history_to_text_wrun), from the constructor call on (program_to_text_matches).
   When somebody edits one of the methods, either the translator leaves its subset and stops with
   an error naming the AST node, or Gen/PyWriterSource.v changes and a theorem below stops
   compiling.

   The representation goes from the model to the objects (conc : wstate -> pyobj, represents
   st t w := t = conc st w): a string-builder object (Paragraph, Field, ...) is fully described
   by the string it built, and two different model elements can build the same string
   (conc_not_injective), so there is no abstraction function in the other direction.

   One requested statement is false as it stands: directive() with settings.rst.headers = []
   (directive_step_refuted); it needs eff st <> [], which holds whenever the top-level writer
   could be constructed at all. *)
From Coq Require Import String List NArith ZArith Bool Arith Lia.
From CMinx Require Import Base.Str Base.PySem Base.PyWriterSem Model.Writer Gen.PySource
  Gen.PyWriterSource Proofs.SourceMatch.
Import ListNotations.

(* ---- spec ---- *)

(* the heading characters in force for a Settings value: settings.rst.headers, or the class
   attribute RSTWriter.heading_level_chars when that option is None *)
Definition default_headers : list str :=
  [s"#"; s"*"; s"="; s"-"; s"_"; s"~"; s"!"; s"&"; s"@"; s"^"].
Definition eff (st : py_settings) : list str :=
  match st with Some h => h | None => default_headers end.

(* The representation: the Python object tree of a model document.
   A model element inside a writer of section level lvl and indent d is
     - a string-builder object, i.e. its built string, for Para / Field / RList / DocTest;
     - a Directive object for Dir: section_level 0, indent d + 1, document = its
       DirectiveHeading string followed by its represented body, options = the built
       option strings;
     - an RSTWriter object for Sect: section_level lvl + 1, indent 0, document = its Heading
       string followed by its represented body.
   Every object carries the same settings st and heading_level_chars = eff st. *)
Definition mk_writer (st : py_settings) (level : nat) (title : str) (body : list pyelem) : pyobj :=
  PyObj CRSTWriter title (Z.of_nat level) st (eff st) 0%Z (header_char (eff st) level)
        (inl (heading_text (header_char (eff st) level) title) :: body) [] [].
Definition mk_directive (st : py_settings) (d : nat) (name : str) (args : list str)
  (opts : list (str * str)) (body : list pyelem) : pyobj :=
  PyObj CDirective name 0%Z st (eff st) (Z.of_nat (S d)) (header_char (eff st) 0)
        (inl (dir_heading d name args) :: body) args (map (option_text (S d)) opts).

Fixpoint conc_elem (st : py_settings) (lvl d : nat) (e : elem) : pyelem :=
  match e with
  | Para t => inl (para_text d t)
  | Field n t => inl (field_text d n t)
  | RList en items => inl (list_text d en items)
  | DocTest l x => inl (doctest_text d l x)
  | Dir name args opts body =>
      inr (mk_directive st d name args opts (map (conc_elem st 0 (S d)) body))
  | Sect title body =>
      inr (mk_writer st (S lvl) title (map (conc_elem st (S lvl) 0) body))
  end.

(* the object tree of a model state (the top-level writer) *)
Definition conc (st : py_settings) (w : wstate) : pyobj :=
  mk_writer st 0 (w_title w) (map (conc_elem st 0 0) (w_body w)).

(* t represents the model state w *)
Definition represents (st : py_settings) (t : pyobj) (w : wstate) : Prop := t = conc st w.

(* a model handle as a Python reference: the heading occupies position 0 of self.document, so
   child i of the model is self.document[i + 1] *)
Definition py_path (h : handle) : list nat := map S h.

(* results of API calls on the Python side *)
Inductive pyout := PNone | PRef (p : list nat) | PText (t : str).

(* one API call on the object at handle h of the tree t, through the generated methods
   (dynamic dispatch on the class of the receiver); None = the call raised *)
Definition py_unit (r : option (pyobj * unit)) : option (pyobj * pyout) :=
  py_bind r (fun '(t, _) => Some (t, PNone)).
Definition py_ref (h : handle) (r : option (pyobj * nat)) : option (pyobj * pyout) :=
  py_bind r (fun '(t, k) => Some (t, PRef (py_path h ++ [k]))).
Definition py_step (t : pyobj) (o : wop) : option (pyobj * pyout) :=
  match o with
  | OText h x => py_unit (py_call_at (py_path h) (fun self => dispatch_text self x) t)
  | OField h n x => py_unit (py_call_at (py_path h) (fun self => dispatch_field self n x) t)
  | OBullets h items =>
      py_unit (py_call_at (py_path h) (fun self => dispatch_bulleted_list self items) t)
  | OEnum h items =>
      py_unit (py_call_at (py_path h) (fun self => dispatch_enumerated_list self items) t)
  | ODocTest h l x => py_unit (py_call_at (py_path h) (fun self => dispatch_doctest self l x) t)
  | ODirective h name args =>
      py_ref h (py_call_at (py_path h) (fun self => dispatch_directive self name args) t)
  | OSection h title =>
      py_ref h (py_call_at (py_path h) (fun self => dispatch_section self title) t)
  | OOption h n v => py_unit (py_call_at (py_path h) (fun self => dispatch_option self n v) t)
  | OSetTitle h x => py_unit (py_call_at (py_path h) (fun self => dispatch_title_set self x) t)
  | OClear h => py_unit (py_call_at (py_path h) (fun self => dispatch_clear self) t)
  | OToText h =>
      py_bind (py_get_at (py_path h) t) (fun o =>
      py_bind (dispatch_to_text o) (fun x => Some (t, PText x)))
  end.

(* the model step, represented: an error of the model is a raised exception *)
Definition model_step (st : py_settings) (w : wstate) (o : wop) : option (pyobj * pyout) :=
  match wstep (eff st) w o with
  | (_, WError) => None
  | (w', WNone) => Some (conc st w', PNone)
  | (w', WHandle h) => Some (conc st w', PRef (py_path h))
  | (w', WText x) => Some (conc st w', PText x)
  end.

(* a history of API calls; an exception ends the run *)
Definition py_run (t : pyobj) (ops : list wop) : option pyobj :=
  fold_left (fun acc o => py_bind acc (fun t => py_bind (py_step t o) (fun r => Some (fst r))))
            ops (Some t).
Definition model_run (st : py_settings) (w : wstate) (ops : list wop) : option wstate :=
  fold_left (fun acc o => py_bind acc (fun w =>
               match wstep (eff st) w o with (_, WError) => None | (w', _) => Some w' end))
            ops (Some w).
Definition no_error (o : wout) : bool := match o with WError => false | _ => true end.

(* ------------------------------------------------------------------ *)
(* a concrete history: directives nested three deep with options and content, sections *)
Definition ex_ops : list wop :=
  [ OText [] (s"intro line 1" ++ [nl] ++ s"line 2");
    ODirective [] (s"function") [s"foo"; s"bar"];          (* [1] *)
    OOption [1] (s"noindex") [];
    OOption [1] (s"module") (s"m");
    OText [1] (s"doc of foo");
    ODirective [1] (s"note") [];                           (* [1;1] *)
    OField [1;1] (s"param x") (s"an x");
    ODirective [1;1] (s"code-block") [s"cmake"];           (* [1;1;1] *)
    OOption [1;1;1] (s"linenos") [];
    OText [1;1;1] (s"foo(1)" ++ [nl] ++ s"bar(2)");
    OEnum [1;1] [s"one"; s"two"];
    OSection [] (s"Sub");                                  (* [2] *)
    OBullets [2] [s"a"; s"b"];
    OSection [2] (s"SubSub");                              (* [2;1] *)
    ODocTest [2;1] (s"1+1") (s"2");
    ODirective [2;1] (s"warning") [s"w"];                  (* [2;1;1] *)
    OSection [2;1;1] (s"InDir");                           (* [2;1;1;0] *)
    OText [2;1;1;0] (s"deep");
    OSetTitle [1;1] (s"attention");
    OSetTitle [2] (s"Sub2");
    OClear [2;1;1;0];
    OText [1] (s"tail") ].

Definition ex_state : wstate := fst (wrun default_headers (winit (s"top")) ex_ops).


(* ------------------------------------------------------------------ *)
(* general facts                                                       *)

Definition elem_ind2 (P : elem -> Prop)
  (HPara : forall t, P (Para t))
  (HField : forall n t, P (Field n t))
  (HList : forall en items, P (RList en items))
  (HDoc : forall l x, P (DocTest l x))
  (HDir : forall n a o b, Forall P b -> P (Dir n a o b))
  (HSect : forall t b, Forall P b -> P (Sect t b))
  : forall e, P e :=
  fix go (e : elem) : P e :=
    match e with
    | Para t => HPara t
    | Field n t => HField n t
    | RList en items => HList en items
    | DocTest l x => HDoc l x
    | Dir n a o b =>
        HDir n a o b ((fix gl (l : list elem) : Forall P l :=
                         match l with
                         | [] => Forall_nil P
                         | x :: r => Forall_cons x (go x) (gl r)
                         end) b)
    | Sect t b =>
        HSect t b ((fix gl (l : list elem) : Forall P l :=
                      match l with
                      | [] => Forall_nil P
                      | x :: r => Forall_cons x (go x) (gl r)
                      end) b)
    end.

Lemma py_depth_child : forall o c, In (inr c) (f_document o) -> py_depth c < py_depth o.
Proof.
  intros o c. destruct o as [cl t l x h i hc doc a p]. cbn [f_document py_depth].
  induction doc as [|y r IH]; intros Hin.
  - destruct Hin.
  - destruct Hin as [Hy|Hin].
    + subst y. lia.
    + specialize (IH Hin). destruct y as [u|c']; lia.
Qed.

(* the loop of to_text over represented elements *)
Lemma to_text_loop :
  forall (g : pyobj -> option str) st lvl d body acc,
    (forall e, In e body ->
       py_str_elem g (conc_elem st lvl d e) = Some (elem_text (eff st) lvl d e)) ->
    py_for_exc (map (conc_elem st lvl d) body)
      (fun document_string element =>
         py_bind (py_str_elem g element) (fun tmp =>
         let document_string := document_string ++ (tmp ++ ([10]%N : str)) in
         Some document_string)) acc
    = Some (acc ++ body_text (eff st) lvl d body).
Proof.
  intros g st lvl d body. unfold body_text.
  induction body as [|e r IH]; intros acc Hg.
  - cbn [map py_for_exc concat]. rewrite app_nil_r. reflexivity.
  - cbn [map py_for_exc concat]. rewrite (Hg e) by (left; reflexivity).
    cbn [py_bind]. rewrite IH by (intros e' He'; apply Hg; right; exact He').
    rewrite <- !app_assoc. reflexivity.
Qed.

Lemma options_loop : forall (opts : list str) acc,
  py_for_exc opts
    (fun document_string option_ =>
       let document_string := document_string ++ (option_ ++ ([10]%N : str)) in
       Some document_string) acc
  = Some (acc ++ concat (map (fun o => o ++ [nl]) opts)).
Proof.
  induction opts as [|o r IH]; intros acc.
  - cbn [py_for_exc map concat]. rewrite app_nil_r. reflexivity.
  - cbn [py_for_exc map concat]. rewrite IH. rewrite <- !app_assoc. reflexivity.
Qed.

(* ------------------------------------------------------------------ *)
(* A. to_text                                                          *)

(* RSTWriter.to_text, with any meaning g of str() that is right on the children *)
Lemma writer_to_text_open :
  forall g st level title body,
    (forall e, In e body ->
       py_str_elem g (conc_elem st level 0 e) = Some (elem_text (eff st) level 0 e)) ->
    RSTWriter_to_text_open g (mk_writer st level title (map (conc_elem st level 0) body))
    = Some (heading_text (header_char (eff st) level) title ++ [nl]
            ++ body_text (eff st) level 0 body).
Proof.
  intros g st level title body Hg.
  unfold RSTWriter_to_text_open, mk_writer. cbn [f_document py_for_exc py_str_elem py_bind].
  rewrite to_text_loop by exact Hg. cbn [py_bind]. rewrite <- !app_assoc. reflexivity.
Qed.

(* Directive.to_text *)
Lemma directive_to_text_open :
  forall g st d name args opts body,
    (forall e, In e body ->
       py_str_elem g (conc_elem st 0 (S d) e) = Some (elem_text (eff st) 0 (S d) e)) ->
    Directive_to_text_open g
      (mk_directive st d name args opts (map (conc_elem st 0 (S d)) body))
    = Some (elem_text (eff st) 0 d (Dir name args opts body)).
Proof.
  intros g st d name args opts body Hg.
  unfold Directive_to_text_open, mk_directive. cbn [f_document f_options].
  unfold py_getitem, py_norm_index, py_zlen. cbn [length].
  replace (0 <=? 0)%Z with true by reflexivity.
  replace (0 <? Z.of_nat (S (length (map (conc_elem st 0 (S d)) body))))%Z with true
    by (symmetry; apply Z.ltb_lt; lia).
  cbn [py_bind Z.to_nat nth_error py_str_elem].
  rewrite options_loop. cbn [py_bind].
  unfold py_zint_gt, py_slice_from. cbn [skipn].
  assert (Hbody : forall acc,
    py_for_exc (map (conc_elem st 0 (S d)) body)
      (fun document_string element =>
         py_bind (py_str_elem g element) (fun tmp14 =>
         let document_string := document_string ++ (tmp14 ++ ([10]%N : str)) in
         Some document_string)) acc
    = Some (acc ++ body_text (eff st) 0 (S d) body)).
  { intros acc. apply to_text_loop. exact Hg. }
  destruct body as [|e r].
  - cbn [map length]. replace (1 <? Z.of_nat 1)%Z with false by reflexivity.
    cbn [py_bind py_for_exc elem_text concat map]. rewrite !app_nil_r.
    rewrite map_map. rewrite <- !app_assoc. reflexivity.
  - replace (1 <? Z.of_nat (S (length (map (conc_elem st 0 (S d)) (e :: r)))))%Z with true
      by (symmetry; apply Z.ltb_lt; cbn [map length]; lia).
    cbn [py_bind]. rewrite Hbody. cbn [py_bind]. unfold body_text.
    cbn [elem_text]. rewrite map_map. rewrite <- !app_assoc. reflexivity.
Qed.

(* str() of a represented writer, with enough fuel *)
Lemma py_str_fuel :
  forall st e lvl d n o,
    conc_elem st lvl d e = inr o -> py_depth o <= n ->
    py_fuel_fix n (fun str_of self => dispatch___str___open str_of self) None o
    = Some (elem_text (eff st) lvl d e).
Proof.
  intros st e.
  induction e as [t|n0 t|en items|l x|name a o b IH|t b IH] using elem_ind2;
    intros lvl d n obj Hc Hn; try discriminate Hc.
  - (* Dir *)
    cbn [conc_elem] in Hc. injection Hc as Hc. subst obj.
    destruct n as [|k]; [cbn [mk_directive py_depth] in Hn; lia|].
    cbn [py_fuel_fix]. unfold dispatch___str___open at 1.
    cbn [mk_directive f_cls]. fold (mk_directive st d name a o (map (conc_elem st 0 (S d)) b)).
    unfold RSTWriter___str___open, dispatch_to_text_open.
    cbn [mk_directive f_cls]. fold (mk_directive st d name a o (map (conc_elem st 0 (S d)) b)).
    rewrite directive_to_text_open.
    + destruct lvl; reflexivity.
    + intros e He. rewrite Forall_forall in IH. specialize (IH e He).
      destruct (conc_elem st 0 (S d) e) as [u|c] eqn:Ec.
      * destruct e; cbn [conc_elem] in Ec; try discriminate Ec;
          injection Ec as Ec; subst u; reflexivity.
      * cbn [py_str_elem]. apply (IH 0 (S d) k c Ec).
        assert (Hlt : py_depth c < py_depth (mk_directive st d name a o (map (conc_elem st 0 (S d)) b))).
        { apply py_depth_child. cbn [mk_directive f_document]. right.
          rewrite <- Ec. apply in_map. exact He. }
        lia.
  - (* Sect *)
    cbn [conc_elem] in Hc. injection Hc as Hc. subst obj.
    destruct n as [|k]; [cbn [mk_writer py_depth] in Hn; lia|].
    cbn [py_fuel_fix]. unfold dispatch___str___open at 1.
    cbn [mk_writer f_cls]. fold (mk_writer st (S lvl) t (map (conc_elem st (S lvl) 0) b)).
    unfold RSTWriter___str___open, dispatch_to_text_open.
    cbn [mk_writer f_cls]. fold (mk_writer st (S lvl) t (map (conc_elem st (S lvl) 0) b)).
    rewrite writer_to_text_open.
    + reflexivity.
    + intros e He. rewrite Forall_forall in IH. specialize (IH e He).
      destruct (conc_elem st (S lvl) 0 e) as [u|c] eqn:Ec.
      * destruct e; cbn [conc_elem] in Ec; try discriminate Ec;
          injection Ec as Ec; subst u; reflexivity.
      * cbn [py_str_elem]. apply (IH (S lvl) 0 k c Ec).
        assert (Hlt : py_depth c < py_depth (mk_writer st (S lvl) t (map (conc_elem st (S lvl) 0) b))).
        { apply py_depth_child. cbn [mk_writer f_document]. right.
          rewrite <- Ec. apply in_map. exact He. }
        lia.
Qed.

(* str(x) of a represented document element is the model's text of the element *)
Theorem str_elem_matches :
  forall st lvl d e,
    py_str_elem py_str_obj (conc_elem st lvl d e) = Some (elem_text (eff st) lvl d e).
Proof.
  intros st lvl d e. destruct (conc_elem st lvl d e) as [u|c] eqn:Ec.
  - destruct e; cbn [conc_elem] in Ec; try discriminate Ec;
      injection Ec as Ec; subst u; reflexivity.
  - cbn [py_str_elem]. unfold py_str_obj, py_obj_rec.
    apply (py_str_fuel st e lvl d (py_depth c) c Ec). lia.
Qed.

(* RSTWriter.to_text of the top-level writer: the document text every output page is *)
Theorem to_text_matches :
  forall st w,
    RSTWriter_to_text (conc st w) = Some (doc_text (eff st) (w_title w) (w_body w)).
Proof.
  intros st w. unfold RSTWriter_to_text, conc. rewrite writer_to_text_open.
  - reflexivity.
  - intros e _. apply str_elem_matches.
Qed.

(* to_text of a nested writer (the object a section() / directive() call returned) *)
Theorem section_to_text_matches :
  forall st lvl title body,
    RSTWriter_to_text (mk_writer st (S lvl) title (map (conc_elem st (S lvl) 0) body))
    = Some (elem_text (eff st) lvl 0 (Sect title body)).
Proof.
  intros st lvl title body. unfold RSTWriter_to_text. rewrite writer_to_text_open.
  - reflexivity.
  - intros e _. apply str_elem_matches.
Qed.

Theorem directive_to_text_matches :
  forall st lvl d name args opts body,
    Directive_to_text (mk_directive st d name args opts (map (conc_elem st 0 (S d)) body))
    = Some (elem_text (eff st) lvl d (Dir name args opts body)).
Proof.
  intros st lvl d name args opts body. unfold Directive_to_text.
  rewrite directive_to_text_open.
  - destruct lvl; reflexivity.
  - intros e _. apply str_elem_matches.
Qed.

(* to_text through dynamic dispatch, on any represented writer element *)
Theorem dispatch_to_text_matches :
  forall st lvl d e o,
    conc_elem st lvl d e = inr o ->
    dispatch_to_text o = Some (elem_text (eff st) lvl d e).
Proof.
  intros st lvl d e o Hc. destruct e; cbn [conc_elem] in Hc; try discriminate Hc;
    injection Hc as Hc; subst o; unfold dispatch_to_text, dispatch_to_text_open.
  - cbn [mk_directive f_cls]. apply directive_to_text_matches.
  - cbn [mk_writer f_cls]. apply section_to_text_matches.
Qed.

(* ------------------------------------------------------------------ *)
(* B. calling a method on the object at a handle                       *)

Definition is_node (e : elem) : bool :=
  match e with Dir _ _ _ _ | Sect _ _ => true | _ => false end.
Definition same_kind (e e' : elem) : bool :=
  match e, e' with
  | Dir _ _ _ _, Dir _ _ _ _ => true
  | Sect _ _, Sect _ _ => true
  | _, _ => false
  end.
(* the section level a writer element has itself, inside a writer of level lvl *)
Definition own (lvl : nat) (e : elem) : nat := match e with Sect _ _ => S lvl | _ => 0 end.
(* the writer a handle denotes, with its own section level *)
Definition locate (h : handle) (w : wstate) : option (elem * nat) :=
  match h with
  | [] => Some (Sect (w_title w) (w_body w), 0)
  | _ => match node_at h w with
         | Some (e, lvl, _) => Some (e, own lvl e)
         | None => None
         end
  end.

Lemma map_update_nth : forall (A B : Type) (g : A -> B) (y : A) i (l : list A),
  map g (update_nth i (fun _ => y) l) = update_nth i (fun _ => g y) (map g l).
Proof.
  intros A B g y i l. revert i. induction l as [|x r IH]; intros i.
  - destruct i; reflexivity.
  - destruct i as [|k]; cbn [update_nth map].
    + reflexivity.
    + rewrite IH. reflexivity.
Qed.

Lemma call_at_cons : forall (R : Type) (m : pyobj -> option (pyobj * R)) i q o,
  py_call_at (i :: q) m o
  = match nth_error (f_document o) i with
    | Some (inr c) =>
        match py_call_at q m c with
        | Some (c', res) =>
            Some (set_document o (update_nth i (fun _ => inr c') (f_document o)), res)
        | None => None
        end
    | _ => None
    end.
Proof. reflexivity. Qed.

Section CallAt.
  Variable R : Type.
  Variable st : py_settings.
  Variable m : pyobj -> option (pyobj * R).       (* the generated method, arguments supplied *)
  Variable fl : nat -> elem -> option elem.       (* the model's node function, given the own level *)
  Variable r : elem -> R.                         (* the result, from the node before the call *)

  Hypothesis HD : forall d n a o body,
    m (mk_directive st d n a o (map (conc_elem st 0 (S d)) body))
    = match fl 0 (Dir n a o body) with
      | Some (Dir n' a' o' body') =>
          Some (mk_directive st d n' a' o' (map (conc_elem st 0 (S d)) body'), r (Dir n a o body))
      | _ => None
      end.
  Hypothesis HS : forall L t body,
    m (mk_writer st L t (map (conc_elem st L 0) body))
    = match fl L (Sect t body) with
      | Some (Sect t' body') =>
          Some (mk_writer st L t' (map (conc_elem st L 0) body'), r (Sect t body))
      | _ => None
      end.
  Hypothesis HL : forall L e, is_node e = false -> fl L e = None.
  Hypothesis HK : forall L e e', fl L e = Some e' -> same_kind e e' = true.

  Lemma call_at_body :
    forall p i lvl d b c t sl x hl ind hc hd args opts,
      py_call_at (S i :: map S p) m
        (PyObj c t sl x hl ind hc (hd :: map (conc_elem st lvl d) b) args opts)
      = match find_in_body p i lvl d b with
        | Some (e, lvl', _) =>
            match upd_in_body p i (fl (own lvl' e)) b with
            | Some b' =>
                Some (PyObj c t sl x hl ind hc (hd :: map (conc_elem st lvl d) b') args opts, r e)
            | None => None
            end
        | None => None
        end.
  Proof.
    induction p as [|j p' IH]; intros i lvl d b c t sl x hl ind hc hd args opts.
    - cbn [map py_call_at f_document nth_error find_in_body upd_in_body].
      rewrite nth_error_map. destruct (nth_error b i) as [e|] eqn:En; cbn [option_map]; [|reflexivity].
      destruct e as [tx|fn ft|en items|l0 x0|n a o body|tt0 body]; cbn [conc_elem own];
        try (rewrite HL by reflexivity; reflexivity).
      + rewrite HD. destruct (fl 0 (Dir n a o body)) as [e'|] eqn:Ef; [|reflexivity].
        pose proof (HK _ _ _ Ef) as Hk.
        destruct e' as [| | | |n' a' o' body'|]; cbn [same_kind] in Hk; try discriminate Hk.
        cbn [set_document update_nth]. rewrite map_update_nth. reflexivity.
      + rewrite HS. destruct (fl (S lvl) (Sect tt0 body)) as [e'|] eqn:Ef; [|reflexivity].
        pose proof (HK _ _ _ Ef) as Hk.
        destruct e' as [| | | | |t' body']; cbn [same_kind] in Hk; try discriminate Hk.
        cbn [set_document update_nth]. rewrite map_update_nth. reflexivity.
    - cbn [map find_in_body upd_in_body]. rewrite call_at_cons.
      cbn [f_document nth_error].
      rewrite nth_error_map. destruct (nth_error b i) as [e|] eqn:En; cbn [option_map]; [|reflexivity].
      destruct e as [tx|fn ft|en items|l0 x0|n a o body|tt0 body]; cbn [conc_elem]; try reflexivity.
      + unfold mk_directive.
        rewrite (IH j 0 (S d) body).
        destruct (find_in_body p' j 0 (S d) body) as [[[e' lvl'] d']|]; [|reflexivity].
        destruct (upd_in_body p' j (fl (own lvl' e')) body) as [body'|]; [|reflexivity].
        cbn [set_document update_nth]. rewrite map_update_nth. reflexivity.
      + unfold mk_writer.
        rewrite (IH j (S lvl) 0 body).
        destruct (find_in_body p' j (S lvl) 0 body) as [[[e' lvl'] d']|]; [|reflexivity].
        destruct (upd_in_body p' j (fl (own lvl' e')) body) as [body'|]; [|reflexivity].
        cbn [set_document update_nth]. rewrite map_update_nth. reflexivity.
  Qed.

  (* the method at any handle of a represented tree *)
  Lemma call_at_conc :
    forall h w,
      py_call_at (py_path h) m (conc st w)
      = match locate h w with
        | Some (e, L) =>
            match upd_node h (fl L) w with
            | Some w' => Some (conc st w', r e)
            | None => None
            end
        | None => None
        end.
  Proof.
    intros h w. destruct h as [|i p].
    - cbn [py_path map py_call_at locate upd_node]. unfold conc at 1. rewrite HS.
      destruct (fl 0 (Sect (w_title w) (w_body w))) as [e'|] eqn:Ef; [|reflexivity].
      pose proof (HK _ _ _ Ef) as Hk.
      destruct e' as [| | | | |t' body']; cbn [same_kind] in Hk; try discriminate Hk.
      reflexivity.
    - cbn [py_path map]. unfold conc at 1, mk_writer at 1. rewrite call_at_body.
      cbn [locate node_at upd_node].
      destruct (find_in_body p i 0 0 (w_body w)) as [[[e lvl'] d']|]; [|reflexivity].
      destruct (upd_in_body p i (fl (own lvl' e)) (w_body w)) as [b'|]; reflexivity.
  Qed.
End CallAt.

(* a successful update was at a handle that denotes something *)
Lemma upd_in_body_found : forall f p i lvl d b b',
  upd_in_body p i f b = Some b' -> exists x, find_in_body p i lvl d b = Some x.
Proof.
  intros f p. induction p as [|j p' IH]; intros i lvl d b b' Hu;
    cbn [upd_in_body find_in_body] in *.
  - destruct (nth_error b i) as [e|]; [|discriminate Hu]. eexists. reflexivity.
  - destruct (nth_error b i) as [e|]; [|discriminate Hu].
    destruct e as [| | | |n a o body|t body]; try discriminate Hu.
    + destruct (upd_in_body p' j f body) as [body'|] eqn:E; [|discriminate Hu].
      apply (IH j 0 (S d) body body' E).
    + destruct (upd_in_body p' j f body) as [body'|] eqn:E; [|discriminate Hu].
      apply (IH j (S lvl) 0 body body' E).
Qed.

Lemma upd_node_located : forall f h w w',
  upd_node h f w = Some w' -> exists x, locate h w = Some x.
Proof.
  intros f h w w' Hu. destruct h as [|i p].
  - eexists. reflexivity.
  - cbn [upd_node] in Hu. cbn [locate node_at].
    destruct (upd_in_body p i f (w_body w)) as [b'|] eqn:E; [|discriminate Hu].
    destruct (upd_in_body_found f p i 0 0 (w_body w) b' E) as [[[e lvl] d] Hx].
    rewrite Hx. eexists. reflexivity.
Qed.

(* methods without a result whose model function does not depend on the level *)
Lemma unit_call_at_conc :
  forall st (m : pyobj -> option (pyobj * unit)) (f : elem -> option elem),
    (forall d n a o body,
       m (mk_directive st d n a o (map (conc_elem st 0 (S d)) body))
       = match f (Dir n a o body) with
         | Some (Dir n' a' o' body') =>
             Some (mk_directive st d n' a' o' (map (conc_elem st 0 (S d)) body'), tt)
         | _ => None
         end) ->
    (forall L t body,
       m (mk_writer st L t (map (conc_elem st L 0) body))
       = match f (Sect t body) with
         | Some (Sect t' body') => Some (mk_writer st L t' (map (conc_elem st L 0) body'), tt)
         | _ => None
         end) ->
    (forall e, is_node e = false -> f e = None) ->
    (forall e e', f e = Some e' -> same_kind e e' = true) ->
    forall h w,
      py_unit (py_call_at (py_path h) m (conc st w))
      = match upd_node h f w with
        | Some w' => Some (conc st w', PNone)
        | None => None
        end.
Proof.
  intros st m f HD HS HL HK h w.
  rewrite (call_at_conc unit st m (fun _ => f) (fun _ => tt)); try assumption.
  - destruct (upd_node h f w) as [w'|] eqn:Eu.
    + destruct (upd_node_located f h w w' Eu) as [[e L] Hx]. rewrite Hx. reflexivity.
    + destruct (locate h w) as [[e L]|]; reflexivity.
  - intros _ e. apply HL.
  - intros _ e e'. apply HK.
Qed.

(* ------------------------------------------------------------------ *)
(* C. the constructors and the methods that add a string-builder element *)

Lemma get_indents_of_nat : forall d,
  PySource.get_indents (py_nat_of_int (Z.of_nat d)) = indent d.
Proof.
  intros d. unfold py_nat_of_int. rewrite Nat2Z.id. symmetry. apply get_indents_matches_source.
Qed.

Lemma default_headers_is_class_attribute : default_headers = RSTWriter_heading_level_chars.
Proof. reflexivity. Qed.

Lemma getitem_nat : forall (A : Type) (xs : list A) n,
  py_getitem xs (Z.of_nat n) = nth_error xs n.
Proof.
  intros A xs n. unfold py_getitem, py_norm_index, py_zlen.
  replace (0 <=? Z.of_nat n)%Z with true by (symmetry; apply Z.leb_le; lia).
  destruct (Z.ltb_spec (Z.of_nat n) (Z.of_nat (length xs))) as [Hlt|Hge]; cbn [py_bind].
  - rewrite Nat2Z.id. reflexivity.
  - symmetry. apply nth_error_None. lia.
Qed.

Lemma nth_error_header_char : forall hdrs L, L < length hdrs ->
  nth_error hdrs L = Some (header_char hdrs L).
Proof.
  intros hdrs L HL. unfold header_char. apply nth_error_nth'. exact HL.
Qed.

(* RSTWriter.__init__ on an object that so far has only the class attribute *)
Lemma init_spec : forall o title L st ind,
  f_heading_level_chars o = RSTWriter_heading_level_chars ->
  RSTWriter___init__ o title (Z.of_nat L) st ind
  = match nth_error (eff st) L with
    | None => None
    | Some hc =>
        let o1 := set_header_char (set_indent (set_heading_level_chars
                    (set_settings (set_section_level (set_title o title) (Z.of_nat L)) st)
                    (eff st)) ind) hc in
        py_bind (dispatch_build_heading o1) (fun t => Some (set_document o1 [inl t], tt))
    end.
Proof.
  intros o title L st ind Ho. destruct o as [c t0 l0 x0 h0 i0 hc0 d0 a0 p0].
  cbn [f_heading_level_chars] in Ho. subst h0. unfold RSTWriter___init__.
  destruct st as [h|];
    cbn [py_settings_rst_headers py_bind set_title set_section_level set_settings
         set_heading_level_chars set_indent f_heading_level_chars eff];
    rewrite getitem_nat.
  - destruct (nth_error h L); reflexivity.
  - change RSTWriter_heading_level_chars with default_headers.
    destruct (nth_error default_headers L); reflexivity.
Qed.

(* RSTWriter(title, section_level=L, settings=st): the object the model calls a writer of level L
   without children; IndexError when the heading characters do not reach level L *)
Theorem RSTWriter_new_matches :
  forall st L title,
    RSTWriter_new title (Z.of_nat L) st 0%Z
    = if Nat.ltb L (length (eff st)) then Some (mk_writer st L title []) else None.
Proof.
  intros st L title. unfold RSTWriter_new. rewrite init_spec by reflexivity.
  destruct (Nat.ltb_spec L (length (eff st))) as [Hlt|Hge].
  - rewrite (nth_error_header_char _ L Hlt).
    cbn [py_fresh py_blank set_heading_level_chars set_title
         set_section_level set_settings set_indent set_header_char].
    unfold dispatch_build_heading. cbn [f_cls].
    unfold RSTWriter_build_heading, Heading_new. cbn [f_title f_header_char].
    rewrite <- heading_text_matches_source. reflexivity.
  - replace (nth_error (eff st) L) with (@None str)
      by (symmetry; apply nth_error_None; exact Hge). reflexivity.
Qed.

(* Directive(name, d, *args, settings=st) for a parent of indent d *)
Theorem Directive_new_matches :
  forall st d name args,
    Directive_new name (Z.of_nat d) args st
    = if Nat.ltb 0 (length (eff st)) then Some (mk_directive st d name args [] []) else None.
Proof.
  intros st d name args. unfold Directive_new, Directive___init__.
  change 0%Z with (Z.of_nat 0). rewrite init_spec by reflexivity.
  destruct (Nat.ltb_spec 0 (length (eff st))) as [Hlt|Hge].
  - rewrite (nth_error_header_char _ 0 Hlt).
    cbn [py_fresh py_blank set_heading_level_chars set_arguments set_options set_title
         set_section_level set_settings set_indent set_header_char].
    unfold dispatch_build_heading. cbn [f_cls].
    unfold Directive_build_heading, dispatch_title_get. cbn [f_cls].
    unfold RSTWriter_title_get. cbn [f_title py_bind f_indent f_arguments].
    unfold py_zint_sub, py_zint_add.
    replace (Z.of_nat d + 1 - 1)%Z with (Z.of_nat d) by lia.
    rewrite get_indents_of_nat.
    replace (Z.of_nat d + 1)%Z with (Z.of_nat (S d)) by lia. reflexivity.
  - replace (nth_error (eff st) 0) with (@None str)
      by (symmetry; apply nth_error_None; exact Hge). reflexivity.
Qed.

(* a method that appends a string-builder object whose string depends on the indent only *)
Lemma append_call_at_conc :
  forall st (m : pyobj -> option (pyobj * unit)) (x : elem) (tx : nat -> str),
    (forall lvl d, conc_elem st lvl d x = inl (tx d)) ->
    (forall o, m o = Some (set_document o (py_append (f_document o)
                                             (inl (tx (py_nat_of_int (f_indent o))))), tt)) ->
    forall h w,
      py_unit (py_call_at (py_path h) m (conc st w))
      = match upd_node h (append_child x) w with
        | Some w' => Some (conc st w', PNone)
        | None => None
        end.
Proof.
  intros st m x tx Hx Hm. apply unit_call_at_conc.
  - intros d n a o body. rewrite Hm. cbn [append_child]. unfold mk_directive.
    cbn [set_document f_document f_indent]. unfold py_append, py_nat_of_int.
    rewrite Nat2Z.id. rewrite map_app. cbn [map app]. rewrite Hx. reflexivity.
  - intros L t body. rewrite Hm. cbn [append_child]. unfold mk_writer.
    cbn [set_document f_document f_indent]. unfold py_append, py_nat_of_int.
    cbn [Z.to_nat]. rewrite map_app. cbn [map app]. rewrite Hx. reflexivity.
  - intros e He. destruct e; try reflexivity; discriminate He.
  - intros e e' He. destruct e; cbn [append_child] in He; try discriminate He;
      injection He as He; subst e'; reflexivity.
Qed.

(* what the five element-adding methods do to ANY object *)
Lemma dispatch_text_spec : forall o x,
  dispatch_text o x
  = Some (set_document o (py_append (f_document o)
                            (inl (para_text (py_nat_of_int (f_indent o)) x))), tt).
Proof.
  intros o x. unfold dispatch_text, RSTWriter_text, Paragraph_new, py_elem_of_builder.
  rewrite <- get_indents_matches_source. destruct (f_cls o); reflexivity.
Qed.
Lemma dispatch_field_spec : forall o n x,
  dispatch_field o n x
  = Some (set_document o (py_append (f_document o)
                            (inl (field_text (py_nat_of_int (f_indent o)) n x))), tt).
Proof.
  intros o n x. unfold dispatch_field, RSTWriter_field, Field_new, py_elem_of_builder.
  rewrite <- get_indents_matches_source. destruct (f_cls o); reflexivity.
Qed.
Lemma dispatch_doctest_spec : forall o l x,
  dispatch_doctest o l x
  = Some (set_document o (py_append (f_document o)
                            (inl (doctest_text (py_nat_of_int (f_indent o)) l x))), tt).
Proof.
  intros o l x. unfold dispatch_doctest, RSTWriter_doctest, DocTest_new, py_elem_of_builder.
  rewrite <- get_indents_matches_source. destruct (f_cls o); reflexivity.
Qed.
Lemma dispatch_bulleted_list_spec : forall o items,
  dispatch_bulleted_list o items
  = Some (set_document o (py_append (f_document o)
                            (inl (list_text (py_nat_of_int (f_indent o)) false items))), tt).
Proof.
  intros o items. unfold dispatch_bulleted_list, RSTWriter_bulleted_list, RSTList_new,
    py_elem_of_builder.
  rewrite <- get_indents_matches_source. rewrite <- bulleted_list_matches_source.
  destruct (f_cls o); reflexivity.
Qed.
Lemma dispatch_enumerated_list_spec : forall o items,
  dispatch_enumerated_list o items
  = Some (set_document o (py_append (f_document o)
                            (inl (list_text (py_nat_of_int (f_indent o)) true items))), tt).
Proof.
  intros o items. unfold dispatch_enumerated_list, RSTWriter_enumerated_list, RSTList_new,
    py_elem_of_builder.
  rewrite <- get_indents_matches_source. rewrite <- enumerated_list_matches_source.
  destruct (f_cls o); reflexivity.
Qed.

(* the shape of the model step for an operation without result *)
Lemma unit_step : forall st w (u : option wstate) (r : option (pyobj * pyout)),
  r = match u with
      | Some w' => Some (conc st w', PNone)
      | None => None
      end ->
  r = match (match u with
             | Some st' => (st', WNone)
             | None => (w, WError)
             end) with
      | (_, WError) => None
      | (w', WNone) => Some (conc st w', PNone)
      | (w', WHandle h0) => Some (conc st w', PRef (py_path h0))
      | (w', WText x0) => Some (conc st w', PText x0)
      end.
Proof. intros st w u r ->. destruct u; reflexivity. Qed.

Theorem text_step_matches : forall st w h x,
  py_step (conc st w) (OText h x) = model_step st w (OText h x).
Proof.
  intros st w h x. unfold py_step, model_step, wstep. apply unit_step.
  apply (append_call_at_conc st _ (Para x) (fun d => para_text d x)).
  - reflexivity.
  - intros o. apply dispatch_text_spec.
Qed.
Theorem field_step_matches : forall st w h n x,
  py_step (conc st w) (OField h n x) = model_step st w (OField h n x).
Proof.
  intros st w h n x. unfold py_step, model_step, wstep. apply unit_step.
  apply (append_call_at_conc st _ (Field n x) (fun d => field_text d n x)).
  - reflexivity.
  - intros o. apply dispatch_field_spec.
Qed.
Theorem doctest_step_matches : forall st w h l x,
  py_step (conc st w) (ODocTest h l x) = model_step st w (ODocTest h l x).
Proof.
  intros st w h l x. unfold py_step, model_step, wstep. apply unit_step.
  apply (append_call_at_conc st _ (DocTest l x) (fun d => doctest_text d l x)).
  - reflexivity.
  - intros o. apply dispatch_doctest_spec.
Qed.
Theorem bulleted_list_step_matches : forall st w h items,
  py_step (conc st w) (OBullets h items) = model_step st w (OBullets h items).
Proof.
  intros st w h items. unfold py_step, model_step, wstep. apply unit_step.
  apply (append_call_at_conc st _ (RList false items) (fun d => list_text d false items)).
  - reflexivity.
  - intros o. apply dispatch_bulleted_list_spec.
Qed.
Theorem enumerated_list_step_matches : forall st w h items,
  py_step (conc st w) (OEnum h items) = model_step st w (OEnum h items).
Proof.
  intros st w h items. unfold py_step, model_step, wstep. apply unit_step.
  apply (append_call_at_conc st _ (RList true items) (fun d => list_text d true items)).
  - reflexivity.
  - intros o. apply dispatch_enumerated_list_spec.
Qed.

(* ------------------------------------------------------------------ *)
(* D. option, the title setter, clear                                  *)

Theorem option_step_matches : forall st w h n v,
  py_step (conc st w) (OOption h n v) = model_step st w (OOption h n v).
Proof.
  intros st w h n v. unfold py_step, model_step, wstep.
  set (f := fun e => match e with
                     | Dir nm a o b => Some (Dir nm a (o ++ [(n, v)]) b)
                     | _ => None
                     end).
  assert (Hcall :
    py_unit (py_call_at (py_path h) (fun self => dispatch_option self n v) (conc st w))
    = match upd_node h f w with Some w' => Some (conc st w', PNone) | None => None end).
  { apply unit_call_at_conc.
    - intros d nm a o body. unfold dispatch_option, mk_directive. cbn [f_cls f].
      unfold Directive_option, Option_new. cbn [f_options f_indent set_options].
      rewrite get_indents_of_nat. unfold py_append. rewrite map_app. reflexivity.
    - intros L t body. reflexivity.
    - intros e He. destruct e; try reflexivity; discriminate He.
    - intros e e' He. destruct e; cbn [f] in He; try discriminate He.
      injection He as He. subst e'. reflexivity. }
  rewrite Hcall. destruct h as [|i p].
  - reflexivity.
  - apply unit_step. reflexivity.
Qed.

Theorem set_title_step_matches : forall st w h x,
  py_step (conc st w) (OSetTitle h x) = model_step st w (OSetTitle h x).
Proof.
  intros st w h x. unfold py_step, model_step, wstep. apply unit_step.
  apply unit_call_at_conc.
  - intros d nm a o body. unfold dispatch_title_set, mk_directive. cbn [f_cls].
    unfold RSTWriter_title_set. cbn [set_title]. unfold dispatch_build_heading. cbn [f_cls].
    unfold Directive_build_heading, dispatch_title_get. cbn [f_cls].
    unfold RSTWriter_title_get. cbn [f_title py_bind f_indent f_arguments f_document].
    unfold py_zint_sub. replace (Z.of_nat (S d) - 1)%Z with (Z.of_nat d) by lia.
    rewrite get_indents_of_nat. reflexivity.
  - intros L t body. unfold dispatch_title_set, mk_writer. cbn [f_cls].
    unfold RSTWriter_title_set. cbn [set_title]. unfold dispatch_build_heading. cbn [f_cls].
    unfold RSTWriter_build_heading, Heading_new. cbn [f_title f_header_char py_bind f_document].
    rewrite <- heading_text_matches_source. reflexivity.
  - intros e He. destruct e; try reflexivity; discriminate He.
  - intros e e' He. destruct e; try discriminate He; injection He as He; subst e'; reflexivity.
Qed.

Theorem clear_step_matches : forall st w h,
  py_step (conc st w) (OClear h) = model_step st w (OClear h).
Proof.
  intros st w h. unfold py_step, model_step, wstep. apply unit_step.
  apply unit_call_at_conc.
  - intros d nm a o body. reflexivity.
  - intros L t body. reflexivity.
  - intros e He. destruct e; try reflexivity; discriminate He.
  - intros e e' He. destruct e; try discriminate He; injection He as He; subst e'; reflexivity.
Qed.

(* ------------------------------------------------------------------ *)
(* E. directive() and section(): new writers and the returned reference *)

Lemma upd_in_body_ext_at : forall f g p i lvl d b e l' d',
  find_in_body p i lvl d b = Some (e, l', d') -> f e = g e ->
  upd_in_body p i f b = upd_in_body p i g b.
Proof.
  intros f g p. induction p as [|j p' IH]; intros i lvl d b e l' d' Hf Heq;
    cbn [find_in_body upd_in_body] in *.
  - destruct (nth_error b i) as [e0|]; [|reflexivity].
    injection Hf as He _ _. subst e0. rewrite Heq. reflexivity.
  - destruct (nth_error b i) as [e0|]; [|reflexivity].
    destruct e0 as [| | | |n a o body|t body]; try reflexivity.
    + rewrite (IH j 0 (S d) body e l' d' Hf Heq). reflexivity.
    + rewrite (IH j (S lvl) 0 body e l' d' Hf Heq). reflexivity.
Qed.

Lemma upd_node_ext_at : forall f g h w e L,
  locate h w = Some (e, L) -> f e = g e -> upd_node h f w = upd_node h g w.
Proof.
  intros f g h w e L Hl Heq. destruct h as [|i p].
  - cbn [locate] in Hl. injection Hl as He _. subst e. cbn [upd_node]. rewrite Heq. reflexivity.
  - cbn [locate node_at] in Hl. cbn [upd_node].
    destruct (find_in_body p i 0 0 (w_body w)) as [[[e0 l0] d0]|] eqn:Ef; [|discriminate Hl].
    injection Hl as He _. subst e0.
    rewrite (upd_in_body_ext_at f g p i 0 0 (w_body w) e l0 d0 Ef Heq). reflexivity.
Qed.

Lemma upd_in_body_const_none : forall p i b,
  upd_in_body p i (fun _ => None) b = None.
Proof.
  induction p as [|j p' IH]; intros i b; cbn [upd_in_body].
  - destruct (nth_error b i); reflexivity.
  - destruct (nth_error b i) as [e|]; [|reflexivity].
    destruct e; try reflexivity; rewrite IH; reflexivity.
Qed.

Lemma upd_node_none_at : forall f h w e L,
  locate h w = Some (e, L) -> f e = None -> upd_node h f w = None.
Proof.
  intros f h w e L Hl Hn.
  rewrite (upd_node_ext_at f (fun _ => None) h w e L Hl Hn).
  destruct h as [|i p]; cbn [upd_node].
  - reflexivity.
  - rewrite upd_in_body_const_none. reflexivity.
Qed.

Lemma upd_node_not_located : forall f h w, locate h w = None -> upd_node h f w = None.
Proof.
  intros f h w Hl. destruct (upd_node h f w) as [w'|] eqn:Eu; [|reflexivity].
  destruct (upd_node_located f h w w' Eu) as [x Hx]. rewrite Hx in Hl. discriminate Hl.
Qed.

Lemma count_at_located : forall h w e L,
  locate h w = Some (e, L) -> count_at h w = children_count e.
Proof.
  intros h w e L Hl. destruct h as [|i p].
  - cbn [locate] in Hl. injection Hl as He _. subst e. reflexivity.
  - cbn [locate] in Hl. cbn [count_at].
    destruct (node_at (i :: p) w) as [[[e0 l0] d0]|]; [|discriminate Hl].
    injection Hl as He _. subst e0. reflexivity.
Qed.

Lemma own_level_located : forall h w e L,
  locate h w = Some (e, L) -> own_level h w = if is_node e then Some L else None.
Proof.
  intros h w e L Hl. destruct h as [|i p].
  - cbn [locate] in Hl. injection Hl as He HL. subst e L. reflexivity.
  - cbn [locate] in Hl. cbn [own_level].
    destruct (node_at (i :: p) w) as [[[e0 l0] d0]|]; [|discriminate Hl].
    injection Hl as He HL. subst e0 L. destruct e; reflexivity.
Qed.

Lemma own_level_not_located : forall h w, locate h w = None -> own_level h w = None.
Proof.
  intros h w Hl. destruct h as [|i p]; [discriminate Hl|].
  cbn [locate] in Hl. cbn [own_level].
  destruct (node_at (i :: p) w) as [[[e0 l0] d0]|]; [discriminate Hl|reflexivity].
Qed.

(* the position the next appended element gets in self.document *)
Definition next_position (e : elem) : nat :=
  match children_count e with Some n => S n | None => 0 end.

Lemma py_path_snoc : forall h n, py_path h ++ [S n] = py_path (h ++ [n]).
Proof. intros h n. unfold py_path. rewrite map_app. reflexivity. Qed.

Theorem directive_step_matches : forall st w h name args,
  eff st <> [] ->
  py_step (conc st w) (ODirective h name args) = model_step st w (ODirective h name args).
Proof.
  intros st w h name args Hne.
  assert (Hlen : Nat.ltb 0 (length (eff st)) = true).
  { apply Nat.ltb_lt. destruct (eff st); [contradiction Hne; reflexivity|cbn [length]; lia]. }
  unfold py_step, model_step, wstep.
  rewrite (call_at_conc nat st (fun self => dispatch_directive self name args)
             (fun _ => append_child (Dir name args [] [])) next_position).
  - destruct (locate h w) as [[e L]|] eqn:El.
    + rewrite (count_at_located h w e L El).
      destruct (upd_node h (append_child (Dir name args [] [])) w) as [w'|] eqn:Eu.
      * destruct e as [| | | |n a o body|t body];
          try (rewrite (upd_node_none_at _ h w _ L El) in Eu by reflexivity; discriminate Eu);
          cbn [children_count next_position py_ref py_bind]; rewrite py_path_snoc; reflexivity.
      * destruct (children_count e); reflexivity.
    + rewrite (upd_node_not_located _ h w El). destruct (count_at h w); reflexivity.
  - intros d n a o body. unfold dispatch_directive, mk_directive. cbn [f_cls].
    unfold RSTWriter_directive. cbn [f_indent f_settings].
    rewrite Directive_new_matches, Hlen. cbn [py_bind append_child f_document set_document].
    unfold py_append, py_elem_of_writer, py_len. cbn [length next_position children_count].
    rewrite map_length. rewrite map_app. reflexivity.
  - intros L t body. unfold dispatch_directive, mk_writer. cbn [f_cls].
    unfold RSTWriter_directive. cbn [f_indent f_settings].
    change 0%Z with (Z.of_nat 0).
    rewrite Directive_new_matches, Hlen. cbn [py_bind append_child f_document set_document].
    unfold py_append, py_elem_of_writer, py_len. cbn [length next_position children_count].
    rewrite map_length. rewrite map_app. reflexivity.
  - intros _ e He. destruct e; try reflexivity; discriminate He.
  - intros _ e e' He. destruct e; cbn [append_child] in He; try discriminate He;
      injection He as He; subst e'; reflexivity.
Qed.

Theorem section_step_matches : forall st w h title,
  py_step (conc st w) (OSection h title) = model_step st w (OSection h title).
Proof.
  intros st w h title.
  unfold py_step, model_step, wstep.
  rewrite (call_at_conc nat st (fun self => dispatch_section self title)
             (fun L e => if Nat.ltb (S L) (length (eff st))
                         then append_child (Sect title []) e else None) next_position).
  - destruct (locate h w) as [[e L]|] eqn:El.
    + rewrite (count_at_located h w e L El), (own_level_located h w e L El).
      destruct e as [| | | |n a o body|t body]; cbn [is_node children_count];
        try (rewrite (upd_node_none_at _ h w _ L El)
               by (destruct (Nat.ltb (S L) (length (eff st))); reflexivity); reflexivity).
      * destruct (Nat.ltb (S L) (length (eff st))) eqn:Elt.
        -- rewrite (upd_node_ext_at _ (append_child (Sect title [])) h w _ L El)
             by reflexivity.
           destruct (upd_node h (append_child (Sect title [])) w) as [w'|]; [|reflexivity].
           cbn [next_position children_count py_ref py_bind]. rewrite py_path_snoc. reflexivity.
        -- rewrite (upd_node_none_at _ h w _ L El) by reflexivity. reflexivity.
      * destruct (Nat.ltb (S L) (length (eff st))) eqn:Elt.
        -- rewrite (upd_node_ext_at _ (append_child (Sect title [])) h w _ L El)
             by reflexivity.
           destruct (upd_node h (append_child (Sect title [])) w) as [w'|]; [|reflexivity].
           cbn [next_position children_count py_ref py_bind]. rewrite py_path_snoc. reflexivity.
        -- rewrite (upd_node_none_at _ h w _ L El) by reflexivity. reflexivity.
    + rewrite (own_level_not_located h w El). reflexivity.
  - intros d n a o body. unfold dispatch_section, mk_directive. cbn [f_cls].
    unfold RSTWriter_section. cbn [f_section_level f_settings].
    unfold py_zint_add. change (0 + 1)%Z with (Z.of_nat 1).
    rewrite RSTWriter_new_matches.
    destruct (Nat.ltb 1 (length (eff st))); [|reflexivity].
    cbn [py_bind append_child f_document set_document].
    unfold py_append, py_elem_of_writer, py_len. cbn [length next_position children_count].
    rewrite map_length. rewrite map_app. reflexivity.
  - intros L t body. unfold dispatch_section, mk_writer. cbn [f_cls].
    unfold RSTWriter_section. cbn [f_section_level f_settings].
    unfold py_zint_add. replace (Z.of_nat L + 1)%Z with (Z.of_nat (S L)) by lia.
    rewrite RSTWriter_new_matches.
    destruct (Nat.ltb (S L) (length (eff st))); [|reflexivity].
    cbn [py_bind append_child f_document set_document].
    unfold py_append, py_elem_of_writer, py_len. cbn [length next_position children_count].
    rewrite map_length. rewrite map_app. reflexivity.
  - intros L e He. destruct (Nat.ltb (S L) (length (eff st))); [|reflexivity].
    destruct e; try reflexivity; discriminate He.
  - intros L e e' He. destruct (Nat.ltb (S L) (length (eff st))); [|discriminate He].
    destruct e; cbn [append_child] in He; try discriminate He;
      injection He as He; subst e'; reflexivity.
Qed.

(* ------------------------------------------------------------------ *)
(* F. to_text at a handle; the step theorem; histories                 *)

Lemma get_at_cons : forall i q o,
  py_get_at (i :: q) o
  = match nth_error (f_document o) i with
    | Some (inr c) => py_get_at q c
    | _ => None
    end.
Proof. reflexivity. Qed.

Lemma get_at_body :
  forall st p i lvl d b c t sl x hl ind hc hd args opts,
    py_get_at (S i :: map S p)
      (PyObj c t sl x hl ind hc (hd :: map (conc_elem st lvl d) b) args opts)
    = match find_in_body p i lvl d b with
      | Some (e, l', d') =>
          match conc_elem st l' d' e with inr o => Some o | inl _ => None end
      | None => None
      end.
Proof.
  intros st p. induction p as [|j p' IH]; intros i lvl d b c t sl x hl ind hc hd args opts.
  - cbn [map py_get_at f_document nth_error find_in_body]. rewrite nth_error_map.
    destruct (nth_error b i) as [e|]; cbn [option_map]; [|reflexivity].
    destruct (conc_elem st lvl d e); reflexivity.
  - cbn [map find_in_body]. rewrite get_at_cons. cbn [f_document nth_error].
    rewrite nth_error_map.
    destruct (nth_error b i) as [e|]; cbn [option_map]; [|reflexivity].
    destruct e as [| | | |n a o body|tt0 body]; cbn [conc_elem]; try reflexivity.
    + unfold mk_directive. apply (IH j 0 (S d) body).
    + unfold mk_writer. apply (IH j (S lvl) 0 body).
Qed.

Theorem to_text_step_matches : forall st w h,
  py_step (conc st w) (OToText h) = model_step st w (OToText h).
Proof.
  intros st w h. unfold py_step, model_step, wstep. destruct h as [|i p].
  - cbn [py_path map py_get_at py_bind].
    change (dispatch_to_text (conc st w)) with (RSTWriter_to_text (conc st w)).
    rewrite to_text_matches. reflexivity.
  - cbn [py_path map node_at]. unfold conc at 1, mk_writer at 1. rewrite get_at_body.
    destruct (find_in_body p i 0 0 (w_body w)) as [[[e l'] d']|]; [|reflexivity].
    destruct (conc_elem st l' d' e) as [u|o] eqn:Ec.
    + destruct e; cbn [conc_elem] in Ec; try discriminate Ec; reflexivity.
    + cbn [py_bind]. rewrite (dispatch_to_text_matches st l' d' e o Ec).
      destruct e; cbn [conc_elem] in Ec; try discriminate Ec; reflexivity.
Qed.

(* ONE API CALL: the generated method, applied at the handle of a tree that represents the
   model state w, yields the tree that represents the model's next state and the same result
   (the returned handle of section() / directive(), the text of to_text()); it raises exactly
   when the model reports an error.  eff st <> [] : the top-level writer exists (its own
   __init__ indexes heading_level_chars[0]); only directive() needs it. *)
Theorem py_step_matches : forall st w o,
  eff st <> [] -> py_step (conc st w) o = model_step st w o.
Proof.
  intros st w o Hne. destruct o.
  - apply text_step_matches.
  - apply field_step_matches.
  - apply bulleted_list_step_matches.
  - apply enumerated_list_step_matches.
  - apply doctest_step_matches.
  - apply directive_step_matches. exact Hne.
  - apply section_step_matches.
  - apply option_step_matches.
  - apply set_title_step_matches.
  - apply clear_step_matches.
  - apply to_text_step_matches.
Qed.

(* in the words of the representation relation *)
Corollary py_step_represents : forall st t w o t' r,
  eff st <> [] -> represents st t w -> py_step t o = Some (t', r) ->
  exists w' out, wstep (eff st) w o = (w', out) /\ out <> WError /\ represents st t' w'
                 /\ r = match out with
                        | WHandle h => PRef (py_path h)
                        | WText x => PText x
                        | _ => PNone
                        end.
Proof.
  intros st t w o t' r Hne Hrep Hstep. unfold represents in *. subst t.
  rewrite (py_step_matches st w o Hne) in Hstep. unfold model_step in Hstep.
  destruct (wstep (eff st) w o) as [w' out]. exists w', out.
  destruct out; try discriminate Hstep; injection Hstep as Ht Hr; subst t' r;
    (split; [reflexivity|split; [discriminate|split; reflexivity]]).
Qed.

(* the initial state: RSTWriter(title, settings=st) *)
Theorem init_matches : forall st title,
  eff st <> [] -> RSTWriter_new title 0%Z st 0%Z = Some (conc st (winit title)).
Proof.
  intros st title Hne. change 0%Z with (Z.of_nat 0) at 1. rewrite RSTWriter_new_matches.
  replace (Nat.ltb 0 (length (eff st))) with true.
  - reflexivity.
  - symmetry. apply Nat.ltb_lt. destruct (eff st); [contradiction Hne; reflexivity|cbn [length]; lia].
Qed.

(* histories *)
Lemma model_step_state : forall st w o,
  py_bind (model_step st w o) (fun r => Some (fst r))
  = option_map (conc st)
      (match wstep (eff st) w o with (_, WError) => None | (w', _) => Some w' end).
Proof.
  intros st w o. unfold model_step. destruct (wstep (eff st) w o) as [w' out].
  destruct out; reflexivity.
Qed.

Lemma run_none_py : forall ops,
  fold_left (fun acc o => py_bind acc (fun t => py_bind (py_step t o) (fun r => Some (fst r))))
            ops None = None.
Proof. induction ops as [|o r IH]; [reflexivity|exact IH]. Qed.
Lemma run_none_model : forall st ops,
  fold_left (fun acc o => py_bind acc (fun w =>
               match wstep (eff st) w o with (_, WError) => None | (w', _) => Some w' end))
            ops None = None.
Proof. intros st. induction ops as [|o r IH]; [reflexivity|exact IH]. Qed.

Theorem py_run_matches : forall st ops w,
  eff st <> [] -> py_run (conc st w) ops = option_map (conc st) (model_run st w ops).
Proof.
  intros st ops. induction ops as [|o r IH]; intros w Hne.
  - reflexivity.
  - unfold py_run, model_run in *. cbn [fold_left py_bind].
    rewrite (py_step_matches st w o Hne). rewrite model_step_state.
    destruct (wstep (eff st) w o) as [w' out].
    destruct out; cbn [option_map]; try (apply IH; exact Hne);
      rewrite run_none_py, run_none_model; reflexivity.
Qed.

(* ANY history of API calls run through the generated methods, then to_text: the model's run *)
Theorem history_to_text_matches : forall st ops w,
  eff st <> [] ->
  py_bind (py_run (conc st w) ops) RSTWriter_to_text
  = py_bind (model_run st w ops)
      (fun w' => Some (doc_text (eff st) (w_title w') (w_body w'))).
Proof.
  intros st ops w Hne. rewrite (py_run_matches st ops w Hne).
  destruct (model_run st w ops) as [w'|]; cbn [option_map py_bind]; [|reflexivity].
  apply to_text_matches.
Qed.

(* the same from the constructor call on *)
Corollary program_to_text_matches : forall st title ops,
  eff st <> [] ->
  py_bind (RSTWriter_new title 0%Z st 0%Z) (fun t => py_bind (py_run t ops) RSTWriter_to_text)
  = py_bind (model_run st (winit title) ops)
      (fun w' => Some (doc_text (eff st) (w_title w') (w_body w'))).
Proof.
  intros st title ops Hne. rewrite (init_matches st title Hne). cbn [py_bind].
  apply history_to_text_matches. exact Hne.
Qed.

(* model_run is the model's own wrun when no operation reports an error *)
Theorem model_run_wrun : forall st ops w,
  forallb no_error (snd (wrun (eff st) w ops)) = true ->
  model_run st w ops = Some (fst (wrun (eff st) w ops)).
Proof.
  intros st ops. unfold model_run. induction ops as [|o r IH]; intros w Hok.
  - reflexivity.
  - cbn [fold_left py_bind wrun] in *.
    destruct (wstep (eff st) w o) as [w' out].
    destruct (wrun (eff st) w' r) as [w'' outs] eqn:Er.
    cbn [snd fst forallb] in *. apply andb_prop in Hok. destruct Hok as [Ho Hr].
    specialize (IH w'). rewrite Er in IH. cbn [snd fst] in IH.
    destruct out; try discriminate Ho; apply IH; exact Hr.
Qed.

Corollary history_to_text_wrun : forall st ops title,
  eff st <> [] ->
  forallb no_error (snd (wrun (eff st) (winit title) ops)) = true ->
  py_bind (RSTWriter_new title 0%Z st 0%Z) (fun t => py_bind (py_run t ops) RSTWriter_to_text)
  = (let w' := fst (wrun (eff st) (winit title) ops) in
     Some (doc_text (eff st) (w_title w') (w_body w'))).
Proof.
  intros st ops title Hne Hok. rewrite (program_to_text_matches st title ops Hne).
  rewrite (model_run_wrun st ops (winit title) Hok). reflexivity.
Qed.

(* ------------------------------------------------------------------ *)
(* the remaining methods: the title getter and build_heading            *)

Theorem title_get_matches : forall st w, dispatch_title_get (conc st w) = Some (w_title w).
Proof. reflexivity. Qed.

Theorem build_heading_matches_writer : forall st L t body,
  dispatch_build_heading (mk_writer st L t body)
  = Some (heading_text (header_char (eff st) L) t).
Proof.
  intros st L t body. unfold dispatch_build_heading, mk_writer. cbn [f_cls].
  unfold RSTWriter_build_heading, Heading_new. cbn [f_title f_header_char].
  rewrite <- heading_text_matches_source. reflexivity.
Qed.

Theorem build_heading_matches_directive : forall st d name args opts body,
  dispatch_build_heading (mk_directive st d name args opts body)
  = Some (dir_heading d name args).
Proof.
  intros st d name args opts body. unfold dispatch_build_heading, mk_directive. cbn [f_cls].
  unfold Directive_build_heading, dispatch_title_get. cbn [f_cls].
  unfold RSTWriter_title_get. cbn [f_title py_bind f_indent f_arguments].
  unfold py_zint_sub. replace (Z.of_nat (S d) - 1)%Z with (Z.of_nat d) by lia.
  rewrite get_indents_of_nat. reflexivity.
Qed.

(* the constant defaults of the signatures: d.option(n) is OOption h n [] ; the top-level call
   RSTWriter(title, settings=st) is RSTWriter_new title 0 st 0 (init_matches) *)
Theorem default_arguments_pinned :
  Directive_option_default_value = [] /\
  RSTWriter___init___default_section_level = 0%Z /\
  RSTWriter___init___default_indent = 0%Z /\
  Directive___init___default_indent = 0%Z.
Proof. repeat split. Qed.

(* why the representation goes from the model to the objects: a string-builder object keeps
   only its string, and different model elements can have the same string, so there is no
   abstraction FUNCTION from object trees to model states *)
Example conc_not_injective :
  conc_elem None 0 0 (Para ([nl] ++ s":a: b")) = conc_elem None 0 0 (Field (s"a") (s"b")).
Proof. vm_compute. reflexivity. Qed.

(* ------------------------------------------------------------------ *)
(* examples (vm_compute) *)

(* non-vacuity: the concrete history has no error, with the default and with custom headers *)
Example ex_no_error :
  forallb no_error (snd (wrun (eff None) (winit (s"top")) ex_ops)) = true.
Proof. vm_compute. reflexivity. Qed.
Example ex_headers_nonempty : eff None <> [] /\ eff (Some [s"="; s"-"; s"~"; s"^"]) <> [].
Proof. split; discriminate. Qed.

(* the generated methods on the concrete history: the tree is the representation of the model
   state, every intermediate result agrees, and the final text is the model's *)
Example ex_run_tree :
  py_bind (RSTWriter_new (s"top") 0%Z None 0%Z) (fun t => py_run t ex_ops)
  = Some (conc None ex_state).
Proof. vm_compute. reflexivity. Qed.
Example ex_run_text :
  py_bind (RSTWriter_new (s"top") 0%Z None 0%Z) (fun t => py_bind (py_run t ex_ops) RSTWriter_to_text)
  = Some (doc_text default_headers (w_title ex_state) (w_body ex_state)).
Proof. vm_compute. reflexivity. Qed.
Example ex_run_text_custom_headers :
  let st := Some [s"="; s"-"; s"~"; s"^"] in
  py_bind (RSTWriter_new (s"top") 0%Z st 0%Z) (fun t => py_bind (py_run t ex_ops) RSTWriter_to_text)
  = (let w' := fst (wrun (eff st) (winit (s"top")) ex_ops) in
     Some (doc_text (eff st) (w_title w') (w_body w'))).
Proof. vm_compute. reflexivity. Qed.
(* a piece of the text, to see that it is the expected RST: the directive nested three deep *)
Example ex_text_of_innermost_directive :
  py_bind (py_run (conc None (winit (s"top"))) ex_ops) (fun t =>
  py_bind (py_get_at (py_path [1;1;1]) t) dispatch_to_text)
  = Some ([nl] ++ s"      .. code-block:: cmake" ++ [nl]
          ++ s"         :linenos: " ++ [nl] ++ [nl]
          ++ s"         foo(1)" ++ [nl] ++ s"         bar(2)" ++ [nl]).
Proof. vm_compute. reflexivity. Qed.
(* the returned references *)
Example ex_returned_handles :
  map (fun o => option_map snd (py_step (conc None ex_state) o))
      [ODirective [1;1] (s"x") []; OSection [2;1;1] (s"y"); OSection [7] (s"z");
       OOption [2] (s"k") (s"v"); OText [1;0] (s"on a paragraph")]
  = [Some (PRef [2;2;4]); Some (PRef [3;2;2;2]); None; None; None].
Proof. vm_compute. reflexivity. Qed.
(* errors are exceptions: a section below the last heading character *)
Example ex_section_too_deep :
  let st := Some [s"="; s"-"] in
  py_step (conc st (winit (s"t"))) (OSection [] (s"a")) <> None /\
  py_bind (py_step (conc st (winit (s"t"))) (OSection [] (s"a"))) (fun r =>
    py_step (fst r) (OSection [0] (s"b"))) = None /\
  snd (wstep (eff st) (fst (wstep (eff st) (winit (s"t")) (OSection [] (s"a")))) (OSection [0] (s"b")))
  = WError.
Proof. vm_compute. repeat split. discriminate. Qed.

(* REFUTED without the hypothesis eff st <> []: with settings.rst.headers = [] the model lets
   directive() succeed, the code raises IndexError (Directive.__init__ -> RSTWriter.__init__
   evaluates heading_level_chars[0]).  Not reachable: with such settings the top-level
   RSTWriter(...) call itself raises (ex_no_root_without_headers), so no writer exists on which
   directive() could be called; the model state conc (Some []) w represents no Python object. *)
Example directive_step_refuted :
  py_step (conc (Some []) (winit (s"t"))) (ODirective [] (s"note") []) = None /\
  model_step (Some []) (winit (s"t")) (ODirective [] (s"note") [])
  = Some (conc (Some []) {| w_title := s"t"; w_body := [Dir (s"note") [] [] []] |}, PRef [1]).
Proof. vm_compute. split; reflexivity. Qed.
Example ex_no_root_without_headers : RSTWriter_new (s"t") 0%Z (Some []) 0%Z = None.
Proof. vm_compute. reflexivity. Qed.

(* ==== MAIN THEOREMS ====
   to_text_matches  str_elem_matches  dispatch_to_text_matches
   section_to_text_matches  directive_to_text_matches
   RSTWriter_new_matches  Directive_new_matches  init_matches
   default_arguments_pinned  title_get_matches  build_heading_matches_writer  build_heading_matches_directive
   text_step_matches field_step_matches doctest_step_matches bulleted_list_step_matches
   enumerated_list_step_matches option_step_matches set_title_step_matches clear_step_matches
   directive_step_matches section_step_matches to_text_step_matches
   py_step_matches  py_step_represents
   py_run_matches  history_to_text_matches  program_to_text_matches
   model_run_wrun  history_to_text_wrun
   directive_step_refuted (the hypothesis eff st <> [] of directive_step_matches is needed) *)
Print Assumptions to_text_matches.
Print Assumptions str_elem_matches.
Print Assumptions dispatch_to_text_matches.
Print Assumptions section_to_text_matches.
Print Assumptions directive_to_text_matches.
Print Assumptions RSTWriter_new_matches.
Print Assumptions Directive_new_matches.
Print Assumptions init_matches.
Print Assumptions build_heading_matches_writer.
Print Assumptions build_heading_matches_directive.
Print Assumptions py_step_matches.
Print Assumptions py_step_represents.
Print Assumptions py_run_matches.
Print Assumptions history_to_text_matches.
Print Assumptions program_to_text_matches.
Print Assumptions model_run_wrun.
Print Assumptions history_to_text_wrun.
Print Assumptions directive_step_refuted.
