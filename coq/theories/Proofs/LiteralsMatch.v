(* Proofs/LiteralsMatch.v -- pin-by-equality.  Gen/SourceLiterals.v is regenerated from the
   Python sources on every run; each theorem below says that the constants the hand-written
   model computes with are exactly the constants the corresponding Python function contains
   now, in source order.  A changed literal, a changed keyword, a changed character set, a
   changed directive name or warning text breaks one of these equalities. *)
From Coq Require Import String List NArith Bool Arith.
From CMinx Require Import Base.Str Model.Lexer Model.Writer Model.DocTypes Model.Aggregator
     Model.Naming Model.Walk Gen.SourceLiterals.
Import ListNotations.

Fixpoint get (k : str) (t : list (str * list str)) : list str :=
  match t with
  | [] => []
  | (k', v) :: r => if str_eqb k k' then v else get k r
  end.

Fixpoint geti (k : str) (t : list (str * list nat)) : list nat :=
  match t with
  | [] => []
  | (k', v) :: r => if str_eqb k k' then v else geti k r
  end.

Definition F := fmark.

(* ---- aggregator.py ----------------------------------------------------------------- *)

(* lstrip / rstrip character sets, the optional single space, the line separator *)
Theorem clean_doc_lines_literals :
  get (s"DocumentationAggregator.clean_doc_lines") aggregator_strings
  = [[hash]; doc_lstrip_set; [sp]; doc_rstrip_set; [nl]; [nl]].
Proof. reflexivity. Qed.

(* slice/index constants of clean_doc_lines: [-1] [0] [1:] [-1] [1:] *)
Theorem clean_doc_lines_ints :
  geti (s"DocumentationAggregator.clean_doc_lines") aggregator_ints = [0; 0; 1; 1; 1; 0; 1; 1; 1; 1].
Proof. reflexivity. Qed.

Theorem ct_add_test_literals :
  get (s"DocumentationAggregator.process_ct_add_test") aggregator_strings
  = [[nl]; F; []; kw_name; [nl]; F; kw_expectfail]
  /\ get (s"DocumentationAggregator.process_ct_add_section") aggregator_strings
  = [[nl]; F; []; kw_name; [nl]; F; kw_expectfail]
  /\ geti (s"DocumentationAggregator.process_ct_add_test") aggregator_ints = [2; 0; 1]
  /\ geti (s"DocumentationAggregator.process_ct_add_section") aggregator_ints = [2; 0; 1].
Proof. repeat split; reflexivity. Qed.

Theorem add_test_literals :
  get (s"DocumentationAggregator.process_add_test") aggregator_strings
  = [[nl]; F; []; kw_name; [nl]; F]
  /\ geti (s"DocumentationAggregator.process_add_test") aggregator_ints = [2; 1; 0; 1; 0; 1].
Proof. split; reflexivity. Qed.

Theorem process_set_literals :
  get (s"DocumentationAggregator.process_set") aggregator_strings = [[nl]; F; s" "; [dq]; [dq]]
  /\ geti (s"DocumentationAggregator.process_set") aggregator_ints = [1; 0; 1; 1; 1; 1; 1; 2; 0; 1; 1; 1].
Proof. split; reflexivity. Qed.

Theorem process_option_literals :
  get (s"DocumentationAggregator.process_option") aggregator_strings = [[nl]; F; s"bool"]
  /\ geti (s"DocumentationAggregator.process_option") aggregator_ints = [2; 3; 0; 3; 2; 1].
Proof. split; reflexivity. Qed.

Theorem class_member_attr_ints :
  geti (s"DocumentationAggregator.process_cpp_class") aggregator_ints = [1; 0; 1; 0; 1; 1]
  /\ geti (s"DocumentationAggregator.process_cpp_member") aggregator_ints = [2; 0; 1; 1; 0; 2; 2]
  /\ geti (s"DocumentationAggregator.process_cpp_attr") aggregator_ints = [2; 0; 1; 0; 1; 2; 2]
  /\ geti (s"DocumentationAggregator.process_function") aggregator_ints = [1; 1; 0]
  /\ geti (s"DocumentationAggregator.process_macro") aggregator_ints = [1; 1; 0]
  /\ geti (s"DocumentationAggregator.enterCommand_invocation") aggregator_ints = [2; 2].
Proof. repeat split; reflexivity. Qed.

Theorem argument_text_literals :
  get (s"DocumentationAggregator._argument_text") aggregator_strings = [[lpar]; s" "; [rpar]].
Proof. reflexivity. Qed.

(* the command names of the enterCommand_invocation chain, in order *)
Theorem enter_command_literals :
  get (s"DocumentationAggregator.enterCommand_invocation") aggregator_strings
  = [s"cpp_class"; s"cpp_end_class"; s"cmake_parse_arguments"; []; s"function"; s"macro"; [];
     s"macro"; s"endfunction"; s"endmacro"; s"set"; s"generic_command"; s"process_"; F;
     s"include_undocumented_"; F; s"process_"; F; []; s"function"; s"macro"].
Proof. reflexivity. Qed.

Theorem enter_documented_literals :
  get (s"DocumentationAggregator.enterDocumented_command") aggregator_strings
  = [[nl]; s"generic_command"; s"process_"; F; s"process_"; F].
Proof. reflexivity. Qed.

Theorem module_doc_literals :
  get (s"DocumentationAggregator.enterDocumented_module") aggregator_strings
  = [[nl]; [nl]; module_kw; []; [nl]].
Proof. reflexivity. Qed.

(* dispatch by reflection: the process_<command> methods that exist are exactly the keys of the
   model's handler table plus the fallback process_generic_command *)
Definition process_prefix : str := s"DocumentationAggregator.process_".
Definition reflected : list str :=
  map (skipn (length process_prefix)) (filter (startswith process_prefix) aggregator_functions).
Definition subset (a b : list str) : bool := forallb (fun x => mem_str x b) a.

Theorem dispatch_names_match :
  subset reflected (s"generic_command" :: map fst handler_table) = true
  /\ subset (s"generic_command" :: map fst handler_table) reflected = true.
Proof. split; vm_compute; reflexivity. Qed.

(* ---- documentation_types.py --------------------------------------------------------- *)

Theorem function_doc_literals :
  get (s"FunctionDocumentation.process") doctypes_strings
  = [kwargs_lit; s"function"; F; s"("; F; s" "; s")"]
  /\ get (s"MacroDocumentation.process") doctypes_strings
  = [kwargs_lit; s"function"; F; s"("; F; s" "; s")"; s"note"; macro_note].
Proof. split; reflexivity. Qed.

Theorem variable_doc_literals :
  get (s"VariableDocumentation.process") doctypes_strings
  = [s"data"; F; s"Default value"; vartype_text VString; vartype_text VList; vartype_text VUnset;
     s"type"].
Proof. reflexivity. Qed.

(* the option note is the dedent of the triple-quoted block: each line loses its 12 leading spaces *)
Definition indent12 (x : str) : str := repeat sp 12 ++ x.
Theorem option_doc_literals :
  get (s"OptionDocumentation.process") doctypes_strings
  = [s"data"; F; s"note";
     [nl] ++ indent12 (s"This variable is a user-editable option,") ++ [nl]
     ++ indent12 (s"meaning it appears within the cache and can be") ++ [nl]
     ++ indent12 (s"edited on the command line by the :code:`-D` flag.") ++ [nl] ++ repeat sp 12;
     s"Help text"; s"Default value"; s"OFF"; s"type"].
Proof. reflexivity. Qed.

Theorem generic_doc_literals :
  get (s"GenericCommandDocumentation.process") doctypes_strings
  = [s"function"; F; s"("; F; s" "; s")"; s"warning"; generic_warning].
Proof. reflexivity. Qed.

Theorem ctest_doc_literals :
  get (s"CTestDocumentation.process") doctypes_strings
  = [s"function"; F; s"("; F; s" "; s")"; s"warning"; ctest_warning].
Proof. reflexivity. Qed.

Theorem test_doc_literals :
  get (s"TestDocumentation.process") doctypes_strings
  = [s"function"; F; s"("; F; kw_expectfail; []; s")"; s"warning"; test_warning]
  /\ get (s"SectionDocumentation.process") doctypes_strings
  = [s"function"; F; s"("; F; kw_expectfail; []; s")"; s"warning"; section_warning].
Proof. split; reflexivity. Qed.

Theorem method_doc_literals :
  get (s"MethodDocumentation.process") doctypes_strings
  = [s", "; s"args"; s"[, ...]"; []; s"py:method"; F; s"("; F; s")"; s"note"; method_macro_note;
     s":param "; F; s":"; s"param "; F; []; s":type "; F; s":"; s"type "; F].
Proof. reflexivity. Qed.

Theorem attribute_doc_literals :
  get (s"AttributeDocumentation.process") doctypes_strings = [s"py:attribute"; F; s"value"].
Proof. reflexivity. Qed.

Theorem class_doc_literals :
  get (s"ClassDocumentation.process") doctypes_strings
  = [s"py:class"; F; s"Bases: "; s", "; s":class:`"; F; s"`"; [nl];
     s"**Additional Constructors**"; s"**Methods**"; s"**Attributes**"; s"**Inner classes**";
     s"class"].
Proof. reflexivity. Qed.

Theorem module_doc_type_literals :
  get (s"ModuleDocumentation.process") doctypes_strings = [s"module"].
Proof. reflexivity. Qed.

(* ---- rstwriter.py ------------------------------------------------------------------- *)

Theorem indent_unit_literal :
  get (s"get_indents") rstwriter_strings = [[]; spaces indent_unit].
Proof. reflexivity. Qed.

Theorem paragraph_literals :
  get (s"Paragraph.build_text_string") rstwriter_strings = [[nl]; [nl]].
Proof. reflexivity. Qed.

Theorem field_literals :
  get (s"Field.build_field_string") rstwriter_strings = [[nl]; F; s":"; F; s": "; F].
Proof. reflexivity. Qed.

Theorem doctest_literals :
  get (s"DocTest.build_doctest_string") rstwriter_strings
  = [[nl]; F; s">>> "; F; [nl]; F; [nl]].
Proof. reflexivity. Qed.

Theorem list_literals :
  get (s"RSTList.build_list_string") rstwriter_strings
  = [[nl]; F; F; s". "; F; [nl]; F; s"* "; F; [nl]]
  /\ geti (s"RSTList.build_list_string") rstwriter_ints = [0; 1].
Proof. split; reflexivity. Qed.

Theorem heading_literals :
  get (s"Heading.build_heading_string") rstwriter_strings = [[]; [nl]; F; [nl]; F; [nl]; F].
Proof. reflexivity. Qed.

Theorem directive_heading_literals :
  get (s"DirectiveHeading.build_heading_string") rstwriter_strings
  = [[nl]; F; s".. "; F; s":: "; F]
  /\ get (s"Directive.format_arguments") rstwriter_strings = [s","].
Proof. split; reflexivity. Qed.

Theorem option_literals :
  get (s"Option.build_option_string") rstwriter_strings = [F; s":"; F; s": "; F].
Proof. reflexivity. Qed.

Theorem to_text_literals :
  get (s"RSTWriter.to_text") rstwriter_strings = [[]; F; [nl]]
  /\ get (s"Directive.to_text") rstwriter_strings = [F; [nl]; F; [nl]; [nl]; F; [nl]]
  /\ geti (s"Directive.to_text") rstwriter_ints = [0; 1; 1].
Proof. repeat split; reflexivity. Qed.

Theorem interpreted_text_literals :
  get (s"interpreted_text") rstwriter_strings = [s":"; F; s":`"; F; s"`"].
Proof. reflexivity. Qed.

(* ---- __init__.py, documenter.py ----------------------------------------------------- *)

Theorem document_literals :
  get (s"document") init_strings
  = [[]; []; cmake_ext; cmake_ext; s"toctree"; s"maxdepth"; s"/index.rst"; cmake_ext; [dot]; [dot];
     s"index.rst"; cmake_ext]
  /\ geti (s"document") init_ints = [1; 2; 1].
Proof. split; reflexivity. Qed.

Theorem document_single_file_literals :
  get (s"document_single_file") init_strings
  = [s"\.cmake$"; []; s"\.cmake$"; []; [dot]; [dot]; s".rst"; [dot]; [dot]; s".rst"; [nl]].
Proof. reflexivity. Qed.

Theorem documenter_literals :
  get (s"Documenter.__init__") documenter_strings = [s"utf-8-sig"].
Proof. reflexivity. Qed.
