(* Proofs/ParserFacts.v -- facts about Model/Parser.v: the parser is a bijection between
   accepted (canonical) token sequences and well-formed trees; every visible token of an
   accepted file is in the tree, in order.  See DESIGN.md section 7. *)
From Coq Require Import String List NArith Bool Arith Lia.
From CMinx Require Import Base.Str Model.Lexer Model.Parser Proofs.LexerFacts.
Import ListNotations.

(* ---- spec ---- *)

Definition t_lpar : token := (TLParen, [lpar]).
Definition t_rpar : token := (TRParen, [rpar]).

(* the token sequence below a tree node *)
Fixpoint unparse_arg (a : arg) : list token :=
  match a with
  | ASingle k t => [(k, t)]
  | ACompound l => t_lpar :: concat (map unparse_arg l) ++ [t_rpar]
  end.

Definition unparse_args (l : list arg) : list token := concat (map unparse_arg l).

Definition unparse_cmd (c : cmd) : list token :=
  (TIdent, c_name c) :: t_lpar :: unparse_args (c_args c) ++ [t_rpar].

Definition unparse_elem (e : element) : list token :=
  match e with
  | EDocCmd d c => (TDocstring, d) :: unparse_cmd c
  | ECmd c => unparse_cmd c
  | EDangling d => [(TDocstring, d)]
  end.

Definition unparse_elems (es : list element) : list token := concat (map unparse_elem es).

Definition unparse_file (f : cfile) : list token :=
  (match f_module f with Some t => [(TModuleDoc, t)] | None => [] end)
  ++ unparse_elems (f_elems f).

(* well-formed trees: exactly the trees the parser can produce *)
Fixpoint wf_arg (a : arg) : bool :=
  match a with
  | ASingle k _ => is_single_kind k
  | ACompound l => forallb wf_arg l
  end.

Definition wf_cmd (c : cmd) : bool := forallb wf_arg (c_args c).

Definition wf_elem (e : element) : bool :=
  match e with
  | EDocCmd _ c | ECmd c => wf_cmd c
  | EDangling _ => true
  end.

(* a dangling doccomment directly followed by an undocumented command would have been
   attached to that command *)
Fixpoint no_dangling_cmd (es : list element) : bool :=
  match es with
  | [] => true
  | e :: r =>
      match e, r with
      | EDangling _, ECmd _ :: _ => false
      | _, _ => no_dangling_cmd r
      end
  end.

Definition wf_file (f : cfile) : bool :=
  forallb wf_elem (f_elems f) && no_dangling_cmd (f_elems f).

Definition cmds_of_elem (e : element) : list cmd :=
  match e with
  | EDocCmd _ c | ECmd c => [c]
  | EDangling _ => []
  end.

Definition cmds_of (f : cfile) : list cmd := flat_map cmds_of_elem (f_elems f).

(* ---- helpers ---- *)

Lemma arg_ind2 (P : arg -> Prop) :
  (forall k t, P (ASingle k t)) ->
  (forall l, Forall P l -> P (ACompound l)) ->
  forall a, P a.
Proof.
  intros H1 H2. fix IH 1. intros [k t | l].
  - apply H1.
  - apply H2. induction l as [|a l IHl]; constructor; [apply IH | exact IHl].
Qed.

Lemma unparse_args_app (l1 l2 : list arg) :
  unparse_args (l1 ++ l2) = unparse_args l1 ++ unparse_args l2.
Proof. unfold unparse_args. rewrite map_app, concat_app. reflexivity. Qed.

Lemma unparse_args_cons (a : arg) (l : list arg) :
  unparse_args (a :: l) = unparse_arg a ++ unparse_args l.
Proof. reflexivity. Qed.

Lemma unparse_args_snoc (l : list arg) (a : arg) :
  unparse_args (l ++ [a]) = unparse_args l ++ unparse_arg a.
Proof. rewrite unparse_args_app. unfold unparse_args at 2. cbn [map concat]. rewrite app_nil_r. reflexivity. Qed.

Lemma unparse_elems_app (l1 l2 : list element) :
  unparse_elems (l1 ++ l2) = unparse_elems l1 ++ unparse_elems l2.
Proof. unfold unparse_elems. rewrite map_app, concat_app. reflexivity. Qed.

Lemma unparse_elems_snoc (l : list element) (e : element) :
  unparse_elems (l ++ [e]) = unparse_elems l ++ unparse_elem e.
Proof. rewrite unparse_elems_app. unfold unparse_elems at 2. cbn [map concat]. rewrite app_nil_r. reflexivity. Qed.

Lemma unparse_elems_cons (e : element) (l : list element) :
  unparse_elems (e :: l) = unparse_elem e ++ unparse_elems l.
Proof. reflexivity. Qed.

(* ---- B1: parse then unparse ---- *)

Definition doc_toks (doc : option str) : list token :=
  match doc with Some d => [(TDocstring, d)] | None => [] end.

Fixpoint stack_toks (stack : list (list arg)) : list token :=
  match stack with
  | [] => []
  | up :: st' => stack_toks st' ++ unparse_args (rev up) ++ [t_lpar]
  end.

(* the tokens consumed since the last completed element *)
Definition state_toks (st : pstate) : list token :=
  match st with
  | PTop doc => doc_toks doc
  | PName doc name => doc_toks doc ++ [(TIdent, name)]
  | PArgs doc name stack cur =>
      doc_toks doc ++ [(TIdent, name); t_lpar] ++ stack_toks stack ++ unparse_args (rev cur)
  end.

Lemma unparse_close_cmd (doc : option str) (name : str) (cur : list arg) :
  unparse_elem (close_cmd doc name cur) =
  doc_toks doc ++ [(TIdent, name); t_lpar] ++ unparse_args (rev cur) ++ [t_rpar].
Proof. destruct doc as [d|]; reflexivity. Qed.

Ltac lnorm := repeat (progress (rewrite <- ?app_assoc; cbn [app])); reflexivity.

Lemma parse_go_unparse : forall ts st acc es,
  Forall tok_canon ts ->
  parse_go ts st acc = Some es ->
  unparse_elems es = unparse_elems (rev acc) ++ state_toks st ++ ts.
Proof.
  induction ts as [|[k t] r IH]; intros st acc es Hc H.
  - destruct st as [[d|] | doc name | doc name stack cur]; cbn [parse_go] in H; try discriminate.
    + inversion H. cbn [rev]. rewrite unparse_elems_snoc. reflexivity.
    + inversion H. cbn [state_toks doc_toks app]. rewrite app_nil_r. reflexivity.
  - inversion Hc as [|x l Hk Hr]; subst x l. destruct Hk as [Hl Hrp]. cbn [fst snd] in Hl, Hrp.
    destruct st as [doc | doc name | doc name stack cur].
    + destruct k; cbn [parse_go] in H; try discriminate.
      * (* TDocstring *)
        apply (IH _ _ _ Hr) in H. rewrite H. cbn [state_toks doc_toks].
        destruct doc as [d|].
        -- cbn [rev]. rewrite unparse_elems_snoc. cbn [unparse_elem]. lnorm.
        -- reflexivity.
      * (* TIdent *)
        apply (IH _ _ _ Hr) in H. rewrite H. cbn [state_toks]. lnorm.
    + destruct k; cbn [parse_go] in H; try discriminate.
      apply (IH _ _ _ Hr) in H. rewrite H. rewrite (Hl eq_refl). cbn [state_toks stack_toks rev].
      unfold unparse_args at 1. cbn [map concat]. lnorm.
    + destruct k; cbn [parse_go is_single_kind] in H; try discriminate.
      * (* TLParen *)
        apply (IH _ _ _ Hr) in H. rewrite H. rewrite (Hl eq_refl). cbn [state_toks stack_toks rev].
        unfold unparse_args at 2. cbn [map concat]. lnorm.
      * (* TRParen *)
        rewrite (Hrp eq_refl). destruct stack as [|up stack'].
        -- apply (IH _ _ _ Hr) in H. rewrite H. cbn [rev]. rewrite unparse_elems_snoc.
           rewrite unparse_close_cmd. cbn [state_toks stack_toks doc_toks].
           lnorm.
        -- apply (IH _ _ _ Hr) in H. rewrite H. cbn [state_toks stack_toks rev].
           rewrite unparse_args_snoc. cbn [unparse_arg]. fold (unparse_args (rev cur)).
           lnorm.
      * apply (IH _ _ _ Hr) in H. rewrite H. cbn [state_toks rev].
        rewrite unparse_args_snoc. cbn [unparse_arg]. lnorm.
      * apply (IH _ _ _ Hr) in H. rewrite H. cbn [state_toks rev].
        rewrite unparse_args_snoc. cbn [unparse_arg]. lnorm.
      * apply (IH _ _ _ Hr) in H. rewrite H. cbn [state_toks rev].
        rewrite unparse_args_snoc. cbn [unparse_arg]. lnorm.
      * apply (IH _ _ _ Hr) in H. rewrite H. cbn [state_toks rev].
        rewrite unparse_args_snoc. cbn [unparse_arg]. lnorm.
Qed.

Lemma parse_cases (ts : list token) :
  (exists t r, ts = (TModuleDoc, t) :: r /\
               parse ts = match parse_go r (PTop None) [] with
                          | Some es => Some {| f_module := Some t; f_elems := es |}
                          | None => None
                          end)
  \/ ((forall t r, ts <> (TModuleDoc, t) :: r) /\
      parse ts = match parse_go ts (PTop None) [] with
                 | Some es => Some {| f_module := None; f_elems := es |}
                 | None => None
                 end).
Proof.
  destruct ts as [|[k t] r].
  - right. split; [intros; discriminate | reflexivity].
  - destruct k; try (right; split; [intros; discriminate | reflexivity]).
    left. exists t, r. split; reflexivity.
Qed.

(* every visible token of an accepted file is in the tree, in order *)
Theorem parse_unparse : forall ts f,
  Forall tok_canon ts -> parse ts = Some f -> unparse_file f = ts.
Proof.
  intros ts f Hc H.
  destruct (parse_cases ts) as [(t & r & -> & E) | (_ & E)]; rewrite E in H; clear E.
  - destruct (parse_go r (PTop None) []) as [es|] eqn:G; [|discriminate].
    inversion H. subst f. unfold unparse_file. cbn [f_module f_elems].
    inversion Hc as [|x l _ Hr]; subst x l.
    rewrite (parse_go_unparse _ _ _ _ Hr G). reflexivity.
  - destruct (parse_go ts (PTop None) []) as [es|] eqn:G; [|discriminate].
    inversion H. subst f. unfold unparse_file. cbn [f_module f_elems].
    rewrite (parse_go_unparse _ _ _ _ Hc G). reflexivity.
Qed.

Example parse_unparse_ex :
  exists ts f, lex (s"#[[[ d #]] foo(a (b ""c"") [[d]])") = LexOk ts /\
               Forall tok_canon ts /\ parse ts = Some f /\ length (f_elems f) = 1.
Proof.
  eexists. eexists. split; [vm_compute; reflexivity|]. split.
  - repeat constructor; cbn; intro; discriminate.
  - split; vm_compute; reflexivity.
Qed.

(* ---- B2: unparse then parse ---- *)

Lemma parse_go_single (k : tk) (t : str) (rest : list token) doc name stack cur acc :
  is_single_kind k = true ->
  parse_go ((k, t) :: rest) (PArgs doc name stack cur) acc =
  parse_go rest (PArgs doc name stack (ASingle k t :: cur)) acc.
Proof. intro H. destruct k; try discriminate H; reflexivity. Qed.

Definition arg_roundtrip (a : arg) : Prop :=
  wf_arg a = true ->
  forall rest doc name stack cur acc,
    parse_go (unparse_arg a ++ rest) (PArgs doc name stack cur) acc =
    parse_go rest (PArgs doc name stack (a :: cur)) acc.

Lemma args_roundtrip_from (l : list arg) :
  Forall arg_roundtrip l -> forallb wf_arg l = true ->
  forall rest doc name stack cur acc,
    parse_go (unparse_args l ++ rest) (PArgs doc name stack cur) acc =
    parse_go rest (PArgs doc name stack (rev l ++ cur)) acc.
Proof.
  intro HF. induction HF as [|a l Ha _ IH]; intros Hw rest doc name stack cur acc.
  - reflexivity.
  - cbn [forallb] in Hw. apply andb_true_iff in Hw. destruct Hw as [Hwa Hwl].
    rewrite unparse_args_cons, <- app_assoc. rewrite (Ha Hwa). rewrite (IH Hwl).
    cbn [rev]. rewrite <- app_assoc. reflexivity.
Qed.

Lemma arg_roundtrip_all : forall a, arg_roundtrip a.
Proof.
  induction a as [k t | l HF] using arg_ind2; intros Hw rest doc name stack cur acc.
  - cbn [wf_arg] in Hw. cbn [unparse_arg app]. apply parse_go_single. exact Hw.
  - cbn [wf_arg] in Hw. cbn [unparse_arg]. fold (unparse_args l).
    unfold t_lpar at 1. cbn [app parse_go]. rewrite <- app_assoc.
    rewrite (args_roundtrip_from l HF Hw). unfold t_rpar. cbn [app parse_go].
    rewrite app_nil_r, rev_involutive. reflexivity.
Qed.

Lemma parse_go_args (l : list arg) :
  forallb wf_arg l = true ->
  forall rest doc name stack cur acc,
    parse_go (unparse_args l ++ rest) (PArgs doc name stack cur) acc =
    parse_go rest (PArgs doc name stack (rev l ++ cur)) acc.
Proof.
  apply args_roundtrip_from. apply Forall_forall. intros a _. apply arg_roundtrip_all.
Qed.

Lemma close_cmd_rev (doc : option str) (c : cmd) :
  close_cmd doc (c_name c) (rev (c_args c)) =
  match doc with Some d => EDocCmd d c | None => ECmd c end.
Proof. unfold close_cmd. rewrite rev_involutive. destruct c as [n a]. reflexivity. Qed.

Lemma parse_go_cmd (c : cmd) (doc : option str) (rest : list token) (acc : list element) :
  wf_cmd c = true ->
  parse_go (unparse_cmd c ++ rest) (PTop doc) acc =
  parse_go rest (PTop None) (match doc with Some d => EDocCmd d c | None => ECmd c end :: acc).
Proof.
  intro Hw. unfold unparse_cmd, t_lpar. cbn [app parse_go]. rewrite <- app_assoc.
  rewrite (parse_go_args _ Hw). unfold t_rpar. cbn [app parse_go].
  rewrite app_nil_r, close_cmd_rev. reflexivity.
Qed.

Definition starts_with_cmd (es : list element) : bool :=
  match es with ECmd _ :: _ => true | _ => false end.

Lemma no_dangling_cmd_tail (e : element) (r : list element) :
  no_dangling_cmd (e :: r) = true ->
  no_dangling_cmd r = true /\
  (forall d, e = EDangling d -> starts_with_cmd r = false).
Proof.
  intro H. cbn [no_dangling_cmd] in H. destruct e as [d c | c | d].
  - split; [exact H | intros d' E; discriminate E].
  - split; [exact H | intros d' E; discriminate E].
  - destruct r as [|[d' c' | c' | d'] r'].
    + split; [reflexivity | reflexivity].
    + split; [exact H | reflexivity].
    + discriminate H.
    + split; [exact H | reflexivity].
Qed.

Lemma parse_go_elems : forall es,
  forallb wf_elem es = true -> no_dangling_cmd es = true ->
  forall acc,
    parse_go (unparse_elems es) (PTop None) acc = Some (rev acc ++ es) /\
    (forall d, starts_with_cmd es = false ->
               parse_go (unparse_elems es) (PTop (Some d)) acc = Some (rev acc ++ EDangling d :: es)).
Proof.
  induction es as [|e r IH]; intros Hw Hn acc.
  - split.
    + cbn [unparse_elems map concat parse_go]. rewrite app_nil_r. reflexivity.
    + intros d _. reflexivity.
  - cbn [forallb] in Hw. apply andb_true_iff in Hw. destruct Hw as [Hwe Hwr].
    destruct (no_dangling_cmd_tail e r Hn) as [Hnr Hd].
    rewrite unparse_elems_cons.
    destruct e as [d' c | c | d']; cbn [wf_elem] in Hwe; cbn [unparse_elem].
    + (* EDocCmd *) split.
      * cbn [app parse_go]. rewrite (parse_go_cmd c (Some d') _ _ Hwe).
        destruct (IH Hwr Hnr (EDocCmd d' c :: acc)) as [H1 _]. rewrite H1.
        cbn [rev]. rewrite <- app_assoc. reflexivity.
      * intros d _. cbn [app parse_go]. rewrite (parse_go_cmd c (Some d') _ _ Hwe).
        destruct (IH Hwr Hnr (EDocCmd d' c :: EDangling d :: acc)) as [H1 _]. rewrite H1.
        cbn [rev]. rewrite <- !app_assoc. reflexivity.
    + (* ECmd *) split.
      * rewrite (parse_go_cmd c None _ _ Hwe).
        destruct (IH Hwr Hnr (ECmd c :: acc)) as [H1 _]. rewrite H1.
        cbn [rev]. rewrite <- app_assoc. reflexivity.
      * intros d E. discriminate E.
    + (* EDangling *) split.
      * cbn [app parse_go].
        destruct (IH Hwr Hnr acc) as [_ H2]. rewrite (H2 d' (Hd d' eq_refl)). reflexivity.
      * intros d _. cbn [app parse_go].
        destruct (IH Hwr Hnr (EDangling d :: acc)) as [_ H2]. rewrite (H2 d' (Hd d' eq_refl)).
        cbn [rev]. rewrite <- app_assoc. reflexivity.
Qed.

Lemma unparse_elems_head (es : list element) :
  forall t r, unparse_elems es <> (TModuleDoc, t) :: r.
Proof.
  intros t r. destruct es as [|[d c | c | d] es']; cbn; discriminate.
Qed.

(* every well-formed tree is the parse of its own token sequence *)
Theorem unparse_parse : forall f, wf_file f = true -> parse (unparse_file f) = Some f.
Proof.
  intros [m es] Hw. unfold wf_file in Hw. cbn [f_elems] in Hw.
  apply andb_true_iff in Hw. destruct Hw as [Hw Hn].
  destruct (parse_go_elems es Hw Hn []) as [H _]. cbn [rev app] in H.
  unfold unparse_file. cbn [f_module f_elems]. destruct m as [t|].
  - cbn [app parse]. rewrite H. reflexivity.
  - cbn [app]. destruct (parse_cases (unparse_elems es)) as [(t & r & E & _) | (_ & E)].
    + exfalso. exact (unparse_elems_head es t r E).
    + rewrite E, H. reflexivity.
Qed.

Definition ex_file : cfile :=
  {| f_module := Some (s"m");
     f_elems := [ EDangling (s"d0");
                  EDocCmd (s"d1") {| c_name := s"foo";
                                     c_args := [ASingle TIdent (s"a");
                                                ACompound [ASingle TQuoted (s"""q"""); ACompound []];
                                                ASingle TBracketArg (s"[[b]]")] |};
                  ECmd {| c_name := s"bar"; c_args := [] |};
                  EDangling (s"d2") ] |}.

Example unparse_parse_ex : wf_file ex_file = true /\ parse (unparse_file ex_file) = Some ex_file.
Proof. split; vm_compute; reflexivity. Qed.

(* both well-formedness conditions are needed *)
Example unparse_parse_needs_single_kind :
  let f := {| f_module := None;
              f_elems := [ECmd {| c_name := s"f"; c_args := [ASingle TDocstring (s"x")] |}] |} in
  parse (unparse_file f) = None.
Proof. vm_compute. reflexivity. Qed.

Example unparse_parse_needs_no_dangling_cmd :
  let c := {| c_name := s"f"; c_args := [] |} in
  parse (unparse_file {| f_module := None; f_elems := [EDangling (s"d"); ECmd c] |}) =
  Some {| f_module := None; f_elems := [EDocCmd (s"d") c] |}.
Proof. vm_compute. reflexivity. Qed.

(* ---- B3: every accepted tree is well formed ---- *)

Definition is_dangling (e : element) : bool :=
  match e with EDangling _ => true | _ => false end.

Definition is_plain_cmd (e : element) : bool :=
  match e with ECmd _ => true | _ => false end.

Fixpoint ends_dangling (es : list element) : bool :=
  match es with
  | [] => false
  | e :: r => match r with [] => is_dangling e | _ :: _ => ends_dangling r end
  end.

Lemma ends_dangling_snoc (l : list element) (e : element) :
  ends_dangling (l ++ [e]) = is_dangling e.
Proof.
  induction l as [|a l IH]; [reflexivity|].
  cbn [app ends_dangling]. destruct (l ++ [e]) as [|b m] eqn:E.
  - destruct l; discriminate E.
  - exact IH.
Qed.

Lemma no_dangling_cmd_snoc (l : list element) (e : element) :
  no_dangling_cmd (l ++ [e]) = no_dangling_cmd l && negb (ends_dangling l && is_plain_cmd e).
Proof.
  induction l as [|a l IH].
  - destruct e; reflexivity.
  - destruct l as [|b l'].
    + destruct a, e; reflexivity.
    + change ((a :: b :: l') ++ [e]) with (a :: b :: (l' ++ [e])).
      change (ends_dangling (a :: b :: l')) with (ends_dangling (b :: l')).
      change ((b :: l') ++ [e]) with (b :: (l' ++ [e])) in IH.
      destruct a as [da ca | ca | da].
      * exact IH.
      * exact IH.
      * destruct b as [db cb | cb | db]; [exact IH | reflexivity | exact IH].
Qed.

Definition st_doc (st : pstate) : option str :=
  match st with PTop d | PName d _ | PArgs d _ _ _ => d end.

Definition st_wf (st : pstate) : bool :=
  match st with
  | PArgs _ _ stack cur => forallb wf_arg cur && forallb (forallb wf_arg) stack
  | _ => true
  end.

Lemma forallb_rev {A} (p : A -> bool) (l : list A) : forallb p (rev l) = forallb p l.
Proof.
  induction l as [|a l IH]; [reflexivity|].
  cbn [rev forallb]. rewrite forallb_app, IH. cbn [forallb]. rewrite andb_true_r. apply andb_comm.
Qed.

Lemma wf_close_cmd (doc : option str) (name : str) (cur : list arg) :
  forallb wf_arg cur = true -> wf_elem (close_cmd doc name cur) = true.
Proof.
  intro H. unfold close_cmd. destruct doc; cbn [wf_elem]; unfold wf_cmd; cbn [c_args];
  rewrite forallb_rev; exact H.
Qed.

Lemma is_plain_close_cmd (doc : option str) (name : str) (cur : list arg) :
  is_plain_cmd (close_cmd doc name cur) = match doc with None => true | Some _ => false end.
Proof. destruct doc; reflexivity. Qed.

Lemma parse_go_wf : forall ts st acc es,
  parse_go ts st acc = Some es ->
  st_wf st = true ->
  forallb wf_elem (rev acc) = true ->
  no_dangling_cmd (rev acc) = true ->
  (ends_dangling (rev acc) = true -> st_doc st <> None) ->
  forallb wf_elem es = true /\ no_dangling_cmd es = true.
Proof.
  induction ts as [|[k t] r IH]; intros st acc es H Hst Hw Hn Hd.
  - destruct st as [[d|] | doc name | doc name stack cur]; cbn [parse_go] in H; try discriminate.
    + inversion H. cbn [rev]. split.
      * rewrite forallb_app, Hw. reflexivity.
      * rewrite no_dangling_cmd_snoc, Hn. cbn [is_plain_cmd]. rewrite andb_false_r. reflexivity.
    + inversion H. subst es. split; assumption.
  - destruct st as [doc | doc name | doc name stack cur].
    + destruct k; cbn [parse_go] in H; try discriminate.
      * (* TDocstring *)
        apply (IH _ _ _ H); clear H IH; [reflexivity | | | ].
        -- destruct doc as [d|]; [|exact Hw]. cbn [rev]. rewrite forallb_app, Hw. reflexivity.
        -- destruct doc as [d|]; [|exact Hn]. cbn [rev].
           rewrite no_dangling_cmd_snoc, Hn. cbn [is_plain_cmd]. rewrite andb_false_r. reflexivity.
        -- intros _. cbn [st_doc]. discriminate.
      * (* TIdent *)
        apply (IH _ _ _ H); [reflexivity | exact Hw | exact Hn | exact Hd].
    + destruct k; cbn [parse_go] in H; try discriminate.
      apply (IH _ _ _ H); [reflexivity | exact Hw | exact Hn | exact Hd].
    + cbn [st_wf] in Hst. apply andb_true_iff in Hst. destruct Hst as [Hcur Hstack].
      destruct k; cbn [parse_go is_single_kind] in H; try discriminate.
      * (* TLParen *)
        apply (IH _ _ _ H); [| exact Hw | exact Hn | exact Hd].
        cbn [st_wf forallb]. rewrite Hcur, Hstack. reflexivity.
      * (* TRParen *)
        destruct stack as [|up stack'].
        -- apply (IH _ _ _ H); clear H IH; [reflexivity | | | ].
           ++ cbn [rev]. rewrite forallb_app, Hw. cbn [forallb].
              rewrite (wf_close_cmd _ _ _ Hcur). reflexivity.
           ++ cbn [rev]. rewrite no_dangling_cmd_snoc, Hn, is_plain_close_cmd.
              cbn [st_doc] in Hd. destruct doc as [d|]; [rewrite andb_false_r; reflexivity|].
              destruct (ends_dangling (rev acc)); [exfalso; apply Hd; reflexivity | reflexivity].
           ++ cbn [rev]. rewrite ends_dangling_snoc. unfold close_cmd.
              destruct doc; cbn [is_dangling]; discriminate.
        -- cbn [forallb] in Hstack. apply andb_true_iff in Hstack. destruct Hstack as [Hup Hst'].
           apply (IH _ _ _ H); [| exact Hw | exact Hn | exact Hd].
           cbn [st_wf forallb wf_arg]. rewrite forallb_rev, Hcur, Hup, Hst'. reflexivity.
      * apply (IH _ _ _ H); [| exact Hw | exact Hn | exact Hd].
        cbn [st_wf forallb wf_arg is_single_kind]. rewrite Hcur, Hstack. reflexivity.
      * apply (IH _ _ _ H); [| exact Hw | exact Hn | exact Hd].
        cbn [st_wf forallb wf_arg is_single_kind]. rewrite Hcur, Hstack. reflexivity.
      * apply (IH _ _ _ H); [| exact Hw | exact Hn | exact Hd].
        cbn [st_wf forallb wf_arg is_single_kind]. rewrite Hcur, Hstack. reflexivity.
      * apply (IH _ _ _ H); [| exact Hw | exact Hn | exact Hd].
        cbn [st_wf forallb wf_arg is_single_kind]. rewrite Hcur, Hstack. reflexivity.
Qed.

Theorem parse_some_args_wf : forall ts f, parse ts = Some f -> wf_file f = true.
Proof.
  intros ts f H.
  assert (G : forall l es, parse_go l (PTop None) [] = Some es ->
                           forallb wf_elem es = true /\ no_dangling_cmd es = true).
  { intros l es E. apply (parse_go_wf l (PTop None) [] es E); try reflexivity.
    cbn. discriminate. }
  destruct (parse_cases ts) as [(t & r & -> & E) | (_ & E)]; rewrite E in H; clear E.
  - destruct (parse_go r (PTop None) []) as [es|] eqn:P; [|discriminate].
    inversion H. unfold wf_file. cbn [f_elems]. destruct (G _ _ P) as [A B]. rewrite A, B. reflexivity.
  - destruct (parse_go ts (PTop None) []) as [es|] eqn:P; [|discriminate].
    inversion H. unfold wf_file. cbn [f_elems]. destruct (G _ _ P) as [A B]. rewrite A, B. reflexivity.
Qed.

(* the token sequence of a well-formed tree is canonical *)
Lemma tok_canon_other (k : tk) (t : str) : k <> TLParen -> k <> TRParen -> tok_canon (k, t).
Proof. intros H1 H2. split; cbn [fst snd]; intro E; contradiction. Qed.

Lemma Forall_concat {A} (P : A -> Prop) (ll : list (list A)) :
  Forall (Forall P) ll -> Forall P (concat ll).
Proof.
  intro H. induction H as [|l ll Hl _ IH]; [constructor|].
  cbn [concat]. apply Forall_app. split; assumption.
Qed.

Lemma tok_canon_lpar : tok_canon t_lpar.
Proof. split; cbn [fst snd t_lpar]; intro E; [reflexivity | discriminate E]. Qed.

Lemma tok_canon_rpar : tok_canon t_rpar.
Proof. split; cbn [fst snd t_rpar]; intro E; [discriminate E | reflexivity]. Qed.

Lemma unparse_arg_canon : forall a, wf_arg a = true -> Forall tok_canon (unparse_arg a).
Proof.
  induction a as [k t | l HF] using arg_ind2; intro Hw; cbn [wf_arg] in Hw; cbn [unparse_arg].
  - constructor; [|constructor].
    apply tok_canon_other; intro E; subst k; discriminate Hw.
  - constructor; [apply tok_canon_lpar|]. apply Forall_app. split.
    + apply Forall_concat. apply Forall_forall. intros ts Hin.
      apply in_map_iff in Hin. destruct Hin as (a & <- & Ha).
      rewrite Forall_forall in HF. apply (HF a Ha).
      rewrite forallb_forall in Hw. apply Hw. exact Ha.
    + constructor; [apply tok_canon_rpar | constructor].
Qed.

Lemma unparse_cmd_canon (c : cmd) : wf_cmd c = true -> Forall tok_canon (unparse_cmd c).
Proof.
  intro Hw. unfold unparse_cmd.
  constructor; [apply tok_canon_other; discriminate|].
  constructor; [apply tok_canon_lpar|]. apply Forall_app. split.
  - apply Forall_concat. apply Forall_forall. intros ts Hin.
    apply in_map_iff in Hin. destruct Hin as (a & <- & Ha).
    apply unparse_arg_canon. unfold wf_cmd in Hw. rewrite forallb_forall in Hw. apply Hw. exact Ha.
  - constructor; [apply tok_canon_rpar | constructor].
Qed.

Lemma unparse_file_canon (f : cfile) : wf_file f = true -> Forall tok_canon (unparse_file f).
Proof.
  intro Hw. unfold wf_file in Hw. apply andb_true_iff in Hw. destruct Hw as [Hw _].
  unfold unparse_file. apply Forall_app. split.
  - destruct (f_module f); [|constructor].
    constructor; [apply tok_canon_other; discriminate | constructor].
  - apply Forall_concat. apply Forall_forall. intros ts Hin.
    apply in_map_iff in Hin. destruct Hin as (e & <- & He).
    rewrite forallb_forall in Hw. specialize (Hw e He).
    destruct e as [d c | c | d]; cbn [wf_elem] in Hw; cbn [unparse_elem].
    + constructor; [apply tok_canon_other; discriminate | apply unparse_cmd_canon; exact Hw].
    + apply unparse_cmd_canon; exact Hw.
    + constructor; [apply tok_canon_other; discriminate | constructor].
Qed.

(* the parser is a bijection between accepted canonical token sequences and well-formed trees *)
Theorem parse_bijection :
  (forall ts f, Forall tok_canon ts -> parse ts = Some f ->
                wf_file f = true /\ unparse_file f = ts) /\
  (forall f, wf_file f = true ->
             Forall tok_canon (unparse_file f) /\ parse (unparse_file f) = Some f).
Proof.
  split.
  - intros ts f Hc H. split; [eapply parse_some_args_wf; exact H | apply parse_unparse; assumption].
  - intros f Hw. split; [apply unparse_file_canon; exact Hw | apply unparse_parse; exact Hw].
Qed.

(* ---- B4: single-argument texts of a lexed and parsed file are never empty ---- *)

Lemma singles_in_unparse (l : list arg) (t : str) :
  In t (singles_of l) -> exists k, In (k, t) (unparse_args l).
Proof.
  induction l as [|a l IH]; intro H; [contradiction|].
  rewrite unparse_args_cons. destruct a as [k t' | l'].
  - cbn [singles_of In] in H. destruct H as [E | H].
    + subst t'. exists k. apply in_or_app. left. left. reflexivity.
    + destruct (IH H) as [k' Hk]. exists k'. apply in_or_app. right. exact Hk.
  - cbn [singles_of] in H. destruct (IH H) as [k' Hk]. exists k'. apply in_or_app. right. exact Hk.
Qed.

Lemma cmd_in_unparse (f : cfile) (c : cmd) (tok : token) :
  In c (cmds_of f) -> In tok (unparse_cmd c) -> In tok (unparse_file f).
Proof.
  intros Hc Ht. unfold unparse_file. apply in_or_app. right.
  unfold cmds_of in Hc. apply in_flat_map in Hc. destruct Hc as (e & He & Hce).
  unfold unparse_elems. apply in_concat. exists (unparse_elem e). split.
  - apply in_map. exact He.
  - destruct e as [d c' | c' | d]; cbn [cmds_of_elem In] in Hce.
    + destruct Hce as [-> | []]. right. exact Ht.
    + destruct Hce as [-> | []]. exact Ht.
    + contradiction.
Qed.

Lemma Forall_filter {A} (P : A -> Prop) (p : A -> bool) (l : list A) :
  Forall P l -> Forall P (filter p l).
Proof.
  intro H. induction H as [|a l Ha _ IH]; [constructor|].
  cbn [filter]. destruct (p a); [constructor; assumption | exact IH].
Qed.

Theorem lex_tokens_good : forall x ts,
  lex x = LexOk ts -> Forall tok_canon ts /\ Forall (fun t => snd t <> []) ts.
Proof.
  intros x ts H. apply lex_visible in H. destruct H as (ps & Hps & -> & _).
  split; apply Forall_filter.
  - exact (lex_tokens_canon x ps Hps).
  - exact (lex_all_nonempty x ps Hps).
Qed.

Theorem singles_texts_nonempty : forall x ts f,
  lex x = LexOk ts -> parse ts = Some f ->
  forall c, In c (cmds_of f) -> forall t, In t (singles c) -> t <> [].
Proof.
  intros x ts f Hl Hp c Hc t Ht.
  destruct (lex_tokens_good x ts Hl) as [Hcan Hne].
  pose proof (parse_unparse ts f Hcan Hp) as Hu.
  unfold singles in Ht. destruct (singles_in_unparse _ _ Ht) as [k Hk].
  assert (Hin : In (k, t) ts).
  { rewrite <- Hu. apply (cmd_in_unparse f c); [exact Hc|].
    unfold unparse_cmd. right. right. apply in_or_app. left. exact Hk. }
  rewrite Forall_forall in Hne. exact (Hne (k, t) Hin).
Qed.

(* command names are non-empty as well *)
Theorem cmd_names_nonempty : forall x ts f,
  lex x = LexOk ts -> parse ts = Some f ->
  forall c, In c (cmds_of f) -> c_name c <> [].
Proof.
  intros x ts f Hl Hp c Hc.
  destruct (lex_tokens_good x ts Hl) as [Hcan Hne].
  pose proof (parse_unparse ts f Hcan Hp) as Hu.
  assert (Hin : In (TIdent, c_name c) ts).
  { rewrite <- Hu. apply (cmd_in_unparse f c); [exact Hc|]. left. reflexivity. }
  rewrite Forall_forall in Hne. exact (Hne _ Hin).
Qed.

Example singles_texts_nonempty_ex :
  exists ts f c, lex (s"foo(a ""b"" (c) [[d]])") = LexOk ts /\ parse ts = Some f /\
                 cmds_of f = [c] /\ singles c = [s"a"; s"""b"""; s"[[d]]"].
Proof. do 3 eexists. repeat split; vm_compute; reflexivity. Qed.

(* the empty quoted argument is a two-character text, not an empty one *)
Example empty_quoted_text :
  exists ts f c, lex (s"foo("""")") = LexOk ts /\ parse ts = Some f /\
                 cmds_of f = [c] /\ singles c = [s""""""].
Proof. do 3 eexists. repeat split; vm_compute; reflexivity. Qed.

(* finding: inserting a line comment after a parenthesis can turn an accepted file into a
   rejected one -- an unterminated [[ is lexed as an unquoted argument, and the comment text
   can supply its terminator (cf. lex_insert_comment_in_context_refuted in LexerFacts) *)
Example comment_insertion_changes_acceptance :
  (exists ts f, lex (s"foo([[ " ++ [lpar] ++ s"))") = LexOk ts /\ parse ts = Some f) /\
  (exists ts, lex (s"foo([[ " ++ [lpar] ++ line_comment (s" ]]") ++ s"))") = LexOk ts /\
              parse ts = None).
Proof.
  split.
  - do 2 eexists. split; vm_compute; reflexivity.
  - eexists. split; vm_compute; reflexivity.
Qed.

(* ==== MAIN THEOREMS ====
   parse_unparse           B1  tokens of an accepted file = the tokens of its tree, in order
   unparse_parse           B2  a well-formed tree is the parse of its token sequence
   parse_some_args_wf      B3  every accepted tree is well formed
   parse_bijection             B1-B3 together, plus canonicity of unparsed tokens
   lex_tokens_good             visible tokens are canonical and non-empty
   singles_texts_nonempty  B4  single-argument texts of a lexed+parsed file are non-empty
   cmd_names_nonempty          command names likewise
*)
Print Assumptions parse_unparse.
Print Assumptions unparse_parse.
Print Assumptions parse_some_args_wf.
Print Assumptions parse_bijection.
Print Assumptions lex_tokens_good.
Print Assumptions singles_texts_nonempty.
Print Assumptions cmd_names_nonempty.
