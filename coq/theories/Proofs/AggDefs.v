(* Proofs/AggDefs.v -- C03: the entry of a function/macro definition mirrors the definition
   command, and shows **kwargs iff its doccomment contains the trigger or its own body calls
   cmake_parse_arguments outside nested definitions (nested view of Spec/AggSpec.v). *)
From Coq Require Import String List NArith Bool Arith Lia.
From CMinx Require Import Base.Str Model.Lexer Model.Parser Model.Writer Model.DocTypes
     Model.Aggregator Spec.EntrySpec Spec.AggSpec Proofs.AggInv.
Import ListNotations.

(* ---- spec ---- *)

(* entry j is this function/macro entry *)
Definition fn_at (st : agg) (j : nat) (m : bool) (n d : str) (p : list str) (k : bool) : Prop :=
  nth_error (documented st) j = Some (EFunction m n d p k).

(* the innermost open definition is entry j *)
Definition frame_is (j : nat) (ds : list (option nat)) : bool :=
  match ds with Some i :: _ => Nat.eqb i j | _ => false end.

(* no open definition is entry j *)
Definition frames_avoid (j : nat) (ds : list (option nat)) : bool :=
  forallb (fun fr => match fr with Some i => negb (Nat.eqb i j) | None => true end) ds.

(* every open definition refers to an entry below n *)
Definition frames_below (n : nat) (ds : list (option nat)) : bool :=
  forallb (fun fr => match fr with Some i => Nat.ltb i n | None => true end) ds.

(* the cleaned doccomment of a command, empty without one *)
Definition doc_of (doc : option str) : str :=
  match doc with Some t => clean_doc_text t | None => [] end.

(* the header of a definition gets an entry: it is documented, or it is not the claimed
   implementation of a member/test declaration and its include_undocumented flag is on *)
Definition header_creates (fl : flags) (st : agg) (doc : option str) (hdr : cmd) : bool :=
  match doc with
  | Some _ => true
  | None => negb (aw_pending (awaiting st))
            && (if kind_is hdr (s"macro") then inc_macro fl else inc_function fl)
  end.

Definition elem_is_cpa (e : element) : bool :=
  match e with
  | EDocCmd _ c | ECmd c => is_cpa_cmd c
  | EDangling _ => false
  end.

Definition elem_kind (e : element) : ckind :=
  match e with
  | EDocCmd _ c | ECmd c => classify (cmd_kind c)
  | EDangling _ => CkOther
  end.

(* ---- the nested view: unfolding equations and induction ---------------------------- *)

Lemma flatten_def : forall doc hdr body endc,
  flatten (NDef doc hdr body endc) = elem_of doc hdr :: flatten_all body ++ [ECmd endc].
Proof. reflexivity. Qed.

Lemma flatten_class : forall doc hdr body endc,
  flatten (NClass doc hdr body endc) = elem_of doc hdr :: flatten_all body ++ [ECmd endc].
Proof. reflexivity. Qed.

Lemma wf_node_def : forall doc hdr body endc,
  wf_node (NDef doc hdr body endc) = is_def_cmd hdr && is_end_def_cmd endc && wf_nodes body.
Proof. reflexivity. Qed.

Lemma wf_node_class : forall doc hdr body endc,
  wf_node (NClass doc hdr body endc) = is_class_cmd hdr && is_end_class_cmd endc && wf_nodes body.
Proof. reflexivity. Qed.

Lemma has_cpa0_class : forall doc hdr body endc,
  has_cpa0 (NClass doc hdr body endc) = existsb has_cpa0 body.
Proof. reflexivity. Qed.

Section node_ind2.
  Variable P : node -> Prop.
  Variable Q : list node -> Prop.
  Hypothesis HCmd : forall doc c, P (NCmd doc c).
  Hypothesis HDangling : forall d, P (NDangling d).
  Hypothesis HDef : forall doc hdr body endc, Q body -> P (NDef doc hdr body endc).
  Hypothesis HClass : forall doc hdr body endc, Q body -> P (NClass doc hdr body endc).
  Hypothesis HNil : Q [].
  Hypothesis HCons : forall x r, P x -> Q r -> Q (x :: r).

  Fixpoint node_ind2 (n : node) : P n :=
    match n with
    | NCmd doc c => HCmd doc c
    | NDangling d => HDangling d
    | NDef doc hdr body endc =>
        HDef doc hdr body endc
             ((fix go (l : list node) : Q l :=
                 match l with [] => HNil | x :: r => HCons x r (node_ind2 x) (go r) end) body)
    | NClass doc hdr body endc =>
        HClass doc hdr body endc
               ((fix go (l : list node) : Q l :=
                   match l with [] => HNil | x :: r => HCons x r (node_ind2 x) (go r) end) body)
    end.

  Lemma nodes_ind2 : forall l, Q l.
  Proof. intro l. induction l as [|x r IH]; [exact HNil|apply HCons; [apply node_ind2|exact IH]]. Qed.
End node_ind2.

(* ---- kinds of the block commands ---------------------------------------------------- *)

Lemma is_def_cmd_classify : forall c,
  is_def_cmd c = match classify (cmd_kind c) with CkDef _ => true | _ => false end.
Proof.
  intro c. unfold is_def_cmd, kind_is. generalize (cmd_kind c) as k. intro k.
  kind_cases k Hk; try (subst k; reflexivity).
  - destruct Hk as [Hk|Hk]; subst k; reflexivity.
  - destruct Hk as (H1&H2&_). rewrite H1, H2. reflexivity.
Qed.

Lemma is_end_def_cmd_classify : forall c,
  is_end_def_cmd c = match classify (cmd_kind c) with CkEndDef => true | _ => false end.
Proof.
  intro c. unfold is_end_def_cmd, kind_is. generalize (cmd_kind c) as k. intro k.
  kind_cases k Hk; try (subst k; reflexivity).
  - destruct Hk as [Hk|Hk]; subst k; reflexivity.
  - destruct Hk as (_&_&H3&H4&_). rewrite H3, H4. reflexivity.
Qed.

Lemma is_class_cmd_classify : forall c,
  is_class_cmd c = match classify (cmd_kind c) with CkClass => true | _ => false end.
Proof.
  intro c. unfold is_class_cmd, kind_is. generalize (cmd_kind c) as k. intro k.
  kind_cases k Hk; try (subst k; reflexivity).
  - destruct Hk as [Hk|Hk]; subst k; reflexivity.
  - destruct Hk as (_&_&_&_&H5&_). rewrite H5. reflexivity.
Qed.

Lemma is_end_class_cmd_classify : forall c,
  is_end_class_cmd c = match classify (cmd_kind c) with CkEndClass => true | _ => false end.
Proof.
  intro c. unfold is_end_class_cmd, kind_is. generalize (cmd_kind c) as k. intro k.
  kind_cases k Hk; try (subst k; reflexivity).
  - destruct Hk as [Hk|Hk]; subst k; reflexivity.
  - destruct Hk as (_&_&_&_&_&H6&_). rewrite H6. reflexivity.
Qed.

Lemma is_cpa_cmd_classify : forall c,
  is_cpa_cmd c = match classify (cmd_kind c) with CkCpa => true | _ => false end.
Proof.
  intro c. unfold is_cpa_cmd, kind_is. generalize (cmd_kind c) as k. intro k.
  kind_cases k Hk; try (subst k; reflexivity).
  - destruct Hk as [Hk|Hk]; subst k; reflexivity.
  - destruct Hk as (_&_&_&_&_&_&H7&_). rewrite H7. reflexivity.
Qed.

Lemma kind_is_macro_classify : forall c m,
  classify (cmd_kind c) = CkDef m -> kind_is c (s"macro") = m.
Proof.
  intros c m. unfold kind_is. generalize (cmd_kind c) as k. intros k H.
  pose proof (classify_spec k) as Hk. rewrite H in Hk. destruct m; subst k; reflexivity.
Qed.

(* ---- function entries are touched by set_kwargs only -------------------------------- *)

(* every function/macro entry of st is still there, unchanged, in st' *)
Definition keeps (st st' : agg) : Prop :=
  forall j m n d p k, fn_at st j m n d p k -> fn_at st' j m n d p k.

Lemma keeps_refl : forall st, keeps st st.
Proof. intros st j m n d p k H. exact H. Qed.

Lemma keeps_trans : forall a b c, keeps a b -> keeps b c -> keeps a c.
Proof. intros a b c H1 H2 j m n d p k H. apply H2, H1, H. Qed.

Lemma keeps_same : forall st st', documented st' = documented st -> keeps st st'.
Proof. intros st st' E j m n d p k H. unfold fn_at in *. rewrite E. exact H. Qed.

Lemma keeps_append : forall e docd st, keeps st (append e docd st).
Proof.
  intros e docd st j m n d p k H. unfold fn_at in *. cbn [append documented].
  rewrite nth_error_app1; [exact H|]. apply nth_error_Some. rewrite H. discriminate.
Qed.

Lemma keeps_update : forall i f st,
  (forall m n d p k, f (EFunction m n d p k) = EFunction m n d p k) ->
  keeps st (with_docs (update_nth i f) st).
Proof.
  intros i f st Hf j m n d p k H. unfold fn_at in *. cbn [with_docs documented].
  apply nth_error_update_nth_fix; [exact H|apply Hf].
Qed.

Lemma keeps_upd_awaiting : forall a mac extra st,
  keeps st (with_docs (upd_awaiting_entry a mac extra) st).
Proof.
  intros a mac extra st. destruct a as [|idx|cidx ctor]; cbn [upd_awaiting_entry].
  - apply keeps_same. reflexivity.
  - apply keeps_update. reflexivity.
  - apply keeps_update. reflexivity.
Qed.

Lemma process_cpa_fn : forall st j m n d p k,
  fn_at st j m n d p k ->
  fn_at (process_cpa st) j m n d p (k || frame_is j (def_stack st)).
Proof.
  intros st j m n d p k H. unfold process_cpa, frame_is.
  destruct (def_stack st) as [|[i|] r]; try (rewrite orb_false_r; exact H).
  unfold fn_at in *. cbn [with_docs documented]. rewrite nth_error_update_nth.
  destruct (Nat.eqb i j); [|rewrite orb_false_r; exact H].
  rewrite H. cbn [option_map set_kwargs]. rewrite orb_true_r. reflexivity.
Qed.

Lemma process_cpa_def_stack : forall st, def_stack (process_cpa st) = def_stack st.
Proof.
  intro st. unfold process_cpa. destruct (def_stack st) as [|[i|] r] eqn:E; exact E.
Qed.

Lemma process_cpa_length : forall st, length (documented (process_cpa st)) = length (documented st).
Proof.
  intro st. unfold process_cpa. destruct (def_stack st) as [|[i|] r]; try reflexivity.
  cbn [with_docs documented]. apply update_nth_length.
Qed.

Section Steps.
  Variable fl : flags.
  Variable trigger : str.
  Variables strip_fn strip_mac strip_mem : str -> str.

  Lemma handle_keeps : forall k c doc docd st st',
    k <> CkCpa -> handle trigger strip_fn strip_mac k c doc docd st = Ok st' -> keeps st st'.
  Proof.
    intros k c doc docd st st' Hk H.
    destruct k as [m| | | | |sec| |ctor| | | |]; cbn [handle] in H; try contradiction.
    - unfold process_def in H. destruct (singles c) as [|name ps]; [discriminate|].
      injection H as <-. eapply keeps_trans; [apply keeps_append|apply keeps_same; reflexivity].
    - injection H as <-. apply keeps_refl.
    - injection H as <-. unfold process_class. destruct (singles c) as [|name supers]; [apply keeps_refl|].
      eapply keeps_trans; [|apply keeps_same; reflexivity].
      destruct (class_stack st) as [|[cidx|] r]; try apply keeps_append.
      eapply keeps_trans; [apply keeps_append|apply keeps_update; reflexivity].
    - injection H as <-. apply keeps_refl.
    - injection H as <-. unfold process_test.
      destruct (Nat.ltb _ _); [apply keeps_refl|].
      destruct (scan_name _ _); [|apply keeps_refl].
      eapply keeps_trans; [apply keeps_append|apply keeps_same; reflexivity].
    - unfold process_set in H. destruct (singles c) as [|name [|v [|v2 vals]]].
      + injection H as <-. apply keeps_refl.
      + injection H as <-. apply keeps_append.
      + destruct (unquote v); [|discriminate]. injection H as <-. apply keeps_append.
      + injection H as <-. apply keeps_append.
    - injection H as <-. unfold process_member.
      destruct (Nat.ltb _ _); [apply keeps_refl|].
      destruct (class_stack st) as [|[cidx|] r]; try apply keeps_refl.
      eapply keeps_trans; [|apply keeps_same; reflexivity].
      apply keeps_update. intros. destruct ctor; reflexivity.
    - injection H as <-. unfold process_attr.
      destruct (Nat.ltb _ _); [apply keeps_refl|].
      destruct (class_stack st) as [|[cidx|] r]; try apply keeps_refl.
      apply keeps_update. reflexivity.
    - injection H as <-. unfold process_add_test.
      destruct (Nat.ltb _ _); [apply keeps_refl|].
      destruct (scan_name_idx _ _ _) as [[idx name]|]; [|apply keeps_refl].
      apply keeps_append.
    - injection H as <-. unfold process_option.
      destruct (singles c) as [|n [|h [|v [|x r]]]]; try apply keeps_refl; apply keeps_append.
    - injection H as <-. apply keeps_refl.
  Qed.

  (* what the process_* method of a kind does to the definition stack *)
  Lemma handle_def_stack : forall k c doc docd st st',
    handle trigger strip_fn strip_mac k c doc docd st = Ok st' ->
    def_stack st' = match k with
                    | CkDef _ => Some (length (documented st)) :: def_stack st
                    | _ => def_stack st
                    end.
  Proof.
    intros k c doc docd st st' H.
    destruct k as [m| | | | |sec| |ctor| | | |]; cbn [handle] in H.
    - unfold process_def in H. destruct (singles c) as [|name ps]; [discriminate|].
      injection H as <-. reflexivity.
    - injection H as <-. reflexivity.
    - injection H as <-. unfold process_class. destruct (singles c) as [|name supers]; [reflexivity|].
      destruct (class_stack st) as [|[cidx|] r]; reflexivity.
    - injection H as <-. reflexivity.
    - injection H as <-. apply process_cpa_def_stack.
    - injection H as <-. unfold process_test.
      destruct (Nat.ltb _ _); [reflexivity|]. destruct (scan_name _ _); reflexivity.
    - unfold process_set in H. destruct (singles c) as [|name [|v [|v2 vals]]].
      + injection H as <-. reflexivity.
      + injection H as <-. reflexivity.
      + destruct (unquote v); [|discriminate]. injection H as <-. reflexivity.
      + injection H as <-. reflexivity.
    - injection H as <-. unfold process_member.
      destruct (Nat.ltb _ _); [reflexivity|].
      destruct (class_stack st) as [|[cidx|] r]; reflexivity.
    - injection H as <-. unfold process_attr.
      destruct (Nat.ltb _ _); [reflexivity|].
      destruct (class_stack st) as [|[cidx|] r]; reflexivity.
    - injection H as <-. unfold process_add_test.
      destruct (Nat.ltb _ _); [reflexivity|].
      destruct (scan_name_idx _ _ _) as [[idx name]|]; reflexivity.
    - injection H as <-. unfold process_option.
      destruct (singles c) as [|n [|h [|v [|x r]]]]; reflexivity.
    - injection H as <-. reflexivity.
  Qed.

  Lemma enter_documented_k_keeps : forall k command d c st st',
    k <> CkCpa ->
    enter_documented_k trigger strip_fn strip_mac k command d c st = Ok st' -> keeps st st'.
  Proof.
    intros k command d c st st' Hk H.
    destruct k as [m| | | | |sec| |ctor| | | |]; cbn [enter_documented_k] in H;
      try (eapply handle_keeps; [exact Hk|exact H]).
    all: injection H as <-; apply keeps_append.
  Qed.

  Lemma enter_documented_k_def_stack : forall k command d c st st',
    enter_documented_k trigger strip_fn strip_mac k command d c st = Ok st' ->
    def_stack st' = match k with
                    | CkDef _ => Some (length (documented st)) :: def_stack st
                    | _ => def_stack st
                    end.
  Proof.
    intros k command d c st st' H.
    destruct k as [m| | | | |sec| |ctor| | | |]; cbn [enter_documented_k] in H;
      try (apply handle_def_stack in H; exact H).
    all: injection H as <-; reflexivity.
  Qed.

  Lemma claim_keeps : forall m consumed c st, keeps st (claim strip_mem m consumed c st).
  Proof.
    intros m consumed c st. unfold claim.
    set (extra := if Nat.ltb 2 _ then _ else _).
    destruct consumed; (eapply keeps_trans; [apply keeps_upd_awaiting|apply keeps_same; reflexivity]).
  Qed.

  Lemma enter_command_k_keeps : forall k consumed c st st',
    k <> CkCpa ->
    enter_command_k fl trigger strip_fn strip_mac strip_mem k consumed c st = Ok st' ->
    keeps st st'.
  Proof.
    intros k consumed c st st' Hk H.
    destruct k as [m| | | | |sec| |ctor| | | |]; cbn [enter_command_k] in H; try contradiction.
    - destruct (aw_pending (awaiting st)); [injection H as <-; apply claim_keeps|].
      destruct consumed; [injection H as <-; apply keeps_refl|].
      destruct (flag_of fl (CkDef m)).
      + apply (handle_keeps (CkDef m)) in H; [exact H|discriminate].
      + injection H as <-. apply keeps_same. reflexivity.
    - destruct (def_stack st); [discriminate|]. injection H as <-. apply keeps_same. reflexivity.
    - destruct (negb (inc_cpp_class fl)); [injection H as <-; apply keeps_same; reflexivity|].
      destruct consumed; [injection H as <-; apply keeps_refl|].
      apply (handle_keeps CkClass c [] false); [discriminate|exact H].
    - destruct (class_stack st); [discriminate|]. injection H as <-. apply keeps_same. reflexivity.
    - destruct consumed; [injection H as <-; apply keeps_refl|].
      destruct (flag_of fl (CkTest sec)); [eapply handle_keeps; [|exact H]; discriminate|].
      injection H as <-. apply keeps_refl.
    - injection H as <-. apply keeps_refl.
    - destruct consumed; [injection H as <-; apply keeps_refl|].
      destruct (flag_of fl (CkMember ctor)); [eapply handle_keeps; [|exact H]; discriminate|].
      injection H as <-. apply keeps_refl.
    - destruct consumed; [injection H as <-; apply keeps_refl|].
      destruct (flag_of fl CkAttr); [eapply handle_keeps; [|exact H]; discriminate|].
      injection H as <-. apply keeps_refl.
    - destruct consumed; [injection H as <-; apply keeps_refl|].
      destruct (flag_of fl CkAddTest); [eapply handle_keeps; [|exact H]; discriminate|].
      injection H as <-. apply keeps_refl.
    - destruct consumed; [injection H as <-; apply keeps_refl|].
      destruct (flag_of fl CkOption); [eapply handle_keeps; [|exact H]; discriminate|].
      injection H as <-. apply keeps_refl.
    - injection H as <-. apply keeps_refl.
  Qed.

  (* the frame pushed by the enterCommand part of a definition header *)
  Definition def_frame (consumed : bool) (m : bool) (st : agg) : list (option nat) :=
    if consumed then []
    else if aw_pending (awaiting st) then [None]
    else if flag_of fl (CkDef m) then [Some (length (documented st))] else [None].

  Lemma enter_command_k_def_stack : forall k consumed c st st',
    enter_command_k fl trigger strip_fn strip_mac strip_mem k consumed c st = Ok st' ->
    match k with
    | CkDef m => def_stack st' = def_frame consumed m st ++ def_stack st
    | CkEndDef => exists fr, def_stack st = fr :: def_stack st'
    | _ => def_stack st' = def_stack st
    end.
  Proof.
    intros k consumed c st st' H.
    destruct k as [m| | | | |sec| |ctor| | | |]; cbn [enter_command_k] in H.
    - unfold def_frame. destruct (aw_pending (awaiting st)).
      { injection H as <-. unfold claim. destruct consumed; reflexivity. }
      destruct consumed; [injection H as <-; reflexivity|].
      destruct (flag_of fl (CkDef m)).
      + apply (handle_def_stack (CkDef m)) in H. exact H.
      + injection H as <-. reflexivity.
    - destruct (def_stack st) as [|fr ds]; [discriminate|]. injection H as <-. exists fr. reflexivity.
    - destruct (negb (inc_cpp_class fl)); [injection H as <-; reflexivity|].
      destruct consumed; [injection H as <-; reflexivity|].
      apply (handle_def_stack CkClass) in H. exact H.
    - destruct (class_stack st); [discriminate|]. injection H as <-. reflexivity.
    - injection H as <-. apply process_cpa_def_stack.
    - destruct consumed; [injection H as <-; reflexivity|].
      destruct (flag_of fl (CkTest sec)); [apply handle_def_stack in H; exact H|].
      injection H as <-. reflexivity.
    - injection H as <-. reflexivity.
    - destruct consumed; [injection H as <-; reflexivity|].
      destruct (flag_of fl (CkMember ctor)); [apply handle_def_stack in H; exact H|].
      injection H as <-. reflexivity.
    - destruct consumed; [injection H as <-; reflexivity|].
      destruct (flag_of fl CkAttr); [apply handle_def_stack in H; exact H|].
      injection H as <-. reflexivity.
    - destruct consumed; [injection H as <-; reflexivity|].
      destruct (flag_of fl CkAddTest); [apply handle_def_stack in H; exact H|].
      injection H as <-. reflexivity.
    - destruct consumed; [injection H as <-; reflexivity|].
      destruct (flag_of fl CkOption); [apply handle_def_stack in H; exact H|].
      injection H as <-. reflexivity.
    - injection H as <-. reflexivity.
  Qed.

  Notation step := (agg_step fl trigger strip_fn strip_mac strip_mem).
  Notation run := (agg_run fl trigger strip_fn strip_mac strip_mem).

  Lemma process_def_length : forall m c doc docd st st',
    process_def trigger strip_fn strip_mac m c doc docd st = Ok st' ->
    length (documented st') = S (length (documented st)).
  Proof.
    intros m c doc docd st st' H. unfold process_def in H.
    destruct (singles c) as [|name ps]; [discriminate|]. injection H as <-.
    cbn [with_def_stack append documented]. rewrite app_length. cbn [length]. lia.
  Qed.

  Lemma ev_length : forall n st st', ev n st st' -> length (documented st) <= length (documented st').
  Proof.
    intros n st st' (o & nw & E & F & _). rewrite E, app_length. apply Forall2_len in F. lia.
  Qed.

  (* one element, definition stack *)
  Lemma agg_step_def_stack : forall st e st',
    step st e = Ok st' ->
    match elem_kind e with
    | CkDef _ => exists fr, def_stack st' = fr :: def_stack st
                            /\ (fr = None
                                \/ (fr = Some (length (documented st))
                                    /\ length (documented st) < length (documented st')))
    | CkEndDef => exists fr, def_stack st = fr :: def_stack st'
    | _ => def_stack st' = def_stack st
    end.
  Proof.
    intros st e st' H. destruct e as [d c|c|d]; cbn [agg_step elem_kind] in *.
    - rewrite enter_documented_eq in H. fold (cmd_kind c) in H.
      destruct (enter_documented_k trigger strip_fn strip_mac (classify (cmd_kind c)) (cmd_kind c) d c st)
        as [st1|] eqn:E1; [|discriminate].
      pose proof (ev_length _ _ _ (enter_command_ev _ _ _ _ _ _ _ _ _ H)) as Hlen.
      rewrite enter_command_eq in H. fold (cmd_kind c) in H.
      pose proof (enter_documented_k_def_stack _ _ _ _ _ _ E1) as Hds1.
      apply enter_command_k_def_stack in H.
      destruct (classify (cmd_kind c)) as [m| | | | |sec| |ctor| | | |]; try congruence.
      + cbn [def_frame app] in H. exists (Some (length (documented st))). rewrite H, Hds1.
        split; [reflexivity|]. right. split; [reflexivity|].
        cbn [enter_documented_k handle] in E1. apply process_def_length in E1. lia.
      + destruct H as [fr H]. exists fr. congruence.
    - rewrite enter_command_eq in H. fold (cmd_kind c) in H.
      pose proof (enter_command_k_def_stack _ _ _ _ _ H) as Hds.
      destruct (classify (cmd_kind c)) as [m| | | | |sec| |ctor| | | |]; try exact Hds.
      unfold def_frame in Hds. cbn [app] in Hds. cbn [enter_command_k] in H.
      destruct (aw_pending (awaiting st)); [exists None; auto|].
      destruct (flag_of fl (CkDef m)).
      + eexists. split; [exact Hds|]. right. split; [reflexivity|].
        apply process_def_length in H. lia.
      + exists None. auto.
    - injection H as <-. reflexivity.
  Qed.

  (* one element, function entries *)
  Lemma agg_step_fn : forall st e st' j m n d p k,
    step st e = Ok st' -> fn_at st j m n d p k ->
    fn_at st' j m n d p (k || (frame_is j (def_stack st) && elem_is_cpa e)).
  Proof.
    intros st e st' j m n d p k H Hj. destruct e as [dd c|c|dd]; cbn [agg_step elem_is_cpa] in *.
    - rewrite enter_documented_eq in H. fold (cmd_kind c) in H.
      destruct (enter_documented_k trigger strip_fn strip_mac (classify (cmd_kind c)) (cmd_kind c) dd c st)
        as [st1|] eqn:E1; [|discriminate].
      rewrite enter_command_eq in H. fold (cmd_kind c) in H.
      rewrite is_cpa_cmd_classify.
      destruct (classify (cmd_kind c)) as [mm| | | | |sec| |ctor| | | |] eqn:Ek.
      5: { cbn [enter_documented_k handle enter_command_k] in E1, H.
           injection E1 as <-. injection H as <-.
           apply process_cpa_fn in Hj. apply process_cpa_fn in Hj.
           rewrite process_cpa_def_stack in Hj.
           destruct k, (frame_is j (def_stack st)); exact Hj. }
      all: rewrite andb_false_r, orb_false_r.
      all: apply enter_documented_k_keeps in E1; [|discriminate].
      all: apply enter_command_k_keeps in H; [|discriminate].
      all: apply H, E1, Hj.
    - rewrite enter_command_eq in H. fold (cmd_kind c) in H.
      rewrite is_cpa_cmd_classify.
      destruct (classify (cmd_kind c)) as [mm| | | | |sec| |ctor| | | |] eqn:Ek.
      5: { cbn [enter_command_k] in H. injection H as <-.
           apply process_cpa_fn in Hj. rewrite andb_true_r. exact Hj. }
      all: rewrite andb_false_r, orb_false_r.
      all: apply enter_command_k_keeps in H; [|discriminate].
      all: apply H, Hj.
    - injection H as <-. rewrite andb_false_r, orb_false_r. exact Hj.
  Qed.

  Lemma agg_step_length : forall st e st',
    step st e = Ok st' -> length (documented st) <= length (documented st').
  Proof.
    intros st e st' H. apply agg_step_append_only in H.
    destruct H as (o & nw & _ & _ & _ & L). lia.
  Qed.

  Lemma agg_run_app : forall a b st,
    run st (a ++ b) = match run st a with Ok st1 => run st1 b | Crash => Crash end.
  Proof.
    intros a b. induction a as [|e r IH]; intro st; cbn [app agg_run]; [reflexivity|].
    destruct (step st e); [apply IH|reflexivity].
  Qed.
End Steps.

Lemma elem_kind_elem_of : forall doc c, elem_kind (elem_of doc c) = classify (cmd_kind c).
Proof. intros [d|] c; reflexivity. Qed.

Lemma elem_is_cpa_elem_of : forall doc c, elem_is_cpa (elem_of doc c) = is_cpa_cmd c.
Proof. intros [d|] c; reflexivity. Qed.

Lemma frame_is_avoid : forall j ds, frames_avoid j ds = true -> frame_is j ds = false.
Proof.
  intros j [|[i|] r] H; try reflexivity. cbn [frames_avoid forallb] in H. cbn [frame_is].
  apply andb_true_iff in H. destruct H as [H _]. apply negb_true_iff in H. exact H.
Qed.

Lemma frames_below_avoid : forall j ds, frames_below j ds = true -> frames_avoid j ds = true.
Proof.
  intros j ds. induction ds as [|[i|] r IH]; cbn [frames_below frames_avoid forallb]; intro H;
    try reflexivity.
  - apply andb_true_iff in H. destruct H as [H1 H2]. fold (frames_below j r) in H2.
    fold (frames_avoid j r). rewrite (IH H2), andb_true_r.
    apply Nat.ltb_lt in H1. apply negb_true_iff, Nat.eqb_neq. lia.
  - apply IH, H.
Qed.

Lemma frames_below_le : forall n n' ds, n <= n' -> frames_below n ds = true -> frames_below n' ds = true.
Proof.
  intros n n' ds Hn. induction ds as [|[i|] r IH]; cbn [frames_below forallb]; intro H;
    try reflexivity.
  - apply andb_true_iff in H. destruct H as [H1 H2]. fold (frames_below n r) in H2.
    fold (frames_below n' r). rewrite (IH H2), andb_true_r.
    apply Nat.ltb_lt in H1. apply Nat.ltb_lt. lia.
  - apply IH, H.
Qed.

Section Defs.
  Variable fl : flags.
  Variable trigger : str.
  Variables strip_fn strip_mac strip_mem : str -> str.

  Notation step := (agg_step fl trigger strip_fn strip_mac strip_mem).
  Notation run := (agg_run fl trigger strip_fn strip_mac strip_mem).

  Lemma run_single : forall st e st', run st [e] = Ok st' -> step st e = Ok st'.
  Proof.
    intros st e st' H. cbn [agg_run] in H. destruct (step st e) as [st1|]; [|discriminate].
    exact H.
  Qed.

  Lemma run_app_inv : forall a b st st',
    run st (a ++ b) = Ok st' -> exists st1, run st a = Ok st1 /\ run st1 b = Ok st'.
  Proof.
    intros a b st st' H. rewrite agg_run_app in H.
    destruct (run st a) as [st1|]; [|discriminate]. exists st1. auto.
  Qed.

  Lemma run_block : forall st e mid e2 st',
    run st (e :: mid ++ [e2]) = Ok st' ->
    exists st1 st2, step st e = Ok st1 /\ run st1 mid = Ok st2 /\ step st2 e2 = Ok st'.
  Proof.
    intros st e mid e2 st' H. cbn [agg_run] in H.
    destruct (step st e) as [st1|] eqn:E1; [|discriminate].
    apply run_app_inv in H. destruct H as (st2 & H2 & H3). apply run_single in H3.
    exists st1, st2. auto.
  Qed.

  (* ---- D1 ---------------------------------------------------------------------------- *)

  Lemma def_stack_restored_gen :
    (forall n st st', wf_node n = true -> run st (flatten n) = Ok st' -> def_stack st' = def_stack st).
  Proof.
    apply (node_ind2
      (fun n => forall st st', wf_node n = true -> run st (flatten n) = Ok st' ->
                               def_stack st' = def_stack st)
      (fun l => forall st st', wf_nodes l = true -> run st (flatten_all l) = Ok st' ->
                               def_stack st' = def_stack st)).
    - intros doc c st st' Hwf H. cbn [flatten] in H. apply run_single in H.
      apply agg_step_def_stack in H. rewrite elem_kind_elem_of in H.
      cbn [wf_node] in Hwf. rewrite is_def_cmd_classify, is_end_def_cmd_classify in Hwf.
      destruct (classify (cmd_kind c)); try exact H; discriminate Hwf.
    - intros d st st' _ H. cbn in H. injection H as <-. reflexivity.
    - intros doc hdr body endc IH st st' Hwf H. rewrite flatten_def in H.
      rewrite wf_node_def in Hwf. apply andb_true_iff in Hwf. destruct Hwf as [Hwf Hb].
      apply andb_true_iff in Hwf. destruct Hwf as [Hh He].
      apply run_block in H. destruct H as (st1 & st2 & H1 & H2 & H3).
      apply agg_step_def_stack in H1. rewrite elem_kind_elem_of in H1.
      apply agg_step_def_stack in H3. cbn [elem_kind] in H3.
      rewrite is_def_cmd_classify in Hh. rewrite is_end_def_cmd_classify in He.
      apply (IH _ _ Hb) in H2.
      destruct (classify (cmd_kind hdr)); try discriminate Hh.
      destruct (classify (cmd_kind endc)); try discriminate He.
      destruct H1 as (fr & H1 & _). destruct H3 as (fr' & H3). congruence.
    - intros doc hdr body endc IH st st' Hwf H. rewrite flatten_class in H.
      rewrite wf_node_class in Hwf. apply andb_true_iff in Hwf. destruct Hwf as [Hwf Hb].
      apply andb_true_iff in Hwf. destruct Hwf as [Hh He].
      apply run_block in H. destruct H as (st1 & st2 & H1 & H2 & H3).
      apply agg_step_def_stack in H1. rewrite elem_kind_elem_of in H1.
      apply agg_step_def_stack in H3. cbn [elem_kind] in H3.
      rewrite is_class_cmd_classify in Hh. rewrite is_end_class_cmd_classify in He.
      apply (IH _ _ Hb) in H2.
      destruct (classify (cmd_kind hdr)); try discriminate Hh.
      destruct (classify (cmd_kind endc)); try discriminate He.
      congruence.
    - intros st st' _ H. cbn in H. injection H as <-. reflexivity.
    - intros x r IHx IHr st st' Hwf H. cbn [wf_nodes forallb] in Hwf.
      apply andb_true_iff in Hwf. destruct Hwf as [Hx Hr].
      unfold flatten_all in H. cbn [flat_map] in H. apply run_app_inv in H.
      destruct H as (st1 & H1 & H2). apply (IHx _ _ Hx) in H1. apply (IHr _ _ Hr) in H2. congruence.
  Qed.

  Theorem def_stack_restored : forall nodes st st',
    wf_nodes nodes = true -> run st (flatten_all nodes) = Ok st' -> def_stack st' = def_stack st.
  Proof.
    intro nodes. induction nodes as [|x r IH]; intros st st' Hwf H.
    - cbn in H. injection H as <-. reflexivity.
    - cbn [wf_nodes forallb] in Hwf. apply andb_true_iff in Hwf. destruct Hwf as [Hx Hr].
      unfold flatten_all in H. cbn [flat_map] in H. apply run_app_inv in H.
      destruct H as (st1 & H1 & H2). apply (def_stack_restored_gen _ _ _ Hx) in H1.
      apply (IH _ _ Hr) in H2. congruence.
  Qed.

  (* ---- D2 ---------------------------------------------------------------------------- *)

  Theorem def_entry_created : forall doc hdr st st1,
    is_def_cmd hdr = true ->
    header_creates fl st doc hdr = true ->
    step st (elem_of doc hdr) = Ok st1 ->
    exists name ps,
      singles hdr = name :: ps
      /\ fn_at st1 (length (documented st)) (kind_is hdr (s"macro")) name (doc_of doc)
               (map (if kind_is hdr (s"macro") then strip_mac else strip_fn) ps)
               (contains trigger (doc_of doc))
      /\ length (documented st1) = S (length (documented st))
      /\ def_stack st1 = Some (length (documented st)) :: def_stack st.
  Proof.
    intros doc hdr st st1 Hd Hc H. rewrite is_def_cmd_classify in Hd.
    destruct (classify (cmd_kind hdr)) as [m| | | | | | | | | | |] eqn:Ek; try discriminate Hd.
    rewrite (kind_is_macro_classify _ _ Ek).
    assert (Hpd : forall d docd st2,
               process_def trigger strip_fn strip_mac m hdr d docd st = Ok st2 ->
               exists name ps, singles hdr = name :: ps
                 /\ fn_at st2 (length (documented st)) m name d
                          (map (if m then strip_mac else strip_fn) ps) (contains trigger d)
                 /\ length (documented st2) = S (length (documented st))
                 /\ def_stack st2 = Some (length (documented st)) :: def_stack st
                 /\ awaiting st2 = awaiting st).
    { intros d docd st2 Hp. unfold process_def in Hp.
      destruct (singles hdr) as [|name ps]; [discriminate|]. injection Hp as <-.
      exists name, ps. split; [reflexivity|]. unfold fn_at.
      cbn [with_def_stack append documented def_stack awaiting].
      rewrite nth_error_app2, Nat.sub_diag by lia. rewrite app_length. cbn [length nth_error].
      repeat split; try reflexivity. lia. }
    destruct doc as [t|]; cbn [elem_of agg_step doc_of] in *.
    - rewrite enter_documented_eq in H. fold (cmd_kind hdr) in H. rewrite Ek in H.
      cbn [enter_documented_k handle] in H.
      destruct (process_def trigger strip_fn strip_mac m hdr (clean_doc_text t) true st)
        as [st2|] eqn:E2; [|discriminate].
      rewrite enter_command_eq in H. fold (cmd_kind hdr) in H. rewrite Ek in H.
      cbn [enter_command_k] in H.
      destruct (Hpd _ _ _ E2) as (name & ps & Hs & Hf & Hl & Hds & Haw).
      exists name, ps. split; [exact Hs|].
      destruct (aw_pending (awaiting st2)).
      + pose proof (claim_keeps strip_mem m true hdr st2) as Hk.
        injection H as <-. split; [exact (Hk _ _ _ _ _ _ Hf)|]. unfold claim.
        cbn [with_awaiting with_docs documented def_stack]. rewrite upd_awaiting_length. auto.
      + injection H as <-. auto.
    - rewrite enter_command_eq in H. fold (cmd_kind hdr) in H. rewrite Ek in H.
      cbn [enter_command_k] in H. cbn [header_creates] in Hc.
      rewrite (kind_is_macro_classify _ _ Ek) in Hc.
      apply andb_true_iff in Hc. destruct Hc as [Hc1 Hc2]. apply negb_true_iff in Hc1.
      rewrite Hc1 in H.
      assert (Hfl : flag_of fl (CkDef m) = true) by (destruct m; exact Hc2).
      rewrite Hfl in H. destruct (Hpd _ _ _ H) as (name & ps & Hs & Hf & Hl & Hds & _).
      exists name, ps. auto.
  Qed.

  (* a header that does not create an entry leaves the documented list as long as it was *)
  Lemma def_header_no_entry : forall hdr st st1,
    is_def_cmd hdr = true ->
    header_creates fl st None hdr = false ->
    step st (ECmd hdr) = Ok st1 ->
    length (documented st1) = length (documented st) /\ def_stack st1 = None :: def_stack st.
  Proof.
    intros hdr st st1 Hd Hc H. rewrite is_def_cmd_classify in Hd.
    destruct (classify (cmd_kind hdr)) as [m| | | | | | | | | | |] eqn:Ek; try discriminate Hd.
    cbn [agg_step] in H. rewrite enter_command_eq in H. fold (cmd_kind hdr) in H. rewrite Ek in H.
    cbn [enter_command_k] in H. cbn [header_creates] in Hc.
    rewrite (kind_is_macro_classify _ _ Ek) in Hc.
    destruct (aw_pending (awaiting st)).
    - injection H as <-. unfold claim. cbn [with_awaiting with_docs with_def_stack documented def_stack].
      rewrite upd_awaiting_length. auto.
    - cbn [negb andb] in Hc.
      assert (Hfl : flag_of fl (CkDef m) = false) by (destruct m; exact Hc).
      rewrite Hfl in H. injection H as <-. auto.
  Qed.

  (* ---- D3 ---------------------------------------------------------------------------- *)

  (* running well-nested nodes marks entry j iff its frame is on top at the start and
     cmake_parse_arguments occurs at depth 0 *)
  Lemma run_nodes_fn_gen :
    forall n st st' j m nm d p k,
      wf_node n = true -> run st (flatten n) = Ok st' -> fn_at st j m nm d p k ->
      fn_at st' j m nm d p (k || (frame_is j (def_stack st) && has_cpa0 n)).
  Proof.
    apply (node_ind2
      (fun n => forall st st' j m nm d p k,
         wf_node n = true -> run st (flatten n) = Ok st' -> fn_at st j m nm d p k ->
         fn_at st' j m nm d p (k || (frame_is j (def_stack st) && has_cpa0 n)))
      (fun l => forall st st' j m nm d p k,
         wf_nodes l = true -> run st (flatten_all l) = Ok st' -> fn_at st j m nm d p k ->
         fn_at st' j m nm d p (k || (frame_is j (def_stack st) && existsb has_cpa0 l)))).
    - intros doc c st st' j m nm d p k _ H Hj. cbn [flatten] in H. apply run_single in H.
      eapply agg_step_fn in H; [|exact Hj]. rewrite elem_is_cpa_elem_of in H. exact H.
    - intros dd st st' j m nm d p k _ H Hj. cbn in H. injection H as <-.
      cbn [has_cpa0]. rewrite andb_false_r, orb_false_r. exact Hj.
    - intros doc hdr body endc IH st st' j m nm d p k Hwf H Hj. rewrite flatten_def in H.
      rewrite wf_node_def in Hwf. apply andb_true_iff in Hwf. destruct Hwf as [Hwf Hb].
      apply andb_true_iff in Hwf. destruct Hwf as [Hh He].
      apply run_block in H. destruct H as (st1 & st2 & H1 & H2 & H3).
      cbn [has_cpa0]. rewrite andb_false_r, orb_false_r.
      pose proof (agg_step_def_stack _ _ _ _ _ _ _ _ H1) as Hds1. rewrite elem_kind_elem_of in Hds1.
      rewrite is_def_cmd_classify in Hh.
      destruct (classify (cmd_kind hdr)) eqn:Ekh; try discriminate Hh.
      destruct Hds1 as (fr & Hds1 & Hfr).
      eapply agg_step_fn in H1; [|exact Hj]. rewrite elem_is_cpa_elem_of, is_cpa_cmd_classify, Ekh in H1.
      rewrite andb_false_r, orb_false_r in H1.
      assert (Hnot : frame_is j (def_stack st1) = false).
      { rewrite Hds1. destruct Hfr as [->|[-> _]]; [reflexivity|]. cbn [frame_is].
        apply Nat.eqb_neq. unfold fn_at in Hj.
        assert (j < length (documented st)) by (apply nth_error_Some; rewrite Hj; discriminate).
        lia. }
      eapply (IH _ _ _ _ _ _ _ _ Hb H2) in H1. rewrite Hnot in H1. cbn [andb] in H1.
      rewrite orb_false_r in H1.
      eapply agg_step_fn in H3; [|exact H1]. cbn [elem_is_cpa] in H3.
      rewrite is_end_def_cmd_classify in He. rewrite is_cpa_cmd_classify in H3.
      destruct (classify (cmd_kind endc)); try discriminate He.
      rewrite andb_false_r, orb_false_r in H3. exact H3.
    - intros doc hdr body endc IH st st' j m nm d p k Hwf H Hj. rewrite flatten_class in H.
      rewrite wf_node_class in Hwf. apply andb_true_iff in Hwf. destruct Hwf as [Hwf Hb].
      apply andb_true_iff in Hwf. destruct Hwf as [Hh He].
      apply run_block in H. destruct H as (st1 & st2 & H1 & H2 & H3).
      rewrite has_cpa0_class.
      pose proof (agg_step_def_stack _ _ _ _ _ _ _ _ H1) as Hds1. rewrite elem_kind_elem_of in Hds1.
      rewrite is_class_cmd_classify in Hh.
      destruct (classify (cmd_kind hdr)) eqn:Ekh; try discriminate Hh.
      eapply agg_step_fn in H1; [|exact Hj]. rewrite elem_is_cpa_elem_of, is_cpa_cmd_classify, Ekh in H1.
      rewrite andb_false_r, orb_false_r in H1.
      eapply (IH _ _ _ _ _ _ _ _ Hb H2) in H1. rewrite Hds1 in H1.
      eapply agg_step_fn in H3; [|exact H1]. cbn [elem_is_cpa] in H3.
      rewrite is_end_class_cmd_classify in He. rewrite is_cpa_cmd_classify in H3.
      destruct (classify (cmd_kind endc)); try discriminate He.
      rewrite andb_false_r, orb_false_r in H3. exact H3.
    - intros st st' j m nm d p k _ H Hj. cbn in H. injection H as <-.
      cbn [existsb]. rewrite andb_false_r, orb_false_r. exact Hj.
    - intros x r IHx IHr st st' j m nm d p k Hwf H Hj. cbn [wf_nodes forallb] in Hwf.
      apply andb_true_iff in Hwf. destruct Hwf as [Hx Hr].
      unfold flatten_all in H. cbn [flat_map] in H. apply run_app_inv in H.
      destruct H as (st1 & H1 & H2).
      pose proof (def_stack_restored_gen _ _ _ Hx H1) as Hds.
      eapply (IHx _ _ _ _ _ _ _ _ Hx H1) in Hj. eapply (IHr _ _ _ _ _ _ _ _ Hr H2) in Hj.
      rewrite Hds in Hj. cbn [existsb].
      destruct k, (frame_is j (def_stack st)), (has_cpa0 x), (existsb has_cpa0 r); exact Hj.
  Qed.

  Lemma run_nodes_fn : forall nodes st st' j m nm d p k,
    wf_nodes nodes = true -> run st (flatten_all nodes) = Ok st' -> fn_at st j m nm d p k ->
    fn_at st' j m nm d p (k || (frame_is j (def_stack st) && existsb has_cpa0 nodes)).
  Proof.
    intro nodes. induction nodes as [|x r IH]; intros st st' j m nm d p k Hwf H Hj.
    - cbn in H. injection H as <-. cbn [existsb]. rewrite andb_false_r, orb_false_r. exact Hj.
    - cbn [wf_nodes forallb] in Hwf. apply andb_true_iff in Hwf. destruct Hwf as [Hx Hr].
      unfold flatten_all in H. cbn [flat_map] in H. apply run_app_inv in H.
      destruct H as (st1 & H1 & H2).
      pose proof (def_stack_restored_gen _ _ _ Hx H1) as Hds.
      eapply (run_nodes_fn_gen _ _ _ _ _ _ _ _ _ Hx H1) in Hj.
      eapply (IH _ _ _ _ _ _ _ _ Hr H2) in Hj.
      rewrite Hds in Hj. cbn [existsb].
      destruct k, (frame_is j (def_stack st)), (has_cpa0 x), (existsb has_cpa0 r); exact Hj.
  Qed.

  Theorem kwargs_iff : forall doc hdr body endc st st',
    wf_node (NDef doc hdr body endc) = true ->
    header_creates fl st doc hdr = true ->
    run st (flatten (NDef doc hdr body endc)) = Ok st' ->
    exists name ps,
      singles hdr = name :: ps
      /\ fn_at st' (length (documented st)) (kind_is hdr (s"macro")) name (doc_of doc)
               (map (if kind_is hdr (s"macro") then strip_mac else strip_fn) ps)
               (contains trigger (doc_of doc) || body_has_cpa0 body)
      /\ def_stack st' = def_stack st.
  Proof.
    intros doc hdr body endc st st' Hwf Hc H.
    pose proof (def_stack_restored_gen _ _ _ Hwf H) as Hds.
    rewrite flatten_def in H.
    rewrite wf_node_def in Hwf. apply andb_true_iff in Hwf. destruct Hwf as [Hwf Hb].
    apply andb_true_iff in Hwf. destruct Hwf as [Hh He].
    apply run_block in H. destruct H as (st1 & st2 & H1 & H2 & H3).
    destruct (def_entry_created _ _ _ _ Hh Hc H1) as (name & ps & Hs & Hf & Hl & Hds1).
    exists name, ps. split; [exact Hs|]. split; [|exact Hds].
    eapply (run_nodes_fn _ _ _ _ _ _ _ _ _ Hb H2) in Hf.
    rewrite Hds1 in Hf. cbn [frame_is] in Hf. rewrite Nat.eqb_refl in Hf. cbn [andb] in Hf.
    eapply agg_step_fn in H3; [|exact Hf]. cbn [elem_is_cpa] in H3.
    rewrite is_end_def_cmd_classify in He. rewrite is_cpa_cmd_classify in H3.
    destruct (classify (cmd_kind endc)); try discriminate He.
    rewrite andb_false_r, orb_false_r in H3. exact H3.
  Qed.

  (* ---- D4 ---------------------------------------------------------------------------- *)

  Lemma agg_step_frames_avoid : forall st e st' j,
    step st e = Ok st' -> j < length (documented st) ->
    frames_avoid j (def_stack st) = true -> frames_avoid j (def_stack st') = true.
  Proof.
    intros st e st' j H Hj Hf. apply agg_step_def_stack in H.
    destruct (elem_kind e); try (rewrite H; exact Hf).
    - destruct H as (fr & H & Hfr). rewrite H. cbn [frames_avoid forallb].
      fold (frames_avoid j (def_stack st)). rewrite Hf, andb_true_r.
      destruct Hfr as [->|[-> _]]; [reflexivity|]. apply negb_true_iff, Nat.eqb_neq. lia.
    - destruct H as (fr & H). rewrite H in Hf. cbn [frames_avoid forallb] in Hf.
      apply andb_true_iff in Hf. destruct Hf as [_ Hf]. exact Hf.
  Qed.

  (* once no open definition refers to entry j, nothing ever marks it: any further elements
     (well nested or not) leave the entry as it is *)
  Theorem cpa_outside_never_marks : forall es st st' j m nm d p k,
    frames_avoid j (def_stack st) = true ->
    fn_at st j m nm d p k ->
    run st es = Ok st' ->
    fn_at st' j m nm d p k /\ frames_avoid j (def_stack st') = true.
  Proof.
    intro es. induction es as [|e r IH]; intros st st' j m nm d p k Hf Hj H; cbn [agg_run] in H.
    - injection H as <-. auto.
    - destruct (step st e) as [st1|] eqn:E1; [|discriminate].
      assert (Hlt : j < length (documented st)).
      { apply nth_error_Some. unfold fn_at in Hj. rewrite Hj. discriminate. }
      pose proof (agg_step_frames_avoid _ _ _ _ E1 Hlt Hf) as Hf1.
      eapply agg_step_fn in E1; [|exact Hj]. rewrite (frame_is_avoid _ _ Hf) in E1.
      cbn [andb] in E1. rewrite orb_false_r in E1.
      eapply IH; eassumption.
  Qed.

  (* the invariant that makes D4 applicable: open definitions refer to existing entries *)
  Lemma agg_step_frames_below : forall st e st',
    step st e = Ok st' ->
    frames_below (length (documented st)) (def_stack st) = true ->
    frames_below (length (documented st')) (def_stack st') = true.
  Proof.
    intros st e st' H Hf. pose proof (agg_step_length _ _ _ _ _ _ _ _ H) as Hl.
    pose proof (agg_step_append_only _ _ _ _ _ _ _ _ H) as (o & nw & _ & _ & _ & Hlen).
    apply agg_step_def_stack in H.
    apply (frames_below_le _ _ _ Hl) in Hf.
    destruct (elem_kind e); try (rewrite H; exact Hf).
    - destruct H as (fr & H & Hfr). rewrite H. cbn [frames_below forallb].
      fold (frames_below (length (documented st')) (def_stack st)). rewrite Hf, andb_true_r.
      destruct Hfr as [->|[-> Hlt]]; [reflexivity|]. apply Nat.ltb_lt. exact Hlt.
    - destruct H as (fr & H). rewrite H in Hf. cbn [frames_below forallb] in Hf.
      apply andb_true_iff in Hf. destruct Hf as [_ Hf]. exact Hf.
  Qed.

  Lemma agg_run_frames_below : forall es st st',
    run st es = Ok st' ->
    frames_below (length (documented st)) (def_stack st) = true ->
    frames_below (length (documented st')) (def_stack st') = true.
  Proof.
    intro es. induction es as [|e r IH]; intros st st' H Hf; cbn [agg_run] in H.
    - injection H as <-. exact Hf.
    - destruct (step st e) as [st1|] eqn:E1; [|discriminate].
      eapply IH; [exact H|]. eapply agg_step_frames_below; eassumption.
  Qed.

  (* D3 + D4 for a definition anywhere in a file: whatever precedes it (pre) and whatever
     follows it (post), its entry shows kwargs iff trigger or cmake_parse_arguments at depth 0 *)
  Theorem kwargs_iff_in_file : forall f pre doc hdr body endc post st'',
    f_elems f = pre ++ flatten (NDef doc hdr body endc) ++ post ->
    wf_node (NDef doc hdr body endc) = true ->
    aggregate fl trigger strip_fn strip_mac strip_mem f = Ok st'' ->
    exists st,
      run (match f_module f with
           | Some t => append (module_entry t) true agg_init
           | None => agg_init
           end) pre = Ok st
      /\ (header_creates fl st doc hdr = true ->
          exists name ps,
            singles hdr = name :: ps
            /\ fn_at st'' (length (documented st)) (kind_is hdr (s"macro")) name (doc_of doc)
                     (map (if kind_is hdr (s"macro") then strip_mac else strip_fn) ps)
                     (contains trigger (doc_of doc) || body_has_cpa0 body)).
  Proof.
    intros f pre doc hdr body endc post st'' Hf Hwf H. unfold aggregate in H. rewrite Hf in H.
    apply run_app_inv in H. destruct H as (st & Hpre & H).
    apply run_app_inv in H. destruct H as (st' & Hdef & Hpost).
    exists st. split; [exact Hpre|]. intro Hc.
    destruct (kwargs_iff _ _ _ _ _ _ Hwf Hc Hdef) as (name & ps & Hs & Hfn & Hds).
    exists name, ps. split; [exact Hs|].
    assert (Hfb : frames_below (length (documented st)) (def_stack st) = true).
    { eapply agg_run_frames_below; [exact Hpre|]. destruct (f_module f); reflexivity. }
    apply frames_below_avoid in Hfb. rewrite <- Hds in Hfb.
    destruct (cpa_outside_never_marks _ _ _ _ _ _ _ _ _ Hfb Hfn Hpost) as [Hfin _]. exact Hfin.
  Qed.

  (* the form with well-nested siblings: only the top frame matters *)
  Corollary cpa_in_siblings_never_marks : forall more st st' j m nm d p k,
    wf_nodes more = true ->
    frame_is j (def_stack st) = false ->
    fn_at st j m nm d p k ->
    run st (flatten_all more) = Ok st' ->
    fn_at st' j m nm d p k.
  Proof.
    intros more st st' j m nm d p k Hwf Hf Hj H.
    eapply (run_nodes_fn _ _ _ _ _ _ _ _ _ Hwf H) in Hj. rewrite Hf in Hj.
    cbn [andb] in Hj. rewrite orb_false_r in Hj. exact Hj.
  Qed.
End Defs.

(* ---- D5: rendering ------------------------------------------------------------------- *)

Theorem kwargs_once_last : forall m n d ps kw,
  render_entry (EFunction m n d ps kw)
  = Dir (s"function") [signature n (if kw then ps ++ [kwargs_lit] else ps)] []
        ((if m then [Dir (s"note") [macro_note] [] []] else []) ++ [Para d]).
Proof. reflexivity. Qed.

(* against Spec.EntrySpec.def_signature: the directive argument of the rendered entry of a
   definition is the signature of its single arguments, name unstripped *)
Theorem def_signature_rendered : forall strip m name ps d kw,
  exists opts body,
    render_entry (EFunction m name d (map strip ps) kw) = Dir (s"function") opts [] body
    /\ Some opts = option_map (fun x => [x]) (def_signature strip (name :: ps) kw).
Proof.
  intros strip m name ps d kw. eexists. eexists. split; [reflexivity|].
  cbn [def_signature option_map]. destruct kw; [reflexivity|]. rewrite app_nil_r. reflexivity.
Qed.

(* ---- non-vacuity: concrete runs ------------------------------------------------------ *)

Module Examples.
  Open Scope string_scope.
  Definition mk (n : string) (args : list string) : cmd :=
    {| c_name := of_string n; c_args := map (fun a => ASingle TIdent (of_string a)) args |}.
  Definition dc : option str := Some (s"#[[[ doc ]]").
  Definition idf (x : str) : str := x.
  Definition trig : str := s"**kwargs".
  Definition cpa : node := NCmd None (mk "cmake_parse_arguments" ["x"]).
  (* function(g) cmake_parse_arguments() endfunction() *)
  Definition inner : node := NDef None (mk "function" ["g"]) [cpa] (mk "endfunction" []).
  (* a documented function f(a b) whose body only contains the nested definition g *)
  Definition outer : node := NDef dc (mk "FUNCTION" ["f"; "a"; "b"]) [inner] (mk "endfunction" []).
  (* a documented macro with the call inside a class body: depth 0 of the macro *)
  Definition outer2 : node :=
    NDef dc (mk "macro" ["h"; "a"])
         [inner; NClass None (mk "cpp_class" ["A"]) [cpa] (mk "cpp_end_class" [])] (mk "endmacro" []).
  Definition kw_flags (st : result agg) : list (option (str * list str * bool)) :=
    match st with
    | Ok st => map (fun e => match e with EFunction _ n _ p k => Some (n, p, k) | _ => None end)
                   (documented st)
    | Crash => []
    end.

  Example defs_hyps_satisfiable :
    wf_nodes [outer; cpa; outer2] = true
    /\ header_creates default_flags agg_init dc (mk "FUNCTION" ["f"; "a"; "b"]) = true
    /\ body_has_cpa0 [inner] = false
    /\ body_has_cpa0 [inner; NClass None (mk "cpp_class" ["A"]) [cpa] (mk "cpp_end_class" [])] = true
    /\ kw_flags (agg_run default_flags trig idf idf idf agg_init (flatten_all [outer; cpa; outer2]))
       = [Some (s"f", [s"a"; s"b"], false); Some (s"g", [], true);
          Some (s"h", [s"a"], true); Some (s"g", [], true); None].
  Proof. vm_compute. repeat split. Qed.

  (* the main theorem applied to the concrete definition: f has no kwargs although a nested
     definition and a later file-level command call cmake_parse_arguments *)
  Definition file1 : cfile :=
    {| f_module := None; f_elems := flatten outer ++ flatten_all [cpa; outer2] |}.

  Example kwargs_iff_applied : forall st'',
    aggregate default_flags trig idf idf idf file1 = Ok st'' ->
    fn_at st'' 0 false (s"f") (s"doc ") [s"a"; s"b"] false.
  Proof.
    intros st'' H.
    destruct (kwargs_iff_in_file default_flags trig idf idf idf file1 [] dc
                (mk "FUNCTION" ["f"; "a"; "b"]) [inner] (mk "endfunction" [])
                (flatten_all [cpa; outer2]) st'' eq_refl eq_refl H) as (st & Hst & Hk).
    cbn [agg_run f_module] in Hst. injection Hst as <-.
    destruct (Hk eq_refl) as (name & ps & Hs & Hf). vm_compute in Hs. injection Hs as <- <-.
    exact Hf.
  Qed.
End Examples.

(* ==== MAIN THEOREMS ====
   def_stack_restored        (D1) well-nested nodes leave the definition stack as it was
   def_entry_created         (D2) the header of a definition creates the entry: name unstripped,
                                  parameters stripped in order, kwargs = trigger in doccomment
   def_header_no_entry            otherwise no entry and an anonymous frame
   kwargs_iff                (D3) after the whole definition: kwargs iff trigger or
                                  cmake_parse_arguments at depth 0 of its own body
   cpa_outside_never_marks   (D4) afterwards nothing changes the entry (any elements at all)
   cpa_in_siblings_never_marks    the well-nested form: only the top frame matters
   kwargs_iff_in_file        D3 + D4 for a definition anywhere in a file
   kwargs_once_last, def_signature_rendered (D5) rendering of the signature *)
Print Assumptions def_stack_restored.
Print Assumptions def_entry_created.
Print Assumptions def_header_no_entry.
Print Assumptions kwargs_iff.
Print Assumptions cpa_outside_never_marks.
Print Assumptions cpa_in_siblings_never_marks.
Print Assumptions kwargs_iff_in_file.
Print Assumptions kwargs_once_last.
Print Assumptions def_signature_rendered.
Print Assumptions Examples.kwargs_iff_applied.
