(* Proofs/AggDefs.v -- lemmas; see DESIGN.md section 7 *)
