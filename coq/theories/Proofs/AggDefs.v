(* Proofs/AggDefs.v -- C03: the entry of a function/macro definition mirrors the definition
   command, and shows **kwargs iff its doccomment contains the trigger or its own body calls
   cmake_parse_arguments outside nested definitions (nested view of Spec/AggSpec.v). *)
From Coq Require Import String List NArith Bool Arith Lia.
From CMinx Require Import Base.Str Model.Lexer Model.Parser Model.Writer Model.DocTypes
     Model.Aggregator Spec.EntrySpec Spec.AggSpec Proofs.AggInv.
Import ListNotations.

(* ---- spec ---- *)

(* entry j is this function/macro entry *)
Definition fn_at (st : agg) (j : nat) (m : bool) (n d : str) (p : list str) (k : bool) : Prop :=
  nth_error (documented st) j = Some (EFunction m n d p k).

(* the innermost open definition is entry j *)
Definition frame_is (j : nat) (ds : list (option nat)) : bool :=
  match ds with Some i :: _ => Nat.eqb i j | _ => false end.

(* no open definition is entry j *)
Definition frames_avoid (j : nat) (ds : list (option nat)) : bool :=
  forallb (fun fr => match fr with Some i => negb (Nat.eqb i j) | None => true end) ds.

(* every open definition refers to an entry below n *)
Definition frames_below (n : nat) (ds : list (option nat)) : bool :=
  forallb (fun fr => match fr with Some i => Nat.ltb i n | None => true end) ds.

(* the cleaned doccomment of a command, empty without one *)
Definition doc_of (doc : option str) : str :=
  match doc with Some t => clean_doc_text t | None => [] end.

(* the header of a definition gets an entry: it is documented, or it is not the claimed
   implementation of a member/test declaration and its include_undocumented flag is on *)
Definition header_creates (fl : flags) (st : agg) (doc : option str) (hdr : cmd) : bool :=
  match doc with
  | Some _ => true
  | None => negb (aw_pending (awaiting st))
            && (if kind_is hdr (s"macro") then inc_macro fl else inc_function fl)
  end.

Definition elem_is_cpa (e : element) : bool :=
  match e with
  | EDocCmd _ c | ECmd c => is_cpa_cmd c
  | EDangling _ => false
  end.

Definition elem_kind (e : element) : ckind :=
  match e with
  | EDocCmd _ c | ECmd c => classify (cmd_kind c)
  | EDangling _ => CkOther
  end.

(* ---- the nested view: unfolding equations and induction ---------------------------- *)

Lemma flatten_def : forall doc hdr body endc,
  flatten (NDef doc hdr body endc) = elem_of doc hdr :: flatten_all body ++ [ECmd endc].
Proof. reflexivity. Qed.

Lemma flatten_class : forall doc hdr body endc,
  flatten (NClass doc hdr body endc) = elem_of doc hdr :: flatten_all body ++ [ECmd endc].
Proof. reflexivity. Qed.

Lemma wf_node_def : forall doc hdr body endc,
  wf_node (NDef doc hdr body endc) = is_def_cmd hdr && is_end_def_cmd endc && wf_nodes body.
Proof. reflexivity. Qed.

Lemma wf_node_class : forall doc hdr body endc,
  wf_node (NClass doc hdr body endc) = is_class_cmd hdr && is_end_class_cmd endc && wf_nodes body.
Proof. reflexivity. Qed.

Lemma has_cpa0_class : forall doc hdr body endc,
  has_cpa0 (NClass doc hdr body endc) = existsb has_cpa0 body.
Proof. reflexivity. Qed.

Section node_ind2.
  Variable P : node -> Prop.
  Variable Q : list node -> Prop.
  Hypothesis HCmd : forall doc c, P (NCmd doc c).
  Hypothesis HDangling : forall d, P (NDangling d).
  Hypothesis HDef : forall doc hdr body endc, Q body -> P (NDef doc hdr body endc).
  Hypothesis HClass : forall doc hdr body endc, Q body -> P (NClass doc hdr body endc).
  Hypothesis HNil : Q [].
  Hypothesis HCons : forall x r, P x -> Q r -> Q (x :: r).

  Fixpoint node_ind2 (n : node) : P n :=
    match n with
    | NCmd doc c => HCmd doc c
    | NDangling d => HDangling d
    | NDef doc hdr body endc =>
        HDef doc hdr body endc
             ((fix go (l : list node) : Q l :=
                 match l with [] => HNil | x :: r => HCons x r (node_ind2 x) (go r) end) body)
    | NClass doc hdr body endc =>
        HClass doc hdr body endc
               ((fix go (l : list node) : Q l :=
                   match l with [] => HNil | x :: r => HCons x r (node_ind2 x) (go r) end) body)
    end.

  Lemma nodes_ind2 : forall l, Q l.
  Proof. intro l. induction l as [|x r IH]; [exact HNil|apply HCons; [apply node_ind2|exact IH]]. Qed.
End node_ind2.

(* ---- kinds of the block commands ---------------------------------------------------- *)

Lemma is_def_cmd_classify : forall c,
  is_def_cmd c = match classify (cmd_kind c) with CkDef _ => true | _ => false end.
Proof.
  intro c. unfold is_def_cmd, kind_is. generalize (cmd_kind c) as k. intro k.
  kind_cases k Hk; try (subst k; reflexivity).
  - destruct Hk as [Hk|Hk]; subst k; reflexivity.
  - destruct Hk as (H1&H2&_). rewrite H1, H2. reflexivity.
Qed.

Lemma is_end_def_cmd_classify : forall c,
  is_end_def_cmd c = match classify (cmd_kind c) with CkEndDef => true | _ => false end.
Proof.
  intro c. unfold is_end_def_cmd, kind_is. generalize (cmd_kind c) as k. intro k.
  kind_cases k Hk; try (subst k; reflexivity).
  - destruct Hk as [Hk|Hk]; subst k; reflexivity.
  - destruct Hk as (_&_&H3&H4&_). rewrite H3, H4. reflexivity.
Qed.

Lemma is_class_cmd_classify : forall c,
  is_class_cmd c = match classify (cmd_kind c) with CkClass => true | _ => false end.
Proof.
  intro c. unfold is_class_cmd, kind_is. generalize (cmd_kind c) as k. intro k.
  kind_cases k Hk; try (subst k; reflexivity).
  - destruct Hk as [Hk|Hk]; subst k; reflexivity.
  - destruct Hk as (_&_&_&_&H5&_). rewrite H5. reflexivity.
Qed.

Lemma is_end_class_cmd_classify : forall c,
  is_end_class_cmd c = match classify (cmd_kind c) with CkEndClass => true | _ => false end.
Proof.
  intro c. unfold is_end_class_cmd, kind_is. generalize (cmd_kind c) as k. intro k.
  kind_cases k Hk; try (subst k; reflexivity).
  - destruct Hk as [Hk|Hk]; subst k; reflexivity.
  - destruct Hk as (_&_&_&_&_&H6&_). rewrite H6. reflexivity.
Qed.

Lemma is_cpa_cmd_classify : forall c,
  is_cpa_cmd c = match classify (cmd_kind c) with CkCpa => true | _ => false end.
Proof.
  intro c. unfold is_cpa_cmd, kind_is. generalize (cmd_kind c) as k. intro k.
  kind_cases k Hk; try (subst k; reflexivity).
  - destruct Hk as [Hk|Hk]; subst k; reflexivity.
  - destruct Hk as (_&_&_&_&_&_&H7&_). rewrite H7. reflexivity.
Qed.

Lemma kind_is_macro_classify : forall c m,
  classify (cmd_kind c) = CkDef m -> kind_is c (s"macro") = m.
Proof.
  intros c m. unfold kind_is. generalize (cmd_kind c) as k. intros k H.
  pose proof (classify_spec k) as Hk. rewrite H in Hk. destruct m; subst k; reflexivity.
Qed.
