(* Proofs/WholeProgram.v -- capstone: the four source ties composed.

   main() (Gen/PyMainSource.v) is proved equal to model_main for EVERY document function
   (Proofs/MainSourceMatch.v); document() / document_single_file() (Gen/PyWalkSource.v) are proved
   equal to Model.Walk.document for every settings record, documenter and exclusion predicate
   (Proofs/WalkSourceMatch.v); Documenter.process() renders Model.Pipeline.document_bytes
   (Proofs/SourceMatch3.v, SourceMatch2.v).  What the Python program does implicitly between these
   layers is to hand ONE settings object down: dict_to_settings(...) built once in main() is read by
   document(), document_single_file(), Documenter, the aggregator and the writers.  This file writes
   that glue down (settings object -> wsettings / headers / flags / trigger / strip functions /
   exclusion patterns), instantiates the opaque parameters of the main() theorem with the generated
   document() and proves that the whole generated program equals the pure model, for all
   environments, command lines, worlds, regex engines and pathspec matchers. *)
From Coq Require Import String List NArith Bool Arith Lia.
From CMinx Require Import Base.Str Base.PySem Model.Writer Model.Path Model.Naming Model.DocTypes
     Model.Aggregator Model.Pipeline Model.Walk Model.Config Gen.ConfigData
     Base.PyMainSem Base.PyWalkSem Gen.PyMainSource Gen.PyWalkSource
     Proofs.WalkFacts Proofs.RunFacts Proofs.ConfigFacts Proofs.MainSourceMatch
     Proofs.WalkSourceMatch.
From CMinx Require Proofs.SourceMatch2.
Import ListNotations.

(* ---- spec ---- *)

(* --- reading the settings object (dict_to_settings result: option path -> validated value) --- *)
(* settings.<section>.<bool option> *)
Definition opt_bool (obj : py_settings_obj) (k : str) : bool :=
  match assoc k obj with Some (CBool b) => b | _ => false end.
(* settings.<section>.<optional string option>: None or the string *)
Definition opt_str (obj : py_settings_obj) (k : str) : option str :=
  match assoc k obj with Some (CStr x) => Some x | _ => None end.
(* a string option that always has a value (template default) *)
Definition opt_text (obj : py_settings_obj) (k : str) : str :=
  match opt_str obj k with Some x => x | None => [] end.
(* a list-of-strings option *)
Definition opt_strs (obj : py_settings_obj) (k : str) : list str :=
  match assoc k obj with Some (CStrs l) => l | _ => [] end.
(* x is not None *)
Definition is_some {A : Type} (o : option A) : bool := match o with Some _ => true | None => false end.

(* --- the option names, as in Gen/ConfigData.template (checked below: glue_keys_in_template) --- *)
Definition k_out_dir : str := s"output.directory".
Definition k_recursive : str := s"input.recursive".
Definition k_follow : str := s"input.follow_symlinks".
Definition k_auto_exclude : str := s"input.auto_exclude_directories_without_cmake".
Definition k_prefix : str := s"rst.prefix".
Definition k_sep : str := s"rst.module_path_separator".
Definition k_ext_titles : str := s"rst.file_extensions_in_titles".
Definition k_ext_modules : str := s"rst.file_extensions_in_modules".
Definition k_headers : str := s"rst.headers".
Definition k_trigger : str := s"input.kwargs_doc_trigger_string".
Definition k_strip_fn : str := s"input.function_parameter_name_strip_regex".
Definition k_strip_mac : str := s"input.macro_parameter_name_strip_regex".
Definition k_strip_mem : str := s"input.member_parameter_name_strip_regex".
Definition k_inc_function : str := s"input.include_undocumented_function".
Definition k_inc_macro : str := s"input.include_undocumented_macro".
Definition k_inc_cpp_class : str := s"input.include_undocumented_cpp_class".
Definition k_inc_cpp_attr : str := s"input.include_undocumented_cpp_attr".
Definition k_inc_cpp_constructor : str := s"input.include_undocumented_cpp_constructor".
Definition k_inc_cpp_member : str := s"input.include_undocumented_cpp_member".
Definition k_inc_ct_add_test : str := s"input.include_undocumented_ct_add_test".
Definition k_inc_ct_add_section : str := s"input.include_undocumented_ct_add_section".
Definition k_inc_add_test : str := s"input.include_undocumented_add_test".
Definition k_inc_option : str := s"input.include_undocumented_option".
(* input.exclude_filters is MainSourceMatch.excl_key *)

(* --- what each layer reads from the object --- *)
(* document() / document_single_file(): settings.output.directory is not None, settings.input.recursive,
   settings.rst.prefix, settings.input.auto_exclude_directories_without_cmake,
   settings.rst.module_path_separator, settings.rst.file_extensions_in_titles / _in_modules *)
Definition wsettings_of (obj : py_settings_obj) : wsettings :=
  {| ws_out := is_some (opt_str obj k_out_dir);
     ws_recursive := opt_bool obj k_recursive;
     ws_prefix := opt_str obj k_prefix;
     ws_auto_exclude := opt_bool obj k_auto_exclude;
     ws_sep := opt_text obj k_sep;
     ws_ext_titles := opt_bool obj k_ext_titles;
     ws_ext_modules := opt_bool obj k_ext_modules |}.
(* RSTWriter.__init__: settings.rst.headers (the index writers of document() and the page writer of
   Documenter are built from the same object) *)
Definition headers_of (obj : py_settings_obj) : list str := opt_strs obj k_headers.
(* os.walk(.., followlinks=settings.input.follow_symlinks) *)
Definition follow_of (obj : py_settings_obj) : bool := opt_bool obj k_follow.
(* DocumentationAggregator: settings.input.include_undocumented_* *)
Definition flags_of (obj : py_settings_obj) : flags :=
  {| inc_function := opt_bool obj k_inc_function;
     inc_macro := opt_bool obj k_inc_macro;
     inc_cpp_class := opt_bool obj k_inc_cpp_class;
     inc_cpp_attr := opt_bool obj k_inc_cpp_attr;
     inc_cpp_constructor := opt_bool obj k_inc_cpp_constructor;
     inc_cpp_member := opt_bool obj k_inc_cpp_member;
     inc_ct_add_test := opt_bool obj k_inc_ct_add_test;
     inc_ct_add_section := opt_bool obj k_inc_ct_add_section;
     inc_add_test := opt_bool obj k_inc_add_test;
     inc_option := opt_bool obj k_inc_option |}.
(* settings.input.kwargs_doc_trigger_string *)
Definition trigger_of (obj : py_settings_obj) : str := opt_text obj k_trigger.
(* settings.input.exclude_filters: the list main() assigned *)
Definition patterns_of (obj : py_settings_obj) : list str := opt_strs obj excl_key.

(* every name looked up above, with the template type the reader relies on *)
Definition glue_keys : list (str * oty) :=
  [(k_out_dir, TOptFilename); (k_recursive, TBool); (k_follow, TBool); (k_auto_exclude, TBool);
   (k_prefix, TOptString None); (k_sep, TString (s".")); (k_ext_titles, TBool); (k_ext_modules, TBool);
   (k_headers, TStrSeq); (k_trigger, TOptString (Some (s":keyword")));
   (k_strip_fn, TOptString (Some [])); (k_strip_mac, TOptString (Some []));
   (k_strip_mem, TOptString (Some []));
   (k_inc_function, TBool); (k_inc_macro, TBool); (k_inc_cpp_class, TBool); (k_inc_cpp_attr, TBool);
   (k_inc_cpp_constructor, TBool); (k_inc_cpp_member, TBool); (k_inc_ct_add_test, TBool);
   (k_inc_ct_add_section, TBool); (k_inc_add_test, TBool); (k_inc_option, TBool);
   (excl_key, TOptSeq)].

(* --- the parameters that stay opaque ---
   resub regex x           = re.sub(regex, '', x) for the configured pattern string regex
   pathspec_match pats input rel isdir
                           = PathSpec.from_lines(GitWildMatchPattern, pats).match_file(p) for the entry
                             at the components rel below abspath(input) (a directory with a trailing
                             slash): the matcher sees absolute paths, so it depends on the input
   world_of input          = what lies at abspath(input) (Base/PyWalkSem.pyworld) *)
(* Documenter(file, title, module, settings).process().to_text() as a function of title, module, bytes *)
Definition docfn_of (resub : str -> str -> str) (obj : py_settings_obj) : str -> str -> list N -> outcome :=
  document_bytes (flags_of obj) (trigger_of obj)
                 (resub (opt_text obj k_strip_fn)) (resub (opt_text obj k_strip_mac))
                 (resub (opt_text obj k_strip_mem)) (headers_of obj).
(* spec = PathSpec.from_lines(.., settings.input.exclude_filters); spec.match_file below this input *)
Definition excl_of (pathspec_match : list str -> str -> list str -> bool -> bool)
           (obj : py_settings_obj) (input : str) : list str -> bool -> bool :=
  pathspec_match (patterns_of obj) input.

(* --- the two programs --- *)
(* document(input, obj) of the generated source, every parameter instantiated from the object *)
Definition source_document (resub : str -> str -> str)
           (pathspec_match : list str -> str -> list str -> bool -> bool) (world_of : str -> pyworld)
           (input : str) (obj : py_settings_obj) : list action :=
  PyWalkSource.document (world_of input) (docfn_of resub obj) [] input
    (py_settings_of (wsettings_of obj) (headers_of obj) (excl_of pathspec_match obj input) (follow_of obj)).
(* the pure model of one input *)
Definition model_document (resub : str -> str -> str)
           (pathspec_match : list str -> str -> list str -> bool -> bool) (world_of : str -> pyworld)
           (input : str) (obj : py_settings_obj) : list action :=
  Walk.document (wsettings_of obj) (headers_of obj) (docfn_of resub obj)
    (excl_with_output_links (excl_of pathspec_match obj input) (pw_out_in_input (world_of input))
                            (follow_of obj) (pw_links (world_of input)))
    (pw_base (world_of input)) (pw_kind (world_of input)).

(* --- the settings object main() builds, the inputs it loops over, the exception it raises --- *)
Definition main_settings (env : pyenv) (p : parsed) : option py_settings_obj :=
  match consulted env p with
  | None => None
  | Some stack =>
      match settings_of (env_cwd env) stack template, exclude_strs stack with
      | Some st, Some ex =>
          (* main() rejects a mapping given for rst.headers itself (repair of F27) *)
          if headers_ok stack then Some (settings_object st ex) else None
      | _, _ => None
      end
  end.
Definition main_settings_of (env : pyenv) (toks : list str) : option py_settings_obj :=
  match parse_args cli_table toks with Some p => main_settings env p | None => None end.
Definition inputs_of (toks : list str) : list str :=
  match parse_args cli_table toks with Some p => p_positional p | None => [] end.
Definition main_error (env : pyenv) (toks : list str) : mexc :=
  match parse_args cli_table toks with
  | None => ExcArgparseExit
  | Some p =>
      match consulted env p with
      | None => ExcConfigRead
      | Some stack =>
          match settings_of (env_cwd env) stack template with
          | None => ExcConfig
          | Some _ => config_type_error
          end
      end
  end.

(* --- the hypotheses on the worlds (assumptions A5 / A11 of Base/PyWalkSem.v), for the inputs of this
   command line and the settings object of this run --- *)
Definition world_ok (world_of : str -> pyworld) (obj : py_settings_obj) (input : str) : bool :=
  kind_distinct (pw_kind (world_of input))
  && out_consistent (wsettings_of obj) (pw_out_in_input (world_of input)).
Definition worlds_ok (env : pyenv) (toks : list str) (world_of : str -> pyworld) : bool :=
  match main_settings_of env toks with
  | Some obj => forallb (world_ok world_of obj) (inputs_of toks)
  | None => true
  end.

(* the prefix document() computes for a directory input *)
Definition dir_prefix (st : wsettings) (base : str) : str :=
  match ws_prefix st with Some p => p | None => base end.

(* ------------------------------------------------------------------ *)
(* every option name of the glue is a key of the template, with the expected type *)

Example glue_keys_in_template :
  map (fun kt => assoc (fst kt) template) glue_keys = map (fun kt => Some (snd kt)) glue_keys.
Proof. vm_compute. reflexivity. Qed.

Example glue_keys_distinct : nodup_str (map fst glue_keys) = map fst glue_keys.
Proof. vm_compute. reflexivity. Qed.

(* the template has no option the glue forgets, except those no layer below main() reads *)
Example template_keys_covered :
  filter (fun k => negb (mem_str k (map fst glue_keys))) (map fst template)
  = [s"output.relative_to_config"; s"logging"].
Proof. vm_compute. reflexivity. Qed.

(* ------------------------------------------------------------------ *)
(* model_main by cases on the settings object                          *)

Lemma model_main_cases : forall env document toks,
  model_main env document toks
  = match main_settings_of env toks with
    | Some obj => finish (run_inputs (map (fun f => document f obj) (inputs_of toks)))
    | None => Raised (main_error env toks) []
    end.
Proof.
  intros env document toks.
  unfold model_main, main_settings_of, inputs_of, main_error.
  destruct (parse_args cli_table toks) as [p|]; [|reflexivity].
  unfold model_parsed, main_settings, consulted.
  destruct (settings_file env p) as [[f|]|]; try reflexivity;
    unfold model_configured;
    match goal with
    | |- context [Config.settings_of ?c ?st template] =>
        destruct (Config.settings_of c st template) as [stt|]; [|reflexivity];
        destruct (headers_ok st); destruct (exclude_strs st) as [ex|]; reflexivity
    end.
Qed.

(* model_main depends on its document argument only through the inputs of this command line and the
   settings object of this run (no functional extensionality) *)
Lemma model_main_ext : forall env d1 d2 toks,
  (forall obj f, main_settings_of env toks = Some obj -> In f (inputs_of toks) -> d1 f obj = d2 f obj) ->
  model_main env d1 toks = model_main env d2 toks.
Proof.
  intros env d1 d2 toks H. rewrite !model_main_cases.
  destruct (main_settings_of env toks) as [obj|] eqn:E; [|reflexivity].
  f_equal. f_equal. apply map_ext_in. intros f Hf. apply H; [reflexivity|exact Hf].
Qed.

(* one input: the generated document() with every parameter read from the settings object is the
   model's document with the same readings *)
Lemma source_document_is_model : forall resub pathspec_match world_of input obj,
  world_ok world_of obj input = true ->
  source_document resub pathspec_match world_of input obj
  = model_document resub pathspec_match world_of input obj.
Proof.
  intros resub psm world_of input obj Hok. unfold source_document, model_document.
  unfold world_ok in Hok. apply andb_true_iff in Hok. destruct Hok as [Hk Ho].
  destruct (world_of input) as [base kind o links]. cbn [pw_base pw_kind pw_out_in_input pw_links] in *.
  apply document_matches_source; assumption.
Qed.

(* ---- the whole program ---- *)
Theorem whole_program_matches_source : forall resub pathspec_match world_of env toks,
  worlds_ok env toks world_of = true ->
  py_run (main env (source_document resub pathspec_match world_of) toks)
  = model_main env (model_document resub pathspec_match world_of) toks.
Proof.
  intros resub psm world_of env toks Hw. rewrite main_matches_source.
  apply model_main_ext. intros obj f Hobj Hf.
  apply source_document_is_model.
  unfold worlds_ok in Hw. rewrite Hobj in Hw.
  rewrite forallb_forall in Hw. apply Hw. exact Hf.
Qed.

(* the same, by cases: an accepted configuration runs the model of every input, in order, with the one
   settings object; a rejected one raises before anything is run *)
Theorem whole_program_run : forall resub pathspec_match world_of env toks,
  worlds_ok env toks world_of = true ->
  py_run (main env (source_document resub pathspec_match world_of) toks)
  = match main_settings_of env toks with
    | Some obj =>
        finish (run_inputs (map (fun input => model_document resub pathspec_match world_of input obj)
                                (inputs_of toks)))
    | None => Raised (main_error env toks) []
    end.
Proof.
  intros resub psm world_of env toks Hw.
  rewrite (whole_program_matches_source resub psm world_of env toks Hw).
  apply model_main_cases.
Qed.

(* the output directory is nowhere inside an input and no input contains a symbolic link: the
   statement with the exclusion patterns alone *)
Theorem whole_program_output_outside : forall resub pathspec_match world_of env toks,
  (forall input, In input (inputs_of toks) ->
     kind_distinct (pw_kind (world_of input)) = true /\ pw_out_in_input (world_of input) = None
     /\ (forall rel, pw_links (world_of input) rel = false)) ->
  py_run (main env (source_document resub pathspec_match world_of) toks)
  = model_main env (fun input obj =>
       Walk.document (wsettings_of obj) (headers_of obj) (docfn_of resub obj)
                     (excl_of pathspec_match obj input)
                     (pw_base (world_of input)) (pw_kind (world_of input))) toks.
Proof.
  intros resub psm world_of env toks Hw. rewrite main_matches_source.
  apply model_main_ext. intros obj f Hobj Hf. destruct (Hw f Hf) as [Hk [Ho Hl]].
  unfold source_document. destruct (world_of f) as [base kind o links].
  cbn [pw_base pw_kind pw_out_in_input pw_links] in *. subst o.
  apply document_source_gen.
  - reflexivity.
  - reflexivity.
  - intros rel d. unfold dir_pruned. cbn [is_output_dir]. rewrite Hl, !andb_false_r, !orb_false_r. reflexivity.
  - exact Hk.
Qed.

(* ------------------------------------------------------------------ *)
(* the settings object of an accepted configuration, option by option  *)

Lemma settings_of_lookup : forall cwd stack tmpl st k ty,
  Config.settings_of cwd stack tmpl = Some st -> assoc k tmpl = Some ty ->
  exists v, effective cwd (rel_to_config stack) stack k ty = COk v /\ assoc k st = Some v.
Proof.
  intros cwd stack. induction tmpl as [|[k0 ty0] r IH]; intros st k ty Hs Hk.
  - discriminate Hk.
  - cbn [Config.settings_of] in Hs.
    destruct (effective cwd (rel_to_config stack) stack k0 ty0) as [v0| |] eqn:E0; try discriminate Hs.
    destruct (Config.settings_of cwd stack r) as [rest|] eqn:Er; [|discriminate Hs].
    injection Hs as Hs. subst st. cbn [assoc] in *.
    destruct (str_eqb k k0) eqn:E.
    + apply str_eqb_eq in E. subst k0. injection Hk as Hk. subst ty0.
      exists v0. split; [exact E0|reflexivity].
    + exact (IH rest k ty eq_refl Hk).
Qed.

(* every option other than the exclude list: the object holds the validated value of what resolve finds
   in the highest-priority source that sets it (ConfigFacts.resolve_first_setting_source) *)
Lemma object_lookup : forall env p stack obj k ty,
  consulted env p = Some stack -> main_settings env p = Some obj ->
  assoc k template = Some ty -> str_eqb k excl_key = false ->
  exists v, convert (env_cwd env) (rel_to_config stack) ty (resolve stack k) = COk v
            /\ assoc k obj = Some v.
Proof.
  intros env p stack obj k ty Hc Hm Hk Hne. unfold main_settings in Hm. rewrite Hc in Hm.
  destruct (Config.settings_of (env_cwd env) stack template) as [st|] eqn:Es; [|discriminate Hm].
  destruct (exclude_strs stack) as [ex|]; [|discriminate Hm].
  destruct (headers_ok stack); [|discriminate Hm].
  injection Hm as Hm. subst obj.
  destruct (settings_of_lookup _ _ _ _ _ _ Es Hk) as [v [Hv Ha]].
  exists v. split; [exact Hv|]. unfold settings_object. rewrite set_key_other; assumption.
Qed.

(* the exclude list of the object is the union main() assigned *)
Lemma object_patterns : forall env p stack obj,
  consulted env p = Some stack -> main_settings env p = Some obj ->
  exclude_strs stack = Some (patterns_of obj).
Proof.
  intros env p stack obj Hc Hm. unfold main_settings in Hm. rewrite Hc in Hm.
  destruct (Config.settings_of (env_cwd env) stack template) as [st|]; [|discriminate Hm].
  destruct (exclude_strs stack) as [ex|]; [|discriminate Hm].
  destruct (headers_ok stack); [|discriminate Hm].
  injection Hm as Hm. subst obj. unfold patterns_of, opt_strs, settings_object.
  rewrite set_key_assoc. reflexivity.
Qed.

(* the readers of the glue never fall back on their dummy value: in the object of an accepted
   configuration every option has the shape its reader expects *)
Definition cval_fits (ty : oty) (v : cval) : bool :=
  match ty, v with
  | TBool, CBool _ => true
  | TOptString None, (CStr _ | CNone) => true
  | TOptString (Some _), CStr _ => true
  | TString _, CStr _ => true
  | (TOptSeq | TStrSeq), CStrs _ => true
  | TOptFilename, (CStr _ | CNone) => true
  | TDict, CDict => true
  | _, _ => false
  end.

Lemma convert_fits : forall cwd rc ty found v, convert cwd rc ty found = COk v -> cval_fits ty v = true.
Proof.
  intros cwd rc ty found v H.
  destruct ty as [|d|d| | | |]; destruct found as [[y src]|]; try destruct y; try destruct d;
    cbn [convert] in H; try discriminate H; try (injection H as H; subst v; reflexivity).
  destruct (all_strs l); [injection H as H; subst v; reflexivity|discriminate H].
Qed.

Theorem glue_reads_well_typed_values : forall env p stack obj k ty,
  consulted env p = Some stack -> main_settings env p = Some obj ->
  In (k, ty) glue_keys ->
  exists v, assoc k obj = Some v /\ cval_fits ty v = true.
Proof.
  intros env p stack obj k ty Hc Hm Hin.
  assert (Hother : forall k0 ty0, assoc k0 template = Some ty0 -> str_eqb k0 excl_key = false ->
                     exists v, assoc k0 obj = Some v /\ cval_fits ty0 v = true).
  { intros k0 ty0 Hk Hne.
    destruct (object_lookup env p stack obj k0 ty0 Hc Hm Hk Hne) as [v [Hv Ha]].
    exists v. split; [exact Ha|]. exact (convert_fits _ _ _ _ _ Hv). }
  assert (Hexcl : exists v, assoc excl_key obj = Some v /\ cval_fits TOptSeq v = true).
  { unfold main_settings in Hm. rewrite Hc in Hm.
    destruct (Config.settings_of (env_cwd env) stack template) as [st|]; [|discriminate Hm].
    destruct (exclude_strs stack) as [ex|]; [|discriminate Hm].
    destruct (headers_ok stack); [|discriminate Hm].
    injection Hm as Hm. subst obj. exists (CStrs ex). split; [|reflexivity].
    unfold settings_object. apply set_key_assoc. }
  unfold glue_keys in Hin. cbn [In] in Hin.
  repeat (destruct Hin as [Hin|Hin];
          [apply pair_equal_spec in Hin; destruct Hin as [Hk Ht]; subst k ty;
           first [apply Hother; vm_compute; reflexivity | exact Hexcl]|]).
  destruct Hin.
Qed.

(* ------------------------------------------------------------------ *)
(* (a) the settings reach every layer                                  *)

(* ---- spec ---- *)
(* the Python value a reader gets for what resolve found (highest-priority source that sets the option) *)
Definition found_bool (f : option (yval * source)) : bool :=
  match f with Some (YBool b, _) => b | _ => false end.
Definition found_opt_str (f : option (yval * source)) : option str :=
  match f with Some (YStr x, _) => Some x | _ => None end.
(* StrSeq: a list of strings, a string split on white space, the keys of a mapping (what the
   template alone would give, F27; since the repair main() rejects a mapping for rst.headers, so
   that case does not occur for the object of an accepted configuration: accepted_headers_not_mapping) *)
Definition found_strs (f : option (yval * source)) : list str :=
  match f with
  | Some (YList l, _) => strs_of l
  | Some (YStr x, _) => split_ws x
  | Some (YMap ks, _) => ks
  | _ => []
  end.
Definition is_found_bool (f : option (yval * source)) : bool :=
  match f with Some (YBool _, _) => true | _ => false end.

Lemma object_bool : forall env p stack obj k,
  consulted env p = Some stack -> main_settings env p = Some obj ->
  assoc k template = Some TBool -> str_eqb k excl_key = false ->
  opt_bool obj k = found_bool (resolve stack k) /\ is_found_bool (resolve stack k) = true.
Proof.
  intros env p stack obj k Hc Hm Hk Hne.
  destruct (object_lookup env p stack obj k TBool Hc Hm Hk Hne) as [v [Hv Ha]].
  unfold opt_bool. rewrite Ha.
  destruct (resolve stack k) as [[y src]|]; [|discriminate Hv].
  destruct y; cbn [convert] in Hv; try discriminate Hv.
  injection Hv as Hv. subst v. split; reflexivity.
Qed.

Lemma object_prefix : forall env p stack obj,
  consulted env p = Some stack -> main_settings env p = Some obj ->
  opt_str obj k_prefix = found_opt_str (resolve stack k_prefix).
Proof.
  intros env p stack obj Hc Hm.
  destruct (object_lookup env p stack obj k_prefix (TOptString None) Hc Hm eq_refl eq_refl) as [v [Hv Ha]].
  unfold opt_str. rewrite Ha.
  destruct (resolve stack k_prefix) as [[y src]|]; [destruct y|]; cbn [convert] in Hv;
    try discriminate Hv; injection Hv as Hv; subst v; reflexivity.
Qed.

Lemma object_headers : forall env p stack obj,
  consulted env p = Some stack -> main_settings env p = Some obj ->
  headers_of obj = found_strs (resolve stack k_headers).
Proof.
  intros env p stack obj Hc Hm.
  destruct (object_lookup env p stack obj k_headers TStrSeq Hc Hm eq_refl eq_refl) as [v [Hv Ha]].
  unfold headers_of, opt_strs. rewrite Ha.
  destruct (resolve stack k_headers) as [[y src]|]; [destruct y|]; cbn [convert] in Hv;
    try discriminate Hv; try (injection Hv as Hv; subst v; reflexivity).
  destruct (all_strs l) as [xs|] eqn:El; [|discriminate Hv].
  injection Hv as Hv. subst v. cbn [found_strs]. rewrite (all_strs_strs_of _ _ El). reflexivity.
Qed.

(* F27 closed: the settings object exists only when the raw winning value of rst.headers is not a
   mapping; a mapping there means no object, hence (rejected_configuration_runs_nothing) nothing runs *)
Lemma accepted_headers_not_mapping : forall env p stack obj,
  consulted env p = Some stack -> main_settings env p = Some obj ->
  headers_ok stack = true
  /\ forall ks src, resolve stack k_headers <> Some (YMap ks, src).
Proof.
  intros env p stack obj Hc Hm. unfold main_settings in Hm. rewrite Hc in Hm.
  destruct (Config.settings_of (env_cwd env) stack template) as [st|]; [|discriminate Hm].
  destruct (exclude_strs stack) as [ex|]; [|discriminate Hm].
  destruct (headers_ok stack) eqn:Hh; [|discriminate Hm].
  split; [reflexivity|]. intros ks src Hr. unfold headers_ok in Hh.
  change (s"rst.headers") with k_headers in Hh. rewrite Hr in Hh. discriminate Hh.
Qed.

Theorem headers_mapping_no_settings_object : forall env toks p stack ks src,
  parse_args cli_table toks = Some p -> consulted env p = Some stack ->
  resolve stack k_headers = Some (YMap ks, src) ->
  main_settings_of env toks = None.
Proof.
  intros env toks p stack ks src Hp Hc Hr. unfold main_settings_of. rewrite Hp.
  destruct (main_settings env p) as [obj|] eqn:Hm; [|reflexivity].
  exfalso. exact (proj2 (accepted_headers_not_mapping env p stack obj Hc Hm) ks src Hr).
Qed.

(* the settings object exists exactly when the main-level acceptance of ConfigFacts holds *)
Lemma main_settings_iff_accepted : forall env p stack,
  consulted env p = Some stack ->
  is_some (main_settings env p) = main_accepts (env_cwd env) stack.
Proof.
  intros env p stack Hc. unfold main_settings, main_accepts. rewrite Hc.
  change excl_opt with excl_key.
  destruct (Config.settings_of (env_cwd env) stack template) as [st|]; [|reflexivity].
  unfold exclude_strs. destruct (all_contents stack excl_key) as [l|] eqn:Eall.
  - destruct (all_contents_all_strs _ _ _ Eall) as [xs Hxs]. rewrite Hxs.
    destruct (headers_ok stack); reflexivity.
  - destruct (headers_ok stack); reflexivity.
Qed.

(* For an accepted configuration: (i) the whole generated program is the run of the model layers with
   the readings of ONE object -- Walk.document gets wsettings_of / headers_of, document_bytes gets
   flags_of / trigger_of / the strip functions / headers_of (doc_text is called with that header list by
   both, for the index pages and for the file pages), for every input --, and (ii) these readings are the
   values resolve finds in the highest-priority source that sets the option. *)
Theorem settings_reach_every_layer : forall resub pathspec_match world_of env toks p stack obj,
  parse_args cli_table toks = Some p -> consulted env p = Some stack ->
  main_settings env p = Some obj -> worlds_ok env toks world_of = true ->
  py_run (main env (source_document resub pathspec_match world_of) toks)
  = finish (run_inputs (map (fun input =>
      Walk.document (wsettings_of obj) (headers_of obj)
        (document_bytes (flags_of obj) (trigger_of obj)
                        (resub (opt_text obj k_strip_fn)) (resub (opt_text obj k_strip_mac))
                        (resub (opt_text obj k_strip_mem)) (headers_of obj))
        (excl_with_output_links (pathspec_match (patterns_of obj) input) (pw_out_in_input (world_of input))
                                (follow_of obj) (pw_links (world_of input)))
        (pw_base (world_of input)) (pw_kind (world_of input))) (p_positional p)))
  /\ ws_prefix (wsettings_of obj) = found_opt_str (resolve stack k_prefix)
  /\ ws_recursive (wsettings_of obj) = found_bool (resolve stack k_recursive)
  /\ is_found_bool (resolve stack k_recursive) = true
  /\ inc_function (flags_of obj) = found_bool (resolve stack k_inc_function)
  /\ is_found_bool (resolve stack k_inc_function) = true
  /\ headers_of obj = found_strs (resolve stack k_headers)
  /\ exclude_strs stack = Some (patterns_of obj).
Proof.
  intros resub psm world_of env toks p stack obj Hp Hc Hm Hw.
  split.
  - rewrite (whole_program_run resub psm world_of env toks Hw).
    unfold main_settings_of, inputs_of. rewrite Hp, Hm. reflexivity.
  - cbn [wsettings_of ws_prefix ws_recursive flags_of inc_function].
    split; [exact (object_prefix env p stack obj Hc Hm)|].
    destruct (object_bool env p stack obj k_recursive Hc Hm eq_refl eq_refl) as [H1 H2].
    destruct (object_bool env p stack obj k_inc_function Hc Hm eq_refl eq_refl) as [H3 H4].
    repeat split; try assumption.
    + exact (object_headers env p stack obj Hc Hm).
    + exact (object_patterns env p stack obj Hc Hm).
Qed.

(* the same for every boolean option the layers read *)
Theorem every_flag_reaches_its_layer : forall env p stack obj,
  consulted env p = Some stack -> main_settings env p = Some obj ->
  let r := fun k => found_bool (resolve stack k) in
  flags_of obj
  = {| inc_function := r k_inc_function; inc_macro := r k_inc_macro; inc_cpp_class := r k_inc_cpp_class;
       inc_cpp_attr := r k_inc_cpp_attr; inc_cpp_constructor := r k_inc_cpp_constructor;
       inc_cpp_member := r k_inc_cpp_member; inc_ct_add_test := r k_inc_ct_add_test;
       inc_ct_add_section := r k_inc_ct_add_section; inc_add_test := r k_inc_add_test;
       inc_option := r k_inc_option |}
  /\ ws_recursive (wsettings_of obj) = r k_recursive
  /\ ws_auto_exclude (wsettings_of obj) = r k_auto_exclude
  /\ ws_ext_titles (wsettings_of obj) = r k_ext_titles
  /\ ws_ext_modules (wsettings_of obj) = r k_ext_modules
  /\ follow_of obj = r k_follow.
Proof.
  intros env p stack obj Hc Hm r. unfold r, flags_of, follow_of.
  cbn [wsettings_of ws_recursive ws_auto_exclude ws_ext_titles ws_ext_modules].
  assert (H : forall k, assoc k template = Some TBool -> str_eqb k excl_key = false ->
                        opt_bool obj k = found_bool (resolve stack k)).
  { intros k Hk Hne. exact (proj1 (object_bool env p stack obj k Hc Hm Hk Hne)). }
  rewrite !H by reflexivity. repeat split; reflexivity.
Qed.

(* ------------------------------------------------------------------ *)
(* (b) a rejected configuration runs nothing                           *)

Theorem rejected_configuration_runs_nothing : forall env document toks,
  main_settings_of env toks = None ->
  py_run (main env document toks) = Raised (main_error env toks) []
  /\ In (main_error env toks) [ExcArgparseExit; ExcConfigRead; ExcConfig; config_type_error].
Proof.
  intros env document toks H. rewrite main_matches_source, model_main_cases, H.
  split; [reflexivity|]. unfold main_error.
  destruct (parse_args cli_table toks) as [p|]; [|cbn [In]; auto].
  destruct (consulted env p) as [stack|]; [|cbn [In]; auto].
  destruct (Config.settings_of (env_cwd env) stack template); cbn [In]; auto.
Qed.

(* in particular for the generated document(): whatever lies at the inputs, no world is looked at *)
Corollary rejected_configuration_runs_nothing_source :
  forall resub pathspec_match world_of world_of' env toks,
  main_settings_of env toks = None ->
  py_run (main env (source_document resub pathspec_match world_of) toks)
  = py_run (main env (source_document resub pathspec_match world_of') toks)
  /\ acts_of (py_run (main env (source_document resub pathspec_match world_of) toks)) = [].
Proof.
  intros resub psm w w' env toks H.
  destruct (rejected_configuration_runs_nothing env (source_document resub psm w) toks H) as [H1 _].
  destruct (rejected_configuration_runs_nothing env (source_document resub psm w') toks H) as [H2 _].
  rewrite H1, H2. split; reflexivity.
Qed.

(* and the converse: a settings object exists exactly when nothing is raised before the loop *)
Theorem accepted_configuration_runs_every_input : forall resub pathspec_match world_of env toks obj,
  main_settings_of env toks = Some obj -> worlds_ok env toks world_of = true ->
  forall e acts, py_run (main env (source_document resub pathspec_match world_of) toks) <> Raised e acts.
Proof.
  intros resub psm world_of env toks obj Hm Hw e acts.
  rewrite (whole_program_run resub psm world_of env toks Hw), Hm. unfold finish.
  match goal with |- context [existsb is_stop ?x] => destruct (existsb is_stop x) end; discriminate.
Qed.

(* ------------------------------------------------------------------ *)
(* (c) the inputs share the settings                                   *)

(* every input is documented with the same wsettings / headers / flags / trigger / strip functions /
   patterns: obj is fixed before the loop and is the only thing the per-input runs have in common
   (the matcher and the world are per input because they depend on where the input is) *)
Theorem inputs_share_settings : forall resub pathspec_match world_of env toks obj,
  main_settings_of env toks = Some obj -> worlds_ok env toks world_of = true ->
  let W := wsettings_of obj in
  let H := headers_of obj in
  let D := document_bytes (flags_of obj) (trigger_of obj) (resub (opt_text obj k_strip_fn))
                          (resub (opt_text obj k_strip_mac)) (resub (opt_text obj k_strip_mem)) H in
  let PATS := patterns_of obj in
  py_run (main env (source_document resub pathspec_match world_of) toks)
  = finish (run_inputs (map (fun input =>
      Walk.document W H D
        (excl_with_output_links (pathspec_match PATS input) (pw_out_in_input (world_of input))
                                (follow_of obj) (pw_links (world_of input)))
        (pw_base (world_of input)) (pw_kind (world_of input))) (inputs_of toks))).
Proof.
  intros resub psm world_of env toks obj Hm Hw. cbv zeta.
  rewrite (whole_program_run resub psm world_of env toks Hw), Hm. reflexivity.
Qed.

Lemma acts_of_finish : forall out, acts_of (finish out) = out.
Proof. intros out. unfold finish. destruct (existsb is_stop out); reflexivity. Qed.

Lemma run_inputs_prefix_ok : forall pre rest,
  forallb run_ok pre = true -> run_inputs (pre ++ rest) = concat pre ++ run_inputs rest.
Proof.
  induction pre as [|a r IH]; intros rest H; [reflexivity|].
  cbn [forallb] in H. apply andb_true_iff in H. destruct H as [Ha Hr].
  cbn [app run_inputs concat]. rewrite existsb_stop_eq. unfold run_ok in Ha.
  apply negb_true_iff in Ha. rewrite Ha, (IH rest Hr), app_assoc. reflexivity.
Qed.

(* no input changes what the next one sees: whatever was documented before it (and did not stop the
   process), the actions of an input are those of the model run on that input with the ORIGINAL object *)
Theorem input_sees_original_settings : forall resub pathspec_match world_of env toks obj pre f post,
  main_settings_of env toks = Some obj -> worlds_ok env toks world_of = true ->
  inputs_of toks = pre ++ f :: post ->
  forallb run_ok (map (fun x => model_document resub pathspec_match world_of x obj) pre) = true ->
  exists rest,
    acts_of (py_run (main env (source_document resub pathspec_match world_of) toks))
    = concat (map (fun x => model_document resub pathspec_match world_of x obj) pre)
      ++ model_document resub pathspec_match world_of f obj ++ rest.
Proof.
  intros resub psm world_of env toks obj pre f post Hm Hw Hin Hpre.
  rewrite (whole_program_run resub psm world_of env toks Hw), Hm, acts_of_finish.
  rewrite Hin, map_app. cbn [map]. rewrite (run_inputs_prefix_ok _ _ Hpre).
  cbn [run_inputs].
  match goal with |- context [if ?c then _ else _] => destruct c end.
  - exists []. rewrite app_nil_r. reflexivity.
  - eexists. reflexivity.
Qed.

(* ------------------------------------------------------------------ *)
(* the per-input prefix default does not leak                          *)

(* ASSUMED, not proved here: the settings object is a VALUE in both translations.  Base/PyMainSem A14 makes
   document a function of (input, object) without effect on the object, and pywalk2coq renders
   copy.deepcopy(settings), copy.copy(settings) and a plain alias new_settings = settings alike (py_copy
   is the identity).  In Python only the deep copy keeps  new_settings.rst.prefix = prefix  away from the
   object main() hands to the next input: with the alias or the shallow copy the real program titles the
   second input with the first input's directory name (checked by running it), yet the generated file of
   the unpatched translator still satisfies WalkSourceMatch.v.  The theorems of this section therefore
   hold for the generated code and the model, and are faithful to the Python only as long as the walk
   translator stops on such sources (the patched pywalk2coq.py delivered with this file does: rules on
   aliasing / shallow copies / attribute assignment to a settings object that is not a local deep copy).

   document() computes prefix = settings.rst.prefix or, when that is None, the last element of the input
   directory, and stores it in the deep copy new_settings only.  Model side: documenting a directory
   with the settings st is documenting it with the prefix made explicit ... *)
Theorem dir_prefix_is_local : forall st hdrs docfn excl base ch,
  Walk.document st hdrs docfn excl base (KDir ch)
  = Walk.document (with_prefix st (Some (dir_prefix st base))) hdrs docfn excl base (KDir ch).
Proof. intros st hdrs docfn excl base ch. reflexivity. Qed.

(* ... a file input never gets the default (no prefix configured = no prefix in the title) ... *)
Theorem file_input_has_no_default_prefix : forall st hdrs docfn excl base content,
  Walk.document st hdrs docfn excl base (KFile content)
  = if excl [] false then []
    else cut_at_abort ((if ws_out st then [AMkDirs []] else [])
                       ++ doc_actions st docfn (ws_prefix st) base [] base content).
Proof. intros. reflexivity. Qed.

(* ... and the generated program agrees: with no prefix configured every directory input is documented
   with ITS OWN last path element as prefix, whatever was documented before it *)
Theorem prefix_default_does_not_leak : forall resub pathspec_match world_of env toks obj,
  main_settings_of env toks = Some obj -> worlds_ok env toks world_of = true ->
  ws_prefix (wsettings_of obj) = None ->
  (forall input, In input (inputs_of toks) -> exists ch, pw_kind (world_of input) = KDir ch) ->
  py_run (main env (source_document resub pathspec_match world_of) toks)
  = finish (run_inputs (map (fun input =>
      Walk.document (with_prefix (wsettings_of obj) (Some (pw_base (world_of input))))
        (headers_of obj) (docfn_of resub obj)
        (excl_with_output_links (excl_of pathspec_match obj input) (pw_out_in_input (world_of input))
                                (follow_of obj) (pw_links (world_of input)))
        (pw_base (world_of input)) (pw_kind (world_of input))) (inputs_of toks))).
Proof.
  intros resub psm world_of env toks obj Hm Hw Hnone Hdirs.
  rewrite (whole_program_run resub psm world_of env toks Hw), Hm.
  f_equal. f_equal. apply map_ext_in. intros f Hf. destruct (Hdirs f Hf) as [ch Hk].
  unfold model_document. rewrite Hk. rewrite dir_prefix_is_local.
  unfold dir_prefix. rewrite Hnone. reflexivity.
Qed.

(* new_settings = deepcopy(settings) with rst.prefix overridden is what document_single_file and the
   Documenter receive: every reader of the glue other than the prefix gives the same value on it, so the
   documenter / flags / headers / patterns of the file pages are those of the object main() built *)
Theorem new_settings_differs_only_in_prefix : forall resub pathspec_match obj v input,
  let obj' := py_set_key k_prefix v obj in
  flags_of obj' = flags_of obj /\ trigger_of obj' = trigger_of obj /\ headers_of obj' = headers_of obj
  /\ follow_of obj' = follow_of obj /\ patterns_of obj' = patterns_of obj
  /\ docfn_of resub obj' = docfn_of resub obj
  /\ excl_of pathspec_match obj' input = excl_of pathspec_match obj input
  /\ wsettings_of obj'
     = with_prefix (wsettings_of obj) (match v with CStr x => Some x | _ => None end).
Proof.
  intros resub psm obj v input obj'.
  assert (Hb : forall k, str_eqb k k_prefix = false -> opt_bool obj' k = opt_bool obj k).
  { intros k Hk. unfold opt_bool, obj'. rewrite set_key_other by exact Hk. reflexivity. }
  assert (Hs : forall k, str_eqb k k_prefix = false -> opt_str obj' k = opt_str obj k).
  { intros k Hk. unfold opt_str, obj'. rewrite set_key_other by exact Hk. reflexivity. }
  assert (Hl : forall k, str_eqb k k_prefix = false -> opt_strs obj' k = opt_strs obj k).
  { intros k Hk. unfold opt_strs, obj'. rewrite set_key_other by exact Hk. reflexivity. }
  assert (Ht : forall k, str_eqb k k_prefix = false -> opt_text obj' k = opt_text obj k).
  { intros k Hk. unfold opt_text. rewrite Hs by exact Hk. reflexivity. }
  assert (Hfl : flags_of obj' = flags_of obj).
  { unfold flags_of. rewrite !Hb by reflexivity. reflexivity. }
  assert (Htr : trigger_of obj' = trigger_of obj) by (unfold trigger_of; apply Ht; reflexivity).
  assert (Hhd : headers_of obj' = headers_of obj) by (unfold headers_of; apply Hl; reflexivity).
  assert (Hpt : patterns_of obj' = patterns_of obj) by (unfold patterns_of; apply Hl; reflexivity).
  repeat split; try assumption.
  - unfold follow_of. apply Hb. reflexivity.
  - unfold docfn_of. rewrite Hfl, Htr, Hhd, !Ht by reflexivity. reflexivity.
  - unfold excl_of. rewrite Hpt. reflexivity.
  - unfold wsettings_of, with_prefix. cbn [ws_out ws_recursive ws_auto_exclude ws_sep ws_ext_titles ws_ext_modules].
    rewrite !Hb, !Hs, !Ht by reflexivity. f_equal.
    unfold opt_str, obj'. rewrite set_key_assoc. reflexivity.
Qed.

(* ------------------------------------------------------------------ *)
(* the aggregator layer reads the same names                           *)

(* SourceMatch2 ties the aggregator callbacks to the model for the settings object
   SourceMatch2.settings_of fl trigger strip_fn strip_mac strip_mem (options by name).  Instantiated with
   the readings of the glue it answers every option the aggregator looks up exactly as the object of
   main() does: the field <-> option-name correspondence of flags_of is the one the aggregator tie uses *)
Theorem aggregator_reads_the_object : forall resub obj,
  let agg := SourceMatch2.settings_of (flags_of obj) (trigger_of obj) (resub (opt_text obj k_strip_fn))
                                      (resub (opt_text obj k_strip_mac)) (resub (opt_text obj k_strip_mem)) in
  (forall k, In k [k_inc_function; k_inc_macro; k_inc_cpp_class; k_inc_cpp_attr; k_inc_cpp_constructor;
                   k_inc_cpp_member; k_inc_ct_add_test; k_inc_ct_add_section; k_inc_add_test; k_inc_option] ->
             py_setting_bool agg k = opt_bool obj k)
  /\ py_setting_str agg k_trigger = opt_text obj k_trigger
  /\ (forall k, In k [k_strip_fn; k_strip_mac; k_strip_mem] ->
                py_setting_re_sub agg k = resub (opt_text obj k)).
Proof.
  intros resub obj agg. unfold agg. split; [|split].
  - intros k Hk. cbn [In] in Hk.
    repeat (destruct Hk as [Hk|Hk]; [subst k; reflexivity|]). destruct Hk.
  - reflexivity.
  - intros k Hk. cbn [In] in Hk.
    repeat (destruct Hk as [Hk|Hk]; [subst k; reflexivity|]). destruct Hk.
Qed.

(* ------------------------------------------------------------------ *)
(* a concrete run: user configuration, -s file, command line, two inputs *)

Module WholeExamples.

  Definition lines (l : list str) : list N := utf8_encode (join [nl] l ++ [nl]).
  (* proj/a.cmake: a documented function with an underscore parameter, an undocumented one *)
  Definition src_a : list N :=
    lines [s"#[[["; s"# Adds things."; s"#]]"; s"function(add_things _x y)"; s"endfunction()";
           s"function(helper z)"; s"endfunction()"].
  Definition src_b : list N := lines [s"#[[["; s"# B."; s"#]]"; s"macro(bm _p)"; s"endmacro()"].
  Definition src_l : list N := lines [s"function(lf _q)"; s"endfunction()"].

  Definition proj_tree : list node :=
    [F (s"a.cmake") src_a; F (s"notes.txt") [104%N];
     D (s"sub") [F (s"b.cmake") src_b];
     D (s"generated") [F (s"g.cmake") src_l];
     D (s"skipme") [F (s"c.cmake") src_l];
     D (s"docs") [F (s"old.cmake") src_l]].
  (* what lies at the inputs; out = where the output directory is inside proj, if it is *)
  Definition ex_world (out : option (list str)) (input : str) : pyworld :=
    if str_eqb input (s"proj") then PyWorld (s"proj") (KDir proj_tree) out (fun _ => false)
    else if str_eqb input (s"lib") then PyWorld (s"lib") (KDir [F (s"l.cmake") src_l]) None (fun _ => false)
    else if str_eqb input (s"one.cmake") then PyWorld (s"one.cmake") (KFile src_l) None (fun _ => false)
    else PyWorld input KMissing None (fun _ => false).

  (* a toy pathspec: a pattern x* matches a last path element starting with x, any other pattern must
     equal it; a toy regex engine: the pattern is a literal prefix to remove *)
  Definition glob (pat name : str) : bool :=
    if endswith (s"*") pat then startswith (drop_last pat) name else str_eqb pat name.
  Definition ex_psm (pats : list str) (input : str) (rel : list str) (isdir : bool) : bool :=
    existsb (fun pat => glob pat (match last_opt rel with Some n => n | None => input end)) pats.
  Definition ex_resub (regex x : str) : str :=
    match regex with
    | [] => x
    | _ :: _ => if startswith regex x then skipn (length regex) x else x
    end.

  Definition ex_user2 : source :=
    {| src_kind := SrcUser;
       src_vals := [(s"input.exclude_filters", YList [YStr (s"skip*")]);
                    (s"input.recursive", YBool false);
                    (s"rst.headers", YList [YStr (s"#"); YStr (s"*")])];
       src_dir := Some (s"/home/u/.config/cminx") |}.
  Definition ex_file2 : source :=
    {| src_kind := SrcFile;
       src_vals := [(s"rst.prefix", YStr (s"F"));
                    (s"rst.headers", YList [YStr (s"="); YStr (s"-"); YStr (s"~")]);
                    (s"input.include_undocumented_function", YBool false);
                    (s"input.function_parameter_name_strip_regex", YStr (s"_"))];
       src_dir := Some (s"/work/cfg") |}.
  (* rejected by the template / by the loop of main() *)
  Definition ex_file_bad_type : source :=
    {| src_kind := SrcFile; src_vals := [(s"input.recursive", YStr (s"yes"))]; src_dir := Some (s"/work/cfg") |}.
  Definition ex_file_bad_excl : source :=
    {| src_kind := SrcFile; src_vals := [(s"input.exclude_filters", YStr (s"build"))];
       src_dir := Some (s"/work/cfg") |}.
  Definition ex_env2 : pyenv :=
    {| env_cwd := s"/work";
       env_user := fun app => if str_eqb app (s"cminx") then ex_user2
                              else {| src_kind := SrcUser; src_vals := []; src_dir := None |};
       env_defaults := fun m => if str_eqb m (s"cminx") then defaults_src
                                else {| src_kind := SrcDefaults; src_vals := []; src_dir := None |};
       env_load := fun path =>
         if str_eqb path (s"/work/cfg/my.yaml") then Some ex_file2
         else if str_eqb path (s"/work/cfg/badtype.yaml") then Some ex_file_bad_type
         else if str_eqb path (s"/work/cfg/badexcl.yaml") then Some ex_file_bad_excl
         else None |}.

  (* cminx proj lib -s cfg/my.yaml -e gen* -r -p P -o out *)
  Definition ex_toks : list str :=
    [s"proj"; s"lib"; s"-s"; s"cfg/my.yaml"; s"-e"; s"gen*"; s"-r"; s"-p"; s"P"; s"-o"; s"out"].

  (* a readable digest of an action: what is written where, the title and its underline *)
  Definition title_of (text : str) : str := nth 2 (split_on nl text) [].
  Definition underline_of (text : str) : str := nth 1 (split_on nl text) [].
  Definition digest (a : action) : str :=
    match a with
    | AMkDirs p => s"mkdir " ++ join (s"/") p
    | AWrite p t => s"write " ++ join (s"/") p ++ s" | " ++ title_of t ++ s" | " ++ underline_of t
    | APrint t => s"print | " ++ title_of t ++ s" | " ++ underline_of t
    | AAbort _ => s"abort"
    | AExit255 => s"exit(-1)"
    end.
  Definition digests (r : mainres) : list str := map digest (acts_of r).
  Definition printed (r : mainres) : list str :=
    flat_map (fun a => match a with APrint t => [t] | AWrite _ t => [t] | _ => [] end) (acts_of r).

  Definition run (out : option (list str)) (toks : list str) : mainres :=
    py_run (main ex_env2 (source_document ex_resub ex_psm (ex_world out)) toks).
  Definition model (out : option (list str)) (toks : list str) : mainres :=
    model_main ex_env2 (model_document ex_resub ex_psm (ex_world out)) toks.

  (* ---- the main theorem on this run ---- *)
  Example whole_program_example_hypotheses :
    worlds_ok ex_env2 ex_toks (ex_world None) = true
    /\ inputs_of ex_toks = [s"proj"; s"lib"]
    /\ is_some (main_settings_of ex_env2 ex_toks) = true.
  Proof. vm_compute. repeat split; reflexivity. Qed.

  (* prefix P from the command line (the -s file says F), headers = - ~ from the -s file (the user
     configuration says hash and star), recursion from -r (the user configuration says false), generated/ excluded by
     -e and skipme/ by the user configuration (the union), both inputs under the same settings *)
  Example whole_program_example_run :
    run None ex_toks = model None ex_toks
    /\ digests (run None ex_toks)
       = [s"mkdir "; s"write index.rst | P | ="; s"mkdir "; s"write a.rst | P.a | ===";
          s"mkdir sub"; s"write sub/index.rst | P.sub | ====="; s"mkdir ";
          s"write sub/b.rst | P.sub/b | ======="; s"mkdir docs";
          s"write docs/index.rst | P.docs | ======"; s"mkdir ";
          s"write docs/old.rst | P.docs/old | =========="; s"mkdir ";
          s"write index.rst | P | ="; s"mkdir "; s"write l.rst | P.l | ==="].
  Proof. vm_compute. split; reflexivity. Qed.

  (* the page of proj/a.cmake: include_undocumented_function: false of the -s file reaches the aggregator
     (helper is gone), function_parameter_name_strip_regex: _ reaches it (parameter x), the headers reach
     the writer; without the -s file: defaults *)
  Example whole_program_example_page :
    map (split_on nl) (printed (run None [s"proj"; s"-s"; s"cfg/my.yaml"; s"-p"; s"P"]))
    = [[s""; s"==="; s"P.a"; s"==="; s""; s".. module:: P.a"; s""; s"";
        s".. function:: add_things(x y)"; s""; s"   Adds things."; s"   "; s""; s""; s""]]
    /\ map (split_on nl) (printed (run None [s"proj"]))
       = [[s""; s"######"; s"proj.a"; s"######"; s""; s".. module:: proj.a"; s""; s"";
           s".. function:: add_things(_x y)"; s""; s"   Adds things."; s"   "; s""; s"";
           s".. function:: helper(z)"; s""; s"   "; s""; s""; s""]].
  Proof. vm_compute. split; reflexivity. Qed.

  (* the output directory inside the input tree (the case of the repaired F29): hypotheses satisfiable with
     pw_out_in_input = Some .., proj/docs is neither walked nor listed *)
  Example whole_program_example_output_inside :
    let toks := [s"proj"; s"-r"; s"-o"; s"proj/docs"] in
    worlds_ok ex_env2 toks (ex_world (Some [s"docs"])) = true
    /\ run (Some [s"docs"]) toks = model (Some [s"docs"]) toks
    /\ digests (run (Some [s"docs"]) toks)
       = [s"mkdir "; s"write index.rst | proj | ####"; s"mkdir "; s"write a.rst | proj.a | ######";
          s"mkdir sub"; s"write sub/index.rst | proj.sub | ########"; s"mkdir ";
          s"write sub/b.rst | proj.sub/b | ##########"; s"mkdir generated";
          s"write generated/index.rst | proj.generated | ##############"; s"mkdir ";
          s"write generated/g.rst | proj.generated/g | ################"].
  Proof. vm_compute. repeat split; reflexivity. Qed.

  (* the hypothesis worlds_ok cannot be dropped: a world that places an output directory inside the input
     although none is configured (meaningless: out_consistent fails) separates the two sides *)
  Example whole_program_without_worlds_ok_refuted :
    let toks := [s"proj"; s"-r"] in
    worlds_ok ex_env2 toks (ex_world (Some [s"docs"])) = false
    /\ run (Some [s"docs"]) toks <> model (Some [s"docs"]) toks.
  Proof. vm_compute. split; [reflexivity|discriminate]. Qed.

  (* ---- (a) ---- *)
  Example settings_reach_every_layer_nonvacuous :
    exists p stack obj,
      parse_args cli_table ex_toks = Some p /\ consulted ex_env2 p = Some stack
      /\ main_settings ex_env2 p = Some obj /\ worlds_ok ex_env2 ex_toks (ex_world None) = true
      /\ p_positional p = [s"proj"; s"lib"]
      (* where resolve finds the four options, and what it finds *)
      /\ map (fun k => option_map (fun r => (fst r, src_kind (snd r))) (resolve stack k))
             [k_prefix; k_recursive; k_inc_function; k_headers]
         = [Some (YStr (s"P"), SrcArgs); Some (YBool true, SrcArgs); Some (YBool false, SrcFile);
            Some (YList [YStr (s"="); YStr (s"-"); YStr (s"~")], SrcFile)]
      (* lower-priority sources say something else *)
      /\ assoc k_prefix (src_vals ex_file2) = Some (YStr (s"F"))
      /\ assoc k_recursive (src_vals ex_user2) = Some (YBool false)
      /\ assoc k_inc_function (src_vals defaults_src) = Some (YBool true)
      /\ assoc k_headers (src_vals ex_user2) = Some (YList [YStr (s"#"); YStr (s"*")])
      (* what the layers are run with *)
      /\ ws_prefix (wsettings_of obj) = Some (s"P") /\ ws_recursive (wsettings_of obj) = true
      /\ inc_function (flags_of obj) = false /\ headers_of obj = [s"="; s"-"; s"~"]
      /\ patterns_of obj = [s"gen*"; s"skip*"].
  Proof.
    destruct (parse_args cli_table ex_toks) as [p|] eqn:Hp; [|vm_compute in Hp; discriminate Hp].
    exists p. vm_compute in Hp. injection Hp as Hp. subst p.
    eexists. eexists. split; [reflexivity|]. split; [vm_compute; reflexivity|].
    split; [vm_compute; reflexivity|]. repeat split; vm_compute; reflexivity.
  Qed.

  (* ---- (b) ---- *)
  Example rejected_configuration_nonvacuous :
    map (fun toks => (is_some (main_settings_of ex_env2 toks), run None toks))
        [[s"proj"; s"lib"; s"-s"; s"cfg/badtype.yaml"];            (* input.recursive: yes (a string) *)
         [s"proj"; s"lib"; s"-r"; s"-s"; s"cfg/badexcl.yaml"];     (* input.exclude_filters: build *)
         [s"proj"; s"lib"; s"-r"; s"-s"; s"nope.yaml"];            (* unreadable *)
         [s"-r"]]                                                  (* no input *)
    = [(false, Raised ExcConfig []); (false, Raised config_type_error []);
       (false, Raised ExcConfigRead []); (false, Raised ExcArgparseExit [])].
  Proof. vm_compute. reflexivity. Qed.

  (* ---- (c) and the prefix default ---- *)
  (* cminx proj lib one.cmake -r -o out: no prefix anywhere *)
  Definition ex_toks_np : list str := [s"proj"; s"lib"; s"one.cmake"; s"-r"; s"-o"; s"out"].

  Example inputs_share_settings_nonvacuous :
    exists obj,
      main_settings_of ex_env2 ex_toks_np = Some obj
      /\ worlds_ok ex_env2 ex_toks_np (ex_world None) = true
      /\ inputs_of ex_toks_np = [s"proj"; s"lib"] ++ s"one.cmake" :: []
      /\ forallb run_ok (map (fun x => model_document ex_resub ex_psm (ex_world None) x obj)
                             [s"proj"; s"lib"]) = true
      /\ ws_prefix (wsettings_of obj) = None.
  Proof.
    destruct (main_settings_of ex_env2 ex_toks_np) as [obj|] eqn:E; [|vm_compute in E; discriminate E].
    exists obj. vm_compute in E. injection E as E. subst obj.
    repeat split; vm_compute; reflexivity.
  Qed.

  (* every directory gets its own name, the file input gets none: nothing of proj reaches lib or one.cmake *)
  Example prefix_default_example :
    digests (run None ex_toks_np)
    = [s"mkdir "; s"write index.rst | proj | ####"; s"mkdir "; s"write a.rst | proj.a | ######";
       s"mkdir sub"; s"write sub/index.rst | proj.sub | ########"; s"mkdir ";
       s"write sub/b.rst | proj.sub/b | ##########"; s"mkdir generated";
       s"write generated/index.rst | proj.generated | ##############"; s"mkdir ";
       s"write generated/g.rst | proj.generated/g | ################"; s"mkdir docs";
       s"write docs/index.rst | proj.docs | #########"; s"mkdir ";
       s"write docs/old.rst | proj.docs/old | #############";
       s"mkdir "; s"write index.rst | lib | ###"; s"mkdir "; s"write l.rst | lib.l | #####";
       s"mkdir "; s"mkdir "; s"write one.rst | one | ###"].
  Proof. vm_compute. reflexivity. Qed.

  Example prefix_default_does_not_leak_nonvacuous :
    let toks := [s"proj"; s"lib"; s"-r"; s"-o"; s"out"] in
    exists obj,
      main_settings_of ex_env2 toks = Some obj /\ worlds_ok ex_env2 toks (ex_world None) = true
      /\ ws_prefix (wsettings_of obj) = None
      /\ forallb (fun input => match pw_kind (ex_world None input) with KDir _ => true | _ => false end)
                 (inputs_of toks) = true
      (* what a leak would look like: lib documented with the prefix computed for proj *)
      /\ map digest (Walk.document (with_prefix (wsettings_of obj) (Some (s"proj"))) (headers_of obj)
                       (docfn_of ex_resub obj) (ex_psm (patterns_of obj) (s"lib")) (s"lib")
                       (pw_kind (ex_world None (s"lib"))))
         = [s"mkdir "; s"write index.rst | proj | ####"; s"mkdir "; s"write l.rst | proj.l | ######"]
      (* what the program does *)
      /\ map digest (model_document ex_resub ex_psm (ex_world None) (s"lib") obj)
         = [s"mkdir "; s"write index.rst | lib | ###"; s"mkdir "; s"write l.rst | lib.l | #####"].
  Proof.
    cbv zeta.
    destruct (main_settings_of ex_env2 [s"proj"; s"lib"; s"-r"; s"-o"; s"out"]) as [obj|] eqn:E;
      [|vm_compute in E; discriminate E].
    exists obj. vm_compute in E. injection E as E. subst obj.
    repeat split; vm_compute; reflexivity.
  Qed.

  (* ---- a rule that is NOT the highest-priority-source rule ---- *)
  (* input.exclude_filters is the one option for which the layers do not get what resolve finds in the
     highest-priority source: main() assigns the union over all sources (by design, see its comment) *)
  Example highest_priority_rule_for_exclude_filters_refuted :
    ~ (forall env toks p stack obj,
         parse_args cli_table toks = Some p -> consulted env p = Some stack ->
         main_settings env p = Some obj ->
         patterns_of obj = found_strs (resolve stack excl_key)).
  Proof.
    intros H.
    destruct (parse_args cli_table ex_toks) as [p|] eqn:Hp; [|vm_compute in Hp; discriminate Hp].
    destruct (consulted ex_env2 p) as [stack|] eqn:Hc;
      [|vm_compute in Hp; injection Hp as Hp; subst p; vm_compute in Hc; discriminate Hc].
    destruct (main_settings ex_env2 p) as [obj|] eqn:Hm;
      [|vm_compute in Hp; injection Hp as Hp; subst p; vm_compute in Hm; discriminate Hm].
    specialize (H ex_env2 ex_toks p stack obj Hp Hc Hm).
    vm_compute in Hp. injection Hp as Hp. subst p.
    vm_compute in Hc. injection Hc as Hc. subst stack.
    vm_compute in Hm. injection Hm as Hm. subst obj.
    vm_compute in H. discriminate H.
  Qed.

End WholeExamples.

(* ==== MAIN THEOREMS ==== *)
(* whole_program_matches_source (the whole generated program = the pure model), whole_program_run,
   whole_program_output_outside; model_main_ext (congruence, no functional extensionality),
   source_document_is_model, model_main_cases;
   glue_keys_in_template, template_keys_covered, glue_reads_well_typed_values (the glue);
   settings_reach_every_layer, every_flag_reaches_its_layer (a);
   accepted_headers_not_mapping, headers_mapping_no_settings_object, main_settings_iff_accepted (F27 closed);
   rejected_configuration_runs_nothing, rejected_configuration_runs_nothing_source,
   accepted_configuration_runs_every_input (b);
   inputs_share_settings, input_sees_original_settings (c);
   dir_prefix_is_local, prefix_default_does_not_leak, new_settings_differs_only_in_prefix,
   aggregator_reads_the_object;
   refuted: WholeExamples.whole_program_without_worlds_ok_refuted,
            WholeExamples.highest_priority_rule_for_exclude_filters_refuted *)
Print Assumptions whole_program_matches_source.
Print Assumptions whole_program_run.
Print Assumptions whole_program_output_outside.
Print Assumptions model_main_ext.
Print Assumptions glue_reads_well_typed_values.
Print Assumptions settings_reach_every_layer.
Print Assumptions every_flag_reaches_its_layer.
Print Assumptions rejected_configuration_runs_nothing.
Print Assumptions rejected_configuration_runs_nothing_source.
Print Assumptions accepted_configuration_runs_every_input.
Print Assumptions inputs_share_settings.
Print Assumptions input_sees_original_settings.
Print Assumptions dir_prefix_is_local.
Print Assumptions prefix_default_does_not_leak.
Print Assumptions new_settings_differs_only_in_prefix.
Print Assumptions aggregator_reads_the_object.
Print Assumptions WholeExamples.whole_program_example_run.
Print Assumptions WholeExamples.whole_program_without_worlds_ok_refuted.
Print Assumptions WholeExamples.highest_priority_rule_for_exclude_filters_refuted.
Print Assumptions accepted_headers_not_mapping.
Print Assumptions headers_mapping_no_settings_object.
Print Assumptions main_settings_iff_accepted.
