(* Proofs/CrlfFacts.v -- property C04, last sentence: converting the line endings of the input
   between LF and CRLF changes at most line-ending characters and whitespace-only lines of
   the output.  Stated for a doccomment in canonical form (CleanFacts.canon_lines): with CRLF
   line endings the Docstring token text, split at the line feed, gives the same lines with a
   carriage return behind every line but the last. *)
From Coq Require Import String List NArith ZArith Bool Arith Lia.
From CMinx Require Import Base.Str Model.Lexer Model.Parser Model.Writer Model.DocTypes
     Model.Aggregator Proofs.CleanFacts.
Import ListNotations.

(* ---- spec ---- *)

(* the lines of the Docstring token of a CRLF file: canon_lines with a carriage return
   behind every line but the last (the token ends with the closing bracket pair) *)
Definition crlf_lines (ind : str) (L : list str) : list str :=
  (doc_open_line ++ [cr]) :: map (fun l => ind ++ leader_line l ++ [cr]) L ++ [ind ++ s"#]]"].

(* what is left of the opening line: the carriage return, unless the block is indented by
   more than four characters (then the slice line[num_spaces:] is already empty) *)
Definition crlf_first (ind : str) : list str :=
  if length ind <=? 4 then [[cr]] else [].

(* remove ONE trailing carriage return *)
Fixpoint chomp_cr (x : str) : str :=
  match x with
  | [] => []
  | a :: r => match r with
              | [] => if (a =? 13)%N then [] else [a]
              | _ :: _ => a :: chomp_cr r
              end
  end.

(* whitespace-only line (Python: not line.strip()), the empty line included *)
Definition ws_only (l : str) : bool := forallb py_isspace l.

(* the normalisation the property allows: split at the line feed, take one trailing carriage
   return from each line, forget the whitespace-only lines *)
Definition norm_lines (t : str) : list str :=
  filter (fun l => negb (ws_only l)) (map chomp_cr (split_on nl t)).

(* delete every carriage return *)
Definition del_cr (t : str) : str := filter (fun c => negb (c =? 13)%N) t.

(* ---- helpers ---- *)

Lemma last_opt_app_ne : forall (A : Type) (x y : list A), y <> [] -> last_opt (x ++ y) = last_opt y.
Proof.
  intros A x y Hy. induction x as [|a x IH]; [reflexivity|].
  cbn [app last_opt]. destruct (x ++ y) as [|b r] eqn:E.
  - destruct x; [cbn [app] in E; contradiction (Hy E)|discriminate E].
  - exact IH.
Qed.

Lemma chomp_cr_snoc : forall l : str, chomp_cr (l ++ [cr]) = l.
Proof.
  induction l as [|a l IH]; [reflexivity|].
  cbn [app chomp_cr]. destruct (l ++ [cr]) as [|b r] eqn:E.
  - destruct l; discriminate E.
  - rewrite IH. reflexivity.
Qed.

Lemma chomp_cr_id : forall l : str, last_opt l <> Some cr -> chomp_cr l = l.
Proof.
  induction l as [|a l IH]; intros H; [reflexivity|].
  destruct l as [|b l'].
  - cbn [chomp_cr]. destruct (N.eqb_spec a 13) as [E|E]; [|reflexivity].
    subst a. contradiction H. reflexivity.
  - change (chomp_cr (a :: b :: l')) with (a :: chomp_cr (b :: l')).
    rewrite IH; [reflexivity|]. exact H.
Qed.

(* a string is free of line feeds, or has a last line feed *)
Lemma last_nl_decomp : forall l : str,
  ~ In nl l \/ exists pre y, l = pre ++ nl :: y /\ ~ In nl y.
Proof.
  induction l as [|a l IH]; [left; intros []|].
  destruct IH as [Hf|[pre [y [E Hy]]]].
  - destruct (N.eqb_spec a nl) as [Ea|Ea].
    + right. exists [], l. subst a. split; [reflexivity|exact Hf].
    + left. intros [H|H]; [exact (Ea H)|exact (Hf H)].
  - right. exists (a :: pre), y. subst l. split; [reflexivity|exact Hy].
Qed.

Lemma snoc_cr_free : forall y : str, ~ In nl y -> ~ In nl (y ++ [cr]).
Proof.
  intros y Hy. apply not_in_app; [exact Hy|]. intros [E|[]]. discriminate E.
Qed.

(* a carriage return behind a text is a carriage return behind its last line *)
Lemma map_chomp_split_snoc_cr : forall l : str, last_opt l <> Some cr ->
  map chomp_cr (split_on nl (l ++ [cr])) = map chomp_cr (split_on nl l).
Proof.
  intros l H. destruct (last_nl_decomp l) as [Hf|[pre [y [E Hy]]]].
  - rewrite (split_on_free nl l Hf), (split_on_free nl (l ++ [cr]) (snoc_cr_free l Hf)).
    cbn [map]. rewrite chomp_cr_snoc, (chomp_cr_id l H). reflexivity.
  - subst l. rewrite <- app_assoc. cbn [app].
    rewrite !split_on_app_sep.
    rewrite (split_on_free nl y Hy), (split_on_free nl (y ++ [cr]) (snoc_cr_free y Hy)).
    rewrite !map_app. cbn [map]. rewrite chomp_cr_snoc, chomp_cr_id; [reflexivity|].
    destruct y as [|b y']; [discriminate|].
    rewrite last_opt_app_ne in H by discriminate. exact H.
Qed.

Lemma norm_lines_snoc_cr : forall l : str, last_opt l <> Some cr -> norm_lines (l ++ [cr]) = norm_lines l.
Proof. intros l H. unfold norm_lines. rewrite (map_chomp_split_snoc_cr l H). reflexivity. Qed.

Lemma norm_lines_app_nl : forall x y, norm_lines (x ++ nl :: y) = norm_lines x ++ norm_lines y.
Proof.
  intros x y. unfold norm_lines. rewrite split_on_app_sep, map_app, filter_app. reflexivity.
Qed.

(* the normal form of joined texts is the concatenation of their normal forms *)
Lemma norm_lines_join : forall ls, norm_lines (join [nl] ls) = flat_map norm_lines ls.
Proof.
  induction ls as [|a ls IH]; [reflexivity|]. destruct ls as [|b r].
  - cbn [join flat_map]. rewrite app_nil_r. reflexivity.
  - rewrite join_cons2. cbn [app]. rewrite norm_lines_app_nl, IH. reflexivity.
Qed.

Lemma norm_lines_single : forall l : str, ~ In nl l -> last_opt l <> Some cr ->
  norm_lines l = if ws_only l then [] else [l].
Proof.
  intros l Hf Hc. unfold norm_lines. rewrite (split_on_free nl l Hf). cbn [map filter].
  rewrite (chomp_cr_id l Hc). destruct (ws_only l); reflexivity.
Qed.

Lemma flat_map_norm_snoc_cr : forall L : list str, Forall (fun l => last_opt l <> Some cr) L ->
  flat_map norm_lines (map (fun l => l ++ [cr]) L) = flat_map norm_lines L.
Proof.
  intros L H. induction H as [|l L' Hl HL IH]; [reflexivity|].
  cbn [map flat_map]. rewrite (norm_lines_snoc_cr l Hl), IH. reflexivity.
Qed.

Lemma flat_map_norm_filter : forall L : list str,
  Forall (fun l => ~ In nl l) L -> Forall (fun l => last_opt l <> Some cr) L ->
  flat_map norm_lines L = filter (fun l => negb (ws_only l)) L.
Proof.
  intros L H1. induction H1 as [|l L' Hl HL IH]; intros H2; [reflexivity|].
  inversion H2 as [|l0 L0 Hc HC]; subst.
  cbn [flat_map filter]. rewrite (norm_lines_single l Hl Hc), (IH HC).
  destruct (ws_only l); reflexivity.
Qed.

(* ---- T1: the cleaned text of the CRLF block, exactly ---- *)

Lemma join_cons_snoc : forall (x : str) (M : list str),
  join [nl] ((x :: M) ++ [[]]) = x ++ nl :: join [nl] (M ++ [[]]).
Proof.
  intros x M. cbn [app]. destruct (M ++ [[]]) as [|y r] eqn:E; [destruct M; discriminate E|].
  reflexivity.
Qed.

Lemma clean_line_open_cr : forall n,
  clean_line n (doc_open_line ++ [cr]) = if n <=? 4 then [cr] else [].
Proof.
  intros n. destruct n as [|[|[|[|[|n]]]]]; try reflexivity. destruct n; reflexivity.
Qed.

(* the carriage return stays behind every line; for the empty line (hash, CR) it is all
   that stays, and it is not a space, so the leading-space step leaves it *)
Lemma clean_line_leader_cr : forall ind l,
  clean_line (length ind) (ind ++ leader_line l ++ [cr]) = l ++ [cr].
Proof.
  intros ind l. unfold clean_line. rewrite skipn_app_exact.
  destruct l as [|a r]; reflexivity.
Qed.

Theorem clean_crlf_general : forall ind L,
  forallb is_sptab' ind = true ->
  clean_doc_lines (crlf_lines ind L)
  = join [nl] (crlf_first ind ++ map (fun l => l ++ [cr]) L ++ [[]]).
Proof.
  intros ind L Hind. unfold clean_doc_lines, crlf_lines.
  change (s"#]]") with doc_close_line.
  change ((doc_open_line ++ [cr]) :: map (fun l => ind ++ leader_line l ++ [cr]) L
          ++ [ind ++ doc_close_line])
    with (((doc_open_line ++ [cr]) :: map (fun l => ind ++ leader_line l ++ [cr]) L)
          ++ [ind ++ doc_close_line]).
  rewrite last_opt_app1.
  set (n := length (take_while _ (ind ++ doc_close_line))).
  assert (Hn : n = length ind).
  { unfold n. f_equal. change doc_close_line with (35%N :: s"]]").
    apply take_while_prefix; [apply sptab_not_hash; exact Hind|reflexivity]. }
  clearbody n. subst n.
  rewrite map_app. cbn [map]. rewrite clean_line_close, clean_line_open_cr.
  rewrite map_map.
  rewrite (map_ext (fun l => clean_line (length ind) (ind ++ leader_line l ++ [cr]))
             (fun l => l ++ [cr]) (clean_line_leader_cr ind)).
  change ((if length ind <=? 4 then [cr] else []) :: map (fun l => l ++ [cr]) L ++ [[]])
    with (((if length ind <=? 4 then [cr] else []) :: map (fun l => l ++ [cr]) L) ++ [[]]).
  rewrite update_last_app1. change (rstrip_set doc_rstrip_set []) with (@nil char).
  rewrite join_cons_snoc. unfold crlf_first.
  destruct (length ind <=? 4); cbn [app].
  - change (cr =? 10)%N with false. cbn iota.
    exact (eq_sym (join_cons_snoc [cr] (map (fun l => l ++ [cr]) L))).
  - change (nl =? 10)%N with true. reflexivity.
Qed.

(* the requested form: true up to an indentation of four characters *)
Theorem clean_crlf_exact : forall ind L,
  forallb is_sptab' ind = true -> length ind <= 4 ->
  clean_doc_lines (crlf_lines ind L)
  = join [nl] ([cr] :: map (fun l => l ++ [cr]) L ++ [[]]).
Proof.
  intros ind L Hind Hlen. rewrite (clean_crlf_general ind L Hind). unfold crlf_first.
  destruct (Nat.leb_spec (length ind) 4) as [_|H]; [reflexivity|lia].
Qed.

(* from five characters of indentation on, the opening line vanishes completely and the
   leading line break is removed as in the LF case *)
Theorem clean_crlf_deep : forall ind L,
  forallb is_sptab' ind = true -> 5 <= length ind ->
  clean_doc_lines (crlf_lines ind L) = doc_of_lines (map (fun l => l ++ [cr]) L).
Proof.
  intros ind L Hind Hlen. rewrite (clean_crlf_general ind L Hind). unfold crlf_first.
  destruct (Nat.leb_spec (length ind) 4) as [H|_]; [lia|].
  cbn [app]. apply join_lines_snoc_empty.
Qed.

(* the statement without the bound on the indentation is false *)
Example clean_crlf_exact_refuted :
  forallb is_sptab' (s"     ") = true
  /\ clean_doc_lines (crlf_lines (s"     ") [s"a"; []])
     <> join [nl] ([cr] :: map (fun l => l ++ [cr]) [s"a"; []] ++ [[]])
  /\ clean_doc_lines (crlf_lines (s"     ") [s"a"; []]) = s"a" ++ [cr; nl; cr; nl].
Proof. vm_compute. repeat split. intros H. discriminate H. Qed.

Definition crlf_nasty : list str :=
  nasty_lines ++ [[97; 13; 98]%N; [160; 8195]%N; [cr; sp]; s" # [x] "].

Example clean_crlf_nonvacuous :
  forallb is_sptab' (s"  ") = true /\ forallb is_sptab' [tab; sp; tab; sp] = true
  /\ forallb is_sptab' (s"        ") = true
  /\ clean_doc_lines (crlf_lines (s"  ") crlf_nasty)
     = join [nl] ([cr] :: map (fun l => l ++ [cr]) crlf_nasty ++ [[]])
  /\ clean_doc_lines (crlf_lines [tab; sp; tab; sp] crlf_nasty)
     = join [nl] ([cr] :: map (fun l => l ++ [cr]) crlf_nasty ++ [[]])
  /\ clean_doc_lines (crlf_lines (s"        ") crlf_nasty)
     = join [nl] (map (fun l => l ++ [cr]) crlf_nasty) ++ [nl]
  /\ nth 4 (crlf_lines (s"  ") crlf_nasty) [] = s"  #" ++ [cr]
  /\ nth 2 (crlf_lines (s"  ") crlf_nasty) [] = s"  # ]]" ++ [cr]
  /\ clean_doc_lines (crlf_lines (s"  ") [[]; s" x"])
     = [cr; nl; cr; nl; sp] ++ s"x" ++ [cr; nl]
  /\ clean_doc_lines (crlf_lines (s"  ") []) = [cr; nl]
  /\ clean_doc_lines (crlf_lines (s"     ") []) = [].
Proof. vm_compute. repeat split. Qed.

(* ---- T2: equal modulo line endings and whitespace-only lines ---- *)

(* CleanFacts.clean_canonical, written as a join *)
Lemma clean_canonical_join : forall ind L,
  forallb is_sptab' ind = true ->
  clean_doc_lines (canon_lines ind L) = join [nl] (L ++ [[]]).
Proof.
  intros ind L Hind. rewrite (clean_canonical ind L Hind). symmetry.
  exact (join_lines_snoc_empty L).
Qed.

Theorem norm_clean_lf : forall ind L,
  forallb is_sptab' ind = true ->
  norm_lines (clean_doc_lines (canon_lines ind L)) = flat_map norm_lines L.
Proof.
  intros ind L Hind. rewrite (clean_canonical_join ind L Hind).
  rewrite norm_lines_join, flat_map_app.
  cbn [flat_map]. change (norm_lines []) with (@nil str). rewrite !app_nil_r. reflexivity.
Qed.

Theorem norm_clean_crlf : forall ind L,
  forallb is_sptab' ind = true -> Forall (fun l => last_opt l <> Some cr) L ->
  norm_lines (clean_doc_lines (crlf_lines ind L)) = flat_map norm_lines L.
Proof.
  intros ind L Hind HL. rewrite (clean_crlf_general ind L Hind).
  rewrite norm_lines_join, !flat_map_app.
  transitivity (@nil str ++ flat_map norm_lines L ++ @nil str).
  - f_equal; [unfold crlf_first; destruct (length ind <=? 4); reflexivity|].
    f_equal; try reflexivity. exact (flat_map_norm_snoc_cr L HL).
  - cbn [app]. apply app_nil_r.
Qed.

(* the strong form: the lines may even contain line feeds *)
Theorem clean_crlf_same_modulo_line_endings_gen : forall ind L,
  forallb is_sptab' ind = true ->
  Forall (fun l => last_opt l <> Some cr) L ->
  norm_lines (clean_doc_lines (crlf_lines ind L))
  = norm_lines (clean_doc_lines (canon_lines ind L)).
Proof.
  intros ind L Hind HL. rewrite (norm_clean_crlf ind L Hind HL), (norm_clean_lf ind L Hind).
  reflexivity.
Qed.

(* the requested form *)
Theorem clean_crlf_same_modulo_line_endings : forall ind L,
  forallb is_sptab' ind = true ->
  Forall (fun l => ~ In nl l) L ->
  Forall (fun l => last_opt l <> Some cr) L ->
  norm_lines (clean_doc_lines (crlf_lines ind L))
  = norm_lines (clean_doc_lines (canon_lines ind L)).
Proof.
  intros ind L Hind _ HL. exact (clean_crlf_same_modulo_line_endings_gen ind L Hind HL).
Qed.

(* both sides are the lines of the doccomment that are not whitespace-only *)
Theorem norm_clean_both : forall ind L,
  forallb is_sptab' ind = true ->
  Forall (fun l => ~ In nl l) L ->
  Forall (fun l => last_opt l <> Some cr) L ->
  norm_lines (clean_doc_lines (crlf_lines ind L)) = filter (fun l => negb (ws_only l)) L
  /\ norm_lines (clean_doc_lines (canon_lines ind L)) = filter (fun l => negb (ws_only l)) L.
Proof.
  intros ind L Hind HN HL.
  rewrite (norm_clean_crlf ind L Hind HL), (norm_clean_lf ind L Hind).
  split; exact (flat_map_norm_filter L HN HL).
Qed.

Lemma crlf_nasty_nl_free : Forall (fun l => ~ In nl l) crlf_nasty.
Proof.
  repeat constructor; vm_compute; intros H;
    repeat (destruct H as [H|H]; [discriminate H|]); exact H.
Qed.

Lemma crlf_nasty_no_trailing_cr : Forall (fun l => last_opt l <> Some cr) crlf_nasty.
Proof. repeat constructor; vm_compute; intros H; discriminate H. Qed.

Example clean_crlf_same_nonvacuous :
  forallb is_sptab' (s"  ") = true
  /\ Forall (fun l => ~ In nl l) crlf_nasty
  /\ Forall (fun l => last_opt l <> Some cr) crlf_nasty
  /\ norm_lines (clean_doc_lines (crlf_lines (s"  ") crlf_nasty))
     = [s"#x"; s"]]"; s"  indented"; s"[["; [233; 8364; 128512]%N; tab :: s"t"; s"# y"; s"end.";
        [97; 13; 98]%N; s" # [x] "]
  /\ norm_lines (clean_doc_lines (canon_lines (s"  ") crlf_nasty))
     = [s"#x"; s"]]"; s"  indented"; s"[["; [233; 8364; 128512]%N; tab :: s"t"; s"# y"; s"end.";
        [97; 13; 98]%N; s" # [x] "]
  /\ norm_lines (clean_doc_lines (crlf_lines (s"      ") crlf_nasty))
     = norm_lines (clean_doc_lines (canon_lines (s"      ") crlf_nasty)).
Proof.
  split; [reflexivity|]. split; [exact crlf_nasty_nl_free|].
  split; [exact crlf_nasty_no_trailing_cr|]. vm_compute. repeat split.
Qed.

(* the hypothesis on the last character is needed: a line of the LF file that ends in a
   carriage return keeps one more carriage return in the CRLF file *)
Example clean_crlf_same_needs_no_trailing_cr :
  norm_lines (clean_doc_lines (crlf_lines (s"  ") [s"a" ++ [cr]])) = [s"a" ++ [cr]]
  /\ norm_lines (clean_doc_lines (canon_lines (s"  ") [s"a" ++ [cr]])) = [s"a"].
Proof. vm_compute. split; reflexivity. Qed.

(* the hypothesis on line feeds inside the lines is not needed for the equation (it is
   needed for the filter form: the normal form splits such a line) *)
Example clean_crlf_same_with_inner_nl :
  let L := [s"a" ++ [nl] ++ s"b"; [nl]; s"c" ++ [cr; nl] ++ s"d"] in
  norm_lines (clean_doc_lines (crlf_lines (s"  ") L)) = [s"a"; s"b"; s"c"; s"d"]
  /\ norm_lines (clean_doc_lines (canon_lines (s"  ") L)) = [s"a"; s"b"; s"c"; s"d"]
  /\ filter (fun l => negb (ws_only l)) L <> [s"a"; s"b"; s"c"; s"d"].
Proof. vm_compute. repeat split. intros H. discriminate H. Qed.

(* ---- T3: the same through the paragraph writer ---- *)

Lemma spaces_ws : forall n, forallb py_isspace (spaces n) = true.
Proof. induction n as [|n IH]; [reflexivity|]. exact IH. Qed.

Lemma ws_only_spaces_app : forall n l, ws_only (spaces n ++ l) = ws_only l.
Proof. intros n l. unfold ws_only. rewrite forallb_app, spaces_ws. reflexivity. Qed.

Lemma chomp_cr_spaces_app : forall n l, chomp_cr (spaces n ++ l) = spaces n ++ chomp_cr l.
Proof.
  induction n as [|n IH]; intros l; [reflexivity|].
  change (spaces (S n) ++ l) with (sp :: (spaces n ++ l)).
  change (spaces (S n) ++ chomp_cr l) with (sp :: (spaces n ++ chomp_cr l)).
  cbn [chomp_cr]. destruct (spaces n ++ l) as [|b r] eqn:E.
  - apply app_eq_nil in E. destruct E as [E1 E2]. rewrite E1, E2. reflexivity.
  - rewrite <- E, IH. reflexivity.
Qed.

(* the paragraph writer commutes with the normalisation *)
Theorem norm_lines_para : forall d t,
  norm_lines (para_text d t) = map (fun l => indent d ++ l) (norm_lines t).
Proof.
  intros d t. unfold norm_lines. rewrite para_text_lines. unfold indent.
  induction (split_on nl t) as [|a ls IH]; [reflexivity|].
  cbn [map filter]. rewrite chomp_cr_spaces_app, ws_only_spaces_app.
  destruct (ws_only (chomp_cr a)); cbn [negb map]; rewrite IH; reflexivity.
Qed.

Theorem para_crlf_same_modulo_line_endings_gen : forall d ind L,
  forallb is_sptab' ind = true ->
  Forall (fun l => last_opt l <> Some cr) L ->
  norm_lines (para_text d (clean_doc_lines (crlf_lines ind L)))
  = norm_lines (para_text d (clean_doc_lines (canon_lines ind L))).
Proof.
  intros d ind L Hind HL. rewrite !norm_lines_para.
  rewrite (clean_crlf_same_modulo_line_endings_gen ind L Hind HL). reflexivity.
Qed.

Theorem para_crlf_same_modulo_line_endings : forall d ind L,
  forallb is_sptab' ind = true ->
  Forall (fun l => ~ In nl l) L ->
  Forall (fun l => last_opt l <> Some cr) L ->
  norm_lines (para_text d (clean_doc_lines (crlf_lines ind L)))
  = norm_lines (para_text d (clean_doc_lines (canon_lines ind L)))
  /\ norm_lines (para_text d (clean_doc_lines (canon_lines ind L)))
     = map (fun l => indent d ++ l) (filter (fun l => negb (ws_only l)) L).
Proof.
  intros d ind L Hind HN HL. split.
  - exact (para_crlf_same_modulo_line_endings_gen d ind L Hind HL).
  - rewrite norm_lines_para. destruct (norm_clean_both ind L Hind HN HL) as [_ E].
    rewrite E. reflexivity.
Qed.

Example para_crlf_same_nonvacuous :
  let L := [s"#x"; []; s" b"; s"]]"; [233; 8364; 128512]%N; [sp; tab]; s"[[ end"] in
  forallb is_sptab' (s"  ") = true
  /\ Forall (fun l => ~ In nl l) L
  /\ Forall (fun l => last_opt l <> Some cr) L
  /\ para_text 1 (clean_doc_lines (crlf_lines (s"  ") L))
     = join [nl] [s"   " ++ [cr]; s"   #x" ++ [cr]; s"   " ++ [cr]; s"    b" ++ [cr];
                  s"   ]]" ++ [cr]; s"   " ++ [233; 8364; 128512; 13]%N;
                  s"   " ++ [sp; tab; cr]; s"   [[ end" ++ [cr]; s"   "]
  /\ para_text 1 (clean_doc_lines (canon_lines (s"  ") L))
     = join [nl] [s"   #x"; s"   "; s"    b"; s"   ]]"; s"   " ++ [233; 8364; 128512]%N;
                  s"   " ++ [sp; tab]; s"   [[ end"; s"   "]
  /\ norm_lines (para_text 1 (clean_doc_lines (crlf_lines (s"  ") L)))
     = [s"   #x"; s"    b"; s"   ]]"; s"   " ++ [233; 8364; 128512]%N; s"   [[ end"]
  /\ norm_lines (para_text 1 (clean_doc_lines (canon_lines (s"  ") L)))
     = [s"   #x"; s"    b"; s"   ]]"; s"   " ++ [233; 8364; 128512]%N; s"   [[ end"].
Proof.
  cbv zeta. split; [reflexivity|]. split.
  { repeat constructor; vm_compute; intros H;
      repeat (destruct H as [H|H]; [discriminate H|]); exact H. }
  split; [repeat constructor; vm_compute; intros H; discriminate H|].
  vm_compute. repeat split.
Qed.

(* ---- T4: line by line, and the two texts are different strings ---- *)

Lemma map_snoc_cr_free : forall L : list str, Forall (fun l => ~ In nl l) L ->
  Forall (fun l => ~ In nl l) (map (fun l => l ++ [cr]) L).
Proof.
  intros L H. induction H as [|l L' Hl HL IH]; [constructor|].
  cbn [map]. constructor; [exact (snoc_cr_free l Hl)|exact IH].
Qed.

Lemma nil_free : Forall (fun l : str => ~ In nl l) [[]].
Proof. constructor; [intros []|constructor]. Qed.

(* the lines of the two cleaned texts: the CRLF text has a carriage return behind every line,
   and (up to four characters of indentation) one more first line that holds only a
   carriage return *)
Theorem clean_crlf_linewise : forall ind L,
  forallb is_sptab' ind = true -> Forall (fun l => ~ In nl l) L ->
  split_on nl (clean_doc_lines (canon_lines ind L)) = L ++ [[]]
  /\ split_on nl (clean_doc_lines (crlf_lines ind L))
     = crlf_first ind ++ map (fun l => l ++ [cr]) L ++ [[]].
Proof.
  intros ind L Hind HN. split.
  - rewrite (clean_canonical_join ind L Hind). apply split_on_join; [destruct L; discriminate|].
    apply Forall_app. split; [exact HN|exact nil_free].
  - rewrite (clean_crlf_general ind L Hind). apply split_on_join.
    + destruct (crlf_first ind); [destruct L|]; discriminate.
    + apply Forall_app. split.
      * unfold crlf_first. destruct (length ind <=? 4); [|constructor].
        constructor; [|constructor]. intros [E|[]]. discriminate E.
      * apply Forall_app. split; [exact (map_snoc_cr_free L HN)|exact nil_free].
Qed.

Lemma del_cr_app : forall x y, del_cr (x ++ y) = del_cr x ++ del_cr y.
Proof. intros x y. unfold del_cr. apply filter_app. Qed.

Lemma del_cr_free : forall x : str, ~ In cr x -> del_cr x = x.
Proof.
  induction x as [|a x IH]; intros H; [reflexivity|].
  unfold del_cr. cbn [filter]. destruct (N.eqb_spec a 13) as [E|E].
  - exfalso. apply H. left. exact E.
  - cbn [negb]. f_equal. apply IH. intros Hin. apply H. right. exact Hin.
Qed.

Lemma del_cr_cons_nl : forall x, del_cr (nl :: x) = nl :: del_cr x.
Proof. reflexivity. Qed.

Lemma del_cr_join_snoc : forall ls : list str, Forall (fun l => ~ In cr l) ls ->
  del_cr (join [nl] (map (fun l => l ++ [cr]) ls ++ [[]])) = join [nl] (ls ++ [[]]).
Proof.
  intros ls H. induction H as [|l ls' Hl HL IH]; [reflexivity|].
  transitivity (del_cr ((l ++ [cr]) ++ nl :: join [nl] (map (fun l => l ++ [cr]) ls' ++ [[]]))).
  { f_equal. exact (join_cons_snoc (l ++ [cr]) (map (fun l => l ++ [cr]) ls')). }
  transitivity (l ++ nl :: join [nl] (ls' ++ [[]])); [|symmetry; exact (join_cons_snoc l ls')].
  rewrite !del_cr_app, del_cr_cons_nl, (del_cr_free l Hl).
  change (del_cr [cr]) with (@nil char). rewrite app_nil_r.
  f_equal. f_equal. exact IH.
Qed.

(* if the doccomment lines hold no carriage return, deleting the carriage returns from the
   CRLF text gives the LF text, behind one line break when the first line was kept *)
Theorem clean_crlf_del_cr : forall ind L,
  forallb is_sptab' ind = true -> Forall (fun l => ~ In cr l) L ->
  del_cr (clean_doc_lines (crlf_lines ind L))
  = (if length ind <=? 4 then [nl] else []) ++ clean_doc_lines (canon_lines ind L).
Proof.
  intros ind L Hind HC. rewrite (clean_crlf_general ind L Hind), (clean_canonical_join ind L Hind).
  unfold crlf_first.
  destruct (length ind <=? 4); cbn [app].
  - transitivity (del_cr ([cr] ++ nl :: join [nl] (map (fun l => l ++ [cr]) L ++ [[]]))).
    { f_equal. exact (join_cons_snoc [cr] (map (fun l => l ++ [cr]) L)). }
    rewrite del_cr_app, del_cr_cons_nl. change (del_cr [cr]) with (@nil char). cbn [app].
    f_equal. exact (del_cr_join_snoc L HC).
  - exact (del_cr_join_snoc L HC).
Qed.

Example crlf_lf_texts_differ :
  let L := [s"#x"; []; s" b"; s"]]"; [233; 8364; 128512]%N; [sp; tab]; s"[[ end"] in
  let a := clean_doc_lines (crlf_lines (s"  ") L) in
  let b := clean_doc_lines (canon_lines (s"  ") L) in
  a <> b
  /\ b = join [nl] L ++ [nl]
  /\ a = [cr; nl] ++ join [cr; nl] L ++ [cr; nl]
  /\ split_on nl b = L ++ [[]]
  /\ split_on nl a = [cr] :: map (fun l => l ++ [cr]) L ++ [[]]
  /\ del_cr a = nl :: b
  /\ Forall (fun l => ~ In cr l) L
  /\ para_text 2 a <> para_text 2 b
  /\ norm_lines a = norm_lines b.
Proof.
  cbv zeta. split; [vm_compute; intros H; discriminate H|].
  split; [vm_compute; reflexivity|]. split; [vm_compute; reflexivity|].
  split; [vm_compute; reflexivity|]. split; [vm_compute; reflexivity|].
  split; [vm_compute; reflexivity|]. split.
  { repeat constructor; vm_compute; intros H;
      repeat (destruct H as [H|H]; [discriminate H|]); exact H. }
  split; [vm_compute; intros H; discriminate H|]. vm_compute. reflexivity.
Qed.

(* ==== MAIN THEOREMS ====
   clean_crlf_general clean_crlf_exact clean_crlf_deep clean_crlf_exact_refuted
   norm_clean_lf norm_clean_crlf
   clean_crlf_same_modulo_line_endings_gen clean_crlf_same_modulo_line_endings norm_clean_both
   clean_crlf_same_needs_no_trailing_cr clean_crlf_same_with_inner_nl
   norm_lines_para para_crlf_same_modulo_line_endings_gen para_crlf_same_modulo_line_endings
   clean_crlf_linewise clean_crlf_del_cr crlf_lf_texts_differ *)
Print Assumptions clean_crlf_general.
Print Assumptions clean_crlf_exact.
Print Assumptions clean_crlf_deep.
Print Assumptions clean_crlf_exact_refuted.
Print Assumptions norm_clean_lf.
Print Assumptions norm_clean_crlf.
Print Assumptions clean_crlf_same_modulo_line_endings_gen.
Print Assumptions clean_crlf_same_modulo_line_endings.
Print Assumptions norm_clean_both.
Print Assumptions clean_crlf_same_needs_no_trailing_cr.
Print Assumptions clean_crlf_same_with_inner_nl.
Print Assumptions norm_lines_para.
Print Assumptions para_crlf_same_modulo_line_endings_gen.
Print Assumptions para_crlf_same_modulo_line_endings.
Print Assumptions clean_crlf_linewise.
Print Assumptions clean_crlf_del_cr.
Print Assumptions crlf_lf_texts_differ.
