(* Proofs/MainSourceMatch.v -- the control flow of main() (src/cminx/__init__.py), as rendered
   statement by statement by translators/pymain2coq.py into Gen/PyMainSource.v over the library
   combinators of Base/PyMainSem.v, equals the readable composition model_main of the functions
   the settings theorems (Proofs/ConfigFacts.v, CliFacts.v, RunFacts.v) talk about:

     parse_args over Gen/ConfigData.cli_table;
     stack = [command line; -s file if given; user configuration; packaged defaults];
     validation of every option of the template by settings_of;
     the check main() makes itself on the raw value of rst.headers (a mapping is rejected:
       Config.headers_ok, repair of F27);
     exclude patterns = all_contents: the concatenation, in priority order, of the list-of-string
       values of ALL sources, an error as soon as one source holds anything else;
     Walk.run_inputs over the per-input runs in command-line order, every run with the same
       settings object (exclude list already assigned); nothing is run when the configuration is
       rejected.

   for all command lines, environments (user / default / file sources) and document functions. *)
From Coq Require Import String List NArith Bool Arith Lia.
From CMinx Require Import Base.Str Model.Path Model.Pipeline Model.Walk Model.Config Gen.ConfigData
  Base.PyMainSem Gen.PyMainSource Proofs.WalkFacts Proofs.RunFacts Proofs.ConfigFacts.
Import ListNotations.

(* ---- spec ---- *)

Definition excl_key : str := s"input.exclude_filters".
Definition app_name : str := s"cminx".
Definition config_type_error : mexc := ExcRaised (s"ConfigTypeError").

(* -s FILE:  None = not given;  Some None = given but it cannot be read;  the path is made
   absolute against the working directory before it is opened *)
Definition settings_file (env : pyenv) (p : parsed) : option (option source) :=
  option_map (fun f => env_load env (abspath (env_cwd env) f)) (assoc (s"settings") (p_stored p)).

(* the sources main() consults, highest priority first *)
Definition main_stack (env : pyenv) (p : parsed) (file : option source) : list source :=
  [args_source cli_table p]
  ++ match file with Some f => [f] | None => [] end
  ++ [env_user env app_name; env_defaults env app_name].

(* the exclude patterns: all_contents, as strings *)
Definition exclude_strs (stack : list source) : option (list str) :=
  match all_contents stack excl_key with
  | Some l => all_strs l
  | None => None
  end.

(* the process ended inside document() iff the last run stopped *)
Definition finish (out : list action) : mainres :=
  if existsb is_stop out then Halted out else Returned out.

(* the settings object every input is documented with *)
Definition settings_object (st : list (str * cval)) (ex : list str) : py_settings_obj :=
  py_set_key excl_key (CStrs ex) st.

(* the order of main(): settings.get(template), then the rst.headers check, then the exclude loop *)
Definition model_configured (env : pyenv) (document : str -> py_settings_obj -> list action)
           (p : parsed) (file : option source) : mainres :=
  let stack := main_stack env p file in
  match settings_of (env_cwd env) stack template with
  | None => Raised ExcConfig []
  | Some st =>
      if headers_ok stack then
        match exclude_strs stack with
        | None => Raised config_type_error []
        | Some ex =>
            finish (run_inputs (map (fun f => document f (settings_object st ex)) (p_positional p)))
        end
      else Raised config_type_error []
  end.

Definition model_parsed (env : pyenv) (document : str -> py_settings_obj -> list action)
           (p : parsed) : mainres :=
  match settings_file env p with
  | Some None => Raised ExcConfigRead []
  | Some (Some f) => model_configured env document p (Some f)
  | None => model_configured env document p None
  end.

Definition model_main (env : pyenv) (document : str -> py_settings_obj -> list action)
           (toks : list str) : mainres :=
  match parse_args cli_table toks with
  | None => Raised ExcArgparseExit []
  | Some p => model_parsed env document p
  end.

(* the stack built by pushing the sources in the order Gen/ConfigData.stacking_order records
   (extracted independently by config2coq.py) *)
Definition push_kind (args : source) (file : option source) (st : list source) (k : source_kind)
  : list source :=
  match k with
  | SrcArgs => args :: st
  | SrcFile => match file with Some f => f :: st | None => st end
  | _ => st
  end.
Definition stack_by_order (env : pyenv) (p : parsed) (file : option source) : list source :=
  fold_left (push_kind (args_source cli_table p) file) stacking_order
            [env_user env app_name; env_defaults env app_name].

(* what the documents of a result are *)
Definition acts_of (r : mainres) : list action :=
  match r with Returned a | Raised _ a | Halted a => a end.

(* ---- concrete environment for the examples ---- *)

Definition ex_user : source :=
  {| src_kind := SrcUser;
     src_vals := [(s"input.exclude_filters", YList [YStr (s"user*")]); (s"rst.prefix", YStr (s"U"))];
     src_dir := Some (s"/home/u/.config/cminx") |}.
Definition ex_file (v : yval) : source :=
  {| src_kind := SrcFile;
     src_vals := [(s"input.exclude_filters", v); (s"output.relative_to_config", YBool true);
                  (s"output.directory", YStr (s"out"))];
     src_dir := Some (s"/work/cfg") |}.
Definition ex_env (v : yval) : pyenv :=
  {| env_cwd := s"/work";
     env_user := fun app => if str_eqb app (s"cminx") then ex_user
                            else {| src_kind := SrcUser; src_vals := []; src_dir := None |};
     env_defaults := fun m => if str_eqb m (s"cminx") then defaults_src
                              else {| src_kind := SrcDefaults; src_vals := []; src_dir := None |};
     env_load := fun path => if str_eqb path (s"/work/cfg/my.yaml") then Some (ex_file v) else None |}.
(* a document function that shows what it was given: the input, the exclude list, the output
   directory and the prefix of the settings object *)
Definition show_opt (o : py_settings_obj) (k : str) : str :=
  match assoc k o with
  | Some (CStrs l) => join (s",") l
  | Some (CStr x) => x
  | Some CNone => s"None"
  | _ => s"?"
  end.
Definition ex_document (f : str) (o : py_settings_obj) : list action :=
  if str_eqb f (s"missing") then [AExit255]
  else [APrint (f ++ s" excl=" ++ show_opt o excl_key ++ s" out=" ++ show_opt o (s"output.directory")
                  ++ s" prefix=" ++ show_opt o (s"rst.prefix"))].

Example ex_run_ok :
  py_run (main (ex_env (YList [YStr (s"file1"); YStr (s"file2")])) ex_document
               [s"b.cmake"; s"a"; s"-s"; s"cfg/my.yaml"; s"-e"; s"cli*"; s"-p"; s"P"])
  = Returned [APrint (s"b.cmake excl=cli*,file1,file2,user* out=/work/cfg/out prefix=P");
              APrint (s"a excl=cli*,file1,file2,user* out=/work/cfg/out prefix=P")].
Proof. vm_compute. reflexivity. Qed.

Example ex_model_ok :
  model_main (ex_env (YList [YStr (s"file1"); YStr (s"file2")])) ex_document
             [s"b.cmake"; s"a"; s"-s"; s"cfg/my.yaml"; s"-e"; s"cli*"; s"-p"; s"P"]
  = Returned [APrint (s"b.cmake excl=cli*,file1,file2,user* out=/work/cfg/out prefix=P");
              APrint (s"a excl=cli*,file1,file2,user* out=/work/cfg/out prefix=P")].
Proof. vm_compute. reflexivity. Qed.

(* a string, a mapping, a list with a non-string in the -s file: rejected, nothing documented;
   null: contributes nothing *)
Example ex_run_bad_types :
  map (fun v => py_run (main (ex_env v) ex_document [s"a"; s"-s"; s"cfg/my.yaml"; s"-e"; s"cli*"]))
      [YStr (s"build"); YMap [s"a"]; YList [YStr (s"a"); YInt 1]; YInt 3; YBool true; YNull]
  = [Raised config_type_error []; Raised config_type_error []; Raised config_type_error [];
     Raised config_type_error []; Raised config_type_error [];
     Returned [APrint (s"a excl=cli*,user* out=/work/cfg/out prefix=U")]].
Proof. vm_compute. reflexivity. Qed.

(* without -e the file is the first source that sets the option: a number there is already
   rejected by the template (settings.get), a string only by the loop of main() *)
Example ex_run_bad_types_winning :
  map (fun v => py_run (main (ex_env v) ex_document [s"a"; s"-s"; s"cfg/my.yaml"]))
      [YInt 3; YStr (s"build")]
  = [Raised ExcConfig []; Raised config_type_error []].
Proof. vm_compute. reflexivity. Qed.

(* rst.headers in the -s file (repair of F27): a mapping is rejected by main() itself although
   the StrSeq template would take its keys; a list or a string is used as before; a number is
   rejected by the template; a mapping in the user configuration is not looked at when the -s file
   sets the option, and is rejected when it is the winning value *)
Definition ex_env_headers (file_vals user_vals : list (str * yval)) : pyenv :=
  {| env_cwd := s"/work";
     env_user := fun app => {| src_kind := SrcUser; src_vals := user_vals; src_dir := None |};
     env_defaults := fun m => defaults_src;
     env_load := fun path => Some {| src_kind := SrcFile; src_vals := file_vals; src_dir := Some (s"/work/cfg") |} |}.
Definition ex_document_headers (f : str) (o : py_settings_obj) : list action :=
  [APrint (f ++ s" headers=" ++ show_opt o (s"rst.headers"))].

Example ex_run_headers :
  map (fun v => py_run (main (ex_env_headers [(s"rst.headers", v)] []) ex_document_headers
                             [s"a"; s"-s"; s"my.yaml"]))
      [YMap [s"="; s"-"]; YMap []; YList [YStr (s"="); YStr (s"-")]; YStr (s"= -"); YInt 3;
       YList [YStr (s"="); YInt 1]]
  = [Raised config_type_error []; Raised config_type_error [];
     Returned [APrint (s"a headers==,-")]; Returned [APrint (s"a headers==,-")];
     Raised ExcConfig []; Raised ExcConfig []]
  /\ py_run (main (ex_env_headers [(s"rst.headers", YStr (s"~"))] [(s"rst.headers", YMap [s"="])])
                  ex_document_headers [s"a"; s"-s"; s"my.yaml"])
     = Returned [APrint (s"a headers=~")]
  /\ py_run (main (ex_env_headers [] [(s"rst.headers", YMap [s"="])]) ex_document_headers [s"a"; s"b"])
     = Raised config_type_error []
  /\ py_run (main (ex_env_headers [] []) ex_document_headers [s"a"])
     = Returned [APrint (s"a headers=#,*,=,-,_,~,!,&,@,^")].
Proof. vm_compute. repeat split; reflexivity. Qed.

(* both the headers and the exclude filters wrong: the same exception class either way; the
   template validation comes first (a number for the headers: ExcConfig) *)
Example ex_run_headers_and_exclude :
  map (fun vals => py_run (main (ex_env_headers vals []) ex_document_headers [s"a"; s"-s"; s"my.yaml"]))
      [[(s"rst.headers", YMap [s"="]); (s"input.exclude_filters", YStr (s"build"))];
       [(s"rst.headers", YInt 3); (s"input.exclude_filters", YStr (s"build"))];
       [(s"rst.headers", YMap [s"="]); (s"input.recursive", YInt 3)]]
  = [Raised config_type_error []; Raised ExcConfig []; Raised ExcConfig []].
Proof. vm_compute. reflexivity. Qed.

(* an unreadable -s file, a usage error, an input that ends the process *)
Example ex_run_other :
  py_run (main (ex_env YNull) ex_document [s"a"; s"-s"; s"nope.yaml"]) = Raised ExcConfigRead []
  /\ py_run (main (ex_env YNull) ex_document [s"-r"]) = Raised ExcArgparseExit []
  /\ py_run (main (ex_env YNull) ex_document [s"a"; s"missing"; s"b"])
     = Halted [APrint (s"a excl=user* out=None prefix=U"); AExit255].
Proof. vm_compute. repeat split; reflexivity. Qed.

(* ---- the monad ---- *)

Definition res_of {A : Type} (r : pyout A * list action) : mainres :=
  match r with
  | (Ret _, w) => Returned w
  | (Raise e, w) => Raised e w
  | (Halt, w) => Halted w
  end.

Lemma py_run_eq : forall (A : Type) (m : M A), py_run m = res_of (m []).
Proof. intros A m. unfold py_run, res_of. destruct (m []) as [[v|e|] w]; reflexivity. Qed.

Lemma run_bind : forall (A B : Type) (m : M A) (f : A -> M B) (w : list action),
  py_bind m f w = match m w with
                  | (Ret v, w') => f v w'
                  | (Raise e, w') => (Raise e, w')
                  | (Halt, w') => (Halt, w')
                  end.
Proof. reflexivity. Qed.

Lemma if_ret : forall (A : Type) (c : bool) (a b : A) (w : list action),
  (if c then (fun w0 : list action => (Ret a, w0)) else (fun w0 : list action => (Ret b, w0))) w
  = (Ret (if c then a else b), w).
Proof. intros A c a b w. destruct c; reflexivity. Qed.

(* ---- the library combinators against Model/Config.v ---- *)

(* A5/A6: view.first() is the head of view.resolve() *)
Lemma resolve_all_head : forall stack key,
  resolve stack key = hd_error (py_resolve_all stack key).
Proof.
  induction stack as [|src r IH]; intros key; cbn [resolve py_resolve_all]; [reflexivity|].
  destruct (assoc key (src_vals src)) as [v|]; [reflexivity|apply IH].
Qed.

(* the sources enumerated by resolve() are exactly those that set the key, in stack order *)
Lemma resolve_all_sources : forall stack key,
  map snd (py_resolve_all stack key)
  = filter (fun src => match assoc key (src_vals src) with Some _ => true | None => false end) stack.
Proof.
  induction stack as [|src r IH]; intros key; cbn [py_resolve_all filter]; [reflexivity|].
  destruct (assoc key (src_vals src)) as [v|]; cbn [map snd]; rewrite IH; reflexivity.
Qed.

(* A7: with the flag main() computes, c.get(template) is settings_of *)
Lemma settings_with_rel : forall cwd stack tmpl,
  py_settings_with cwd (rel_to_config stack) stack tmpl = settings_of cwd stack tmpl.
Proof.
  intros cwd stack. induction tmpl as [|[k ty] r IH]; cbn [py_settings_with settings_of]; [reflexivity|].
  rewrite IH. reflexivity.
Qed.

Lemma settings_of_missing_bool : forall cwd stack tmpl k,
  assoc k tmpl = Some TBool -> resolve stack k = None -> settings_of cwd stack tmpl = None.
Proof.
  intros cwd stack tmpl k. induction tmpl as [|[k0 ty] r IH]; intros Hk Hres; cbn [assoc] in Hk.
  - discriminate Hk.
  - cbn [settings_of]. destruct (str_eqb k k0) eqn:E.
    + apply str_eqb_eq in E. subst k0. injection Hk as Hty. subst ty.
      unfold effective. rewrite Hres. reflexivity.
    + rewrite (IH Hk Hres). destruct (effective cwd (rel_to_config stack) stack k0 ty); reflexivity.
Qed.

(* the same for the other template types that have no fallback when every source is silent *)
Lemma settings_of_missing : forall cwd stack tmpl k ty,
  assoc k tmpl = Some ty -> none_ok ty = false -> resolve stack k = None ->
  settings_of cwd stack tmpl = None.
Proof.
  intros cwd stack tmpl k ty. induction tmpl as [|[k0 ty0] r IH]; intros Hk Hn Hres; cbn [assoc] in Hk.
  - discriminate Hk.
  - cbn [settings_of]. destruct (str_eqb k k0) eqn:E.
    + apply str_eqb_eq in E. subst k0. injection Hk as Hty. subst ty0.
      unfold effective. rewrite Hres. destruct ty; try discriminate Hn; reflexivity.
    + rewrite (IH Hk Hn Hres). destruct (effective cwd (rel_to_config stack) stack k0 ty0); reflexivity.
Qed.

Lemma settings_of_has_key : forall cwd stack tmpl st k,
  settings_of cwd stack tmpl = Some st -> mem_str k (map fst tmpl) = true -> assoc k st <> None.
Proof.
  intros cwd stack. induction tmpl as [|[k0 ty] r IH]; intros st k Hs Hk.
  - discriminate Hk.
  - cbn [settings_of] in Hs.
    destruct (effective cwd (rel_to_config stack) stack k0 ty) as [v| |]; try discriminate Hs.
    destruct (settings_of cwd stack r) as [rest|] eqn:Er; [|discriminate Hs].
    injection Hs as Hs. subst st. cbn [assoc]. cbn [map fst mem_str] in Hk.
    destruct (str_eqb k k0) eqn:E; [discriminate|].
    cbn [orb] in Hk. exact (IH rest k eq_refl Hk).
Qed.

Lemma all_strs_app : forall a b xa xb,
  all_strs a = Some xa -> all_strs b = Some xb -> all_strs (a ++ b) = Some (xa ++ xb).
Proof.
  induction a as [|v a IH]; intros b xa xb Ha Hb; cbn [all_strs app] in *.
  - injection Ha as Ha. subst xa. exact Hb.
  - destruct v; try discriminate Ha.
    destruct (all_strs a) as [ya|] eqn:Ea; [|discriminate Ha].
    cbn [option_map] in Ha. injection Ha as Ha. subst xa.
    rewrite (IH b ya xb eq_refl Hb). reflexivity.
Qed.

Lemma items_of_all_strs : forall v a, items_of v = Some a -> exists xa, all_strs a = Some xa.
Proof.
  intros v a H. destruct v; cbn [items_of] in H; try discriminate H.
  - injection H as H. subst a. exists []. reflexivity.
  - destruct (all_strs l) as [xs|] eqn:E; [|discriminate H].
    injection H as H. subst a. exists xs. exact E.
Qed.

(* the values collected by all_contents are strings *)
Lemma all_contents_all_strs : forall stack key l,
  all_contents stack key = Some l -> exists xs, all_strs l = Some xs.
Proof.
  induction stack as [|src r IH]; intros key l H; cbn [all_contents] in H.
  - injection H as H. subst l. exists []. reflexivity.
  - destruct (assoc key (src_vals src)) as [v|]; [|exact (IH key l H)].
    destruct (items_of v) as [a|] eqn:Ea; [|discriminate H].
    destruct (all_contents r key) as [b|] eqn:Eb; [|discriminate H].
    injection H as H. subst l.
    destruct (items_of_all_strs v a Ea) as [xa Hxa]. destruct (IH key b Eb) as [xb Hxb].
    exists (xa ++ xb). apply all_strs_app; assumption.
Qed.

Lemma exclude_strs_none : forall stack,
  exclude_strs stack = None <-> all_contents stack excl_key = None.
Proof.
  intros stack. unfold exclude_strs. destruct (all_contents stack excl_key) as [l|] eqn:E.
  - destruct (all_contents_all_strs _ _ _ E) as [xs Hxs]. rewrite Hxs. split; discriminate.
  - split; reflexivity.
Qed.

(* ---- the two loops of main() ---- *)

Lemma all_isinstance_str : forall l,
  py_all (fun v => py_isinstance v [PyT_str]) l
  = match all_strs l with Some _ => true | None => false end.
Proof.
  induction l as [|v l IH]; [reflexivity|].
  unfold py_all in *. cbn [forallb all_strs]. rewrite IH.
  destruct v; cbn [py_isinstance existsb py_has_type orb andb]; try reflexivity.
  destruct (all_strs l); reflexivity.
Qed.

(* one iteration of the exclude-filter loop (lines 140-146) is items_of *)
Lemma main_for_1_spec : forall env acc v src w,
  main_for_1 env acc (v, src) w
  = match items_of v with
    | Some a => (Ret (acc ++ a), w)
    | None => (Raise config_type_error, w)
    end.
Proof.
  intros env acc v src w. unfold main_for_1.
  destruct v as [b|x|n| |l|ks];
    try (cbv beta iota zeta delta [py_yval_is_none py_bind py_ret py_raise py_isinstance existsb
                                    py_has_type orb negb items_of]; reflexivity).
  - (* null *)
    cbv beta iota zeta delta [py_yval_is_none py_ret items_of]. rewrite app_nil_r. reflexivity.
  - (* a list *)
    cbv beta iota zeta delta [py_yval_is_none]. rewrite run_bind.
    change (py_isinstance (YList l) [PyT_list; PyT_tuple]) with true.
    cbv beta iota delta [negb]. rewrite run_bind.
    cbv beta iota delta [py_iter py_ret]. rewrite all_isinstance_str.
    cbv beta iota delta [items_of]. destruct (all_strs l) as [xs|].
    + cbv beta iota delta [negb]. rewrite run_bind. cbv beta iota zeta delta [py_extend]. reflexivity.
    + cbv beta iota delta [negb py_raise]. reflexivity.
Qed.

(* the whole loop is all_contents *)
Lemma excl_loop : forall env stack key acc w,
  py_for (py_resolve_all stack key) (main_for_1 env) acc w
  = match all_contents stack key with
    | Some fl => (Ret (acc ++ fl), w)
    | None => (Raise config_type_error, w)
    end.
Proof.
  intros env. induction stack as [|src r IH]; intros key acc w; cbn [py_resolve_all all_contents].
  - cbn [py_for]. unfold py_ret. rewrite app_nil_r. reflexivity.
  - destruct (assoc key (src_vals src)) as [v|]; [|apply IH].
    cbn [py_for]. rewrite run_bind, main_for_1_spec.
    destruct (items_of v) as [a|].
    + rewrite IH. destruct (all_contents r key) as [b|]; [rewrite app_assoc|]; reflexivity.
    + destruct (all_contents r key); reflexivity.
Qed.

(* the document loop (lines 159-161) is run_inputs over the per-input runs, in order *)
Lemma doc_loop : forall env document obj files w,
  py_for files (main_for_2 env document obj) tt w
  = let out := run_inputs (map (fun f => document f obj) files) in
    if existsb is_stop out then (Halt, w ++ out) else (Ret tt, w ++ out).
Proof.
  intros env document obj. induction files as [|f r IH]; intros w; cbn [py_for map run_inputs].
  - cbn [existsb]. unfold py_ret. rewrite app_nil_r. reflexivity.
  - rewrite run_bind. unfold main_for_2 at 1. rewrite run_bind. unfold py_call_document.
    rewrite !existsb_stop_eq.
    destruct (existsb is_stop (document f obj)) eqn:E.
    + cbv zeta. rewrite E. reflexivity.
    + cbv beta iota zeta delta [py_ret]. rewrite IH. cbv zeta.
      rewrite existsb_app, E. cbn [orb]. rewrite app_assoc. reflexivity.
Qed.

(* ---- the straight-line part ---- *)

Lemma view_rel : forall c,
  cfg_sub (cfg_sub (cfg_root c) (s"output")) (s"relative_to_config") = (c, s"output.relative_to_config").
Proof. reflexivity. Qed.
Lemma view_headers : forall c,
  cfg_sub (cfg_sub (cfg_root c) (s"rst")) (s"headers") = (c, s"rst.headers").
Proof. reflexivity. Qed.
Lemma view_excl : forall c,
  cfg_sub (cfg_sub (cfg_root c) (s"input")) (s"exclude_filters") = (c, excl_key).
Proof. reflexivity. Qed.
Lemma dict_dir : forall d,
  py_dict_sub (py_dict_sub (py_dict_root d) (s"output")) (s"directory") = (d, s"output.directory").
Proof. reflexivity. Qed.
Lemma files_dest : forall p, py_ns_list cli_table p (s"files") = p_positional p.
Proof. reflexivity. Qed.

(* the tables the translator skipped are the ones config2coq.py rendered *)
Lemma add_argument_calls_rendered : length cli_table = main_add_argument_calls.
Proof. reflexivity. Qed.
Lemma template_has_rel : assoc (s"output.relative_to_config") template = Some TBool.
Proof. reflexivity. Qed.
Lemma template_has_headers : assoc (s"rst.headers") template = Some TStrSeq.
Proof. reflexivity. Qed.
Lemma template_has_dir : mem_str (s"output.directory") (map fst template) = true.
Proof. reflexivity. Qed.

(* line 131: isinstance(settings[rst][headers].get(), dict) on the winning raw value is the
   negation of Config.headers_ok *)
Lemma headers_check : forall stack x src,
  resolve stack (s"rst.headers") = Some (x, src) ->
  py_isinstance x [PyT_dict] = negb (headers_ok stack).
Proof.
  intros stack x src H. unfold headers_ok. rewrite H. destruct x; reflexivity.
Qed.

Ltac mstep := rewrite run_bind; cbv beta iota zeta delta [py_ret py_raise].

(* ==== the main theorem ==== *)
Theorem main_matches_source : forall env document toks,
  py_run (main env document toks) = model_main env document toks.
Proof.
  intros env document toks. rewrite py_run_eq. unfold main, model_main.
  mstep. unfold py_parse_args.
  destruct (parse_args cli_table toks) as [p|]; [|reflexivity].
  cbv beta iota zeta delta [py_ret].
  mstep. unfold cfg_Configuration at 1. cbv beta iota delta [py_ret].
  (* the rest, for whatever the -s step leaves on top of [user; defaults] *)
  match goal with |- context [py_bind _ ?k []] => set (K := k) end.
  assert (HK : forall file,
             res_of (K (match file with Some f => [f] | None => [] end
                        ++ [env_user env app_name; env_defaults env app_name]) [])
             = model_configured env document p file).
  { intros file. unfold K. clear K. unfold model_configured. cbv zeta.
    mstep. unfold cfg_set_args at 1. cbv beta iota delta [py_ret].
    change (args_source cli_table p
            :: match file with Some f => [f] | None => [] end
               ++ [env_user env app_name; env_defaults env app_name])
      with (main_stack env p file).
    set (stack := main_stack env p file).
    (* line 123: relative_to_config *)
    mstep. rewrite view_rel. unfold cfg_view_get at 1. cbn [fst snd].
    destruct (resolve stack (s"output.relative_to_config")) as [[x src]|] eqn:Erel.
    2:{ cbv beta iota delta [py_raise].
        rewrite (settings_of_missing_bool _ _ _ _ template_has_rel Erel). reflexivity. }
    cbv beta iota delta [py_ret].
    mstep. rewrite if_ret.
    assert (Hb : (if py_truthy x then true else false) = rel_to_config stack).
    { unfold rel_to_config. rewrite Erel. unfold py_truthy. destruct (truthy x); reflexivity. }
    rewrite Hb.
    (* line 126: settings.get(template) *)
    mstep. unfold cfg_get at 1, py_config_template. cbn [fst snd]. rewrite settings_with_rel.
    destruct (settings_of (env_cwd env) stack template) as [st|] eqn:Est; [|reflexivity].
    cbv beta iota delta [py_ret].
    (* lines 131-132: the rst.headers check of main() *)
    mstep. rewrite view_headers. unfold cfg_view_get at 1. cbn [fst snd].
    destruct (resolve stack (s"rst.headers")) as [[hv hsrc]|] eqn:Ehdr.
    2:{ exfalso. rewrite (settings_of_missing _ _ _ _ _ template_has_headers eq_refl Ehdr) in Est.
        discriminate Est. }
    cbv beta iota delta [py_ret]. rewrite (headers_check _ _ _ Ehdr).
    destruct (headers_ok stack); cbv beta iota delta [negb py_raise]; [|reflexivity].
    unfold py_dict_to_settings.
    (* lines 139-146: the exclude filters *)
    mstep. rewrite view_excl. unfold cfg_view_resolve. cbn [fst snd]. rewrite excl_loop.
    unfold exclude_strs. destruct (all_contents stack excl_key) as [fl|] eqn:Eall; [|reflexivity].
    cbn [app].
    destruct (all_contents_all_strs _ _ _ Eall) as [xs Hxs]. rewrite Hxs.
    (* line 147 *)
    mstep. unfold py_setattr_list at 1. rewrite Hxs. cbv beta iota delta [py_ret].
    (* line 155 *)
    mstep. rewrite dict_dir. unfold py_dict_value at 1. cbn [fst snd].
    destruct (assoc (s"output.directory") st) as [dir|] eqn:Edir.
    2:{ exfalso. exact (settings_of_has_key _ _ _ _ _ Est template_has_dir Edir). }
    cbv beta iota delta [py_ret].
    mstep. rewrite if_ret.
    (* lines 159-161: the inputs *)
    mstep. rewrite files_dest, doc_loop. cbv zeta. cbn [app].
    unfold finish, settings_object, excl_key.
    destruct (existsb is_stop _); reflexivity. }
  (* lines 115-117: the -s file *)
  mstep. unfold model_parsed, settings_file, py_ns_opt.
  destruct (assoc (s"settings") (p_stored p)) as [f|]; cbn [option_map].
  - mstep. unfold cfg_set_file at 1, py_os_path_abspath.
    destruct (env_load env (abspath (env_cwd env) f)) as [src|].
    + cbv beta iota delta [py_ret]. exact (HK (Some src)).
    + reflexivity.
  - exact (HK None).
Qed.

(* ---- corollaries ---- *)

(* the sources main() consults for a parsed command line; None = the -s file cannot be read *)
Definition consulted (env : pyenv) (p : parsed) : option (list source) :=
  match settings_file env p with
  | Some None => None
  | Some (Some f) => Some (main_stack env p (Some f))
  | None => Some (main_stack env p None)
  end.

Lemma model_parsed_consulted : forall env document p stack,
  consulted env p = Some stack ->
  model_parsed env document p
  = match settings_of (env_cwd env) stack template with
    | None => Raised ExcConfig []
    | Some st =>
        if headers_ok stack then
          match exclude_strs stack with
          | None => Raised config_type_error []
          | Some ex =>
              finish (run_inputs (map (fun f => document f (settings_object st ex)) (p_positional p)))
          end
        else Raised config_type_error []
    end.
Proof.
  intros env document p stack H. unfold consulted in H. unfold model_parsed.
  destruct (settings_file env p) as [[f|]|]; try discriminate H;
    injection H as H; subst stack; reflexivity.
Qed.

(* (1) a wrongly typed input.exclude_filters in ANY consulted source: main() raises and no input
   is documented.  The exception is a ConfigTypeError of main() (raised by the exclude loop, or
   by the rst.headers check, which comes before the loop, when that fails too) unless the
   template validation, which comes first, already rejects the configuration. *)
Theorem wrong_exclude_type_nothing_documented : forall env document toks p stack src v,
  parse_args cli_table toks = Some p ->
  consulted env p = Some stack ->
  In src stack -> assoc excl_key (src_vals src) = Some v -> excl_value_ok v = false ->
  py_run (main env document toks)
  = Raised (match settings_of (env_cwd env) stack template with
            | None => ExcConfig
            | Some _ => config_type_error
            end) [].
Proof.
  intros env document toks p stack src v Hp Hc Hin Hv Hbad.
  rewrite main_matches_source. unfold model_main. rewrite Hp.
  rewrite (model_parsed_consulted _ _ _ _ Hc).
  assert (Hall : all_contents stack excl_key = None).
  { apply exclude_wrong_type_rejected. exists src, v. repeat split; assumption. }
  apply exclude_strs_none in Hall. rewrite Hall.
  destruct (settings_of (env_cwd env) stack template); [|reflexivity].
  destruct (headers_ok stack); reflexivity.
Qed.

(* in particular the outcome does not depend on the document function: it is never called *)
Corollary wrong_exclude_type_document_not_called : forall env document document' toks p stack src v,
  parse_args cli_table toks = Some p ->
  consulted env p = Some stack ->
  In src stack -> assoc excl_key (src_vals src) = Some v -> excl_value_ok v = false ->
  py_run (main env document toks) = py_run (main env document' toks)
  /\ acts_of (py_run (main env document toks)) = [].
Proof.
  intros env document document' toks p stack src v Hp Hc Hin Hv Hbad.
  rewrite (wrong_exclude_type_nothing_documented env document toks p stack src v Hp Hc Hin Hv Hbad).
  rewrite (wrong_exclude_type_nothing_documented env document' toks p stack src v Hp Hc Hin Hv Hbad).
  split; reflexivity.
Qed.

Example wrong_exclude_type_nonvacuous :
  let env := ex_env (YStr (s"build")) in
  let toks := [s"a"; s"-s"; s"cfg/my.yaml"; s"-e"; s"cli*"] in
  exists p stack,
    parse_args cli_table toks = Some p /\ consulted env p = Some stack
    /\ In (ex_file (YStr (s"build"))) stack
    /\ assoc excl_key (src_vals (ex_file (YStr (s"build")))) = Some (YStr (s"build"))
    /\ excl_value_ok (YStr (s"build")) = false
    /\ settings_of (env_cwd env) stack template <> None.
Proof.
  cbv zeta.
  destruct (parse_args cli_table [s"a"; s"-s"; s"cfg/my.yaml"; s"-e"; s"cli*"]) as [p|] eqn:Hp;
    [|vm_compute in Hp; discriminate Hp].
  exists p. vm_compute in Hp. injection Hp as Hp. subst p.
  eexists. split; [reflexivity|]. split; [vm_compute; reflexivity|].
  split; [right; left; reflexivity|]. split; [reflexivity|]. split; [reflexivity|].
  vm_compute. discriminate.
Qed.

(* the stronger reading -- the exception is always the ConfigTypeError raised by the loop of
   main() -- is FALSE: when the wrongly typed value sits in the source that wins the option, and
   it is not a string, the template validation of settings.get, which runs first, rejects it *)
Example wrong_exclude_type_error_kind_refuted :
  ~ (forall env document toks p stack src v,
       parse_args cli_table toks = Some p ->
       consulted env p = Some stack ->
       In src stack -> assoc excl_key (src_vals src) = Some v -> excl_value_ok v = false ->
       py_run (main env document toks) = Raised config_type_error []).
Proof.
  intros H.
  pose (env := ex_env (YInt 3)). pose (toks := [s"a"; s"-s"; s"cfg/my.yaml"]).
  destruct (parse_args cli_table toks) as [p|] eqn:Hp; [|vm_compute in Hp; discriminate Hp].
  assert (Hc : exists stack, consulted env p = Some stack /\ In (ex_file (YInt 3)) stack).
  { vm_compute in Hp. injection Hp as Hp. subst p.
    eexists. split; [vm_compute; reflexivity|right; left; reflexivity]. }
  destruct Hc as (stack & Hc & Hin).
  specialize (H env ex_document toks p stack (ex_file (YInt 3)) (YInt 3) Hp Hc Hin eq_refl eq_refl).
  vm_compute in H. discriminate H.
Qed.

(* (1b) F27 closed at the level of the translated main(): a mapping as the winning value of
   rst.headers: main() raises and no input is documented (the template validation, which comes
   first, may already reject the configuration for another option) *)
Theorem headers_mapping_nothing_documented : forall env document toks p stack ks src,
  parse_args cli_table toks = Some p ->
  consulted env p = Some stack ->
  resolve stack (s"rst.headers") = Some (YMap ks, src) ->
  py_run (main env document toks)
  = Raised (match settings_of (env_cwd env) stack template with
            | None => ExcConfig
            | Some _ => config_type_error
            end) [].
Proof.
  intros env document toks p stack ks src Hp Hc Hr.
  rewrite main_matches_source. unfold model_main. rewrite Hp.
  rewrite (model_parsed_consulted _ _ _ _ Hc).
  assert (Hh : headers_ok stack = false) by (unfold headers_ok; rewrite Hr; reflexivity).
  rewrite Hh. destruct (settings_of (env_cwd env) stack template); reflexivity.
Qed.

Example headers_mapping_nonvacuous :
  let env := ex_env_headers [(s"rst.headers", YMap [s"="; s"-"])] [] in
  let toks := [s"a"; s"-s"; s"my.yaml"] in
  exists p stack src,
    parse_args cli_table toks = Some p /\ consulted env p = Some stack
    /\ resolve stack (s"rst.headers") = Some (YMap [s"="; s"-"], src)
    /\ settings_of (env_cwd env) stack template <> None.
Proof.
  cbv zeta.
  destruct (parse_args cli_table [s"a"; s"-s"; s"my.yaml"]) as [p|] eqn:Hp;
    [|vm_compute in Hp; discriminate Hp].
  exists p. vm_compute in Hp. injection Hp as Hp. subst p.
  eexists. eexists. split; [reflexivity|]. split; [vm_compute; reflexivity|].
  split; [vm_compute; reflexivity|]. vm_compute. discriminate.
Qed.

(* the main-level acceptance predicate of Proofs/ConfigFacts.v is exactly the condition under which
   the translated main() raises nothing: all inputs are run (or the process ends inside document) *)
Theorem main_raises_iff_not_accepted : forall env document toks p stack,
  parse_args cli_table toks = Some p ->
  consulted env p = Some stack ->
  (main_accepts (env_cwd env) stack = false <-> exists e, py_run (main env document toks) = Raised e [])
  /\ (main_accepts (env_cwd env) stack = true ->
      exists st ex, settings_of (env_cwd env) stack template = Some st /\ exclude_strs stack = Some ex
        /\ py_run (main env document toks)
           = finish (run_inputs (map (fun f => document f (settings_object st ex)) (p_positional p)))).
Proof.
  intros env document toks p stack Hp Hc.
  rewrite main_matches_source. unfold model_main. rewrite Hp.
  rewrite (model_parsed_consulted _ _ _ _ Hc). unfold main_accepts. change excl_opt with excl_key.
  assert (Hfin : forall out e, finish out <> Raised e []).
  { intros out e. unfold finish. destruct (existsb is_stop out); discriminate. }
  destruct (settings_of (env_cwd env) stack template) as [st|].
  - destruct (headers_ok stack); cbn [andb].
    + unfold exclude_strs. destruct (all_contents stack excl_key) as [l|] eqn:Eall.
      * destruct (all_contents_all_strs _ _ _ Eall) as [xs Hxs]. rewrite Hxs. split.
        -- split; [discriminate | intros [e He]; destruct (Hfin _ _ He)].
        -- intros _. exists st, xs. repeat split; reflexivity.
      * split; [|discriminate]. split; [intros _; eexists; reflexivity | reflexivity].
    + split; [|discriminate]. split; [intros _; eexists; reflexivity | reflexivity].
  - split; [|discriminate]. split; [intros _; eexists; reflexivity | reflexivity].
Qed.

(* hence, with ConfigFacts.wrong_type_rejected_by_main: a value of the wrong type as the winning
   value of ANY option of the template makes the translated main() raise before any input is
   documented -- no exception is left (F15 and F27 are both closed in main()) *)
Corollary wrong_type_nothing_documented : forall env document toks p stack k ty v src,
  parse_args cli_table toks = Some p ->
  consulted env p = Some stack ->
  In (k, ty) template -> yval_has_type ty v = false -> resolve stack k = Some (v, src) ->
  exists e, py_run (main env document toks) = Raised e []
            /\ In e [ExcConfig; config_type_error].
Proof.
  intros env document toks p stack k ty v src Hp Hc Hin Hty Hr.
  pose proof (wrong_type_rejected_by_main (env_cwd env) stack k ty v src Hin Hty Hr) as Hna.
  rewrite main_matches_source. unfold model_main. rewrite Hp.
  rewrite (model_parsed_consulted _ _ _ _ Hc).
  unfold main_accepts in Hna. change excl_opt with excl_key in Hna.
  destruct (settings_of (env_cwd env) stack template) as [st|].
  - destruct (headers_ok stack); cbn [andb] in Hna.
    + unfold exclude_strs. destruct (all_contents stack excl_key); [discriminate Hna|].
      exists config_type_error. split; [reflexivity | right; left; reflexivity].
    + exists config_type_error. split; [reflexivity | right; left; reflexivity].
  - exists ExcConfig. split; [reflexivity | left; reflexivity].
Qed.

(* any exception escapes before the first input is documented, and it is one of four *)
Theorem main_exceptions : forall env document toks e acts,
  py_run (main env document toks) = Raised e acts ->
  acts = [] /\ In e [ExcArgparseExit; ExcConfigRead; ExcConfig; config_type_error].
Proof.
  intros env document toks e acts. rewrite main_matches_source. unfold model_main.
  assert (Hfin : forall out, finish out = Raised e acts -> False).
  { intros out. unfold finish. destruct (existsb is_stop out); discriminate. }
  assert (Hconf : forall p file, model_configured env document p file = Raised e acts ->
                  acts = [] /\ In e [ExcArgparseExit; ExcConfigRead; ExcConfig; config_type_error]).
  { intros p file. unfold model_configured. cbv zeta.
    destruct (settings_of (env_cwd env) (main_stack env p file) template) as [st|].
    - destruct (headers_ok (main_stack env p file)).
      + destruct (exclude_strs (main_stack env p file)) as [ex|].
        * intros H. destruct (Hfin _ H).
        * intros H. injection H as He Ha. subst. split; [reflexivity|]. cbn [In]. auto.
      + intros H. injection H as He Ha. subst. split; [reflexivity|]. cbn [In]. auto.
    - intros H. injection H as He Ha. subst. split; [reflexivity|]. cbn [In]. auto. }
  destruct (parse_args cli_table toks) as [p|].
  - unfold model_parsed. destruct (settings_file env p) as [[f|]|].
    + apply Hconf.
    + intros H. injection H as He Ha. subst. split; [reflexivity|]. cbn [In]. auto.
    + apply Hconf.
  - intros H. injection H as He Ha. subst. split; [reflexivity|]. cbn [In]. auto.
Qed.

Lemma set_key_assoc : forall (A : Type) k (v : A) l, assoc k (py_set_key k v l) = Some v.
Proof.
  intros A k v. induction l as [|[k' v'] r IH]; cbn [py_set_key assoc].
  - rewrite str_eqb_refl. reflexivity.
  - destruct (str_eqb k k') eqn:E; cbn [assoc]; rewrite ?str_eqb_refl; [reflexivity|].
    rewrite E. exact IH.
Qed.

Lemma set_key_other : forall (A : Type) k k0 (v : A) l,
  str_eqb k0 k = false -> assoc k0 (py_set_key k v l) = assoc k0 l.
Proof.
  intros A k k0 v l Hne. induction l as [|[k' v'] r IH]; cbn [py_set_key assoc].
  - rewrite Hne. reflexivity.
  - destruct (str_eqb k k') eqn:E; cbn [assoc].
    + apply str_eqb_eq in E. subst k'. rewrite Hne. reflexivity.
    + destruct (str_eqb k0 k'); [reflexivity|exact IH].
Qed.

Lemma all_strs_map : forall l xs, all_strs l = Some xs -> l = map YStr xs.
Proof.
  induction l as [|v l IH]; intros xs H; cbn [all_strs] in H.
  - injection H as H. subst xs. reflexivity.
  - destruct v; try discriminate H. destruct (all_strs l) as [ys|]; [|discriminate H].
    cbn [option_map] in H. injection H as H. subst xs. cbn [map]. rewrite (IH ys eq_refl). reflexivity.
Qed.

(* the strings of a list of values *)
Definition strs_of (l : list yval) : list str :=
  flat_map (fun v => match v with YStr x => [x] | _ => [] end) l.

Lemma all_strs_strs_of : forall l xs, all_strs l = Some xs -> strs_of l = xs.
Proof.
  intros l xs H. rewrite (all_strs_map l xs H). clear H. unfold strs_of.
  induction xs as [|x xs IH]; [reflexivity|]. cbn [map flat_map app]. rewrite IH. reflexivity.
Qed.

(* the settings object of an accepted configuration: the options validated by settings_of,
   input.exclude_filters replaced by the union over all sources in priority order *)
Definition accepted_object (stack : list source) (st : list (str * cval)) : py_settings_obj :=
  settings_object st (strs_of (expected_union excl_key stack)).

Theorem accepted_object_options : forall stack st,
  assoc excl_key (accepted_object stack st) = Some (CStrs (strs_of (expected_union excl_key stack)))
  /\ (forall k, str_eqb k excl_key = false -> assoc k (accepted_object stack st) = assoc k st).
Proof.
  intros stack st. unfold accepted_object, settings_object. split.
  - apply set_key_assoc.
  - intros k Hk. apply set_key_other. exact Hk.
Qed.

(* (2) an accepted configuration: the inputs are documented in command-line order, every one
   with the SAME settings object (the exclude list is assigned before the loop) *)
Theorem inputs_documented_in_order : forall env document toks p stack st,
  parse_args cli_table toks = Some p ->
  consulted env p = Some stack ->
  settings_of (env_cwd env) stack template = Some st ->
  headers_ok stack = true ->
  forallb (excl_src_ok excl_key) stack = true ->
  py_run (main env document toks)
  = finish (run_inputs (map (fun f => document f (accepted_object stack st)) (p_positional p))).
Proof.
  intros env document toks p stack st Hp Hc Hst Hhd Hok.
  pose proof (exclude_is_union stack excl_key Hok) as Hall.
  destruct (all_contents_all_strs _ _ _ Hall) as [ex Hex].
  rewrite main_matches_source. unfold model_main. rewrite Hp.
  rewrite (model_parsed_consulted _ _ _ _ Hc). rewrite Hst, Hhd.
  unfold exclude_strs. rewrite Hall, Hex. unfold accepted_object.
  rewrite (all_strs_strs_of _ _ Hex). reflexivity.
Qed.

(* when no input stops the process: main() returns and the actions are the per-input runs
   concatenated in command-line order *)
Corollary inputs_documented_concat : forall env document toks p stack st,
  parse_args cli_table toks = Some p ->
  consulted env p = Some stack ->
  settings_of (env_cwd env) stack template = Some st ->
  headers_ok stack = true ->
  forallb (excl_src_ok excl_key) stack = true ->
  forallb run_ok (map (fun f => document f (accepted_object stack st)) (p_positional p)) = true ->
  py_run (main env document toks)
  = Returned (concat (map (fun f => document f (accepted_object stack st)) (p_positional p))).
Proof.
  intros env document toks p stack st Hp Hc Hst Hhd Hok Hruns.
  rewrite (inputs_documented_in_order env document toks p stack st Hp Hc Hst Hhd Hok).
  rewrite (run_inputs_concat _ Hruns). unfold finish.
  set (obj := accepted_object stack st) in *.
  assert (Hno : existsb is_stop (concat (map (fun f => document f obj) (p_positional p))) = false).
  { induction (map (fun f => document f obj) (p_positional p)) as [|a r IH]; [reflexivity|].
    cbn [forallb] in Hruns. apply andb_true_iff in Hruns. destruct Hruns as [Ha Hr].
    cbn [concat]. rewrite existsb_app. unfold run_ok in Ha. apply negb_true_iff in Ha.
    rewrite Ha, (IH Hr). reflexivity. }
  rewrite Hno. reflexivity.
Qed.

(* an input that stops the process (exit(-1), an escaping exception) is the last one run *)
Corollary stopping_input_is_last : forall env document toks p stack st pre f post,
  parse_args cli_table toks = Some p ->
  consulted env p = Some stack ->
  settings_of (env_cwd env) stack template = Some st ->
  headers_ok stack = true ->
  forallb (excl_src_ok excl_key) stack = true ->
  p_positional p = pre ++ f :: post ->
  forallb run_ok (map (fun x => document x (accepted_object stack st)) pre) = true ->
  existsb is_stop (document f (accepted_object stack st)) = true ->
  py_run (main env document toks)
  = Halted (concat (map (fun x => document x (accepted_object stack st)) pre)
            ++ document f (accepted_object stack st)).
Proof.
  intros env document toks p stack st pre f post Hp Hc Hst Hhd Hok Hfiles Hpre Hstop.
  rewrite (inputs_documented_in_order env document toks p stack st Hp Hc Hst Hhd Hok).
  set (obj := accepted_object stack st) in *.
  rewrite Hfiles. rewrite map_app. cbn [map].
  assert (Hri : run_inputs (map (fun x => document x obj) pre ++ document f obj :: map (fun x => document x obj) post)
                = concat (map (fun x => document x obj) pre) ++ document f obj).
  { induction (map (fun x => document x obj) pre) as [|a r IH].
    - cbn [app concat]. apply abort_ends_run. exact Hstop.
    - cbn [forallb] in Hpre. apply andb_true_iff in Hpre. destruct Hpre as [Ha Hr].
      cbn [app concat run_inputs]. rewrite existsb_stop_eq. unfold run_ok in Ha.
      apply negb_true_iff in Ha. rewrite Ha, (IH Hr), app_assoc. reflexivity. }
  rewrite Hri. unfold finish. rewrite existsb_app, Hstop, orb_true_r. reflexivity.
Qed.

Example inputs_in_order_nonvacuous :
  let env := ex_env (YList [YStr (s"file1")]) in
  let toks := [s"b.cmake"; s"a"; s"-s"; s"cfg/my.yaml"; s"-e"; s"cli*"] in
  exists p stack st,
    parse_args cli_table toks = Some p /\ consulted env p = Some stack
    /\ settings_of (env_cwd env) stack template = Some st
    /\ headers_ok stack = true
    /\ forallb (excl_src_ok excl_key) stack = true
    /\ p_positional p = [s"b.cmake"; s"a"]
    /\ strs_of (expected_union excl_key stack) = [s"cli*"; s"file1"; s"user*"]
    /\ forallb run_ok (map (fun f => ex_document f (accepted_object stack st)) (p_positional p)) = true.
Proof.
  cbv zeta.
  destruct (parse_args cli_table [s"b.cmake"; s"a"; s"-s"; s"cfg/my.yaml"; s"-e"; s"cli*"]) as [p|] eqn:Hp;
    [|vm_compute in Hp; discriminate Hp].
  exists p. vm_compute in Hp. injection Hp as Hp. subst p.
  eexists. eexists. split; [reflexivity|]. split; [vm_compute; reflexivity|].
  split; [vm_compute; reflexivity|]. repeat split; vm_compute; reflexivity.
Qed.

(* (3) the settings file sits between the command line and the user configuration; the stack is
   the one obtained by pushing the sources in the order config2coq.py recorded *)
Theorem file_between_args_and_user : forall env p f,
  main_stack env p (Some f)
  = [args_source cli_table p; f; env_user env app_name; env_defaults env app_name]
  /\ main_stack env p None
     = [args_source cli_table p; env_user env app_name; env_defaults env app_name].
Proof. intros env p f. split; reflexivity. Qed.

Theorem main_stack_follows_stacking_order : forall env p file,
  main_stack env p file = stack_by_order env p file.
Proof. intros env p file. destruct file; reflexivity. Qed.

(* what main() actually pushes, read off the generated code: after the -s step and set_args the
   configuration object is main_stack (this is the stack every later statement works on) *)
Corollary file_source_priority : forall env p f key ty v rc,
  let stack := main_stack env p (Some f) in
  (assoc key (src_vals (args_source cli_table p)) = Some v ->
   effective (env_cwd env) rc stack key ty
   = convert (env_cwd env) rc ty (Some (v, args_source cli_table p)))
  /\ (unset key (args_source cli_table p) -> assoc key (src_vals f) = Some v ->
      effective (env_cwd env) rc stack key ty = convert (env_cwd env) rc ty (Some (v, f)))
  /\ (unset key (args_source cli_table p) -> unset key f ->
      assoc key (src_vals (env_user env app_name)) = Some v ->
      effective (env_cwd env) rc stack key ty
      = convert (env_cwd env) rc ty (Some (v, env_user env app_name))).
Proof.
  intros env p f key ty v rc. cbv zeta.
  rewrite (proj1 (file_between_args_and_user env p f)). split; [|split].
  - apply cli_wins.
  - apply sfile_wins_over_user.
  - apply user_wins_over_defaults.
Qed.

(* the -s path is made absolute against the working directory before the file is opened, and an
   unreadable file ends main() before anything else happens *)
Theorem settings_file_absolute : forall env document toks p f,
  parse_args cli_table toks = Some p ->
  assoc (s"settings") (p_stored p) = Some f ->
  match env_load env (abspath (env_cwd env) f) with
  | None => py_run (main env document toks) = Raised ExcConfigRead []
  | Some src => py_run (main env document toks) = model_configured env document p (Some src)
  end.
Proof.
  intros env document toks p f Hp Hf. rewrite main_matches_source. unfold model_main. rewrite Hp.
  unfold model_parsed, settings_file. rewrite Hf. cbn [option_map].
  destruct (env_load env (abspath (env_cwd env) f)); reflexivity.
Qed.

(* the file named by -s overrides the user configuration and is overridden by the command line *)
Example ex_file_between :
  let env := ex_env (YList []) in
  map (fun toks => py_run (main env ex_document toks))
      [[s"a"]; [s"a"; s"-s"; s"/work/cfg/my.yaml"]; [s"a"; s"-s"; s"cfg/my.yaml"; s"-o"; s"/abs"]]
  = [Returned [APrint (s"a excl=user* out=None prefix=U")];
     Returned [APrint (s"a excl=user* out=/work/cfg/out prefix=U")];
     Returned [APrint (s"a excl=user* out=/abs prefix=U")]].
Proof. vm_compute. reflexivity. Qed.

(* ==== MAIN THEOREMS ====
   main_matches_source                      generated main() = model_main, all inputs
   wrong_exclude_type_nothing_documented    (1)   wrong_exclude_type_document_not_called,
                                                  wrong_exclude_type_error_kind_refuted
   headers_mapping_nothing_documented       (1b)  F27 closed in the translated main()
   main_raises_iff_not_accepted             ConfigFacts.main_accepts = the translated main() raises nothing
   wrong_type_nothing_documented            no wrong-typed winning value is accepted by the translated main()
   main_exceptions                          exceptions escape before any input is documented
   inputs_documented_in_order               (2)   accepted_object_options, inputs_documented_concat,
                                                  stopping_input_is_last
   file_between_args_and_user               (3)   main_stack_follows_stacking_order,
                                                  file_source_priority, settings_file_absolute
   links of the combinators to Model/Config.v: resolve_all_head, resolve_all_sources,
   settings_with_rel, excl_loop, doc_loop, add_argument_calls_rendered *)
Print Assumptions main_matches_source.
Print Assumptions wrong_exclude_type_nothing_documented.
Print Assumptions wrong_exclude_type_document_not_called.
Print Assumptions wrong_exclude_type_error_kind_refuted.
Print Assumptions main_exceptions.
Print Assumptions inputs_documented_in_order.
Print Assumptions accepted_object_options.
Print Assumptions inputs_documented_concat.
Print Assumptions stopping_input_is_last.
Print Assumptions file_between_args_and_user.
Print Assumptions main_stack_follows_stacking_order.
Print Assumptions file_source_priority.
Print Assumptions settings_file_absolute.
Print Assumptions resolve_all_head.
Print Assumptions resolve_all_sources.
Print Assumptions settings_with_rel.
Print Assumptions excl_loop.
Print Assumptions doc_loop.
Print Assumptions headers_mapping_nothing_documented.
Print Assumptions main_raises_iff_not_accepted.
Print Assumptions wrong_type_nothing_documented.
