(* Proofs/WriterFacts.v -- property C20: the RSTWriter model (Model/Writer.v).
   S0 string lemmas (split_on / join / concat), S1 to_text is pure and repeatable,
   S2 title frame, S3 indentation of every line inside nested directives,
   S4 options before content (+ API level commutation), S5 order of elements,
   S6 stability of handles. *)
From Coq Require Import String List NArith Bool Arith Lia.
From CMinx Require Import Base.Str Model.Writer.
Import ListNotations.

(* ---- spec ---- *)

(* Python  x.split(newline)  *)
Definition lines (x : str) : list str := split_on nl x.

Definition no_nl (x : str) : bool := negb (mem nl x).
Definition opt_ok (o : str * str) : bool := no_nl (fst o) && no_nl (snd o).

(* no Sect and no DocTest anywhere inside e; field names/texts, list items, directive
   names/arguments, option names/values contain no newline.  Paragraph text is arbitrary. *)
Fixpoint plain (e : elem) : bool :=
  match e with
  | Para _ => true
  | Field n t => no_nl n && no_nl t
  | RList _ items => forallb no_nl items
  | DocTest _ _ => false
  | Dir n a o b => no_nl n && forallb no_nl a && forallb opt_ok o && forallb plain b
  | Sect _ _ => false
  end.

(* a line is empty or starts with the 3*d spaces of depth d *)
Definition ind_ok (d : nat) (l : str) : Prop := l = [] \/ startswith (indent d) l = true.

(* the single lines the simple elements consist of *)
Definition dir_head_line (d : nat) (n : str) (a : list str) : str :=
  indent d ++ s".. " ++ n ++ s":: " ++ join (s",") a.
Definition field_line (d : nat) (n t : str) : str := indent d ++ s":" ++ n ++ s": " ++ t.
Definition bullet_line (d : nat) (x : str) : str := indent d ++ s"* " ++ x.
Definition enum_line (d : nat) (k : nat) (x : str) : str :=
  indent d ++ dec_of_nat k ++ s". " ++ x.
Definition enum_lines (d i : nat) (items : list str) : list str :=
  map (fun p => enum_line d (fst p) (snd p)) (combine (seq i (length items)) items).

(* all lines of a directive after the empty line and the heading line *)
Definition dir_rest_lines (hdrs : list str) (d : nat) (o : list (str * str)) (b : list elem)
  : list str :=
  concat (map (fun x => lines (option_text (S d) x)) o)
  ++ (match b with [] => [] | _ :: _ => [[]] end)
  ++ concat (map (fun x => lines (elem_text hdrs 0 (S d) x)) b) ++ [[]].

Definition is_totext (o : wop) : bool :=
  match o with OToText _ => true | _ => false end.

(* the five content operations that go through add_child without returning a handle *)
Definition content_op (o : wop) : option (handle * elem) :=
  match o with
  | OText h t => Some (h, Para t)
  | OField h n t => Some (h, Field n t)
  | OBullets h items => Some (h, RList false items)
  | OEnum h items => Some (h, RList true items)
  | ODocTest h l x => Some (h, DocTest l x)
  | _ => None
  end.

Definition handle_eqb (a b : handle) : bool := list_eqb Nat.eqb a b.

(* operations that add an option or a content element to the writer at handle h *)
Definition addressed (h : handle) (o : wop) : bool :=
  match o with
  | OOption h' _ _ => handle_eqb h' h
  | _ => match content_op o with Some (h', _) => handle_eqb h' h | None => false end
  end.
Definition opts_of (ops : list wop) : list (str * str) :=
  flat_map (fun o => match o with OOption _ n v => [(n, v)] | _ => [] end) ops.
Definition kids_of (ops : list wop) : list elem :=
  flat_map (fun o => match content_op o with Some (_, x) => [x] | None => [] end) ops.

Fixpoint is_prefix (a b : list nat) : bool :=
  match a, b with
  | [], _ => true
  | x :: a', y :: b' => Nat.eqb x y && is_prefix a' b'
  | _ :: _, [] => false
  end.

Definition strict_prefix (a b : list nat) : bool := is_prefix a b && negb (handle_eqb a b).

(* operations after which the directive handle h certainly still names the same directive:
   everything except clear() on a proper ancestor and a title change of h itself *)
Definition harmless (h : handle) (o : wop) : bool :=
  match o with
  | OClear h0 => negb (strict_prefix h0 h)
  | OSetTitle h0 _ => negb (handle_eqb h0 h)
  | _ => true
  end.

(* ------------------------------------------------------------------ *)
(* S0: strings                                                          *)

Lemma split_on_nonempty : forall c x, split_on c x <> [].
Proof.
  intros c x. destruct x as [|a r]; cbn [split_on]; [discriminate|].
  destruct (N.eqb a c); [discriminate|].
  destruct (split_on c r); discriminate.
Qed.

Lemma split_on_cons_eq : forall c r, split_on c (c :: r) = [] :: split_on c r.
Proof. intros c r. cbn [split_on]. rewrite N.eqb_refl. reflexivity. Qed.

Lemma split_on_cons_ne : forall c a r, a <> c ->
  split_on c (a :: r) = (a :: hd [] (split_on c r)) :: tl (split_on c r).
Proof.
  intros c a r H. cbn [split_on]. destruct (N.eqb_spec a c) as [E|E]; [contradiction|].
  destruct (split_on c r) eqn:Er; [exfalso; eapply split_on_nonempty; eauto | reflexivity].
Qed.

(* the exact law for a separator in the middle, for arbitrary a *)
Lemma split_on_app_sep : forall c a b,
  split_on c (a ++ c :: b) = split_on c a ++ split_on c b.
Proof.
  intros c a b. induction a as [|x a IH].
  - cbn [app]. rewrite split_on_cons_eq. reflexivity.
  - cbn [app]. destruct (N.eqb_spec x c) as [E|E].
    + subst x. rewrite !split_on_cons_eq, IH. reflexivity.
    + rewrite !split_on_cons_ne by assumption. rewrite IH.
      destruct (split_on c a) eqn:Ea; [exfalso; eapply split_on_nonempty; eauto|].
      reflexivity.
Qed.

Lemma mem_app : forall c a b, mem c (a ++ b) = mem c a || mem c b.
Proof.
  intros c a b. induction a as [|x a IH]; cbn [app mem]; [reflexivity|].
  rewrite IH, orb_assoc. reflexivity.
Qed.

Lemma mem_In : forall c a, mem c a = true <-> In c a.
Proof.
  intros c a. induction a as [|x a IH]; cbn [mem In].
  - split; [discriminate | intros []].
  - rewrite orb_true_iff, IH, N.eqb_eq. split; intros [H|H]; auto.
Qed.

Lemma split_on_no_sep : forall c a, mem c a = false -> split_on c a = [a].
Proof.
  intros c a. induction a as [|x a IH]; intros H; [reflexivity|].
  cbn [mem] in H. apply orb_false_iff in H. destruct H as [H1 H2].
  apply N.eqb_neq in H1.
  rewrite split_on_cons_ne by congruence. rewrite (IH H2). reflexivity.
Qed.

Lemma split_on_no_sep_In : forall c a, ~ In c a -> split_on c a = [a].
Proof.
  intros c a H. apply split_on_no_sep. destruct (mem c a) eqn:E; [|reflexivity].
  apply mem_In in E. contradiction.
Qed.

Lemma split_on_parts_no_sep : forall c x, Forall (fun l => mem c l = false) (split_on c x).
Proof.
  intros c x. induction x as [|a r IH].
  - constructor; [reflexivity | constructor].
  - destruct (N.eqb_spec a c) as [E|E].
    + subst a. rewrite split_on_cons_eq. constructor; [reflexivity | exact IH].
    + rewrite split_on_cons_ne by assumption.
      destruct (split_on c r) as [|h t] eqn:Er; [exfalso; eapply split_on_nonempty; eauto|].
      inversion IH as [|h' t' Hh Ht]; subst. cbn [hd tl]. constructor; [|exact Ht].
      cbn [mem]. rewrite Hh, orb_false_r. apply N.eqb_neq. congruence.
Qed.

Lemma join_split : forall c x, join [c] (split_on c x) = x.
Proof.
  intros c x. induction x as [|a r IH]; [reflexivity|].
  destruct (N.eqb_spec a c) as [E|E].
  - subst a. rewrite split_on_cons_eq.
    destruct (split_on c r) as [|h t] eqn:Er; [exfalso; eapply split_on_nonempty; eauto|].
    change (join [c] ([] :: h :: t)) with ([] ++ [c] ++ join [c] (h :: t)).
    cbn [app]. rewrite IH. reflexivity.
  - rewrite split_on_cons_ne by assumption.
    destruct (split_on c r) as [|h t] eqn:Er; [exfalso; eapply split_on_nonempty; eauto|].
    cbn [hd tl]. destruct t as [|h2 t].
    + cbn [join] in *. subst r. reflexivity.
    + change (join [c] ((a :: h) :: h2 :: t)) with (a :: (h ++ [c] ++ join [c] (h2 :: t))).
      change (join [c] (h :: h2 :: t)) with (h ++ [c] ++ join [c] (h2 :: t)) in IH.
      rewrite IH. reflexivity.
Qed.

Lemma split_join : forall c ls, Forall (fun l => mem c l = false) ls -> ls <> [] ->
  split_on c (join [c] ls) = ls.
Proof.
  intros c ls H. induction H as [|x r Hx Hr IH]; intros Hne; [congruence|].
  destruct r as [|y r'].
  - cbn [join]. apply split_on_no_sep; assumption.
  - change (join [c] (x :: y :: r')) with (x ++ c :: join [c] (y :: r')).
    rewrite split_on_app_sep, IH by discriminate.
    rewrite split_on_no_sep by assumption. reflexivity.
Qed.

(* re-assembling the lines, each followed by the separator *)
Lemma concat_split : forall c x,
  concat (map (fun l => l ++ [c]) (split_on c x)) = x ++ [c].
Proof.
  intros c x. induction x as [|a r IH]; [reflexivity|].
  destruct (N.eqb_spec a c) as [E|E].
  - subst a. rewrite split_on_cons_eq. cbn [map concat app]. rewrite IH. reflexivity.
  - rewrite split_on_cons_ne by assumption.
    destruct (split_on c r) as [|h t] eqn:Er; [exfalso; eapply split_on_nonempty; eauto|].
    cbn [hd tl map concat app] in *. rewrite IH. reflexivity.
Qed.

Lemma repeat_str_single : forall n c, repeat_str n [c] = repeat c n.
Proof. intros n c. induction n as [|n IH]; cbn [repeat_str repeat app]; congruence. Qed.

Lemma length_repeat_str_single : forall n c, length (repeat_str n [c]) = n.
Proof. intros n c. rewrite repeat_str_single. apply repeat_length. Qed.

Lemma mem_repeat : forall c x n, c <> x -> mem c (repeat x n) = false.
Proof.
  intros c x n H. induction n as [|n IH]; [reflexivity|].
  cbn [repeat mem]. rewrite IH, orb_false_r. apply N.eqb_neq. exact H.
Qed.

Lemma no_nl_app : forall a b, no_nl (a ++ b) = no_nl a && no_nl b.
Proof. intros a b. unfold no_nl. rewrite mem_app, negb_orb. reflexivity. Qed.

Lemma no_nl_indent : forall d, no_nl (indent d) = true.
Proof.
  intros d. unfold no_nl, indent, spaces. rewrite mem_repeat; [reflexivity|].
  unfold nl, sp. discriminate.
Qed.

Lemma no_nl_join : forall sep l, no_nl sep = true -> forallb no_nl l = true ->
  no_nl (join sep l) = true.
Proof.
  intros sep l Hs. induction l as [|x r IH]; intros H; [reflexivity|].
  cbn [forallb] in H. apply andb_true_iff in H. destruct H as [Hx Hr].
  destruct r as [|y r']; [exact Hx|].
  change (join sep (x :: y :: r')) with (x ++ sep ++ join sep (y :: r')).
  rewrite !no_nl_app, Hx, Hs, (IH Hr). reflexivity.
Qed.

Lemma mem_dec_go : forall f n acc, mem nl (dec_go f n acc) = mem nl acc.
Proof.
  intros f. induction f as [|f IH]; intros n acc; [reflexivity|].
  cbn [dec_go].
  assert (E : mem nl (digit_char (n mod 10) :: acc) = mem nl acc).
  { cbn [mem]. replace (N.eqb nl (digit_char (n mod 10))) with false; [reflexivity|].
    symmetry. apply N.eqb_neq. unfold nl, digit_char. lia. }
  destruct (n / 10 =? 0); [exact E|]. rewrite IH. exact E.
Qed.

Lemma no_nl_dec : forall n, no_nl (dec_of_nat n) = true.
Proof. intros n. unfold no_nl, dec_of_nat. rewrite mem_dec_go. reflexivity. Qed.

Lemma startswith_app_self : forall p x, startswith p (p ++ x) = true.
Proof.
  intros p x. induction p as [|a p IH]; [reflexivity|].
  cbn [app startswith]. rewrite N.eqb_refl. exact IH.
Qed.

Lemma startswith_app_l : forall p q x, startswith (p ++ q) x = true -> startswith p x = true.
Proof.
  intros p q. induction p as [|a p IH]; intros x H; [reflexivity|].
  destruct x as [|b x]; cbn [app startswith] in *; [discriminate|].
  apply andb_true_iff in H. destruct H as [H1 H2]. rewrite H1. exact (IH _ H2).
Qed.

Lemma indent_S : forall d, indent (S d) = indent d ++ spaces 3.
Proof.
  intros d. unfold indent, spaces, indent_unit.
  replace (3 * S d) with (3 * d + 3) by lia. apply repeat_app.
Qed.

Lemma length_indent : forall d, length (indent d) = 3 * d.
Proof. intros d. unfold indent, spaces, indent_unit. apply repeat_length. Qed.

Lemma ind_ok_weaken : forall d l, ind_ok (S d) l -> ind_ok d l.
Proof.
  intros d l [H|H]; [left; exact H | right].
  rewrite indent_S in H. exact (startswith_app_l _ _ _ H).
Qed.

Lemma ind_ok_indent_app : forall d x, ind_ok d (indent d ++ x).
Proof. intros d x. right. apply startswith_app_self. Qed.

(* ---- lines ---- *)

Lemma lines_app_nl : forall a b, lines (a ++ nl :: b) = lines a ++ lines b.
Proof. intros a b. apply split_on_app_sep. Qed.

Lemma lines_nl_cons : forall b, lines (nl :: b) = [] :: lines b.
Proof. intros b. apply split_on_cons_eq. Qed.

Lemma lines_no_nl : forall x, no_nl x = true -> lines x = [x].
Proof.
  intros x H. apply split_on_no_sep. unfold no_nl in H.
  destruct (mem nl x); [discriminate | reflexivity].
Qed.

Lemma lines_nonempty : forall x, lines x <> [].
Proof. intros x. apply split_on_nonempty. Qed.

Lemma join_lines : forall x, join [nl] (lines x) = x.
Proof. intros x. apply join_split. Qed.

(* a sequence of chunks each terminated by a newline *)
Lemma lines_chunks : forall (A : Type) (f : A -> str) (l : list A) (rest : str),
  lines (concat (map (fun x => f x ++ [nl]) l) ++ rest)
  = concat (map (fun x => lines (f x)) l) ++ lines rest.
Proof.
  intros A f l rest. induction l as [|x r IH]; [reflexivity|].
  cbn [map concat]. rewrite <- !app_assoc. cbn [app].
  rewrite lines_app_nl, IH, app_assoc. reflexivity.
Qed.

Lemma lines_body_text : forall hdrs lvl d b,
  lines (body_text hdrs lvl d b)
  = concat (map (fun x => lines (elem_text hdrs lvl d x)) b) ++ [[]].
Proof.
  intros hdrs lvl d b. unfold body_text.
  rewrite <- (app_nil_r (concat (map (fun x => elem_text hdrs lvl d x ++ [nl]) b))).
  rewrite lines_chunks. reflexivity.
Qed.

Lemma concat_map_singleton : forall (A B : Type) (g : A -> list B) (f : A -> B) (l : list A),
  (forall x, In x l -> g x = [f x]) -> concat (map g l) = map f l.
Proof.
  intros A B g f l. induction l as [|x r IH]; intros H; [reflexivity|].
  cbn [map concat]. rewrite (H x (or_introl eq_refl)), IH; [reflexivity|].
  intros y Hy. apply H. right. exact Hy.
Qed.

Lemma Forall_concat_map : forall (A B : Type) (P : B -> Prop) (g : A -> list B) (l : list A),
  (forall x, In x l -> Forall P (g x)) -> Forall P (concat (map g l)).
Proof.
  intros A B P g l. induction l as [|x r IH]; intros H; [constructor|].
  cbn [map concat]. apply Forall_app. split.
  - apply H. left. reflexivity.
  - apply IH. intros y Hy. apply H. right. exact Hy.
Qed.

(* induction principle for elem with the nested lists *)
Definition elem_ind2 (P : elem -> Prop)
  (HPara : forall t, P (Para t))
  (HField : forall n t, P (Field n t))
  (HList : forall en items, P (RList en items))
  (HDoc : forall l x, P (DocTest l x))
  (HDir : forall n a o b, Forall P b -> P (Dir n a o b))
  (HSect : forall t b, Forall P b -> P (Sect t b))
  : forall e, P e :=
  fix go (e : elem) : P e :=
    match e with
    | Para t => HPara t
    | Field n t => HField n t
    | RList en items => HList en items
    | DocTest l x => HDoc l x
    | Dir n a o b =>
        HDir n a o b ((fix gl (l : list elem) : Forall P l :=
                         match l with
                         | [] => Forall_nil P
                         | x :: r => Forall_cons x (go x) (gl r)
                         end) b)
    | Sect t b =>
        HSect t b ((fix gl (l : list elem) : Forall P l :=
                      match l with
                      | [] => Forall_nil P
                      | x :: r => Forall_cons x (go x) (gl r)
                      end) b)
    end.

(* ------------------------------------------------------------------ *)
(* S2: the title frame                                                  *)

Theorem heading_frame : forall c title,
  heading_text [c] title
  = [nl] ++ repeat c (length title) ++ [nl] ++ title ++ [nl] ++ repeat c (length title).
Proof. intros c title. unfold heading_text. rewrite repeat_str_single. reflexivity. Qed.

Theorem heading_frame_lines : forall c title, c <> nl -> no_nl title = true ->
  lines (heading_text [c] title)
  = [[]; repeat c (length title); title; repeat c (length title)].
Proof.
  intros c title Hc Ht. rewrite heading_frame. cbn [app].
  assert (Hbar : no_nl (repeat c (length title)) = true).
  { unfold no_nl. rewrite mem_repeat; [reflexivity | congruence]. }
  rewrite lines_nl_cons, lines_app_nl, lines_app_nl, !lines_no_nl by assumption.
  reflexivity.
Qed.

Lemma no_nl_repeat_str : forall n hc, no_nl hc = true -> no_nl (repeat_str n hc) = true.
Proof.
  intros n hc H. induction n as [|n IH]; [reflexivity|].
  cbn [repeat_str]. rewrite no_nl_app, H, IH. reflexivity.
Qed.

(* any heading string (also more than one character per column) *)
Theorem heading_lines_gen : forall hc title, no_nl hc = true -> no_nl title = true ->
  lines (heading_text hc title)
  = [[]; repeat_str (length title) hc; title; repeat_str (length title) hc].
Proof.
  intros hc title Hc Ht. unfold heading_text. cbn [app].
  pose proof (no_nl_repeat_str (length title) hc Hc) as Hbar.
  rewrite lines_nl_cons, lines_app_nl, lines_app_nl, !lines_no_nl by assumption.
  reflexivity.
Qed.

Theorem doc_text_starts_with_frame : forall hdrs title body,
  doc_text hdrs title body
  = heading_text (nth 0 hdrs []) title ++ [nl] ++ body_text hdrs 0 0 body.
Proof. reflexivity. Qed.

Theorem sect_uses_next_level : forall hdrs lvl d title body,
  elem_text hdrs lvl d (Sect title body)
  = heading_text (nth (S lvl) hdrs []) title ++ [nl] ++ body_text hdrs (S lvl) 0 body.
Proof. reflexivity. Qed.

Theorem retitle_reframes : forall hdrs st t',
  wstep hdrs st (OSetTitle [] t') = ({| w_title := t'; w_body := w_body st |}, WNone).
Proof. reflexivity. Qed.

Theorem retitle_then_text : forall hdrs st t',
  snd (wstep hdrs (fst (wstep hdrs st (OSetTitle [] t'))) (OToText []))
  = WText (heading_text (nth 0 hdrs []) t' ++ [nl] ++ body_text hdrs 0 0 (w_body st)).
Proof. reflexivity. Qed.

Theorem clear_keeps_title : forall hdrs st,
  wstep hdrs st (OClear []) = ({| w_title := w_title st; w_body := [] |}, WNone).
Proof. reflexivity. Qed.

(* ------------------------------------------------------------------ *)
(* S1: to_text is pure and repeatable                                   *)

Theorem to_text_pure : forall hdrs st h, fst (wstep hdrs st (OToText h)) = st.
Proof.
  intros hdrs st h. cbn [wstep]. destruct h as [|i p]; [reflexivity|].
  destruct (node_at (i :: p) st) as [[[e lvl] d]|]; [|reflexivity].
  destruct e; reflexivity.
Qed.

Theorem wrun_app : forall hdrs st a b,
  wrun hdrs st (a ++ b)
  = (fst (wrun hdrs (fst (wrun hdrs st a)) b),
     snd (wrun hdrs st a) ++ snd (wrun hdrs (fst (wrun hdrs st a)) b)).
Proof.
  intros hdrs st a b. revert st. induction a as [|o r IH]; intros st.
  - cbn [app wrun fst snd]. destruct (wrun hdrs st b); reflexivity.
  - cbn [app wrun]. destruct (wstep hdrs st o) as [st1 out] eqn:E1.
    rewrite IH. destruct (wrun hdrs st1 r) as [st2 outs] eqn:E2. cbn [fst snd].
    reflexivity.
Qed.

Theorem to_text_run_pure : forall hdrs ops st, forallb is_totext ops = true ->
  fst (wrun hdrs st ops) = st.
Proof.
  intros hdrs ops. induction ops as [|o r IH]; intros st H; [reflexivity|].
  cbn [forallb] in H. apply andb_true_iff in H. destruct H as [Ho Hr].
  cbn [wrun]. destruct (wstep hdrs st o) as [st1 out] eqn:E1.
  destruct (wrun hdrs st1 r) as [st2 outs] eqn:E2. cbn [fst].
  destruct o; try discriminate Ho.
  pose proof (to_text_pure hdrs st h) as Hp. rewrite E1 in Hp. cbn [fst] in Hp. subst st1.
  specialize (IH st Hr). rewrite E2 in IH. exact IH.
Qed.

(* every to_text in a run of to_text calls answers exactly what a single call answers *)
Theorem to_text_run_outputs : forall hdrs ops st, forallb is_totext ops = true ->
  snd (wrun hdrs st ops) = map (fun o => snd (wstep hdrs st o)) ops.
Proof.
  intros hdrs ops. induction ops as [|o r IH]; intros st H; [reflexivity|].
  cbn [forallb] in H. apply andb_true_iff in H. destruct H as [Ho Hr].
  cbn [wrun map]. destruct (wstep hdrs st o) as [st1 out] eqn:E1.
  destruct (wrun hdrs st1 r) as [st2 outs] eqn:E2. cbn [snd].
  destruct o; try discriminate Ho.
  pose proof (to_text_pure hdrs st h) as Hp. rewrite E1 in Hp. cbn [fst] in Hp. subst st1.
  specialize (IH st Hr). rewrite E2 in IH. cbn [snd] in IH. rewrite IH. reflexivity.
Qed.

Theorem to_text_repeatable : forall hdrs st ops h, forallb is_totext ops = true ->
  fst (wrun hdrs st (OToText h :: ops ++ [OToText h])) = st /\
  exists out outs, snd (wrun hdrs st (OToText h :: ops ++ [OToText h]))
                   = out :: outs ++ [out].
Proof.
  intros hdrs st ops h H.
  assert (Hall : forallb is_totext (OToText h :: ops ++ [OToText h]) = true).
  { cbn [forallb is_totext]. rewrite forallb_app, H. reflexivity. }
  split; [apply to_text_run_pure; exact Hall|].
  rewrite to_text_run_outputs by exact Hall.
  exists (snd (wstep hdrs st (OToText h))), (map (fun o => snd (wstep hdrs st o)) ops).
  cbn [map]. rewrite map_app. reflexivity.
Qed.

(* ------------------------------------------------------------------ *)
(* S5 (text level): order of elements                                   *)

Theorem body_text_app : forall hdrs lvl d b1 b2,
  body_text hdrs lvl d (b1 ++ b2) = body_text hdrs lvl d b1 ++ body_text hdrs lvl d b2.
Proof. intros. unfold body_text. rewrite map_app, concat_app. reflexivity. Qed.

Theorem order_preserved : forall hdrs t b x,
  doc_text hdrs t (b ++ [x]) = doc_text hdrs t b ++ elem_text hdrs 0 0 x ++ [nl].
Proof.
  intros. unfold doc_text. rewrite body_text_app, <- !app_assoc.
  unfold body_text at 2. cbn [map concat]. rewrite app_nil_r. reflexivity.
Qed.

(* ------------------------------------------------------------------ *)
(* S4 (text level): options directly after the heading, before content *)

Theorem options_before_content : forall hdrs lvl d n a opts body,
  elem_text hdrs lvl d (Dir n a opts body)
  = dir_heading d n a ++ [nl]
    ++ concat (map (fun o => option_text (S d) o ++ [nl]) opts)
    ++ (match body with [] => [] | _ :: _ => [nl] end)
    ++ body_text hdrs 0 (S d) body.
Proof. reflexivity. Qed.

(* ------------------------------------------------------------------ *)
(* S3: every line inside directives nested d deep starts with 3*d spaces *)

(* a paragraph: every line, in order, prefixed by exactly 3*d spaces (no side condition) *)
Theorem para_lines : forall d t,
  lines (para_text d t) = map (fun l => indent d ++ l) (lines t).
Proof.
  intros d t. unfold para_text, lines. apply split_join.
  - apply Forall_forall. intros x Hx. apply in_map_iff in Hx.
    destruct Hx as [l [Hl Hin]]. subst x.
    pose proof (split_on_parts_no_sep nl t) as Hall.
    rewrite Forall_forall in Hall. specialize (Hall l Hin).
    rewrite mem_app, Hall, orb_false_r.
    pose proof (no_nl_indent d) as Hi. unfold no_nl in Hi.
    destruct (mem nl (indent d)); [discriminate | reflexivity].
  - destruct (split_on nl t) eqn:E; [exfalso; eapply split_on_nonempty; eauto | discriminate].
Qed.

Theorem field_lines : forall d n t, no_nl n = true -> no_nl t = true ->
  lines (field_text d n t) = [[]; field_line d n t].
Proof.
  intros d n t Hn Ht. unfold field_text. cbn [app]. rewrite lines_nl_cons.
  rewrite lines_no_nl; [reflexivity|].
  rewrite !no_nl_app, no_nl_indent, Hn, Ht. reflexivity.
Qed.

Lemma bullet_items_concat : forall d items,
  bullet_items d items = concat (map (fun x => bullet_line d x ++ [nl]) items).
Proof.
  intros d items. induction items as [|x r IH]; [reflexivity|].
  cbn [bullet_items map concat]. rewrite IH. unfold bullet_line.
  rewrite <- !app_assoc. reflexivity.
Qed.

Lemma enum_items_concat : forall d items i,
  enum_items d i items
  = concat (map (fun p => enum_line d (fst p) (snd p) ++ [nl])
                (combine (seq i (length items)) items)).
Proof.
  intros d items. induction items as [|x r IH]; intros i; [reflexivity|].
  cbn [enum_items length seq combine map concat fst snd]. rewrite IH. unfold enum_line.
  rewrite <- !app_assoc. reflexivity.
Qed.

Theorem bullet_lines : forall d items, forallb no_nl items = true ->
  lines (list_text d false items) = [] :: map (bullet_line d) items ++ [[]].
Proof.
  intros d items H. unfold list_text. cbn [app]. rewrite lines_nl_cons.
  rewrite bullet_items_concat.
  rewrite <- (app_nil_r (concat (map (fun x => bullet_line d x ++ [nl]) items))).
  rewrite lines_chunks. f_equal. f_equal.
  apply concat_map_singleton. intros x Hx. apply lines_no_nl.
  rewrite forallb_forall in H. unfold bullet_line.
  rewrite !no_nl_app, no_nl_indent, (H x Hx). reflexivity.
Qed.

Theorem enum_lines_exact : forall d items, forallb no_nl items = true ->
  lines (list_text d true items) = [] :: enum_lines d 1 items ++ [[]].
Proof.
  intros d items H. unfold list_text, enum_lines. cbn [app]. rewrite lines_nl_cons.
  rewrite enum_items_concat.
  rewrite <- (app_nil_r (concat (map _ (combine (seq 1 (length items)) items)))).
  rewrite (lines_chunks _ (fun p => enum_line d (fst p) (snd p))). f_equal. f_equal.
  apply concat_map_singleton. intros [k x] Hx. apply lines_no_nl.
  apply in_combine_r in Hx. rewrite forallb_forall in H. unfold enum_line. cbn [fst snd].
  rewrite !no_nl_app, no_nl_indent, no_nl_dec, (H x Hx). reflexivity.
Qed.

Lemma no_nl_dir_head_line : forall d n a, no_nl n = true -> forallb no_nl a = true ->
  no_nl (dir_head_line d n a) = true.
Proof.
  intros d n a Hn Ha. unfold dir_head_line.
  rewrite !no_nl_app, no_nl_indent, Hn, (no_nl_join (s",") a eq_refl Ha). reflexivity.
Qed.

(* exact line structure of a directive, no side condition *)
Theorem dir_lines_gen : forall hdrs lvl d n a o b,
  lines (elem_text hdrs lvl d (Dir n a o b))
  = [] :: lines (dir_head_line d n a) ++ dir_rest_lines hdrs d o b.
Proof.
  intros hdrs lvl d n a o b. rewrite options_before_content.
  change (dir_heading d n a) with (nl :: dir_head_line d n a).
  cbn [app]. rewrite lines_nl_cons, lines_app_nl. f_equal. f_equal.
  rewrite lines_chunks. unfold dir_rest_lines. f_equal.
  destruct b as [|x r].
  - reflexivity.
  - change ([nl] ++ body_text hdrs 0 (S d) (x :: r)) with (nl :: body_text hdrs 0 (S d) (x :: r)).
    rewrite lines_nl_cons, lines_body_text. reflexivity.
Qed.

(* the empty line, then the heading line `.. name:: args`, then the rest *)
Theorem dir_lines : forall hdrs lvl d n a o b, no_nl n = true -> forallb no_nl a = true ->
  lines (elem_text hdrs lvl d (Dir n a o b))
  = [] :: dir_head_line d n a :: dir_rest_lines hdrs d o b.
Proof.
  intros hdrs lvl d n a o b Hn Ha. rewrite dir_lines_gen.
  rewrite (lines_no_nl _ (no_nl_dir_head_line d n a Hn Ha)). reflexivity.
Qed.

Theorem option_lines : forall d o, opt_ok o = true ->
  lines (option_text d o) = [field_line d (fst o) (snd o)].
Proof.
  intros d o H. unfold opt_ok in H. apply andb_true_iff in H. destruct H as [H1 H2].
  change (field_line d (fst o) (snd o)) with (option_text d o).
  apply lines_no_nl. unfold option_text.
  rewrite !no_nl_app, no_nl_indent, H1, H2. reflexivity.
Qed.

Lemma dir_rest_deeper : forall hdrs d o b,
  forallb opt_ok o = true ->
  Forall (fun x => Forall (ind_ok (S d)) (lines (elem_text hdrs 0 (S d) x))) b ->
  Forall (ind_ok (S d)) (dir_rest_lines hdrs d o b).
Proof.
  intros hdrs d o b Ho Hb. unfold dir_rest_lines.
  apply Forall_app. split; [|apply Forall_app; split; [|apply Forall_app; split]].
  - apply Forall_concat_map. intros x Hx. rewrite forallb_forall in Ho.
    rewrite (option_lines _ _ (Ho x Hx)). constructor; [|constructor].
    unfold field_line. apply ind_ok_indent_app.
  - destruct b; [constructor|]. constructor; [left; reflexivity | constructor].
  - apply Forall_concat_map. intros x Hx. rewrite Forall_forall in Hb. exact (Hb x Hx).
  - constructor; [left; reflexivity | constructor].
Qed.

(* MAIN: every line of a plain element at depth d is empty or starts with 3*d spaces *)
Theorem lines_indented : forall hdrs lvl d e, plain e = true ->
  Forall (ind_ok d) (lines (elem_text hdrs lvl d e)).
Proof.
  intros hdrs lvl d e. revert lvl d.
  induction e as [t|n t|en items|l x|n a o b IH|t b IH] using elem_ind2; intros lvl d Hp.
  - cbn [elem_text]. rewrite para_lines. apply Forall_forall. intros x Hx.
    apply in_map_iff in Hx. destruct Hx as [y [Hy _]]. subst x. apply ind_ok_indent_app.
  - cbn [plain] in Hp. apply andb_true_iff in Hp. destruct Hp as [Hn Ht].
    cbn [elem_text]. rewrite field_lines by assumption.
    constructor; [left; reflexivity|]. constructor; [|constructor].
    unfold field_line. apply ind_ok_indent_app.
  - cbn [plain] in Hp. cbn [elem_text]. destruct en.
    + rewrite enum_lines_exact by assumption. constructor; [left; reflexivity|].
      apply Forall_app. split; [|constructor; [left; reflexivity | constructor]].
      unfold enum_lines. apply Forall_forall. intros y Hy. apply in_map_iff in Hy.
      destruct Hy as [p [Hp' _]]. subst y. unfold enum_line. apply ind_ok_indent_app.
    + rewrite bullet_lines by assumption. constructor; [left; reflexivity|].
      apply Forall_app. split; [|constructor; [left; reflexivity | constructor]].
      apply Forall_forall. intros y Hy. apply in_map_iff in Hy.
      destruct Hy as [p [Hp' _]]. subst y. unfold bullet_line. apply ind_ok_indent_app.
  - discriminate Hp.
  - cbn [plain] in Hp. apply andb_true_iff in Hp. destruct Hp as [Hp Hb].
    apply andb_true_iff in Hp. destruct Hp as [Hp Ho].
    apply andb_true_iff in Hp. destruct Hp as [Hn Ha].
    rewrite dir_lines by assumption.
    constructor; [left; reflexivity|]. constructor.
    { unfold dir_head_line. apply ind_ok_indent_app. }
    eapply Forall_impl; [intros l0 Hl0; apply ind_ok_weaken; exact Hl0|].
    apply dir_rest_deeper; [exact Ho|].
    rewrite forallb_forall in Hb. rewrite Forall_forall in IH |- *.
    intros x Hx. apply (IH x Hx). exact (Hb x Hx).
  - discriminate Hp.
Qed.

(* the content of a directive at depth d is at depth S d *)
Theorem dir_content_deeper : forall hdrs lvl d n a o b, plain (Dir n a o b) = true ->
  lines (elem_text hdrs lvl d (Dir n a o b))
    = [] :: dir_head_line d n a :: dir_rest_lines hdrs d o b /\
  Forall (ind_ok (S d)) (skipn 2 (lines (elem_text hdrs lvl d (Dir n a o b)))).
Proof.
  intros hdrs lvl d n a o b Hp. cbn [plain] in Hp.
  apply andb_true_iff in Hp. destruct Hp as [Hp Hb].
  apply andb_true_iff in Hp. destruct Hp as [Hp Ho].
  apply andb_true_iff in Hp. destruct Hp as [Hn Ha].
  rewrite dir_lines by assumption. split; [reflexivity|]. cbn [skipn].
  apply dir_rest_deeper; [exact Ho|].
  rewrite forallb_forall in Hb. apply Forall_forall. intros x Hx.
  apply lines_indented. exact (Hb x Hx).
Qed.

(* non-vacuity: a directive nested 3 deep with options, a multi-line paragraph with its
   own indentation, a bullet list and an enumerated list *)
Definition ex_nested : elem :=
  Dir (s"a") [s"x"; s"y"] [(s"o1", s"v1")]
    [Para (s"line1" ++ [nl] ++ s"  own indent" ++ [nl] ++ [nl] ++ s"line4");
     RList false [s"i1"; s"i2"];
     Dir (s"b") [] [(s"k", s"v"); (s"k2", s"v2")]
       [Field (s"f") (s"t");
        Dir (s"c") [s"z"] []
          [Para (s"deep" ++ [nl] ++ s" deeper"); RList true [s"one"; s"two"]]]].

Example ex_nested_plain : plain ex_nested = true.
Proof. vm_compute. reflexivity. Qed.

Example ex_nested_lines :
  lines (elem_text [s"#"; s"*"] 0 0 ex_nested)
  = [ [];
      s".. a:: x,y";
      s"   :o1: v1";
      [];
      s"   line1";
      s"     own indent";
      s"   ";
      s"   line4";
      [];
      s"   * i1";
      s"   * i2";
      [];
      [];
      s"   .. b:: ";
      s"      :k: v";
      s"      :k2: v2";
      [];
      [];
      s"      :f: t";
      [];
      s"      .. c:: z";
      [];
      s"         deep";
      s"          deeper";
      [];
      s"         1. one";
      s"         2. two";
      [];
      [];
      [];
      [] ].
Proof. vm_compute. reflexivity. Qed.

Example ex_nested_indented :
  Forall (ind_ok 1) (skipn 2 (lines (elem_text [s"#"; s"*"] 0 0 ex_nested))).
Proof. apply (dir_content_deeper [s"#"; s"*"] 0 0). apply ex_nested_plain. Qed.

(* the side conditions of `plain` are necessary: the expected-output line of a DocTest and
   the continuation line of a field text with a newline are not indented *)
Example doctest_not_indented :
  ~ Forall (ind_ok 1) (lines (elem_text [] 0 1 (DocTest (s"f()") (s"42")))).
Proof.
  vm_compute. intros H.
  inversion H as [|x1 r1 _ H1]; subst. inversion H1 as [|x2 r2 _ H2]; subst.
  inversion H2 as [|x3 r3 H3 _]; subst. destruct H3 as [H3|H3]; discriminate H3.
Qed.

Example field_newline_not_indented :
  ~ Forall (ind_ok 1) (lines (elem_text [] 0 1 (Field (s"Default value") (s"a" ++ [nl] ++ s"b")))).
Proof.
  vm_compute. intros H.
  inversion H as [|x1 r1 _ H1]; subst. inversion H1 as [|x2 r2 _ H2]; subst.
  inversion H2 as [|x3 r3 H3 _]; subst. destruct H3 as [H3|H3]; discriminate H3.
Qed.

(* ------------------------------------------------------------------ *)
(* the state machine: updates and lookups along handles                 *)

Definition sub_upd (p : list nat) (j : nat) (f : elem -> option elem) (e : elem)
  : option elem :=
  match e with
  | Dir n a o body => option_map (Dir n a o) (upd_in_body p j f body)
  | Sect t body => option_map (Sect t) (upd_in_body p j f body)
  | _ => None
  end.

Definition sub_find (q : list nat) (j : nat) (lvl d : nat) (e : elem)
  : option (elem * nat * nat) :=
  match e with
  | Dir _ _ _ body => find_in_body q j 0 (S d) body
  | Sect _ body => find_in_body q j (S lvl) 0 body
  | _ => None
  end.

Definition bind_opt {A B : Type} (x : option A) (f : A -> option B) : option B :=
  match x with Some a => f a | None => None end.

Lemma upd_in_body_nil : forall i f b,
  upd_in_body [] i f b
  = match nth_error b i with
    | None => None
    | Some e => match f e with
                | Some e' => Some (update_nth i (fun _ => e') b)
                | None => None
                end
    end.
Proof. reflexivity. Qed.

Lemma upd_in_body_cons : forall j p i f b,
  upd_in_body (j :: p) i f b = upd_in_body [] i (sub_upd p j f) b.
Proof.
  intros j p i f b. rewrite upd_in_body_nil. cbn [upd_in_body].
  destruct (nth_error b i) as [e|]; [|reflexivity].
  destruct e; try reflexivity; cbn [sub_upd]; destruct (upd_in_body p j f body);
    reflexivity.
Qed.

Lemma find_in_body_nil : forall k lvl d b,
  find_in_body [] k lvl d b
  = match nth_error b k with Some e => Some (e, lvl, d) | None => None end.
Proof. reflexivity. Qed.

Lemma find_in_body_cons : forall j q k lvl d b,
  find_in_body (j :: q) k lvl d b
  = match nth_error b k with Some e => sub_find q j lvl d e | None => None end.
Proof.
  intros. cbn [find_in_body]. destruct (nth_error b k) as [e|]; [|reflexivity].
  destruct e; reflexivity.
Qed.

Lemma nth_error_update_nth_eq : forall (A : Type) (g : A -> A) b i,
  nth_error (update_nth i g b) i = option_map g (nth_error b i).
Proof.
  intros A g b. induction b as [|x r IH]; intros i; destruct i as [|i]; try reflexivity.
  cbn [update_nth nth_error]. apply IH.
Qed.

Lemma nth_error_update_nth_ne : forall (A : Type) (g : A -> A) b i k, i <> k ->
  nth_error (update_nth i g b) k = nth_error b k.
Proof.
  intros A g b. induction b as [|x r IH]; intros i k H; [destruct i; reflexivity|].
  destruct i as [|i]; destruct k as [|k]; try reflexivity; try congruence.
  cbn [update_nth nth_error]. apply IH. congruence.
Qed.

Lemma update_nth_twice : forall (A : Type) (x y : A) b i,
  update_nth i (fun _ => y) (update_nth i (fun _ => x) b) = update_nth i (fun _ => y) b.
Proof.
  intros A x y b. induction b as [|z r IH]; intros i; [destruct i; reflexivity|].
  destruct i as [|i]; [reflexivity|]. cbn [update_nth]. rewrite IH. reflexivity.
Qed.

(* one level: composition, extensionality, domain *)
Lemma upd_nil_compose : forall i f g b,
  bind_opt (upd_in_body [] i f b) (upd_in_body [] i g)
  = upd_in_body [] i (fun e => bind_opt (f e) g) b.
Proof.
  intros i f g b. rewrite !upd_in_body_nil.
  destruct (nth_error b i) as [e|] eqn:E; [|reflexivity].
  destruct (f e) as [e1|]; [|reflexivity]. cbn [bind_opt].
  rewrite upd_in_body_nil, nth_error_update_nth_eq, E. cbn [option_map].
  destruct (g e1) as [e2|]; [|reflexivity]. rewrite update_nth_twice. reflexivity.
Qed.

Lemma upd_nil_ext : forall i f g b, (forall e, f e = g e) ->
  upd_in_body [] i f b = upd_in_body [] i g b.
Proof.
  intros i f g b H. rewrite !upd_in_body_nil.
  destruct (nth_error b i) as [e|]; [|reflexivity]. rewrite H. reflexivity.
Qed.

Lemma upd_compose : forall p i f g b,
  bind_opt (upd_in_body p i f b) (upd_in_body p i g)
  = upd_in_body p i (fun e => bind_opt (f e) g) b.
Proof.
  intros p. induction p as [|j p IH]; intros i f g b; [apply upd_nil_compose|].
  rewrite (upd_in_body_cons j p i f b).
  transitivity (bind_opt (upd_in_body [] i (sub_upd p j f) b)
                         (upd_in_body [] i (sub_upd p j g))).
  { destruct (upd_in_body [] i (sub_upd p j f) b); [|reflexivity].
    cbn [bind_opt]. apply upd_in_body_cons. }
  rewrite upd_nil_compose, upd_in_body_cons. apply upd_nil_ext.
  intros e. destruct e; try reflexivity; cbn [sub_upd].
  - rewrite <- IH. destruct (upd_in_body p j f body); reflexivity.
  - rewrite <- IH. destruct (upd_in_body p j f body); reflexivity.
Qed.

Lemma upd_ext : forall p i f g b, (forall e, f e = g e) ->
  upd_in_body p i f b = upd_in_body p i g b.
Proof.
  intros p. induction p as [|j p IH]; intros i f g b H; [apply upd_nil_ext; exact H|].
  rewrite !upd_in_body_cons. apply upd_nil_ext. intros e.
  destruct e; try reflexivity; cbn [sub_upd]; rewrite (IH j f g body H); reflexivity.
Qed.

Lemma upd_dom : forall p i f g b, (forall e, f e <> None -> g e <> None) ->
  upd_in_body p i f b <> None -> upd_in_body p i g b <> None.
Proof.
  intros p. induction p as [|j p IH]; intros i f g b H.
  - rewrite !upd_in_body_nil. destruct (nth_error b i) as [e|]; [|auto].
    specialize (H e). destruct (f e); [|congruence].
    destruct (g e); [discriminate|]. intros _. exfalso. apply H; [discriminate | reflexivity].
  - rewrite !upd_in_body_cons.
    rewrite !upd_in_body_nil. destruct (nth_error b i) as [e|]; [|auto].
    assert (Hs : sub_upd p j f e <> None -> sub_upd p j g e <> None).
    { destruct e; try (intros X; exact X); cbn [sub_upd]; intros X.
      - specialize (IH j f g body H).
        destruct (upd_in_body p j f body); [|exact (False_ind _ (X eq_refl))].
        destruct (upd_in_body p j g body); [discriminate|]. exfalso. apply IH; [discriminate | reflexivity].
      - specialize (IH j f g body H).
        destruct (upd_in_body p j f body); [|exact (False_ind _ (X eq_refl))].
        destruct (upd_in_body p j g body); [discriminate|]. exfalso. apply IH; [discriminate | reflexivity]. }
    destruct (sub_upd p j f e); [|congruence].
    destruct (sub_upd p j g e); [discriminate|]. intros _. exfalso.
    apply Hs; [discriminate | reflexivity].
Qed.

Lemma find_nth_error_eq : forall q k lvl d b1 b2, nth_error b1 k = nth_error b2 k ->
  find_in_body q k lvl d b1 = find_in_body q k lvl d b2.
Proof.
  intros q k lvl d b1 b2 H. destruct q as [|j q].
  - rewrite !find_in_body_nil, H. reflexivity.
  - rewrite !find_in_body_cons, H. reflexivity.
Qed.

(* an update succeeds exactly when the handle is valid and f accepts the node; the node
   at the handle is then replaced by its image *)
Lemma find_upd : forall p i f b lvl d e l' d',
  find_in_body p i lvl d b = Some (e, l', d') ->
  match f e with
  | Some e' => exists b', upd_in_body p i f b = Some b' /\
                          find_in_body p i lvl d b' = Some (e', l', d')
  | None => upd_in_body p i f b = None
  end.
Proof.
  intros p. induction p as [|j p IH]; intros i f b lvl d e l' d' H.
  - rewrite find_in_body_nil in H. destruct (nth_error b i) as [e0|] eqn:E; [|discriminate].
    injection H as H1 H2 H3. subst e0 l' d'. rewrite upd_in_body_nil, E.
    destruct (f e) as [e'|]; [|reflexivity].
    eexists. split; [reflexivity|].
    rewrite find_in_body_nil, nth_error_update_nth_eq, E. reflexivity.
  - rewrite find_in_body_cons in H.
    destruct (nth_error b i) as [e0|] eqn:E; [|discriminate].
    rewrite upd_in_body_cons, upd_in_body_nil, E.
    destruct e0 as [| | | |n a o body|t body]; try discriminate H; cbn [sub_find] in H;
      cbn [sub_upd]; specialize (IH j f body _ _ _ _ _ H); destruct (f e) as [e'|].
    + destruct IH as [body' [U F]]. rewrite U. cbn [option_map]. eexists. split; [reflexivity|].
      rewrite find_in_body_cons, nth_error_update_nth_eq, E. exact F.
    + rewrite IH. reflexivity.
    + destruct IH as [body' [U F]]. rewrite U. cbn [option_map]. eexists. split; [reflexivity|].
      rewrite find_in_body_cons, nth_error_update_nth_eq, E. exact F.
    + rewrite IH. reflexivity.
Qed.

Lemma upd_valid : forall p i f b b' lvl d, upd_in_body p i f b = Some b' ->
  exists e l' d', find_in_body p i lvl d b = Some (e, l', d') /\ f e <> None.
Proof.
  intros p. induction p as [|j p IH]; intros i f b b' lvl d H.
  - rewrite upd_in_body_nil in H. rewrite find_in_body_nil.
    destruct (nth_error b i) as [e0|]; [|discriminate].
    exists e0, lvl, d. split; [reflexivity|]. destruct (f e0); [discriminate | discriminate].
  - rewrite upd_in_body_cons, upd_in_body_nil in H. rewrite find_in_body_cons.
    destruct (nth_error b i) as [e0|]; [|discriminate].
    destruct e0 as [| | | |n a o body|t body]; try discriminate H; cbn [sub_upd] in H;
      cbn [sub_find]; destruct (upd_in_body p j f body) as [body'|] eqn:U;
      try discriminate H; eapply IH; exact U.
Qed.

Definition keeps_children (f : elem -> option elem) : Prop :=
  forall e e', f e = Some e' ->
  forall q j lvl d v, sub_find q j lvl d e = Some v -> sub_find q j lvl d e' = Some v.

(* handles that are not prefixes of the updated one still find what they found *)
Lemma upd_other : forall p i f b b', upd_in_body p i f b = Some b' -> keeps_children f ->
  forall q k lvl d v, is_prefix (k :: q) (i :: p) = false ->
  find_in_body q k lvl d b = Some v -> find_in_body q k lvl d b' = Some v.
Proof.
  intros p. induction p as [|j p IH]; intros i f b b' H K q k lvl d v Hp Hf.
  - rewrite upd_in_body_nil in H. destruct (nth_error b i) as [e|] eqn:E; [|discriminate].
    destruct (f e) as [e'|] eqn:Ef; [|discriminate]. injection H as H. subst b'.
    destruct (Nat.eqb_spec k i) as [Eki|Eki].
    + subst k. cbn [is_prefix] in Hp. rewrite Nat.eqb_refl in Hp. cbn [andb] in Hp.
      destruct q as [|j q]; [discriminate Hp|].
      rewrite find_in_body_cons in *. rewrite nth_error_update_nth_eq, E in *.
      cbn [option_map]. exact (K e e' Ef _ _ _ _ _ Hf).
    + rewrite <- Hf. apply find_nth_error_eq. apply nth_error_update_nth_ne. congruence.
  - rewrite upd_in_body_cons, upd_in_body_nil in H.
    destruct (nth_error b i) as [e|] eqn:E; [|discriminate].
    destruct (sub_upd p j f e) as [e'|] eqn:Es; [|discriminate]. injection H as H. subst b'.
    destruct (Nat.eqb_spec k i) as [Eki|Eki].
    + subst k. cbn [is_prefix] in Hp. rewrite Nat.eqb_refl in Hp. cbn [andb] in Hp.
      destruct q as [|j2 q]; [discriminate Hp|].
      rewrite find_in_body_cons in *. rewrite nth_error_update_nth_eq, E in *.
      cbn [option_map].
      destruct e as [| | | |n a o body|t body]; try discriminate Es; cbn [sub_upd] in Es;
        destruct (upd_in_body p j f body) as [body'|] eqn:U; try discriminate Es;
        injection Es as Es; subst e'; cbn [sub_find] in *;
        exact (IH j f body body' U K q j2 _ _ v Hp Hf).
    + rewrite <- Hf. apply find_nth_error_eq. apply nth_error_update_nth_ne. congruence.
Qed.

Fixpoint diverge (a b : list nat) : bool :=
  match a, b with
  | x :: a', y :: b' => negb (Nat.eqb x y) || diverge a' b'
  | _, _ => false
  end.

(* handles that leave the updated path see no change at all *)
Lemma upd_diverge : forall p i f b b', upd_in_body p i f b = Some b' ->
  forall q k lvl d, diverge (k :: q) (i :: p) = true ->
  find_in_body q k lvl d b' = find_in_body q k lvl d b.
Proof.
  intros p. induction p as [|j p IH]; intros i f b b' H q k lvl d Hd.
  - rewrite upd_in_body_nil in H. destruct (nth_error b i) as [e|] eqn:E; [|discriminate].
    destruct (f e) as [e'|] eqn:Ef; [|discriminate]. injection H as H. subst b'.
    cbn [diverge] in Hd. replace (diverge q []) with false in Hd by (destruct q; reflexivity).
    rewrite orb_false_r in Hd. apply negb_true_iff, Nat.eqb_neq in Hd.
    apply find_nth_error_eq. apply nth_error_update_nth_ne. congruence.
  - rewrite upd_in_body_cons, upd_in_body_nil in H.
    destruct (nth_error b i) as [e|] eqn:E; [|discriminate].
    destruct (sub_upd p j f e) as [e'|] eqn:Es; [|discriminate]. injection H as H. subst b'.
    destruct (Nat.eqb_spec k i) as [Eki|Eki].
    + subst k. cbn [diverge] in Hd. rewrite Nat.eqb_refl in Hd. cbn [negb orb] in Hd.
      destruct q as [|j2 q]; [discriminate Hd|].
      rewrite !find_in_body_cons. rewrite nth_error_update_nth_eq, E. cbn [option_map].
      destruct e as [| | | |n a o body|t body]; try discriminate Es; cbn [sub_upd] in Es;
        destruct (upd_in_body p j f body) as [body'|] eqn:U; try discriminate Es;
        injection Es as Es; subst e'; cbn [sub_find];
        exact (IH j f body body' U q j2 _ _ Hd).
    + apply find_nth_error_eq. apply nth_error_update_nth_ne. congruence.
Qed.

Definition same_head (e e' : elem) : Prop :=
  match e, e' with
  | Dir n a o _, Dir n' a' o' _ => n = n' /\ a = a' /\ o = o'
  | Sect t _, Sect t' _ => t = t'
  | _, _ => False
  end.

(* ancestors of the updated handle keep their kind, name, arguments and options *)
Lemma upd_ancestor : forall q k r f b b' lvl d e l' d', r <> [] ->
  upd_in_body (q ++ r) k f b = Some b' ->
  find_in_body q k lvl d b = Some (e, l', d') ->
  exists e', find_in_body q k lvl d b' = Some (e', l', d') /\ same_head e e'.
Proof.
  intros q. induction q as [|j2 q IH]; intros k r f b b' lvl d e l' d' Hr H Hf.
  - destruct r as [|j p]; [congruence|]. cbn [app] in H.
    rewrite upd_in_body_cons, upd_in_body_nil in H. rewrite find_in_body_nil in *.
    destruct (nth_error b k) as [e0|] eqn:E; [|discriminate].
    injection Hf as H1 H2 H3. subst e0 l' d'.
    destruct (sub_upd p j f e) as [e'|] eqn:Es; [|discriminate]. injection H as H. subst b'.
    exists e'. rewrite nth_error_update_nth_eq, E. split; [reflexivity|].
    destruct e as [| | | |n a o body|t body]; try discriminate Es; cbn [sub_upd] in Es;
      destruct (upd_in_body p j f body); try discriminate Es; injection Es as Es; subst e';
      cbn [same_head]; auto.
  - cbn [app] in H. rewrite upd_in_body_cons, upd_in_body_nil in H.
    rewrite find_in_body_cons in *.
    destruct (nth_error b k) as [e0|] eqn:E; [|discriminate].
    destruct (sub_upd (q ++ r) j2 f e0) as [e0'|] eqn:Es; [|discriminate].
    injection H as H. subst b'. rewrite nth_error_update_nth_eq, E. cbn [option_map].
    destruct e0 as [| | | |n a o body|t body]; try discriminate Es; cbn [sub_upd] in Es;
      destruct (upd_in_body (q ++ r) j2 f body) as [body'|] eqn:U; try discriminate Es;
      injection Es as Es; subst e0'; cbn [sub_find] in *;
      exact (IH j2 r f body body' _ _ e l' d' Hr U Hf).
Qed.

(* ---- lifting to states ---- *)

Definition app_state (h : handle) (f : elem -> option elem) (st : wstate) : wstate :=
  match upd_node h f st with Some st' => st' | None => st end.

Definition add_opt (n v : str) (e : elem) : option elem :=
  match e with Dir nm a o b => Some (Dir nm a (o ++ [(n, v)]) b) | _ => None end.

Lemma upd_node_cons : forall i p f st,
  upd_node (i :: p) f st
  = match upd_in_body p i f (w_body st) with
    | Some b => Some {| w_title := w_title st; w_body := b |}
    | None => None
    end.
Proof. reflexivity. Qed.

Lemma content_step_state : forall hdrs st o h x, content_op o = Some (h, x) ->
  fst (wstep hdrs st o) = app_state h (append_child x) st.
Proof.
  intros hdrs st o h x H. unfold app_state.
  destruct o; try discriminate H; cbn [content_op] in H; injection H as H1 H2; subst;
    cbn [wstep]; destruct (upd_node h _ st); reflexivity.
Qed.

Lemma option_step_state : forall hdrs st i p n v,
  fst (wstep hdrs st (OOption (i :: p) n v)) = app_state (i :: p) (add_opt n v) st.
Proof.
  intros. unfold app_state. cbn [wstep]. fold (add_opt n v).
  destruct (upd_node (i :: p) (add_opt n v) st); reflexivity.
Qed.

Lemma count_of_append : forall h x st st', upd_node h (append_child x) st = Some st' ->
  exists k, count_at h st = Some k.
Proof.
  intros h x st st' H. destruct h as [|i p]; [eexists; reflexivity|].
  rewrite upd_node_cons in H.
  destruct (upd_in_body p i (append_child x) (w_body st)) as [b'|] eqn:U; [|discriminate].
  destruct (upd_valid _ _ _ _ _ 0 0 U) as [e [l' [d' [F Ne]]]].
  unfold count_at, node_at. rewrite F.
  destruct e; try (exfalso; apply Ne; reflexivity); eexists; reflexivity.
Qed.

Lemma directive_step_state : forall hdrs st h n a,
  fst (wstep hdrs st (ODirective h n a)) = app_state h (append_child (Dir n a [] [])) st.
Proof.
  intros. unfold app_state. cbn [wstep].
  destruct (upd_node h (append_child (Dir n a [] [])) st) as [st'|] eqn:U.
  - destruct (count_of_append _ _ _ _ U) as [k Hk]. rewrite Hk. reflexivity.
  - destruct (count_at h st); reflexivity.
Qed.

(* two updates at the same handle whose node functions commute and whose domains are
   compatible commute as state transformers, whether or not they succeed *)
Lemma app_state_commute : forall i p fa fo st,
  (forall e, bind_opt (fa e) fo = bind_opt (fo e) fa) ->
  (forall e, fo e <> None -> bind_opt (fo e) fa <> None) ->
  app_state (i :: p) fo (app_state (i :: p) fa st)
  = app_state (i :: p) fa (app_state (i :: p) fo st).
Proof.
  intros i p fa fo st Hc Hd. unfold app_state.
  rewrite (upd_node_cons i p fa st), (upd_node_cons i p fo st).
  pose proof (upd_compose p i fa fo (w_body st)) as C1.
  pose proof (upd_compose p i fo fa (w_body st)) as C2.
  rewrite (upd_ext p i _ _ (w_body st) Hc) in C1. rewrite <- C2 in C1. clear C2.
  destruct (upd_in_body p i fo (w_body st)) as [b1'|] eqn:EO.
  - assert (Hs : upd_in_body p i fa b1' <> None).
    { change (upd_in_body p i fa b1') with (bind_opt (Some b1') (upd_in_body p i fa)).
      rewrite <- EO, upd_compose. apply (upd_dom p i fo); [exact Hd|]. congruence. }
    cbn [bind_opt] in C1.
    destruct (upd_in_body p i fa b1') as [b2'|] eqn:EA2; [|congruence].
    destruct (upd_in_body p i fa (w_body st)) as [b1|] eqn:EA; [|discriminate C1].
    cbn [bind_opt] in C1. rewrite !upd_node_cons. cbn [w_body w_title].
    rewrite C1, EA2. reflexivity.
  - cbn [bind_opt] in C1.
    destruct (upd_in_body p i fa (w_body st)) as [b1|] eqn:EA.
    + cbn [bind_opt] in C1. rewrite !upd_node_cons. cbn [w_body w_title].
      rewrite C1, EA. reflexivity.
    + rewrite !upd_node_cons. rewrite EO, EA. reflexivity.
Qed.

(* S4, API level: an option and a content element added to the same handle commute
   (in every case: if the handle is not a directive the option call is a no-op error) *)
Theorem option_then_content_commute : forall hdrs st o h x n v,
  content_op o = Some (h, x) \/ (exists nm a, o = ODirective h nm a /\ x = Dir nm a [] []) ->
  fst (wstep hdrs (fst (wstep hdrs st o)) (OOption h n v))
  = fst (wstep hdrs (fst (wstep hdrs st (OOption h n v))) o).
Proof.
  intros hdrs st o h x n v Ho.
  assert (Hst : forall st0, fst (wstep hdrs st0 o) = app_state h (append_child x) st0).
  { intros st0. destruct Ho as [Ho|[nm [a [Ho Hx]]]].
    - apply content_step_state. exact Ho.
    - subst o x. apply directive_step_state. }
  rewrite !Hst. destruct h as [|i p]; [reflexivity|].
  rewrite !option_step_state. apply app_state_commute.
  - intros e. destruct e; reflexivity.
  - intros e. destruct e; cbn [add_opt bind_opt append_child]; congruence.
Qed.

Corollary option_then_text_commute : forall hdrs st h t n v,
  fst (wstep hdrs (fst (wstep hdrs st (OText h t))) (OOption h n v))
  = fst (wstep hdrs (fst (wstep hdrs st (OOption h n v))) (OText h t)).
Proof.
  intros. apply (option_then_content_commute hdrs st (OText h t) h (Para t)).
  left. reflexivity.
Qed.

(* ------------------------------------------------------------------ *)
(* S4 (API level, continued): a directive accumulates its options and   *)
(* children in call order; the interleaving is irrelevant              *)

Lemma handle_eqb_eq : forall a b, handle_eqb a b = true <-> a = b.
Proof.
  unfold handle_eqb. intros a. induction a as [|x a IH]; intros b; destruct b as [|y b];
    cbn [list_eqb]; try (split; [discriminate | congruence]).
  - split; reflexivity.
  - rewrite andb_true_iff, Nat.eqb_eq, IH. split; [intros [H1 H2]; congruence|].
    intros H. injection H as H1 H2. auto.
Qed.

Lemma wrun_cons_fst : forall hdrs st o r,
  fst (wrun hdrs st (o :: r)) = fst (wrun hdrs (fst (wstep hdrs st o)) r).
Proof.
  intros. cbn [wrun]. destruct (wstep hdrs st o) as [st1 out]. cbn [fst].
  destruct (wrun hdrs st1 r). reflexivity.
Qed.

Lemma node_upd : forall h f st e lvl d e', node_at h st = Some (e, lvl, d) -> f e = Some e' ->
  exists st', upd_node h f st = Some st' /\ node_at h st' = Some (e', lvl, d) /\
              w_title st' = w_title st.
Proof.
  intros h f st e lvl d e' H Hf. destruct h as [|i p]; [discriminate H|].
  cbn [node_at] in H. pose proof (find_upd p i f _ _ _ _ _ _ H) as U. rewrite Hf in U.
  destruct U as [b' [U F]]. rewrite upd_node_cons, U. eexists. split; [reflexivity|].
  split; [exact F | reflexivity].
Qed.

Lemma addressed_cases : forall h o, addressed h o = true ->
  (exists n v, o = OOption h n v) \/ (exists x, content_op o = Some (h, x)).
Proof.
  intros h o H. destruct o; cbn [addressed content_op] in H; try discriminate H;
    apply handle_eqb_eq in H; subst;
    first [ left; do 2 eexists; reflexivity | right; eexists; reflexivity ].
Qed.

Theorem dir_accumulates : forall hdrs ops st h nm a o b lvl d,
  forallb (addressed h) ops = true ->
  node_at h st = Some (Dir nm a o b, lvl, d) ->
  node_at h (fst (wrun hdrs st ops))
  = Some (Dir nm a (o ++ opts_of ops) (b ++ kids_of ops), lvl, d).
Proof.
  intros hdrs ops. induction ops as [|op r IH]; intros st h nm a o b lvl d Ha Hn.
  - cbn [wrun fst opts_of kids_of flat_map]. rewrite !app_nil_r. exact Hn.
  - cbn [forallb] in Ha. apply andb_true_iff in Ha. destruct Ha as [Ha Hr].
    rewrite wrun_cons_fst.
    destruct (addressed_cases h op Ha) as [[n [v E]]|[x E]].
    + subst op. destruct h as [|i p]; [discriminate Hn|]. rewrite option_step_state.
      destruct (node_upd (i :: p) (add_opt n v) st _ _ _ _ Hn eq_refl) as [st' [U [N _]]].
      unfold app_state. rewrite U. rewrite (IH st' _ _ _ _ _ _ _ Hr N).
      cbn [opts_of kids_of flat_map content_op app]. rewrite <- app_assoc. reflexivity.
    + rewrite (content_step_state hdrs st op h x E).
      destruct (node_upd h (append_child x) st _ _ _ _ Hn eq_refl) as [st' [U [N _]]].
      unfold app_state. rewrite U. rewrite (IH st' _ _ _ _ _ _ _ Hr N).
      assert (Eo : opts_of (op :: r) = opts_of r).
      { destruct op; try discriminate E; reflexivity. }
      rewrite Eo. cbn [kids_of flat_map]. rewrite E. cbn [app]. rewrite <- app_assoc.
      reflexivity.
Qed.

(* the text of the directive depends only on the sequence of options and the sequence of
   content elements, not on how the calls were interleaved *)
Theorem interleaving_irrelevant : forall hdrs st h nm a o b lvl d ops1 ops2,
  node_at h st = Some (Dir nm a o b, lvl, d) ->
  forallb (addressed h) ops1 = true -> forallb (addressed h) ops2 = true ->
  opts_of ops1 = opts_of ops2 -> kids_of ops1 = kids_of ops2 ->
  snd (wstep hdrs (fst (wrun hdrs st ops1)) (OToText h))
  = WText (elem_text hdrs lvl d (Dir nm a (o ++ opts_of ops1) (b ++ kids_of ops1))) /\
  snd (wstep hdrs (fst (wrun hdrs st ops1)) (OToText h))
  = snd (wstep hdrs (fst (wrun hdrs st ops2)) (OToText h)).
Proof.
  intros hdrs st h nm a o b lvl d ops1 ops2 Hn H1 H2 Eo Ek.
  pose proof (dir_accumulates hdrs ops1 st h _ _ _ _ _ _ H1 Hn) as N1.
  pose proof (dir_accumulates hdrs ops2 st h _ _ _ _ _ _ H2 Hn) as N2.
  rewrite <- Eo, <- Ek in N2.
  destruct h as [|i p]; [discriminate Hn|].
  cbn [wstep]. rewrite N1, N2. split; reflexivity.
Qed.

Example ex_interleaving :
  let st := fst (wrun [s"#"] (winit (s"T")) [ODirective [] (s"d") [s"x"]]) in
  snd (wstep [s"#"] (fst (wrun [s"#"] st
        [OText [0] (s"p"); OOption [0] (s"k") (s"v"); OBullets [0] [s"i"];
         OOption [0] (s"k2") (s"v2")])) (OToText [0]))
  = snd (wstep [s"#"] (fst (wrun [s"#"] st
        [OOption [0] (s"k") (s"v"); OOption [0] (s"k2") (s"v2"); OText [0] (s"p");
         OBullets [0] [s"i"]])) (OToText [0]))
  /\ lines (match snd (wstep [s"#"] (fst (wrun [s"#"] st
        [OText [0] (s"p"); OOption [0] (s"k") (s"v"); OBullets [0] [s"i"];
         OOption [0] (s"k2") (s"v2")])) (OToText [0])) with WText t => t | _ => [] end)
     = [ []; s".. d:: x"; s"   :k: v"; s"   :k2: v2"; []; s"   p"; []; s"   * i"; []; [] ].
Proof. vm_compute. split; reflexivity. Qed.

(* ------------------------------------------------------------------ *)
(* S5 (API level): add_child appends as the last child of that node     *)

Lemma find_app : forall q j lvl d b b2 v, find_in_body q j lvl d b = Some v ->
  find_in_body q j lvl d (b ++ b2) = Some v.
Proof.
  intros q j lvl d b b2 v H. rewrite <- H. apply find_nth_error_eq.
  assert (Hj : nth_error b j <> None).
  { destruct q; [rewrite find_in_body_nil in H | rewrite find_in_body_cons in H];
      destruct (nth_error b j); congruence. }
  apply nth_error_app1. apply nth_error_Some. exact Hj.
Qed.

Lemma keeps_children_append : forall x, keeps_children (append_child x).
Proof.
  intros x e e' H q j lvl d v Hf.
  destruct e; try discriminate H; cbn [append_child] in H; injection H as H; subst e';
    cbn [sub_find] in *; apply find_app; exact Hf.
Qed.

Lemma keeps_children_add_opt : forall n v, keeps_children (add_opt n v).
Proof.
  intros n v e e' H q j lvl d v0 Hf.
  destruct e; try discriminate H; cbn [add_opt] in H; injection H as H; subst e'. exact Hf.
Qed.

Theorem append_at_handle : forall hdrs st h t nm a o b lvl d,
  node_at h st = Some (Dir nm a o b, lvl, d) ->
  let st' := fst (wstep hdrs st (OText h t)) in
  snd (wstep hdrs st (OText h t)) = WNone /\
  node_at h st' = Some (Dir nm a o (b ++ [Para t]), lvl, d) /\
  w_title st' = w_title st /\
  length (w_body st') = length (w_body st) /\
  (forall h' v, is_prefix h' h = false -> node_at h' st = Some v -> node_at h' st' = Some v) /\
  (forall h' e l' d', strict_prefix h' h = true -> node_at h' st = Some (e, l', d') ->
     exists e', node_at h' st' = Some (e', l', d') /\ same_head e e').
Proof.
  intros hdrs st h t nm a o b lvl d Hn st'.
  destruct (node_upd h (append_child (Para t)) st _ _ _ _ Hn eq_refl) as [st1 [U [N T]]].
  assert (E : wstep hdrs st (OText h t) = (st1, WNone)).
  { cbn [wstep]. rewrite U. reflexivity. }
  subst st'. rewrite E. cbn [fst snd].
  split; [reflexivity|]. split; [exact N|]. split; [exact T|].
  destruct h as [|i p]; [discriminate Hn|]. rewrite upd_node_cons in U.
  destruct (upd_in_body p i (append_child (Para t)) (w_body st)) as [b'|] eqn:Ub;
    [|discriminate U]. injection U as U. subst st1. cbn [w_body].
  split; [|split].
  - clear - Ub. revert Ub. destruct p as [|j p].
    + rewrite upd_in_body_nil. destruct (nth_error (w_body st) i); [|discriminate].
      destruct (append_child (Para t) e); [|discriminate]. intros H. injection H as H.
      subst b'. clear. revert i. induction (w_body st) as [|x r IH]; intros i;
        destruct i; cbn [update_nth length]; auto.
    + rewrite upd_in_body_cons, upd_in_body_nil. destruct (nth_error (w_body st) i); [|discriminate].
      destruct (sub_upd p j (append_child (Para t)) e); [|discriminate]. intros H.
      injection H as H. subst b'. clear. revert i. induction (w_body st) as [|x r IH]; intros i;
        destruct i; cbn [update_nth length]; auto.
  - intros h' v Hp Hf. destruct h' as [|k q]; [discriminate Hf|]. cbn [node_at w_body] in *.
    exact (upd_other p i _ _ _ Ub (keeps_children_append _) q k 0 0 v Hp Hf).
  - intros h' e l' d' Hp Hf. destruct h' as [|k q]; [discriminate Hf|]. cbn [node_at w_body] in *.
    unfold strict_prefix in Hp. apply andb_true_iff in Hp. destruct Hp as [Hp Hne].
    assert (Hr : exists r, r <> [] /\ i :: p = (k :: q) ++ r).
    { clear - Hp Hne. revert Hp Hne. generalize (i :: p) as hh. generalize (k :: q) as h'.
      induction h' as [|x h' IH]; intros hh Hp Hne.
      - exists hh. split; [|reflexivity]. intros ->. discriminate Hne.
      - destruct hh as [|y hh]; [discriminate Hp|]. cbn [is_prefix] in Hp.
        apply andb_true_iff in Hp. destruct Hp as [Hxy Hp]. apply Nat.eqb_eq in Hxy. subst y.
        unfold handle_eqb in *. cbn [list_eqb] in Hne. rewrite Nat.eqb_refl in Hne.
        cbn [andb] in Hne. destruct (IH hh Hp Hne) as [r [Hr1 Hr2]]. exists r.
        split; [exact Hr1|]. cbn [app]. congruence. }
    destruct Hr as [r [Hr1 Hr2]]. cbn [app] in Hr2. injection Hr2 as Hi Hp2. subst k p.
    exact (upd_ancestor q i r _ _ _ _ _ _ _ _ Hr1 Ub Hf).
Qed.

(* the literal reading `node_at h' is unchanged for every h' that is not a prefix of h`
   is false for the handle of the freshly added child: it was invalid, now it is valid *)
Example append_new_child_handle :
  let st := fst (wrun [s"#"] (winit (s"T")) [ODirective [] (s"d") []]) in
  is_prefix [0; 0] [0] = false /\
  node_at [0; 0] st = None /\
  node_at [0; 0] (fst (wstep [s"#"] st (OText [0] (s"p")))) = Some (Para (s"p"), 0, 1).
Proof. vm_compute. repeat split; reflexivity. Qed.

(* ------------------------------------------------------------------ *)
(* S6: handles stay valid                                               *)

Definition set_title_f (t : str) (e : elem) : option elem :=
  match e with
  | Dir _ a o b => Some (Dir t a o b)
  | Sect _ b => Some (Sect t b)
  | _ => None
  end.
Definition clear_f (e : elem) : option elem :=
  match e with
  | Dir n a o _ => Some (Dir n a o [])
  | Sect t _ => Some (Sect t [])
  | _ => None
  end.
Definition dir_stable (f : elem -> option elem) : Prop :=
  forall nm a o bd e', f (Dir nm a o bd) = Some e' -> exists o' bd', e' = Dir nm a o' bd'.

Lemma settitle_step_state : forall hdrs st h t,
  fst (wstep hdrs st (OSetTitle h t)) = app_state h (set_title_f t) st.
Proof.
  intros. unfold app_state, set_title_f. cbn [wstep]. destruct (upd_node h _ st); reflexivity.
Qed.

Lemma clear_step_state : forall hdrs st h,
  fst (wstep hdrs st (OClear h)) = app_state h clear_f st.
Proof.
  intros. unfold app_state, clear_f. cbn [wstep]. destruct (upd_node h _ st); reflexivity.
Qed.

Lemma section_step_state : forall hdrs st h t,
  fst (wstep hdrs st (OSection h t)) = st \/
  fst (wstep hdrs st (OSection h t)) = app_state h (append_child (Sect t [])) st.
Proof.
  intros. unfold app_state. cbn [wstep].
  destruct (own_level h st); [|left; reflexivity].
  destruct (count_at h st); [|left; reflexivity].
  destruct (S n <? length hdrs); [|left; reflexivity].
  destruct (upd_node h (append_child (Sect t [])) st); [right | left]; reflexivity.
Qed.

Lemma is_prefix_app : forall a b, is_prefix a b = true -> exists r, b = a ++ r.
Proof.
  intros a. induction a as [|x a IH]; intros b H; [exists b; reflexivity|].
  destruct b as [|y b]; [discriminate H|]. cbn [is_prefix] in H.
  apply andb_true_iff in H. destruct H as [H1 H2]. apply Nat.eqb_eq in H1. subst y.
  destruct (IH b H2) as [r Hr]. exists r. cbn [app]. congruence.
Qed.

Lemma is_prefix_antisym : forall a b, is_prefix a b = true -> is_prefix b a = true -> a = b.
Proof.
  intros a. induction a as [|x a IH]; intros b H1 H2; destruct b as [|y b];
    try reflexivity; try discriminate.
  cbn [is_prefix] in H1, H2. apply andb_true_iff in H1. apply andb_true_iff in H2.
  destruct H1 as [E1 P1]. destruct H2 as [_ P2]. apply Nat.eqb_eq in E1. subst y.
  f_equal. exact (IH b P1 P2).
Qed.

Lemma prefix_trichotomy : forall a b,
  diverge a b = true \/ is_prefix a b = true \/ is_prefix b a = true.
Proof.
  intros a. induction a as [|x a IH]; intros b; [right; left; reflexivity|].
  destruct b as [|y b]; [right; right; reflexivity|].
  cbn [diverge is_prefix]. rewrite (Nat.eqb_sym y x).
  destruct (x =? y); cbn [negb orb andb]; [apply IH | left; reflexivity].
Qed.

Lemma strict_prefix_spec : forall a b,
  strict_prefix a b = true <-> is_prefix a b = true /\ a <> b.
Proof.
  intros a b. unfold strict_prefix. rewrite andb_true_iff, negb_true_iff.
  split; intros [H1 H2]; split; try exact H1.
  - intros E. apply handle_eqb_eq in E. congruence.
  - destruct (handle_eqb a b) eqn:E; [|reflexivity]. apply handle_eqb_eq in E. contradiction.
Qed.

Lemma upd_keeps_dir : forall p0 i0 f b b' p i lvl d nm a o bd l' d',
  upd_in_body p0 i0 f b = Some b' ->
  find_in_body p i lvl d b = Some (Dir nm a o bd, l', d') ->
  (i0 :: p0 = i :: p -> dir_stable f) ->
  (strict_prefix (i0 :: p0) (i :: p) = true -> keeps_children f) ->
  exists o' bd', find_in_body p i lvl d b' = Some (Dir nm a o' bd', l', d').
Proof.
  intros p0 i0 f b b' p i lvl d nm a o bd l' d' H Hf Hs Hk.
  destruct (list_eq_dec Nat.eq_dec (i0 :: p0) (i :: p)) as [E|NE].
  - specialize (Hs E). injection E as E1 E2. subst i0 p0.
    pose proof (find_upd p i f b lvl d _ _ _ Hf) as U.
    destruct (f (Dir nm a o bd)) as [e'|] eqn:Ef; [|congruence].
    destruct U as [b'' [U F]]. rewrite H in U. injection U as U. subst b''.
    destruct (Hs _ _ _ _ _ Ef) as [o' [bd' E']]. subst e'. exists o', bd'. exact F.
  - destruct (prefix_trichotomy (i :: p) (i0 :: p0)) as [D|[P|P]].
    + rewrite (upd_diverge p0 i0 f b b' H p i lvl d D). exists o, bd. exact Hf.
    + destruct (is_prefix_app _ _ P) as [r Hr]. cbn [app] in Hr. injection Hr as E1 E2.
      subst i0 p0.
      assert (Hr : r <> []). { intros ->. rewrite app_nil_r in NE. congruence. }
      destruct (upd_ancestor p i r f b b' lvl d _ _ _ Hr H Hf) as [e' [F S]].
      destruct e'; cbn [same_head] in S; try contradiction.
      destruct S as [S1 [S2 S3]]. subst. eexists _, _. exact F.
    + assert (SP : strict_prefix (i0 :: p0) (i :: p) = true).
      { apply strict_prefix_spec. split; assumption. }
      assert (NP : is_prefix (i :: p) (i0 :: p0) = false).
      { destruct (is_prefix (i :: p) (i0 :: p0)) eqn:Q; [|reflexivity].
        exfalso. apply NE. apply is_prefix_antisym; assumption. }
      exists o, bd. exact (upd_other p0 i0 f b b' H (Hk SP) p i lvl d _ NP Hf).
Qed.

Lemma app_state_keeps : forall h0 f st h nm a o bd lvl d,
  node_at h st = Some (Dir nm a o bd, lvl, d) -> h0 <> [] ->
  (h0 = h -> dir_stable f) -> (strict_prefix h0 h = true -> keeps_children f) ->
  exists o' bd', node_at h (app_state h0 f st) = Some (Dir nm a o' bd', lvl, d).
Proof.
  intros h0 f st h nm a o bd lvl d Hn H0 Hs Hk.
  destruct h0 as [|i0 p0]; [congruence|]. destruct h as [|i p]; [discriminate Hn|].
  unfold app_state. rewrite upd_node_cons.
  destruct (upd_in_body p0 i0 f (w_body st)) as [b'|] eqn:U; [|exists o, bd; exact Hn].
  cbn [node_at w_body] in *. exact (upd_keeps_dir _ _ _ _ _ _ _ _ _ _ _ _ _ _ _ U Hn Hs Hk).
Qed.

Lemma dir_stable_append : forall x, dir_stable (append_child x).
Proof. intros x nm a o bd e' H. injection H as H. subst e'. eauto. Qed.
Lemma dir_stable_add_opt : forall n v, dir_stable (add_opt n v).
Proof. intros n v nm a o bd e' H. injection H as H. subst e'. eauto. Qed.
Lemma dir_stable_clear : dir_stable clear_f.
Proof. intros nm a o bd e' H. injection H as H. subst e'. eauto. Qed.
Lemma keeps_children_set_title : forall t, keeps_children (set_title_f t).
Proof.
  intros t e e' H q j lvl d v Hf.
  destruct e; try discriminate H; cbn [set_title_f] in H; injection H as H; subst e'; exact Hf.
Qed.

Lemma append_keeps : forall h0 x st h nm a o bd lvl d,
  node_at h st = Some (Dir nm a o bd, lvl, d) ->
  exists o' bd', node_at h (app_state h0 (append_child x) st) = Some (Dir nm a o' bd', lvl, d).
Proof.
  intros h0 x st h nm a o bd lvl d Hn. destruct h0 as [|i0 p0].
  - exists o, bd. unfold app_state. cbn [upd_node append_child].
    destruct h as [|i p]; [discriminate Hn|]. cbn [node_at w_body] in *.
    apply find_app. exact Hn.
  - eapply app_state_keeps; [exact Hn | discriminate | |].
    + intros _. apply dir_stable_append.
    + intros _. apply keeps_children_append.
Qed.

Lemma step_keeps_handle : forall hdrs st op h nm a o bd lvl d,
  node_at h st = Some (Dir nm a o bd, lvl, d) -> harmless h op = true ->
  exists o' bd', node_at h (fst (wstep hdrs st op)) = Some (Dir nm a o' bd', lvl, d).
Proof.
  intros hdrs st op h nm a o bd lvl d Hn Hh.
  destruct (content_op op) as [[h0 x]|] eqn:Ec.
  { rewrite (content_step_state hdrs st op h0 x Ec). eapply append_keeps; exact Hn. }
  destruct op as [| | | | |h0 n0 a0|h0 t0|h0 n0 v0|h0 t0|h0|h0]; try discriminate Ec.
  - rewrite directive_step_state. eapply append_keeps; exact Hn.
  - destruct (section_step_state hdrs st h0 t0) as [E|E]; rewrite E.
    + exists o, bd. exact Hn.
    + eapply append_keeps; exact Hn.
  - destruct h0 as [|i0 p0]; [exists o, bd; exact Hn|].
    rewrite option_step_state. eapply app_state_keeps; [exact Hn | discriminate | |].
    + intros _. apply dir_stable_add_opt.
    + intros _. apply keeps_children_add_opt.
  - rewrite settitle_step_state. cbn [harmless] in Hh. apply negb_true_iff in Hh.
    destruct h0 as [|i0 p0].
    + exists o, bd. unfold app_state. cbn [upd_node set_title_f].
      destruct h as [|i p]; [discriminate Hn|]. exact Hn.
    + eapply app_state_keeps; [exact Hn | discriminate | |].
      * intros E. apply handle_eqb_eq in E. congruence.
      * intros _. apply keeps_children_set_title.
  - rewrite clear_step_state. cbn [harmless] in Hh. apply negb_true_iff in Hh.
    destruct h0 as [|i0 p0].
    + destruct h as [|i p]; [discriminate Hn | discriminate Hh].
    + eapply app_state_keeps; [exact Hn | discriminate | |].
      * intros _. apply dir_stable_clear.
      * intros E. congruence.
  - rewrite to_text_pure. exists o, bd. exact Hn.
Qed.

(* a valid directive handle keeps naming a directive with the same name and arguments,
   at the same section level and depth, through any run of harmless operations *)
Theorem handles_stable : forall hdrs ops st h nm a o bd lvl d,
  node_at h st = Some (Dir nm a o bd, lvl, d) -> forallb (harmless h) ops = true ->
  exists o' bd', node_at h (fst (wrun hdrs st ops)) = Some (Dir nm a o' bd', lvl, d).
Proof.
  intros hdrs ops. induction ops as [|op r IH]; intros st h nm a o bd lvl d Hn Hh.
  - exists o, bd. exact Hn.
  - cbn [forallb] in Hh. apply andb_true_iff in Hh. destruct Hh as [H1 H2].
    rewrite wrun_cons_fst.
    destruct (step_keeps_handle hdrs st op h _ _ _ _ _ _ Hn H1) as [o1 [bd1 N1]].
    exact (IH _ _ _ _ _ _ _ _ N1 H2).
Qed.

Lemma find_snoc : forall p i n lvl d b,
  find_in_body (p ++ [n]) i lvl d b
  = match find_in_body p i lvl d b with
    | Some (e, l', d') => sub_find [] n l' d' e
    | None => None
    end.
Proof.
  intros p. induction p as [|j p IH]; intros i n lvl d b.
  - cbn [app]. rewrite find_in_body_cons, find_in_body_nil.
    destruct (nth_error b i); reflexivity.
  - cbn [app]. rewrite !find_in_body_cons. destruct (nth_error b i) as [e|]; [|reflexivity].
    destruct e; try reflexivity; cbn [sub_find]; apply IH.
Qed.

(* the handle returned by directive() names the new, empty directive *)
Theorem directive_handle_valid : forall hdrs st h nm a st' h',
  wstep hdrs st (ODirective h nm a) = (st', WHandle h') ->
  exists lvl d, node_at h' st' = Some (Dir nm a [] [], lvl, d).
Proof.
  intros hdrs st h nm a st' h' H. cbn [wstep] in H.
  destruct (count_at h st) as [n|] eqn:Ec; [|discriminate H].
  destruct (upd_node h (append_child (Dir nm a [] [])) st) as [st1|] eqn:U; [|discriminate H].
  injection H as H1 H2. subst st1 h'. destruct h as [|i p].
  - cbn [upd_node append_child] in U. injection U as U. subst st'.
    cbn [count_at] in Ec. injection Ec as Ec. subst n. exists 0, 0.
    cbn [app node_at w_body]. rewrite find_in_body_nil.
    rewrite nth_error_app2 by lia. rewrite Nat.sub_diag. reflexivity.
  - rewrite upd_node_cons in U.
    destruct (upd_in_body p i (append_child (Dir nm a [] [])) (w_body st)) as [b'|] eqn:Ub;
      [|discriminate U]. injection U as U. subst st'.
    destruct (upd_valid _ _ _ _ _ 0 0 Ub) as [e [l' [d' [F Ne]]]].
    pose proof (find_upd p i (append_child (Dir nm a [] [])) _ _ _ _ _ _ F) as FU.
    cbn [count_at node_at] in Ec. rewrite F in Ec.
    change ((i :: p) ++ [n]) with (i :: (p ++ [n])). cbn [node_at w_body]. rewrite find_snoc.
    destruct e as [| | | |n1 a1 o1 body|t1 body]; try (exfalso; apply Ne; reflexivity);
      cbn [append_child children_count] in FU, Ec; injection Ec as Ec; subst n;
      destruct FU as [b'' [U2 F2]]; rewrite Ub in U2; injection U2 as U2; subst b'';
      rewrite F2; cbn [sub_find]; rewrite find_in_body_nil;
      rewrite nth_error_app2 by lia; rewrite Nat.sub_diag; eexists _, _; reflexivity.
Qed.

Theorem directive_handle_stable : forall hdrs st h nm a st' h' ops,
  wstep hdrs st (ODirective h nm a) = (st', WHandle h') ->
  forallb (harmless h') ops = true ->
  exists o' bd' lvl d, node_at h' (fst (wrun hdrs st' ops)) = Some (Dir nm a o' bd', lvl, d).
Proof.
  intros hdrs st h nm a st' h' ops H Hh.
  destruct (directive_handle_valid _ _ _ _ _ _ _ H) as [lvl [d N]].
  destruct (handles_stable hdrs ops st' h' _ _ _ _ _ _ N Hh) as [o' [bd' N']].
  exists o', bd', lvl, d. exact N'.
Qed.

(* the two exclusions are necessary *)
Example clear_ancestor_invalidates :
  let st := fst (wrun [s"#"] (winit (s"T"))
                   [ODirective [] (s"outer") []; ODirective [0] (s"inner") []]) in
  node_at [0; 0] st = Some (Dir (s"inner") [] [] [], 0, 1) /\
  node_at [0; 0] (fst (wstep [s"#"] st (OClear [0]))) = None /\
  node_at [0; 0] (fst (wstep [s"#"] st (OClear []))) = None.
Proof. vm_compute. repeat split; reflexivity. Qed.

Example set_title_renames :
  let st := fst (wrun [s"#"] (winit (s"T")) [ODirective [] (s"d") [s"x"]]) in
  node_at [0] (fst (wstep [s"#"] st (OSetTitle [0] (s"e")))) = Some (Dir (s"e") [s"x"] [] [], 0, 0).
Proof. vm_compute. reflexivity. Qed.

Example handles_stable_nonvacuous :
  let st := fst (wrun [s"#"; s"*"] (winit (s"T"))
                   [ODirective [] (s"outer") []; ODirective [0] (s"inner") [s"q"]]) in
  let ops := [OText [0] (s"p"); OOption [0; 0] (s"k") (s"v"); OClear [0; 0]; OSetTitle [0] (s"o2");
              OSection [] (s"sec"); OText [0; 0] (s"again"); OClear [1]] in
  forallb (harmless [0; 0]) ops = true /\
  node_at [0; 0] (fst (wrun [s"#"; s"*"] st ops))
  = Some (Dir (s"inner") [s"q"] [(s"k", s"v")] [Para (s"again")], 0, 1).
Proof. vm_compute. split; reflexivity. Qed.

(* ==== MAIN THEOREMS ====
   S0  split_on_app_sep split_on_no_sep split_on_no_sep_In split_join join_split
       split_on_nonempty concat_split repeat_str_single length_repeat_str_single
   S1  to_text_pure to_text_run_pure to_text_run_outputs to_text_repeatable wrun_app
   S2  heading_frame heading_frame_lines heading_lines_gen doc_text_starts_with_frame
       sect_uses_next_level retitle_reframes retitle_then_text clear_keeps_title
   S3  lines_indented para_lines length_indent field_lines bullet_lines enum_lines_exact
       dir_lines_gen dir_lines option_lines dir_content_deeper
       (necessity of the side conditions: doctest_not_indented field_newline_not_indented)
   S4  options_before_content option_then_content_commute option_then_text_commute
       dir_accumulates interleaving_irrelevant
   S5  body_text_app order_preserved append_at_handle
       (literal reading refuted for the new child: append_new_child_handle)
   S6  handles_stable directive_handle_valid directive_handle_stable
       (necessity of the exclusions: clear_ancestor_invalidates set_title_renames)
*)
Print Assumptions split_on_app_sep.
Print Assumptions split_on_no_sep.
Print Assumptions split_join.
Print Assumptions join_split.
Print Assumptions concat_split.
Print Assumptions repeat_str_single.
Print Assumptions to_text_pure.
Print Assumptions to_text_run_pure.
Print Assumptions to_text_run_outputs.
Print Assumptions to_text_repeatable.
Print Assumptions wrun_app.
Print Assumptions heading_frame.
Print Assumptions heading_frame_lines.
Print Assumptions heading_lines_gen.
Print Assumptions doc_text_starts_with_frame.
Print Assumptions sect_uses_next_level.
Print Assumptions retitle_reframes.
Print Assumptions retitle_then_text.
Print Assumptions clear_keeps_title.
Print Assumptions lines_indented.
Print Assumptions para_lines.
Print Assumptions length_indent.
Print Assumptions field_lines.
Print Assumptions bullet_lines.
Print Assumptions enum_lines_exact.
Print Assumptions dir_lines_gen.
Print Assumptions dir_lines.
Print Assumptions dir_content_deeper.
Print Assumptions options_before_content.
Print Assumptions option_then_content_commute.
Print Assumptions dir_accumulates.
Print Assumptions interleaving_irrelevant.
Print Assumptions body_text_app.
Print Assumptions order_preserved.
Print Assumptions append_at_handle.
Print Assumptions handles_stable.
Print Assumptions directive_handle_valid.
Print Assumptions directive_handle_stable.
