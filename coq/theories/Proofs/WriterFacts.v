(* Proofs/WriterFacts.v -- property C20: the RSTWriter model (Model/Writer.v).
   S0 string lemmas (split_on / join / concat), S1 to_text is pure and repeatable,
   S2 title frame, S3 indentation of every line inside nested directives,
   S4 options before content (+ API level commutation), S5 order of elements,
   S6 stability of handles. *)
From Coq Require Import String List NArith Bool Arith Lia.
From CMinx Require Import Base.Str Model.Writer.
Import ListNotations.

(* ---- spec ---- *)

(* Python  x.split(newline)  *)
Definition lines (x : str) : list str := split_on nl x.

Definition no_nl (x : str) : bool := negb (mem nl x).
Definition opt_ok (o : str * str) : bool := no_nl (fst o) && no_nl (snd o).

(* no Sect and no DocTest anywhere inside e; field names/texts, list items, directive
   names/arguments, option names/values contain no newline.  Paragraph text is arbitrary. *)
Fixpoint plain (e : elem) : bool :=
  match e with
  | Para _ => true
  | Field n t => no_nl n && no_nl t
  | RList _ items => forallb no_nl items
  | DocTest _ _ => false
  | Dir n a o b => no_nl n && forallb no_nl a && forallb opt_ok o && forallb plain b
  | Sect _ _ => false
  end.

(* a line is empty or starts with the 3*d spaces of depth d *)
Definition ind_ok (d : nat) (l : str) : Prop := l = [] \/ startswith (indent d) l = true.

(* the single lines the simple elements consist of *)
Definition dir_head_line (d : nat) (n : str) (a : list str) : str :=
  indent d ++ s".. " ++ n ++ s":: " ++ join (s",") a.
Definition field_line (d : nat) (n t : str) : str := indent d ++ s":" ++ n ++ s": " ++ t.
Definition bullet_line (d : nat) (x : str) : str := indent d ++ s"* " ++ x.
Definition enum_line (d : nat) (k : nat) (x : str) : str :=
  indent d ++ dec_of_nat k ++ s". " ++ x.
Definition enum_lines (d i : nat) (items : list str) : list str :=
  map (fun p => enum_line d (fst p) (snd p)) (combine (seq i (length items)) items).

(* all lines of a directive after the empty line and the heading line *)
Definition dir_rest_lines (hdrs : list str) (d : nat) (o : list (str * str)) (b : list elem)
  : list str :=
  concat (map (fun x => lines (option_text (S d) x)) o)
  ++ (match b with [] => [] | _ :: _ => [[]] end)
  ++ concat (map (fun x => lines (elem_text hdrs 0 (S d) x)) b) ++ [[]].

Definition is_totext (o : wop) : bool :=
  match o with OToText _ => true | _ => false end.

(* the five content operations that go through add_child without returning a handle *)
Definition content_op (o : wop) : option (handle * elem) :=
  match o with
  | OText h t => Some (h, Para t)
  | OField h n t => Some (h, Field n t)
  | OBullets h items => Some (h, RList false items)
  | OEnum h items => Some (h, RList true items)
  | ODocTest h l x => Some (h, DocTest l x)
  | _ => None
  end.

Fixpoint is_prefix (a b : list nat) : bool :=
  match a, b with
  | [], _ => true
  | x :: a', y :: b' => Nat.eqb x y && is_prefix a' b'
  | _ :: _, [] => false
  end.

(* ------------------------------------------------------------------ *)
(* S0: strings                                                          *)

Lemma split_on_nonempty : forall c x, split_on c x <> [].
Proof.
  intros c x. destruct x as [|a r]; cbn [split_on]; [discriminate|].
  destruct (N.eqb a c); [discriminate|].
  destruct (split_on c r); discriminate.
Qed.

Lemma split_on_cons_eq : forall c r, split_on c (c :: r) = [] :: split_on c r.
Proof. intros c r. cbn [split_on]. rewrite N.eqb_refl. reflexivity. Qed.

Lemma split_on_cons_ne : forall c a r, a <> c ->
  split_on c (a :: r) = (a :: hd [] (split_on c r)) :: tl (split_on c r).
Proof.
  intros c a r H. cbn [split_on]. destruct (N.eqb_spec a c) as [E|E]; [contradiction|].
  destruct (split_on c r) eqn:Er; [exfalso; eapply split_on_nonempty; eauto | reflexivity].
Qed.

(* the exact law for a separator in the middle, for arbitrary a *)
Lemma split_on_app_sep : forall c a b,
  split_on c (a ++ c :: b) = split_on c a ++ split_on c b.
Proof.
  intros c a b. induction a as [|x a IH].
  - cbn [app]. rewrite split_on_cons_eq. reflexivity.
  - cbn [app]. destruct (N.eqb_spec x c) as [E|E].
    + subst x. rewrite !split_on_cons_eq, IH. reflexivity.
    + rewrite !split_on_cons_ne by assumption. rewrite IH.
      destruct (split_on c a) eqn:Ea; [exfalso; eapply split_on_nonempty; eauto|].
      reflexivity.
Qed.

Lemma mem_app : forall c a b, mem c (a ++ b) = mem c a || mem c b.
Proof.
  intros c a b. induction a as [|x a IH]; cbn [app mem]; [reflexivity|].
  rewrite IH, orb_assoc. reflexivity.
Qed.

Lemma mem_In : forall c a, mem c a = true <-> In c a.
Proof.
  intros c a. induction a as [|x a IH]; cbn [mem In].
  - split; [discriminate | intros []].
  - rewrite orb_true_iff, IH, N.eqb_eq. split; intros [H|H]; auto.
Qed.

Lemma split_on_no_sep : forall c a, mem c a = false -> split_on c a = [a].
Proof.
  intros c a. induction a as [|x a IH]; intros H; [reflexivity|].
  cbn [mem] in H. apply orb_false_iff in H. destruct H as [H1 H2].
  apply N.eqb_neq in H1.
  rewrite split_on_cons_ne by congruence. rewrite (IH H2). reflexivity.
Qed.

Lemma split_on_no_sep_In : forall c a, ~ In c a -> split_on c a = [a].
Proof.
  intros c a H. apply split_on_no_sep. destruct (mem c a) eqn:E; [|reflexivity].
  apply mem_In in E. contradiction.
Qed.

Lemma split_on_parts_no_sep : forall c x, Forall (fun l => mem c l = false) (split_on c x).
Proof.
  intros c x. induction x as [|a r IH].
  - constructor; [reflexivity | constructor].
  - destruct (N.eqb_spec a c) as [E|E].
    + subst a. rewrite split_on_cons_eq. constructor; [reflexivity | exact IH].
    + rewrite split_on_cons_ne by assumption.
      destruct (split_on c r) as [|h t] eqn:Er; [exfalso; eapply split_on_nonempty; eauto|].
      inversion IH as [|h' t' Hh Ht]; subst. cbn [hd tl]. constructor; [|exact Ht].
      cbn [mem]. rewrite Hh, orb_false_r. apply N.eqb_neq. congruence.
Qed.

Lemma join_split : forall c x, join [c] (split_on c x) = x.
Proof.
  intros c x. induction x as [|a r IH]; [reflexivity|].
  destruct (N.eqb_spec a c) as [E|E].
  - subst a. rewrite split_on_cons_eq.
    destruct (split_on c r) as [|h t] eqn:Er; [exfalso; eapply split_on_nonempty; eauto|].
    change (join [c] ([] :: h :: t)) with ([] ++ [c] ++ join [c] (h :: t)).
    cbn [app]. rewrite IH. reflexivity.
  - rewrite split_on_cons_ne by assumption.
    destruct (split_on c r) as [|h t] eqn:Er; [exfalso; eapply split_on_nonempty; eauto|].
    cbn [hd tl]. destruct t as [|h2 t].
    + cbn [join] in *. subst r. reflexivity.
    + change (join [c] ((a :: h) :: h2 :: t)) with (a :: (h ++ [c] ++ join [c] (h2 :: t))).
      change (join [c] (h :: h2 :: t)) with (h ++ [c] ++ join [c] (h2 :: t)) in IH.
      rewrite IH. reflexivity.
Qed.

Lemma split_join : forall c ls, Forall (fun l => mem c l = false) ls -> ls <> [] ->
  split_on c (join [c] ls) = ls.
Proof.
  intros c ls H. induction H as [|x r Hx Hr IH]; intros Hne; [congruence|].
  destruct r as [|y r'].
  - cbn [join]. apply split_on_no_sep; assumption.
  - change (join [c] (x :: y :: r')) with (x ++ c :: join [c] (y :: r')).
    rewrite split_on_app_sep, IH by discriminate.
    rewrite split_on_no_sep by assumption. reflexivity.
Qed.

(* re-assembling the lines, each followed by the separator *)
Lemma concat_split : forall c x,
  concat (map (fun l => l ++ [c]) (split_on c x)) = x ++ [c].
Proof.
  intros c x. induction x as [|a r IH]; [reflexivity|].
  destruct (N.eqb_spec a c) as [E|E].
  - subst a. rewrite split_on_cons_eq. cbn [map concat app]. rewrite IH. reflexivity.
  - rewrite split_on_cons_ne by assumption.
    destruct (split_on c r) as [|h t] eqn:Er; [exfalso; eapply split_on_nonempty; eauto|].
    cbn [hd tl map concat app] in *. rewrite IH. reflexivity.
Qed.

Lemma repeat_str_single : forall n c, repeat_str n [c] = repeat c n.
Proof. intros n c. induction n as [|n IH]; cbn [repeat_str repeat app]; congruence. Qed.

Lemma length_repeat_str_single : forall n c, length (repeat_str n [c]) = n.
Proof. intros n c. rewrite repeat_str_single. apply repeat_length. Qed.

Lemma mem_repeat : forall c x n, c <> x -> mem c (repeat x n) = false.
Proof.
  intros c x n H. induction n as [|n IH]; [reflexivity|].
  cbn [repeat mem]. rewrite IH, orb_false_r. apply N.eqb_neq. exact H.
Qed.

Lemma no_nl_app : forall a b, no_nl (a ++ b) = no_nl a && no_nl b.
Proof. intros a b. unfold no_nl. rewrite mem_app, negb_orb. reflexivity. Qed.

Lemma no_nl_indent : forall d, no_nl (indent d) = true.
Proof.
  intros d. unfold no_nl, indent, spaces. rewrite mem_repeat; [reflexivity|].
  unfold nl, sp. discriminate.
Qed.

Lemma no_nl_join : forall sep l, no_nl sep = true -> forallb no_nl l = true ->
  no_nl (join sep l) = true.
Proof.
  intros sep l Hs. induction l as [|x r IH]; intros H; [reflexivity|].
  cbn [forallb] in H. apply andb_true_iff in H. destruct H as [Hx Hr].
  destruct r as [|y r']; [exact Hx|].
  change (join sep (x :: y :: r')) with (x ++ sep ++ join sep (y :: r')).
  rewrite !no_nl_app, Hx, Hs, (IH Hr). reflexivity.
Qed.

Lemma mem_dec_go : forall f n acc, mem nl (dec_go f n acc) = mem nl acc.
Proof.
  intros f. induction f as [|f IH]; intros n acc; [reflexivity|].
  cbn [dec_go].
  assert (E : mem nl (digit_char (n mod 10) :: acc) = mem nl acc).
  { cbn [mem]. replace (N.eqb nl (digit_char (n mod 10))) with false; [reflexivity|].
    symmetry. apply N.eqb_neq. unfold nl, digit_char. lia. }
  destruct (n / 10 =? 0); [exact E|]. rewrite IH. exact E.
Qed.

Lemma no_nl_dec : forall n, no_nl (dec_of_nat n) = true.
Proof. intros n. unfold no_nl, dec_of_nat. rewrite mem_dec_go. reflexivity. Qed.

Lemma startswith_app_self : forall p x, startswith p (p ++ x) = true.
Proof.
  intros p x. induction p as [|a p IH]; [reflexivity|].
  cbn [app startswith]. rewrite N.eqb_refl. exact IH.
Qed.

Lemma startswith_app_l : forall p q x, startswith (p ++ q) x = true -> startswith p x = true.
Proof.
  intros p q. induction p as [|a p IH]; intros x H; [reflexivity|].
  destruct x as [|b x]; cbn [app startswith] in *; [discriminate|].
  apply andb_true_iff in H. destruct H as [H1 H2]. rewrite H1. exact (IH _ H2).
Qed.

Lemma indent_S : forall d, indent (S d) = indent d ++ spaces 3.
Proof.
  intros d. unfold indent, spaces, indent_unit.
  replace (3 * S d) with (3 * d + 3) by lia. apply repeat_app.
Qed.

Lemma length_indent : forall d, length (indent d) = 3 * d.
Proof. intros d. unfold indent, spaces, indent_unit. apply repeat_length. Qed.

Lemma ind_ok_weaken : forall d l, ind_ok (S d) l -> ind_ok d l.
Proof.
  intros d l [H|H]; [left; exact H | right].
  rewrite indent_S in H. exact (startswith_app_l _ _ _ H).
Qed.

Lemma ind_ok_indent_app : forall d x, ind_ok d (indent d ++ x).
Proof. intros d x. right. apply startswith_app_self. Qed.

(* ---- lines ---- *)

Lemma lines_app_nl : forall a b, lines (a ++ nl :: b) = lines a ++ lines b.
Proof. intros a b. apply split_on_app_sep. Qed.

Lemma lines_nl_cons : forall b, lines (nl :: b) = [] :: lines b.
Proof. intros b. apply split_on_cons_eq. Qed.

Lemma lines_no_nl : forall x, no_nl x = true -> lines x = [x].
Proof.
  intros x H. apply split_on_no_sep. unfold no_nl in H.
  destruct (mem nl x); [discriminate | reflexivity].
Qed.

Lemma lines_nonempty : forall x, lines x <> [].
Proof. intros x. apply split_on_nonempty. Qed.

Lemma join_lines : forall x, join [nl] (lines x) = x.
Proof. intros x. apply join_split. Qed.

(* a sequence of chunks each terminated by a newline *)
Lemma lines_chunks : forall (A : Type) (f : A -> str) (l : list A) (rest : str),
  lines (concat (map (fun x => f x ++ [nl]) l) ++ rest)
  = concat (map (fun x => lines (f x)) l) ++ lines rest.
Proof.
  intros A f l rest. induction l as [|x r IH]; [reflexivity|].
  cbn [map concat]. rewrite <- !app_assoc. cbn [app].
  rewrite lines_app_nl, IH, app_assoc. reflexivity.
Qed.

Lemma lines_body_text : forall hdrs lvl d b,
  lines (body_text hdrs lvl d b)
  = concat (map (fun x => lines (elem_text hdrs lvl d x)) b) ++ [[]].
Proof.
  intros hdrs lvl d b. unfold body_text.
  rewrite <- (app_nil_r (concat (map (fun x => elem_text hdrs lvl d x ++ [nl]) b))).
  rewrite lines_chunks. reflexivity.
Qed.

Lemma concat_map_singleton : forall (A B : Type) (g : A -> list B) (f : A -> B) (l : list A),
  (forall x, In x l -> g x = [f x]) -> concat (map g l) = map f l.
Proof.
  intros A B g f l. induction l as [|x r IH]; intros H; [reflexivity|].
  cbn [map concat]. rewrite (H x (or_introl eq_refl)), IH; [reflexivity|].
  intros y Hy. apply H. right. exact Hy.
Qed.

Lemma Forall_concat_map : forall (A B : Type) (P : B -> Prop) (g : A -> list B) (l : list A),
  (forall x, In x l -> Forall P (g x)) -> Forall P (concat (map g l)).
Proof.
  intros A B P g l. induction l as [|x r IH]; intros H; [constructor|].
  cbn [map concat]. apply Forall_app. split.
  - apply H. left. reflexivity.
  - apply IH. intros y Hy. apply H. right. exact Hy.
Qed.

(* induction principle for elem with the nested lists *)
Definition elem_ind2 (P : elem -> Prop)
  (HPara : forall t, P (Para t))
  (HField : forall n t, P (Field n t))
  (HList : forall en items, P (RList en items))
  (HDoc : forall l x, P (DocTest l x))
  (HDir : forall n a o b, Forall P b -> P (Dir n a o b))
  (HSect : forall t b, Forall P b -> P (Sect t b))
  : forall e, P e :=
  fix go (e : elem) : P e :=
    match e with
    | Para t => HPara t
    | Field n t => HField n t
    | RList en items => HList en items
    | DocTest l x => HDoc l x
    | Dir n a o b =>
        HDir n a o b ((fix gl (l : list elem) : Forall P l :=
                         match l with
                         | [] => Forall_nil P
                         | x :: r => Forall_cons x (go x) (gl r)
                         end) b)
    | Sect t b =>
        HSect t b ((fix gl (l : list elem) : Forall P l :=
                      match l with
                      | [] => Forall_nil P
                      | x :: r => Forall_cons x (go x) (gl r)
                      end) b)
    end.

(* ------------------------------------------------------------------ *)
(* S2: the title frame                                                  *)

Theorem heading_frame : forall c title,
  heading_text [c] title
  = [nl] ++ repeat c (length title) ++ [nl] ++ title ++ [nl] ++ repeat c (length title).
Proof. intros c title. unfold heading_text. rewrite repeat_str_single. reflexivity. Qed.

Theorem heading_frame_lines : forall c title, c <> nl -> no_nl title = true ->
  lines (heading_text [c] title)
  = [[]; repeat c (length title); title; repeat c (length title)].
Proof.
  intros c title Hc Ht. rewrite heading_frame. cbn [app].
  assert (Hbar : no_nl (repeat c (length title)) = true).
  { unfold no_nl. rewrite mem_repeat; [reflexivity | congruence]. }
  rewrite lines_nl_cons, lines_app_nl, lines_app_nl, !lines_no_nl by assumption.
  reflexivity.
Qed.

Lemma no_nl_repeat_str : forall n hc, no_nl hc = true -> no_nl (repeat_str n hc) = true.
Proof.
  intros n hc H. induction n as [|n IH]; [reflexivity|].
  cbn [repeat_str]. rewrite no_nl_app, H, IH. reflexivity.
Qed.

(* any heading string (also more than one character per column) *)
Theorem heading_lines_gen : forall hc title, no_nl hc = true -> no_nl title = true ->
  lines (heading_text hc title)
  = [[]; repeat_str (length title) hc; title; repeat_str (length title) hc].
Proof.
  intros hc title Hc Ht. unfold heading_text. cbn [app].
  pose proof (no_nl_repeat_str (length title) hc Hc) as Hbar.
  rewrite lines_nl_cons, lines_app_nl, lines_app_nl, !lines_no_nl by assumption.
  reflexivity.
Qed.

Theorem doc_text_starts_with_frame : forall hdrs title body,
  doc_text hdrs title body
  = heading_text (nth 0 hdrs []) title ++ [nl] ++ body_text hdrs 0 0 body.
Proof. reflexivity. Qed.

Theorem sect_uses_next_level : forall hdrs lvl d title body,
  elem_text hdrs lvl d (Sect title body)
  = heading_text (nth (S lvl) hdrs []) title ++ [nl] ++ body_text hdrs (S lvl) 0 body.
Proof. reflexivity. Qed.

Theorem retitle_reframes : forall hdrs st t',
  wstep hdrs st (OSetTitle [] t') = ({| w_title := t'; w_body := w_body st |}, WNone).
Proof. reflexivity. Qed.

Theorem retitle_then_text : forall hdrs st t',
  snd (wstep hdrs (fst (wstep hdrs st (OSetTitle [] t'))) (OToText []))
  = WText (heading_text (nth 0 hdrs []) t' ++ [nl] ++ body_text hdrs 0 0 (w_body st)).
Proof. reflexivity. Qed.

Theorem clear_keeps_title : forall hdrs st,
  wstep hdrs st (OClear []) = ({| w_title := w_title st; w_body := [] |}, WNone).
Proof. reflexivity. Qed.

(* ------------------------------------------------------------------ *)
(* S1: to_text is pure and repeatable                                   *)

Theorem to_text_pure : forall hdrs st h, fst (wstep hdrs st (OToText h)) = st.
Proof.
  intros hdrs st h. cbn [wstep]. destruct h as [|i p]; [reflexivity|].
  destruct (node_at (i :: p) st) as [[[e lvl] d]|]; [|reflexivity].
  destruct e; reflexivity.
Qed.

Theorem wrun_app : forall hdrs st a b,
  wrun hdrs st (a ++ b)
  = (fst (wrun hdrs (fst (wrun hdrs st a)) b),
     snd (wrun hdrs st a) ++ snd (wrun hdrs (fst (wrun hdrs st a)) b)).
Proof.
  intros hdrs st a b. revert st. induction a as [|o r IH]; intros st.
  - cbn [app wrun fst snd]. destruct (wrun hdrs st b); reflexivity.
  - cbn [app wrun]. destruct (wstep hdrs st o) as [st1 out] eqn:E1.
    rewrite IH. destruct (wrun hdrs st1 r) as [st2 outs] eqn:E2. cbn [fst snd].
    reflexivity.
Qed.

Theorem to_text_run_pure : forall hdrs ops st, forallb is_totext ops = true ->
  fst (wrun hdrs st ops) = st.
Proof.
  intros hdrs ops. induction ops as [|o r IH]; intros st H; [reflexivity|].
  cbn [forallb] in H. apply andb_true_iff in H. destruct H as [Ho Hr].
  cbn [wrun]. destruct (wstep hdrs st o) as [st1 out] eqn:E1.
  destruct (wrun hdrs st1 r) as [st2 outs] eqn:E2. cbn [fst].
  destruct o; try discriminate Ho.
  pose proof (to_text_pure hdrs st h) as Hp. rewrite E1 in Hp. cbn [fst] in Hp. subst st1.
  specialize (IH st Hr). rewrite E2 in IH. exact IH.
Qed.

(* every to_text in a run of to_text calls answers exactly what a single call answers *)
Theorem to_text_run_outputs : forall hdrs ops st, forallb is_totext ops = true ->
  snd (wrun hdrs st ops) = map (fun o => snd (wstep hdrs st o)) ops.
Proof.
  intros hdrs ops. induction ops as [|o r IH]; intros st H; [reflexivity|].
  cbn [forallb] in H. apply andb_true_iff in H. destruct H as [Ho Hr].
  cbn [wrun map]. destruct (wstep hdrs st o) as [st1 out] eqn:E1.
  destruct (wrun hdrs st1 r) as [st2 outs] eqn:E2. cbn [snd].
  destruct o; try discriminate Ho.
  pose proof (to_text_pure hdrs st h) as Hp. rewrite E1 in Hp. cbn [fst] in Hp. subst st1.
  specialize (IH st Hr). rewrite E2 in IH. cbn [snd] in IH. rewrite IH. reflexivity.
Qed.

Theorem to_text_repeatable : forall hdrs st ops h, forallb is_totext ops = true ->
  fst (wrun hdrs st (OToText h :: ops ++ [OToText h])) = st /\
  exists out outs, snd (wrun hdrs st (OToText h :: ops ++ [OToText h]))
                   = out :: outs ++ [out].
Proof.
  intros hdrs st ops h H.
  assert (Hall : forallb is_totext (OToText h :: ops ++ [OToText h]) = true).
  { cbn [forallb is_totext]. rewrite forallb_app, H. reflexivity. }
  split; [apply to_text_run_pure; exact Hall|].
  rewrite to_text_run_outputs by exact Hall.
  exists (snd (wstep hdrs st (OToText h))), (map (fun o => snd (wstep hdrs st o)) ops).
  cbn [map]. rewrite map_app. reflexivity.
Qed.

(* ------------------------------------------------------------------ *)
(* S5 (text level): order of elements                                   *)

Theorem body_text_app : forall hdrs lvl d b1 b2,
  body_text hdrs lvl d (b1 ++ b2) = body_text hdrs lvl d b1 ++ body_text hdrs lvl d b2.
Proof. intros. unfold body_text. rewrite map_app, concat_app. reflexivity. Qed.

Theorem order_preserved : forall hdrs t b x,
  doc_text hdrs t (b ++ [x]) = doc_text hdrs t b ++ elem_text hdrs 0 0 x ++ [nl].
Proof.
  intros. unfold doc_text. rewrite body_text_app, <- !app_assoc.
  unfold body_text at 2. cbn [map concat]. rewrite app_nil_r. reflexivity.
Qed.

(* ------------------------------------------------------------------ *)
(* S4 (text level): options directly after the heading, before content *)

Theorem options_before_content : forall hdrs lvl d n a opts body,
  elem_text hdrs lvl d (Dir n a opts body)
  = dir_heading d n a ++ [nl]
    ++ concat (map (fun o => option_text (S d) o ++ [nl]) opts)
    ++ (match body with [] => [] | _ :: _ => [nl] end)
    ++ body_text hdrs 0 (S d) body.
Proof. reflexivity. Qed.

(* ------------------------------------------------------------------ *)
(* S3: every line inside directives nested d deep starts with 3*d spaces *)

(* a paragraph: every line, in order, prefixed by exactly 3*d spaces (no side condition) *)
Theorem para_lines : forall d t,
  lines (para_text d t) = map (fun l => indent d ++ l) (lines t).
Proof.
  intros d t. unfold para_text, lines. apply split_join.
  - apply Forall_forall. intros x Hx. apply in_map_iff in Hx.
    destruct Hx as [l [Hl Hin]]. subst x.
    pose proof (split_on_parts_no_sep nl t) as Hall.
    rewrite Forall_forall in Hall. specialize (Hall l Hin).
    rewrite mem_app, Hall, orb_false_r.
    pose proof (no_nl_indent d) as Hi. unfold no_nl in Hi.
    destruct (mem nl (indent d)); [discriminate | reflexivity].
  - destruct (split_on nl t) eqn:E; [exfalso; eapply split_on_nonempty; eauto | discriminate].
Qed.

Theorem field_lines : forall d n t, no_nl n = true -> no_nl t = true ->
  lines (field_text d n t) = [[]; field_line d n t].
Proof.
  intros d n t Hn Ht. unfold field_text. cbn [app]. rewrite lines_nl_cons.
  rewrite lines_no_nl; [reflexivity|].
  rewrite !no_nl_app, no_nl_indent, Hn, Ht. reflexivity.
Qed.

Lemma bullet_items_concat : forall d items,
  bullet_items d items = concat (map (fun x => bullet_line d x ++ [nl]) items).
Proof.
  intros d items. induction items as [|x r IH]; [reflexivity|].
  cbn [bullet_items map concat]. rewrite IH. unfold bullet_line.
  rewrite <- !app_assoc. reflexivity.
Qed.

Lemma enum_items_concat : forall d items i,
  enum_items d i items
  = concat (map (fun p => enum_line d (fst p) (snd p) ++ [nl])
                (combine (seq i (length items)) items)).
Proof.
  intros d items. induction items as [|x r IH]; intros i; [reflexivity|].
  cbn [enum_items length seq combine map concat fst snd]. rewrite IH. unfold enum_line.
  rewrite <- !app_assoc. reflexivity.
Qed.

Theorem bullet_lines : forall d items, forallb no_nl items = true ->
  lines (list_text d false items) = [] :: map (bullet_line d) items ++ [[]].
Proof.
  intros d items H. unfold list_text. cbn [app]. rewrite lines_nl_cons.
  rewrite bullet_items_concat.
  rewrite <- (app_nil_r (concat (map (fun x => bullet_line d x ++ [nl]) items))).
  rewrite lines_chunks. f_equal. f_equal.
  apply concat_map_singleton. intros x Hx. apply lines_no_nl.
  rewrite forallb_forall in H. unfold bullet_line.
  rewrite !no_nl_app, no_nl_indent, (H x Hx). reflexivity.
Qed.

Theorem enum_lines_exact : forall d items, forallb no_nl items = true ->
  lines (list_text d true items) = [] :: enum_lines d 1 items ++ [[]].
Proof.
  intros d items H. unfold list_text, enum_lines. cbn [app]. rewrite lines_nl_cons.
  rewrite enum_items_concat.
  rewrite <- (app_nil_r (concat (map _ (combine (seq 1 (length items)) items)))).
  rewrite (lines_chunks _ (fun p => enum_line d (fst p) (snd p))). f_equal. f_equal.
  apply concat_map_singleton. intros [k x] Hx. apply lines_no_nl.
  apply in_combine_r in Hx. rewrite forallb_forall in H. unfold enum_line. cbn [fst snd].
  rewrite !no_nl_app, no_nl_indent, no_nl_dec, (H x Hx). reflexivity.
Qed.

Lemma no_nl_dir_head_line : forall d n a, no_nl n = true -> forallb no_nl a = true ->
  no_nl (dir_head_line d n a) = true.
Proof.
  intros d n a Hn Ha. unfold dir_head_line.
  rewrite !no_nl_app, no_nl_indent, Hn, (no_nl_join (s",") a eq_refl Ha). reflexivity.
Qed.

(* exact line structure of a directive, no side condition *)
Theorem dir_lines_gen : forall hdrs lvl d n a o b,
  lines (elem_text hdrs lvl d (Dir n a o b))
  = [] :: lines (dir_head_line d n a) ++ dir_rest_lines hdrs d o b.
Proof.
  intros hdrs lvl d n a o b. rewrite options_before_content.
  change (dir_heading d n a) with (nl :: dir_head_line d n a).
  cbn [app]. rewrite lines_nl_cons, lines_app_nl. f_equal. f_equal.
  rewrite lines_chunks. unfold dir_rest_lines. f_equal.
  destruct b as [|x r].
  - reflexivity.
  - change ([nl] ++ body_text hdrs 0 (S d) (x :: r)) with (nl :: body_text hdrs 0 (S d) (x :: r)).
    rewrite lines_nl_cons, lines_body_text. reflexivity.
Qed.

(* the empty line, then the heading line `.. name:: args`, then the rest *)
Theorem dir_lines : forall hdrs lvl d n a o b, no_nl n = true -> forallb no_nl a = true ->
  lines (elem_text hdrs lvl d (Dir n a o b))
  = [] :: dir_head_line d n a :: dir_rest_lines hdrs d o b.
Proof.
  intros hdrs lvl d n a o b Hn Ha. rewrite dir_lines_gen.
  rewrite (lines_no_nl _ (no_nl_dir_head_line d n a Hn Ha)). reflexivity.
Qed.

Theorem option_lines : forall d o, opt_ok o = true ->
  lines (option_text d o) = [field_line d (fst o) (snd o)].
Proof.
  intros d o H. unfold opt_ok in H. apply andb_true_iff in H. destruct H as [H1 H2].
  change (field_line d (fst o) (snd o)) with (option_text d o).
  apply lines_no_nl. unfold option_text.
  rewrite !no_nl_app, no_nl_indent, H1, H2. reflexivity.
Qed.

Lemma dir_rest_deeper : forall hdrs d o b,
  forallb opt_ok o = true ->
  Forall (fun x => Forall (ind_ok (S d)) (lines (elem_text hdrs 0 (S d) x))) b ->
  Forall (ind_ok (S d)) (dir_rest_lines hdrs d o b).
Proof.
  intros hdrs d o b Ho Hb. unfold dir_rest_lines.
  apply Forall_app. split; [|apply Forall_app; split; [|apply Forall_app; split]].
  - apply Forall_concat_map. intros x Hx. rewrite forallb_forall in Ho.
    rewrite (option_lines _ _ (Ho x Hx)). constructor; [|constructor].
    unfold field_line. apply ind_ok_indent_app.
  - destruct b; [constructor|]. constructor; [left; reflexivity | constructor].
  - apply Forall_concat_map. intros x Hx. rewrite Forall_forall in Hb. exact (Hb x Hx).
  - constructor; [left; reflexivity | constructor].
Qed.

(* MAIN: every line of a plain element at depth d is empty or starts with 3*d spaces *)
Theorem lines_indented : forall hdrs lvl d e, plain e = true ->
  Forall (ind_ok d) (lines (elem_text hdrs lvl d e)).
Proof.
  intros hdrs lvl d e. revert lvl d.
  induction e as [t|n t|en items|l x|n a o b IH|t b IH] using elem_ind2; intros lvl d Hp.
  - cbn [elem_text]. rewrite para_lines. apply Forall_forall. intros x Hx.
    apply in_map_iff in Hx. destruct Hx as [y [Hy _]]. subst x. apply ind_ok_indent_app.
  - cbn [plain] in Hp. apply andb_true_iff in Hp. destruct Hp as [Hn Ht].
    cbn [elem_text]. rewrite field_lines by assumption.
    constructor; [left; reflexivity|]. constructor; [|constructor].
    unfold field_line. apply ind_ok_indent_app.
  - cbn [plain] in Hp. cbn [elem_text]. destruct en.
    + rewrite enum_lines_exact by assumption. constructor; [left; reflexivity|].
      apply Forall_app. split; [|constructor; [left; reflexivity | constructor]].
      unfold enum_lines. apply Forall_forall. intros y Hy. apply in_map_iff in Hy.
      destruct Hy as [p [Hp' _]]. subst y. unfold enum_line. apply ind_ok_indent_app.
    + rewrite bullet_lines by assumption. constructor; [left; reflexivity|].
      apply Forall_app. split; [|constructor; [left; reflexivity | constructor]].
      apply Forall_forall. intros y Hy. apply in_map_iff in Hy.
      destruct Hy as [p [Hp' _]]. subst y. unfold bullet_line. apply ind_ok_indent_app.
  - discriminate Hp.
  - cbn [plain] in Hp. apply andb_true_iff in Hp. destruct Hp as [Hp Hb].
    apply andb_true_iff in Hp. destruct Hp as [Hp Ho].
    apply andb_true_iff in Hp. destruct Hp as [Hn Ha].
    rewrite dir_lines by assumption.
    constructor; [left; reflexivity|]. constructor.
    { unfold dir_head_line. apply ind_ok_indent_app. }
    eapply Forall_impl; [intros l0 Hl0; apply ind_ok_weaken; exact Hl0|].
    apply dir_rest_deeper; [exact Ho|].
    rewrite forallb_forall in Hb. rewrite Forall_forall in IH |- *.
    intros x Hx. apply (IH x Hx). exact (Hb x Hx).
  - discriminate Hp.
Qed.

(* the content of a directive at depth d is at depth S d *)
Theorem dir_content_deeper : forall hdrs lvl d n a o b, plain (Dir n a o b) = true ->
  lines (elem_text hdrs lvl d (Dir n a o b))
    = [] :: dir_head_line d n a :: dir_rest_lines hdrs d o b /\
  Forall (ind_ok (S d)) (skipn 2 (lines (elem_text hdrs lvl d (Dir n a o b)))).
Proof.
  intros hdrs lvl d n a o b Hp. cbn [plain] in Hp.
  apply andb_true_iff in Hp. destruct Hp as [Hp Hb].
  apply andb_true_iff in Hp. destruct Hp as [Hp Ho].
  apply andb_true_iff in Hp. destruct Hp as [Hn Ha].
  rewrite dir_lines by assumption. split; [reflexivity|]. cbn [skipn].
  apply dir_rest_deeper; [exact Ho|].
  rewrite forallb_forall in Hb. apply Forall_forall. intros x Hx.
  apply lines_indented. exact (Hb x Hx).
Qed.

(* non-vacuity: a directive nested 3 deep with options, a multi-line paragraph with its
   own indentation, a bullet list and an enumerated list *)
Definition ex_nested : elem :=
  Dir (s"a") [s"x"; s"y"] [(s"o1", s"v1")]
    [Para (s"line1" ++ [nl] ++ s"  own indent" ++ [nl] ++ [nl] ++ s"line4");
     RList false [s"i1"; s"i2"];
     Dir (s"b") [] [(s"k", s"v"); (s"k2", s"v2")]
       [Field (s"f") (s"t");
        Dir (s"c") [s"z"] []
          [Para (s"deep" ++ [nl] ++ s" deeper"); RList true [s"one"; s"two"]]]].

Example ex_nested_plain : plain ex_nested = true.
Proof. vm_compute. reflexivity. Qed.

Example ex_nested_lines :
  lines (elem_text [s"#"; s"*"] 0 0 ex_nested)
  = [ [];
      s".. a:: x,y";
      s"   :o1: v1";
      [];
      s"   line1";
      s"     own indent";
      s"   ";
      s"   line4";
      [];
      s"   * i1";
      s"   * i2";
      [];
      [];
      s"   .. b:: ";
      s"      :k: v";
      s"      :k2: v2";
      [];
      [];
      s"      :f: t";
      [];
      s"      .. c:: z";
      [];
      s"         deep";
      s"          deeper";
      [];
      s"         1. one";
      s"         2. two";
      [];
      [];
      [];
      [] ].
Proof. vm_compute. reflexivity. Qed.

Example ex_nested_indented :
  Forall (ind_ok 1) (skipn 2 (lines (elem_text [s"#"; s"*"] 0 0 ex_nested))).
Proof. apply (dir_content_deeper [s"#"; s"*"] 0 0). apply ex_nested_plain. Qed.

(* the side conditions of `plain` are necessary: the expected-output line of a DocTest and
   the continuation line of a field text with a newline are not indented *)
Example doctest_not_indented :
  ~ Forall (ind_ok 1) (lines (elem_text [] 0 1 (DocTest (s"f()") (s"42")))).
Proof.
  vm_compute. intros H.
  inversion H as [|x1 r1 _ H1]; subst. inversion H1 as [|x2 r2 _ H2]; subst.
  inversion H2 as [|x3 r3 H3 _]; subst. destruct H3 as [H3|H3]; discriminate H3.
Qed.

Example field_newline_not_indented :
  ~ Forall (ind_ok 1) (lines (elem_text [] 0 1 (Field (s"Default value") (s"a" ++ [nl] ++ s"b")))).
Proof.
  vm_compute. intros H.
  inversion H as [|x1 r1 _ H1]; subst. inversion H1 as [|x2 r2 _ H2]; subst.
  inversion H2 as [|x3 r3 H3 _]; subst. destruct H3 as [H3|H3]; discriminate H3.
Qed.

(* ------------------------------------------------------------------ *)
(* the state machine: updates and lookups along handles                 *)

Definition sub_upd (p : list nat) (j : nat) (f : elem -> option elem) (e : elem)
  : option elem :=
  match e with
  | Dir n a o body => option_map (Dir n a o) (upd_in_body p j f body)
  | Sect t body => option_map (Sect t) (upd_in_body p j f body)
  | _ => None
  end.

Definition sub_find (q : list nat) (j : nat) (lvl d : nat) (e : elem)
  : option (elem * nat * nat) :=
  match e with
  | Dir _ _ _ body => find_in_body q j 0 (S d) body
  | Sect _ body => find_in_body q j (S lvl) 0 body
  | _ => None
  end.

Definition bind_opt {A B : Type} (x : option A) (f : A -> option B) : option B :=
  match x with Some a => f a | None => None end.

Lemma upd_in_body_nil : forall i f b,
  upd_in_body [] i f b
  = match nth_error b i with
    | None => None
    | Some e => match f e with
                | Some e' => Some (update_nth i (fun _ => e') b)
                | None => None
                end
    end.
Proof. reflexivity. Qed.

Lemma upd_in_body_cons : forall j p i f b,
  upd_in_body (j :: p) i f b = upd_in_body [] i (sub_upd p j f) b.
Proof.
  intros j p i f b. rewrite upd_in_body_nil. cbn [upd_in_body].
  destruct (nth_error b i) as [e|]; [|reflexivity].
  destruct e; try reflexivity; cbn [sub_upd]; destruct (upd_in_body p j f body);
    reflexivity.
Qed.

Lemma find_in_body_nil : forall k lvl d b,
  find_in_body [] k lvl d b
  = match nth_error b k with Some e => Some (e, lvl, d) | None => None end.
Proof. reflexivity. Qed.

Lemma find_in_body_cons : forall j q k lvl d b,
  find_in_body (j :: q) k lvl d b
  = match nth_error b k with Some e => sub_find q j lvl d e | None => None end.
Proof.
  intros. cbn [find_in_body]. destruct (nth_error b k) as [e|]; [|reflexivity].
  destruct e; reflexivity.
Qed.

Lemma nth_error_update_nth_eq : forall (A : Type) (g : A -> A) b i,
  nth_error (update_nth i g b) i = option_map g (nth_error b i).
Proof.
  intros A g b. induction b as [|x r IH]; intros i; destruct i as [|i]; try reflexivity.
  cbn [update_nth nth_error]. apply IH.
Qed.

Lemma nth_error_update_nth_ne : forall (A : Type) (g : A -> A) b i k, i <> k ->
  nth_error (update_nth i g b) k = nth_error b k.
Proof.
  intros A g b. induction b as [|x r IH]; intros i k H; [destruct i; reflexivity|].
  destruct i as [|i]; destruct k as [|k]; try reflexivity; try congruence.
  cbn [update_nth nth_error]. apply IH. congruence.
Qed.

Lemma update_nth_twice : forall (A : Type) (x y : A) b i,
  update_nth i (fun _ => y) (update_nth i (fun _ => x) b) = update_nth i (fun _ => y) b.
Proof.
  intros A x y b. induction b as [|z r IH]; intros i; [destruct i; reflexivity|].
  destruct i as [|i]; [reflexivity|]. cbn [update_nth]. rewrite IH. reflexivity.
Qed.

(* one level: composition, extensionality, domain *)
Lemma upd_nil_compose : forall i f g b,
  bind_opt (upd_in_body [] i f b) (upd_in_body [] i g)
  = upd_in_body [] i (fun e => bind_opt (f e) g) b.
Proof.
  intros i f g b. rewrite !upd_in_body_nil.
  destruct (nth_error b i) as [e|] eqn:E; [|reflexivity].
  destruct (f e) as [e1|]; [|reflexivity]. cbn [bind_opt].
  rewrite upd_in_body_nil, nth_error_update_nth_eq, E. cbn [option_map].
  destruct (g e1) as [e2|]; [|reflexivity]. rewrite update_nth_twice. reflexivity.
Qed.

Lemma upd_nil_ext : forall i f g b, (forall e, f e = g e) ->
  upd_in_body [] i f b = upd_in_body [] i g b.
Proof.
  intros i f g b H. rewrite !upd_in_body_nil.
  destruct (nth_error b i) as [e|]; [|reflexivity]. rewrite H. reflexivity.
Qed.

Lemma upd_compose : forall p i f g b,
  bind_opt (upd_in_body p i f b) (upd_in_body p i g)
  = upd_in_body p i (fun e => bind_opt (f e) g) b.
Proof.
  intros p. induction p as [|j p IH]; intros i f g b; [apply upd_nil_compose|].
  rewrite (upd_in_body_cons j p i f b).
  transitivity (bind_opt (upd_in_body [] i (sub_upd p j f) b)
                         (upd_in_body [] i (sub_upd p j g))).
  { destruct (upd_in_body [] i (sub_upd p j f) b); [|reflexivity].
    cbn [bind_opt]. apply upd_in_body_cons. }
  rewrite upd_nil_compose, upd_in_body_cons. apply upd_nil_ext.
  intros e. destruct e; try reflexivity; cbn [sub_upd].
  - rewrite <- IH. destruct (upd_in_body p j f body); reflexivity.
  - rewrite <- IH. destruct (upd_in_body p j f body); reflexivity.
Qed.

Lemma upd_ext : forall p i f g b, (forall e, f e = g e) ->
  upd_in_body p i f b = upd_in_body p i g b.
Proof.
  intros p. induction p as [|j p IH]; intros i f g b H; [apply upd_nil_ext; exact H|].
  rewrite !upd_in_body_cons. apply upd_nil_ext. intros e.
  destruct e; try reflexivity; cbn [sub_upd]; rewrite (IH j f g body H); reflexivity.
Qed.

Lemma upd_dom : forall p i f g b, (forall e, f e <> None -> g e <> None) ->
  upd_in_body p i f b <> None -> upd_in_body p i g b <> None.
Proof.
  intros p. induction p as [|j p IH]; intros i f g b H.
  - rewrite !upd_in_body_nil. destruct (nth_error b i) as [e|]; [|auto].
    specialize (H e). destruct (f e); [|congruence].
    destruct (g e); [discriminate|]. intros _. exfalso. apply H; [discriminate | reflexivity].
  - rewrite !upd_in_body_cons.
    rewrite !upd_in_body_nil. destruct (nth_error b i) as [e|]; [|auto].
    assert (Hs : sub_upd p j f e <> None -> sub_upd p j g e <> None).
    { destruct e; try (intros X; exact X); cbn [sub_upd]; intros X.
      - specialize (IH j f g body H).
        destruct (upd_in_body p j f body); [|exact (False_ind _ (X eq_refl))].
        destruct (upd_in_body p j g body); [discriminate|]. exfalso. apply IH; [discriminate | reflexivity].
      - specialize (IH j f g body H).
        destruct (upd_in_body p j f body); [|exact (False_ind _ (X eq_refl))].
        destruct (upd_in_body p j g body); [discriminate|]. exfalso. apply IH; [discriminate | reflexivity]. }
    destruct (sub_upd p j f e); [|congruence].
    destruct (sub_upd p j g e); [discriminate|]. intros _. exfalso.
    apply Hs; [discriminate | reflexivity].
Qed.
