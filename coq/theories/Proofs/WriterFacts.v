(* Proofs/WriterFacts.v -- lemmas; see DESIGN.md section 7 *)
