(* Proofs/LexerFacts.v -- facts about Model/Lexer.v: nothing of the input is silently
   dropped (every character is in exactly one piece, in order), faults are loud,
   leading layout is invisible.  See DESIGN.md section 7. *)
From Coq Require Import String List NArith Bool Arith Lia ZifyBool.
From CMinx Require Import Base.Str Model.Lexer.
Import ListNotations.

(* ---- spec ---- *)

(* parentheses tokens carry exactly their character *)
Definition tok_canon (t : token) : Prop :=
  (fst t = TLParen -> snd t = [lpar]) /\ (fst t = TRParen -> snd t = [rpar]).

(* lexing x produces the pieces ps and then stands at the remaining input rest *)
Inductive reaches (x : str) : list token -> str -> Prop :=
| reaches_nil : reaches x [] x
| reaches_step : forall ps a r k n,
    reaches x ps (a :: r) ->
    best (a :: r) = Some (k, S n) ->
    reaches x (ps ++ [(k, firstn (S n) (a :: r))]) (skipn (S n) (a :: r)).

(* equality of lexer results up to the reported error position *)
Definition lex_sim (a b : lexres) : Prop :=
  match a, b with
  | LexOk p, LexOk q => p = q
  | LexErr _, LexErr _ => True
  | _, _ => False
  end.

Definition is_ws (c : char) : bool := is_sptab c || is_eol c.

(* the character following an identifier must end both the identifier and the
   unquoted-argument reading of it *)
Definition ident_delim (rest : str) : bool :=
  match rest with
  | [] => true
  | c :: _ => negb (is_ident_char c) && negb (is_unq_char c) && negb (c =? 92)%N
  end.

(* last character of a piece after which layout may be inserted: anything but
   hash, brackets, equals sign, backslash and layout itself *)
Definition good_last (l : char) : bool :=
  negb (mem l [hash; lbr; rbr; eqc; bsl; sp; tab; cr; nl]).


(* boundary condition: at every piece start inside x, the following text y does not
   change the decision of the lexer *)
Definition stable_boundary (x y : str) : Prop :=
  forall qs rest, reaches x qs rest -> rest <> [] -> best (rest ++ y) = best rest.

(* the text of a one-line comment: no end-of-line inside, not the start of a bracket comment *)
Definition comment_text (text : str) : bool :=
  forallb (fun c => negb (is_eol c)) text && negb (opens_bracket text).

Definition line_comment (text : str) : str := hash :: text ++ [nl].

(* a matcher result that is absent or at most bound characters long *)
Definition short_opt (r : option nat) (bound : nat) : Prop :=
  match r with None => True | Some n => n <= bound end.

Definition short_res (r : option (nat * bool)) (bound : nat) : Prop :=
  match r with None => True | Some (n, _) => n <= bound end.

(* ---- generic list / string helpers ---- *)

Lemma str_ind2 (P : str -> Prop) :
  P [] -> (forall a, P [a]) -> (forall a b r, P r -> P (b :: r) -> P (a :: b :: r)) ->
  forall x, P x.
Proof.
  intros H0 H1 H2 x.
  assert (H : P x /\ forall a, P (a :: x)).
  { induction x as [|b r [IHa IHb]].
    - split; [exact H0 | exact H1].
    - split; [apply IHb | intro a; apply H2; [exact IHa | apply IHb]]. }
  exact (proj1 H).
Qed.

Lemma skipn_length_le {A} (n : nat) (l : list A) : length (skipn n l) <= length l.
Proof. rewrite skipn_length. lia. Qed.

Lemma startswith_length (p x : str) : startswith p x = true -> length p <= length x.
Proof.
  revert x. induction p as [|a p IH]; intros x H.
  - cbn [length]. lia.
  - destruct x as [|b x]; cbn [startswith] in H; [discriminate|].
    apply andb_true_iff in H. destruct H as [_ H]. apply IH in H. cbn [length]. lia.
Qed.

Lemma find_sub_le (pat x : str) (i : nat) :
  find_sub pat x = Some i -> i + length pat <= length x.
Proof.
  revert i. induction x as [|a r IH]; intros i H.
  - cbn [find_sub] in H. destruct (startswith pat []) eqn:E.
    + apply startswith_length in E. inversion H. subst. lia.
    + discriminate.
  - cbn [find_sub] in H. destruct (startswith pat (a :: r)) eqn:E.
    + apply startswith_length in E. inversion H. subst. lia.
    + destruct (find_sub pat r) as [j|] eqn:F; cbn [option_map] in H; [|discriminate].
      inversion H. subst. specialize (IH j eq_refl). cbn [length]. lia.
Qed.

Lemma take_while_length_le (p : char -> bool) (x : str) : length (take_while p x) <= length x.
Proof.
  induction x as [|a r IH]; cbn [take_while length]; [lia|].
  destruct (p a); cbn [length]; lia.
Qed.

Lemma count_while_le (p : char -> bool) (x : str) : count_while p x <= length x.
Proof. apply take_while_length_le. Qed.

Lemma count_while_cons (p : char -> bool) (a : char) (r : str) :
  count_while p (a :: r) = if p a then S (count_while p r) else 0.
Proof. unfold count_while. cbn [take_while]. destruct (p a); reflexivity. Qed.

Lemma skipn_count_while (p : char -> bool) (x : str) :
  skipn (count_while p x) x = drop_while p x.
Proof.
  induction x as [|a r IH]; [reflexivity|].
  rewrite count_while_cons. cbn [drop_while]. destruct (p a); [cbn [skipn]; exact IH | reflexivity].
Qed.

Lemma unq_run_le (x : str) : unq_run x <= length x.
Proof.
  induction x as [| a | a b r IHr IHb] using str_ind2.
  - cbn. lia.
  - cbn [unq_run length]. destruct (a =? 92)%N; [lia|]. destruct (is_unq_char a); cbn [unq_run]; lia.
  - cbn [unq_run] in *. cbn [length] in *. destruct (a =? 92)%N.
    + destruct (esc_ok b); lia.
    + destruct (is_unq_char a); [|lia].
      destruct (b =? 92)%N.
      * destruct r as [|c r']; [lia|]. destruct (esc_ok c); cbn [length] in *; lia.
      * destruct (is_unq_char b); lia.
Qed.

Lemma quoted_body_cons (a : char) (r : str) :
  quoted_body (a :: r) =
  if (a =? 34)%N then Some 1
  else if (a =? 92)%N then
         match r with
         | b :: r' => if esc_ok b then option_map (fun n => S (S n)) (quoted_body r') else None
         | [] => None
         end
       else option_map S (quoted_body r).
Proof. reflexivity. Qed.

Lemma quoted_body_le (x : str) (n : nat) : quoted_body x = Some n -> 1 <= n <= length x.
Proof.
  revert n. induction x as [| a | a b r IHr IHb] using str_ind2; intros n H.
  - discriminate.
  - cbn [quoted_body option_map] in H. destruct (a =? 34)%N; [inversion H; cbn [length]; lia|].
    destruct (a =? 92)%N; discriminate.
  - rewrite quoted_body_cons in H. destruct (a =? 34)%N; [inversion H; cbn [length]; lia|].
    destruct (a =? 92)%N.
    + destruct (esc_ok b); [|discriminate].
      destruct (quoted_body r) as [m|] eqn:E; cbn [option_map] in H; [|discriminate].
      inversion H. subst. specialize (IHr m eq_refl). cbn [length]. lia.
    + destruct (quoted_body (b :: r)) as [m|] eqn:E; cbn [option_map] in H; [|discriminate].
      inversion H. subst. specialize (IHb m eq_refl). cbn [length] in *. lia.
Qed.

(* ---- best: inversion and the length bound ---- *)

Lemma best_of_inv (rs : list (tk * (str -> option (nat * bool)))) (x : str)
      (cur : option (tk * (nat * bool))) :
  best_of rs x cur = cur \/
  exists k m r, In (k, m) rs /\ m x = Some r /\ best_of rs x cur = Some (k, r).
Proof.
  revert cur. induction rs as [|[k m] rest IH]; intro cur.
  - left. reflexivity.
  - cbn [best_of]. destruct (m x) as [r|] eqn:Em.
    + assert (Hnew : best_of rest x (Some (k, r)) = Some (k, r) \/
                     exists k' m' r', In (k', m') rest /\ m' x = Some r' /\
                                      best_of rest x (Some (k, r)) = Some (k', r')) by apply IH.
      assert (Hgo : exists k' m' r', In (k', m') ((k, m) :: rest) /\ m' x = Some r' /\
                                     best_of rest x (Some (k, r)) = Some (k', r')).
      { destruct Hnew as [Hn | (k' & m' & r' & Hin & Hm & Hb)].
        - exists k, m, r. split; [left; reflexivity | split; assumption].
        - exists k', m', r'. split; [right; exact Hin | split; assumption]. }
      destruct cur as [[kc rc]|].
      * destruct (better r rc).
        -- right. exact Hgo.
        -- destruct (IH (Some (kc, rc))) as [Hc | (k' & m' & r' & Hin & Hm & Hb)].
           ++ left. exact Hc.
           ++ right. exists k', m', r'. split; [right; exact Hin | split; assumption].
      * right. exact Hgo.
    + destruct (IH cur) as [Hc | (k' & m' & r' & Hin & Hm & Hb)].
      * left. exact Hc.
      * right. exists k', m', r'. split; [right; exact Hin | split; assumption].
Qed.

Lemma best_inv (x : str) (k : tk) (n : nat) :
  best x = Some (k, n) -> exists m e, In (k, m) rules /\ m x = Some (n, e).
Proof.
  unfold best. intro H.
  destruct (best_of_inv rules x None) as [Hc | (k' & m' & r' & Hin & Hm & Hb)].
  - rewrite Hc in H. discriminate.
  - rewrite Hb in H. destruct r' as [n' e']. inversion H. subst.
    exists m', e'. split; assumption.
Qed.

Lemma noeof_inv (m : option nat) (n : nat) (e : bool) : noeof m = Some (n, e) -> m = Some n.
Proof. destruct m as [n'|]; cbn [noeof]; intro H; [inversion H; reflexivity | discriminate]. Qed.

Lemma m_char_inv (c : char) (x : str) (n : nat) :
  m_char c x = Some n -> n = 1 /\ exists r, x = c :: r.
Proof.
  destruct x as [|a r]; cbn [m_char]; [discriminate|].
  destruct (N.eqb_spec a c) as [E|E]; [|discriminate].
  intro H. inversion H. subst. split; [reflexivity | exists r; reflexivity].
Qed.

Lemma m_lit_le (lit x : str) (n : nat) : m_lit lit x = Some n -> n <= length x.
Proof.
  unfold m_lit. destruct (startswith lit x) eqn:E; [|discriminate].
  intro H. inversion H. subst. apply startswith_length. exact E.
Qed.

Lemma m_docstring_le (x : str) (n : nat) : m_docstring x = Some n -> n <= length x.
Proof.
  unfold m_docstring. destruct (startswith doc_open x) eqn:E; [|discriminate].
  apply startswith_length in E. change (length doc_open) with 4 in E.
  destruct (find_sub doc_close (skipn 4 x)) as [i|] eqn:F; [|discriminate].
  apply find_sub_le in F. change (length doc_close) with 3 in F.
  rewrite skipn_length in F. intro H. inversion H. lia.
Qed.

Lemma mod_term_le (fuel from bend : nat) (x : str) (e : nat) :
  mod_term fuel from bend x = Some e -> e <= length x.
Proof.
  revert from e. induction fuel as [|f IH]; intros from e H; [discriminate|].
  cbn [mod_term] in H.
  destruct (find_sub doc_close (skipn from x)) as [i|] eqn:F; [|discriminate].
  apply find_sub_le in F. change (length doc_close) with 3 in F. rewrite skipn_length in F.
  destruct (Nat.leb (from + i + 3) bend).
  - destruct (mod_term f (from + i + 3) bend x) as [e'|] eqn:M.
    + inversion H. subst. apply IH in M. exact M.
    + inversion H. lia.
  - inversion H. lia.
Qed.

Lemma m_module_docstring_le (x : str) (n : nat) :
  m_module_docstring x = Some n -> n <= length x.
Proof.
  unfold m_module_docstring. destruct (startswith doc_open x) eqn:E; [|discriminate].
  apply startswith_length in E. change (length doc_open) with 4 in E.
  set (r0 := skipn 4 x). set (k0 := count_while is_sptab r0). set (r1 := skipn k0 r0).
  destruct (startswith module_kw r1) eqn:E1; [|discriminate].
  apply startswith_length in E1. change (length module_kw) with 7 in E1.
  set (r2 := skipn 7 r1). set (k := count_while is_sptab r2).
  destruct (mod_term (S (length r2)) 0 _ r2) as [e|] eqn:M; [|discriminate].
  apply mod_term_le in M. intro H. inversion H.
  assert (L2 : length r2 = length r1 - 7) by (unfold r2; apply skipn_length).
  assert (L1 : length r1 = length r0 - k0) by (unfold r1; apply skipn_length).
  assert (L0 : length r0 = length x - 4) by (unfold r0; apply skipn_length).
  assert (K0 : k0 <= length r0) by (unfold k0; apply count_while_le).
  lia.
Qed.

Lemma m_identifier_le (x : str) (n : nat) : m_identifier x = Some n -> n <= length x.
Proof.
  destruct x as [|a r]; cbn [m_identifier]; [discriminate|].
  destruct (is_ident_start a); [|discriminate].
  intro H. inversion H. pose proof (count_while_le is_ident_char r). cbn [length]. lia.
Qed.

Lemma m_unquoted_le (x : str) (n : nat) : m_unquoted x = Some n -> n <= length x.
Proof.
  unfold m_unquoted. pose proof (unq_run_le x) as L.
  destruct (unq_run x); [discriminate|]. intro H. inversion H. lia.
Qed.

Lemma m_escape_le (x : str) (n : nat) : m_escape x = Some n -> n <= length x.
Proof.
  destruct x as [|a [|b r]]; cbn [m_escape]; try discriminate.
  destruct ((a =? 92)%N && esc_ok b); [|discriminate].
  intro H. inversion H. cbn [length]. lia.
Qed.

Lemma m_quoted_inv (x : str) (n : nat) :
  m_quoted x = Some n -> exists r m, x = dq :: r /\ quoted_body r = Some m /\ n = S m.
Proof.
  destruct x as [|a r]; cbn [m_quoted]; [discriminate|].
  destruct (N.eqb_spec a 34) as [E|E]; [|discriminate].
  destruct (quoted_body r) as [m|] eqn:Q; cbn [option_map]; [|discriminate].
  intro H. inversion H. subst. exists r, m. repeat split. exact Q.
Qed.

Lemma m_quoted_le (x : str) (n : nat) : m_quoted x = Some n -> n <= length x.
Proof.
  intro H. apply m_quoted_inv in H. destruct H as (r & m & -> & Q & ->).
  apply quoted_body_le in Q. cbn [length]. lia.
Qed.

Lemma bracket_close_length (n : nat) : length (bracket_close n) = n + 2.
Proof. unfold bracket_close. rewrite !app_length, repeat_length. cbn [length]. lia. Qed.

Lemma m_bracket_arg_le (x : str) (n : nat) : m_bracket_arg x = Some n -> n <= length x.
Proof.
  destruct x as [|a r]; cbn [m_bracket_arg]; [discriminate|].
  destruct (a =? 91)%N; [|discriminate].
  set (c := count_while (fun c => (c =? 61)%N) r).
  destruct (skipn c r) as [|b r'] eqn:S; [discriminate|].
  destruct (b =? 91)%N; [|discriminate].
  destruct (find_sub (bracket_close c) r') as [i|] eqn:F; [|discriminate].
  apply find_sub_le in F. rewrite bracket_close_length in F.
  assert (L : length (skipn c r) = length r - c) by apply skipn_length.
  rewrite S in L. cbn [length] in L.
  intro H. inversion H. cbn [length]. lia.
Qed.

Lemma m_bracket_comment_le (x : str) (n : nat) : m_bracket_comment x = Some n -> n <= length x.
Proof.
  destruct x as [|a r]; cbn [m_bracket_comment]; [discriminate|].
  destruct (a =? 35)%N; [|discriminate].
  destruct (m_bracket_arg r) as [m|] eqn:B; cbn [option_map]; [|discriminate].
  apply m_bracket_arg_le in B. intro H. inversion H. cbn [length]. lia.
Qed.

Lemma m_line_comment_le (x : str) (n : nat) (e : bool) :
  m_line_comment x = Some (n, e) -> n <= length x.
Proof.
  destruct x as [|a r]; cbn [m_line_comment]; [discriminate|].
  destruct (a =? 35)%N; [|discriminate].
  set (line := take_while (fun c => negb (is_eol c)) r).
  destruct (opens_bracket line); [discriminate|].
  assert (L : length (skipn (length line) r) = length r - length line) by apply skipn_length.
  assert (LL : length line <= length r) by apply take_while_length_le.
  destruct (skipn (length line) r) as [|c r'] eqn:S.
  - intro H. inversion H. cbn [length]. lia.
  - cbn [length] in L. destruct (c =? 13)%N.
    + destruct r' as [|c2 r''].
      * intro H. inversion H. cbn [length]. lia.
      * cbn [length] in L. destruct (c2 =? 10)%N; intro H; inversion H; cbn [length]; lia.
    + intro H. inversion H. cbn [length]. lia.
Qed.

Lemma m_run_le (p : char -> bool) (x : str) (n : nat) : m_run p x = Some n -> n <= length x.
Proof.
  unfold m_run. pose proof (count_while_le p x) as L.
  destruct (count_while p x); [discriminate|]. intro H. inversion H. lia.
Qed.

(* every matcher returns the length of an actual prefix *)
Lemma best_le (x : str) (k : tk) (n : nat) : best x = Some (k, n) -> n <= length x.
Proof.
  intro H. apply best_inv in H. destruct H as (m & e & Hin & Hm).
  unfold rules in Hin. cbn [In] in Hin.
  repeat (destruct Hin as [Hin | Hin];
          [ inversion Hin; subst m; clear Hin;
            first [ apply m_line_comment_le in Hm; exact Hm
                  | apply noeof_inv in Hm ] | ]);
  try contradiction.
  - apply m_char_inv in Hm. destruct Hm as [-> [r ->]]. cbn [length]. lia.
  - apply m_char_inv in Hm. destruct Hm as [-> [r ->]]. cbn [length]. lia.
  - apply m_module_docstring_le. exact Hm.
  - apply m_docstring_le. exact Hm.
  - apply m_lit_le in Hm. exact Hm.
  - apply m_lit_le in Hm. exact Hm.
  - apply m_identifier_le. exact Hm.
  - apply m_unquoted_le. exact Hm.
  - apply m_escape_le. exact Hm.
  - apply m_quoted_le. exact Hm.
  - apply m_bracket_arg_le. exact Hm.
  - apply m_bracket_comment_le. exact Hm.
  - apply m_run_le in Hm. exact Hm.
  - apply m_run_le in Hm. exact Hm.
Qed.

(* ---- A1-A2: fuel and the one-step characterisation ---- *)

Definition shift_err (d : nat) (r : lexres) : lexres :=
  match r with
  | LexOk ps => LexOk ps
  | LexErr p => LexErr (d + p)
  end.

Lemma lex_all_go_fuel2 (f1 : nat) : forall f2 x pos,
  length x <= f1 -> length x <= f2 -> lex_all_go f1 pos x = lex_all_go f2 pos x.
Proof.
  induction f1 as [|f1 IH]; intros f2 x pos H1 H2.
  - destruct x as [|a r]; [destruct f2; reflexivity | cbn [length] in H1; lia].
  - destruct x as [|a r]; [destruct f2; reflexivity|].
    destruct f2 as [|f2]; [cbn [length] in H2; lia|].
    cbn [lex_all_go]. destruct (best (a :: r)) as [[k n]|]; [|reflexivity].
    destruct n as [|n]; [reflexivity|].
    assert (L : length (skipn (S n) (a :: r)) <= length r).
    { cbn [skipn]. apply skipn_length_le. }
    cbn [length] in H1, H2.
    rewrite (IH f2 (skipn (S n) (a :: r)) (pos + S n)) by lia. reflexivity.
Qed.

(* A1: the out-of-fuel branch is unreachable when fuel >= length *)
Lemma lex_all_go_fuel : forall f x pos,
  length x <= f -> lex_all_go f pos x = lex_all_go (length x) pos x.
Proof. intros f x pos H. apply lex_all_go_fuel2; [exact H | lia]. Qed.

Lemma lex_all_go_pos (f : nat) : forall pos x,
  lex_all_go f pos x = shift_err pos (lex_all_go f 0 x).
Proof.
  induction f as [|f IH]; intros pos x.
  - destruct x; cbn [lex_all_go shift_err]; [reflexivity | f_equal; lia].
  - destruct x as [|a r]; [reflexivity|].
    cbn [lex_all_go]. destruct (best (a :: r)) as [[k n]|]; [|cbn [shift_err]; f_equal; lia].
    destruct n as [|n]; [cbn [shift_err]; f_equal; lia|].
    rewrite (IH (pos + S n)). rewrite (IH (0 + S n)).
    destruct (lex_all_go f 0 (skipn (S n) (a :: r))) as [ps|p]; cbn [shift_err]; [reflexivity|].
    f_equal. lia.
Qed.

(* A2: one step of the lexer *)
Lemma lex_all_step : forall a r,
  lex_all (a :: r) =
  match best (a :: r) with
  | None => LexErr 0
  | Some (k, O) => LexErr 0
  | Some (k, S n) =>
      match lex_all (skipn (S n) (a :: r)) with
      | LexOk ps => LexOk ((k, firstn (S n) (a :: r)) :: ps)
      | LexErr p => LexErr (S n + p)
      end
  end.
Proof.
  intros a r. unfold lex_all at 1. cbn [length lex_all_go].
  destruct (best (a :: r)) as [[k n]|]; [|reflexivity].
  destruct n as [|n]; [reflexivity|].
  assert (L : length (skipn (S n) (a :: r)) <= length r).
  { cbn [skipn]. apply skipn_length_le. }
  rewrite (lex_all_go_fuel (length r) (skipn (S n) (a :: r)) (0 + S n) L).
  rewrite lex_all_go_pos. fold (lex_all (skipn (S n) (a :: r))).
  destruct (lex_all (skipn (S n) (a :: r))) as [ps|p]; cbn [shift_err]; reflexivity.
Qed.

Lemma lex_all_nil : lex_all [] = LexOk [].
Proof. reflexivity. Qed.

(* induction along the lexer: enough to treat one step *)
Lemma lex_all_ind (P : str -> list token -> Prop) :
  P [] [] ->
  (forall a r k n ps,
      best (a :: r) = Some (k, S n) ->
      lex_all (skipn (S n) (a :: r)) = LexOk ps ->
      P (skipn (S n) (a :: r)) ps ->
      P (a :: r) ((k, firstn (S n) (a :: r)) :: ps)) ->
  forall x ps, lex_all x = LexOk ps -> P x ps.
Proof.
  intros H0 Hs x.
  remember (length x) as len eqn:Hl. revert x Hl.
  induction len as [len IH] using lt_wf_ind. intros x Hl ps H.
  destruct x as [|a r].
  - rewrite lex_all_nil in H. inversion H. exact H0.
  - rewrite lex_all_step in H.
    destruct (best (a :: r)) as [[k n]|] eqn:B; [|discriminate].
    destruct n as [|n]; [discriminate|].
    destruct (lex_all (skipn (S n) (a :: r))) as [qs|p] eqn:R; [|discriminate].
    inversion H. subst ps.
    apply Hs; [exact B | exact R |].
    apply (IH (length (skipn (S n) (a :: r)))); [|reflexivity | exact R].
    subst len. cbn [skipn length]. pose proof (skipn_length_le n r). lia.
Qed.

(* A3: every character of the input is in exactly one piece, in order *)
Theorem lex_all_concat : forall x ps, lex_all x = LexOk ps -> concat (map snd ps) = x.
Proof.
  apply (lex_all_ind (fun x ps => concat (map snd ps) = x)).
  - reflexivity.
  - intros a r k n ps _ _ IH. cbn [map concat snd]. rewrite IH. apply firstn_skipn.
Qed.

(* A4: no piece is empty *)
Theorem lex_all_nonempty : forall x ps,
  lex_all x = LexOk ps -> Forall (fun t => snd t <> []) ps.
Proof.
  apply (lex_all_ind (fun _ ps => Forall (fun t => snd t <> []) ps)).
  - constructor.
  - intros a r k n ps _ _ IH. constructor; [|exact IH]. cbn [snd firstn]. discriminate.
Qed.

Lemma best_lparen (x : str) (n : nat) : best x = Some (TLParen, n) -> firstn n x = [lpar].
Proof.
  intro H. apply best_inv in H. destruct H as (m & e & Hin & Hm).
  unfold rules in Hin. cbn [In] in Hin.
  destruct Hin as [Hin | Hin].
  - inversion Hin. subst m. apply noeof_inv in Hm. apply m_char_inv in Hm.
    destruct Hm as [-> [r ->]]. reflexivity.
  - repeat (destruct Hin as [Hin | Hin]; [discriminate Hin|]). contradiction.
Qed.

Lemma best_rparen (x : str) (n : nat) : best x = Some (TRParen, n) -> firstn n x = [rpar].
Proof.
  intro H. apply best_inv in H. destruct H as (m & e & Hin & Hm).
  unfold rules in Hin. cbn [In] in Hin.
  destruct Hin as [Hin | Hin]; [discriminate Hin|].
  destruct Hin as [Hin | Hin].
  - inversion Hin. subst m. apply noeof_inv in Hm. apply m_char_inv in Hm.
    destruct Hm as [-> [r ->]]. reflexivity.
  - repeat (destruct Hin as [Hin | Hin]; [discriminate Hin|]). contradiction.
Qed.

(* A5: parenthesis tokens are exactly one parenthesis character *)
Theorem lex_tokens_canon : forall x ps,
  lex_all x = LexOk ps ->
  Forall (fun t => (fst t = TLParen -> snd t = [lpar]) /\ (fst t = TRParen -> snd t = [rpar])) ps.
Proof.
  apply (lex_all_ind (fun _ ps =>
    Forall (fun t => (fst t = TLParen -> snd t = [lpar]) /\ (fst t = TRParen -> snd t = [rpar])) ps)).
  - constructor.
  - intros a r k n ps B _ IH. constructor; [|exact IH]. cbn [fst snd]. split; intro E; subst k.
    + apply best_lparen. exact B.
    + apply best_rparen. exact B.
Qed.

(* A6: the visible tokens come from a full partition of the input *)
Theorem lex_visible : forall x ts,
  lex x = LexOk ts ->
  exists ps, lex_all x = LexOk ps /\ ts = visible ps /\ concat (map snd ps) = x.
Proof.
  intros x ts H. unfold lex in H. destruct (lex_all x) as [ps|p] eqn:E; [|discriminate].
  inversion H. exists ps. split; [reflexivity | split; [reflexivity|]].
  apply lex_all_concat. exact E.
Qed.

Example lex_all_concat_nonvacuous :
  exists ps, lex_all (s"foo(a [[b]] #c") = LexOk ps /\ length ps = 7.
Proof. eexists. split; vm_compute; reflexivity. Qed.

(* ---- A7: faults are loud ---- *)

Lemma reaches_concat (x : str) (ps : list token) (rest : str) :
  reaches x ps rest -> concat (map snd ps) ++ rest = x.
Proof.
  intro H. induction H as [|ps a r k n H IH B]; [reflexivity|].
  rewrite map_app, concat_app. cbn [map concat snd]. rewrite app_nil_r, <- app_assoc.
  rewrite firstn_skipn. exact IH.
Qed.

Lemma reaches_length (x : str) (ps : list token) (rest : str) :
  reaches x ps rest -> length rest <= length x.
Proof.
  intro H. apply reaches_concat in H. rewrite <- H, app_length. lia.
Qed.

(* lexing x = the pieces produced so far, followed by lexing the rest *)
Lemma reaches_lex_all (x : str) (ps : list token) (rest : str) :
  reaches x ps rest ->
  lex_all x = match lex_all rest with
              | LexOk qs => LexOk (ps ++ qs)
              | LexErr p => LexErr (length x - length rest + p)
              end.
Proof.
  intro H. induction H as [|ps a r k n H IH B].
  - destruct (lex_all x) as [qs|p]; [reflexivity | f_equal; lia].
  - rewrite IH, lex_all_step, B.
    pose proof (best_le _ _ _ B) as L. pose proof (reaches_length _ _ _ H) as L2.
    assert (L3 : length (skipn (S n) (a :: r)) = length (a :: r) - S n) by apply skipn_length.
    destruct (lex_all (skipn (S n) (a :: r))) as [qs|p].
    + rewrite <- app_assoc. reflexivity.
    + f_equal. lia.
Qed.

Theorem lex_stuck : forall x ps rest,
  reaches x ps rest -> rest <> [] -> best rest = None ->
  lex_all x = LexErr (length x - length rest).
Proof.
  intros x ps rest H Hne B. rewrite (reaches_lex_all _ _ _ H).
  destruct rest as [|a r]; [contradiction|].
  rewrite lex_all_step, B. f_equal. lia.
Qed.

Corollary lex_stuck_exists : forall x ps rest,
  reaches x ps rest -> rest <> [] -> best rest = None -> exists p, lex_all x = LexErr p.
Proof. intros x ps rest H Hne B. eexists. eapply lex_stuck; eassumption. Qed.

(* conversely, a successful run reaches the end of the input *)
Lemma reaches_trans_step (x : str) (ps : list token) (rest : str) :
  reaches x ps rest -> forall qs, lex_all rest = LexOk qs -> reaches x (ps ++ qs) [].
Proof.
  intros H qs Hq. revert ps H.
  refine (lex_all_ind (fun rest qs => forall ps, reaches x ps rest -> reaches x (ps ++ qs) [])
                      _ _ rest qs Hq).
  - intros ps H. rewrite app_nil_r. exact H.
  - intros a r k n qs' B _ IH ps H.
    change ((k, firstn (S n) (a :: r)) :: qs') with ([(k, firstn (S n) (a :: r))] ++ qs').
    rewrite app_assoc. apply IH. apply reaches_step; assumption.
Qed.

Theorem lex_all_reaches : forall x ps, lex_all x = LexOk ps -> reaches x ps [].
Proof.
  intros x ps H. apply (reaches_trans_step x [] x (reaches_nil x) ps H).
Qed.

(* ---- computing best from the first character ---- *)

Fixpoint pick (rs : list (tk * option (nat * bool))) (cur : option (tk * (nat * bool)))
  : option (tk * (nat * bool)) :=
  match rs with
  | [] => cur
  | (k, None) :: rest => pick rest cur
  | (k, Some r) :: rest =>
      match cur with
      | None => pick rest (Some (k, r))
      | Some (_, rc) => if better r rc then pick rest (Some (k, r)) else pick rest cur
      end
  end.

Lemma best_of_pick (rs : list (tk * (str -> option (nat * bool)))) (x : str) :
  forall cur, best_of rs x cur = pick (map (fun km => (fst km, snd km x)) rs) cur.
Proof.
  induction rs as [|[k m] rest IH]; intro cur; [reflexivity|].
  cbn [best_of map fst snd pick]. destruct (m x) as [r|].
  - destruct cur as [[kc rc]|]; [destruct (better r rc)|]; apply IH.
  - apply IH.
Qed.

Lemma best_results (x : str) :
  best x =
  match pick [ (TLParen, noeof (m_char 40%N x)); (TRParen, noeof (m_char 41%N x));
               (TModuleDoc, noeof (m_module_docstring x)); (TDocstring, noeof (m_docstring x));
               (TDocStart, noeof (m_lit doc_open x)); (TBlockEnd, noeof (m_lit doc_close x));
               (TIdent, noeof (m_identifier x)); (TUnquoted, noeof (m_unquoted x));
               (TEscape, noeof (m_escape x)); (TQuoted, noeof (m_quoted x));
               (TBracketArg, noeof (m_bracket_arg x));
               (TBracketComment, noeof (m_bracket_comment x));
               (TLineComment, m_line_comment x);
               (TNewline, noeof (m_run is_eol x)); (TSpace, noeof (m_run is_sptab x)) ] None with
  | Some (k, (n, _)) => Some (k, n)
  | None => None
  end.
Proof. unfold best. rewrite best_of_pick. reflexivity. Qed.

Lemma m_char_ne (c a : char) (r : str) : (a =? c)%N = false -> m_char c (a :: r) = None.
Proof. intro H. cbn [m_char]. rewrite H. reflexivity. Qed.

Lemma m_char_eq (c : char) (r : str) : m_char c (c :: r) = Some 1.
Proof. cbn [m_char]. rewrite N.eqb_refl. reflexivity. Qed.

Lemma startswith_hash_ne (p : str) (a : char) (r : str) :
  (a =? 35)%N = false -> startswith (hash :: p) (a :: r) = false.
Proof.
  intro H. cbn [startswith]. unfold hash. rewrite N.eqb_sym, H. reflexivity.
Qed.

Lemma m_module_docstring_nopen (x : str) :
  startswith doc_open x = false -> m_module_docstring x = None.
Proof. intro H. unfold m_module_docstring. rewrite H. reflexivity. Qed.

Lemma m_docstring_nopen (x : str) : startswith doc_open x = false -> m_docstring x = None.
Proof. intro H. unfold m_docstring. rewrite H. reflexivity. Qed.

Lemma m_lit_no (lit x : str) : startswith lit x = false -> m_lit lit x = None.
Proof. intro H. unfold m_lit. rewrite H. reflexivity. Qed.

Lemma doc_open_nohash (a : char) (r : str) :
  (a =? 35)%N = false -> startswith doc_open (a :: r) = false.
Proof. apply (startswith_hash_ne (s"[[[")). Qed.

Lemma doc_close_nohash (a : char) (r : str) :
  (a =? 35)%N = false -> startswith doc_close (a :: r) = false.
Proof. apply (startswith_hash_ne (s"]]")). Qed.

Lemma m_identifier_no (a : char) (r : str) :
  is_ident_start a = false -> m_identifier (a :: r) = None.
Proof. intro H. cbn [m_identifier]. rewrite H. reflexivity. Qed.

Lemma unq_run_cons (a : char) (r : str) :
  unq_run (a :: r) =
  if (a =? 92)%N then
    match r with
    | b :: r' => if esc_ok b then S (S (unq_run r')) else 0
    | [] => 0
    end
  else if is_unq_char a then S (unq_run r) else 0.
Proof. reflexivity. Qed.

Lemma m_unquoted_no (a : char) (r : str) :
  (a =? 92)%N = false -> is_unq_char a = false -> m_unquoted (a :: r) = None.
Proof. intros H1 H2. unfold m_unquoted. rewrite unq_run_cons, H1, H2. reflexivity. Qed.

Lemma m_escape_no (a : char) (r : str) : (a =? 92)%N = false -> m_escape (a :: r) = None.
Proof. intro H. destruct r as [|b r]; cbn [m_escape]; [reflexivity|]. rewrite H. reflexivity. Qed.

Lemma m_quoted_no (a : char) (r : str) : (a =? 34)%N = false -> m_quoted (a :: r) = None.
Proof. intro H. cbn [m_quoted]. rewrite H. reflexivity. Qed.

Lemma m_bracket_arg_no (a : char) (r : str) : (a =? 91)%N = false -> m_bracket_arg (a :: r) = None.
Proof. intro H. cbn [m_bracket_arg]. rewrite H. reflexivity. Qed.

Lemma m_bracket_comment_no (a : char) (r : str) :
  (a =? 35)%N = false -> m_bracket_comment (a :: r) = None.
Proof. intro H. cbn [m_bracket_comment]. rewrite H. reflexivity. Qed.

Lemma m_line_comment_no (a : char) (r : str) :
  (a =? 35)%N = false -> m_line_comment (a :: r) = None.
Proof. intro H. cbn [m_line_comment]. rewrite H. reflexivity. Qed.

Lemma m_run_no (p : char -> bool) (a : char) (r : str) : p a = false -> m_run p (a :: r) = None.
Proof. intro H. unfold m_run. rewrite count_while_cons, H. reflexivity. Qed.

Lemma m_run_yes (p : char -> bool) (a : char) (r : str) :
  p a = true -> m_run p (a :: r) = Some (S (count_while p r)).
Proof. intro H. unfold m_run. rewrite count_while_cons, H. reflexivity. Qed.

(* side conditions on one character: closed ones by computation, open ones by lia *)
Ltac char_side :=
  first [ reflexivity
        | assumption
        | unfold is_ident_start, is_ident_char, is_alnum, is_upper, is_lower, is_digit,
                 is_unq_char, is_sptab, is_eol, esc_ok in *; lia ].

(* rewrite away every rule that cannot start with the first character *)
Ltac kill_rules :=
  rewrite ?(m_char_ne 40%N) by char_side;
  rewrite ?(m_char_ne 41%N) by char_side;
  rewrite ?m_module_docstring_nopen by (first [assumption | apply doc_open_nohash; char_side]);
  rewrite ?m_docstring_nopen by (first [assumption | apply doc_open_nohash; char_side]);
  rewrite ?(m_lit_no doc_open) by (first [assumption | apply doc_open_nohash; char_side]);
  rewrite ?(m_lit_no doc_close) by (first [assumption | apply doc_close_nohash; char_side]);
  rewrite ?m_identifier_no by char_side;
  rewrite ?m_unquoted_no by char_side;
  rewrite ?m_escape_no by char_side;
  rewrite ?m_quoted_no by char_side;
  rewrite ?m_bracket_arg_no by char_side;
  rewrite ?m_bracket_comment_no by char_side;
  rewrite ?m_line_comment_no by char_side;
  rewrite ?(m_run_no is_eol) by char_side;
  rewrite ?(m_run_no is_sptab) by char_side.

Theorem best_unterminated_quote : forall r, quoted_body r = None -> best (dq :: r) = None.
Proof.
  intros r H. rewrite best_results. kill_rules.
  assert (Q : m_quoted (dq :: r) = None).
  { cbn [m_quoted]. rewrite H. reflexivity. }
  rewrite Q. reflexivity.
Qed.

Theorem best_bad_escape : forall r,
  (match r with [] => true | b :: _ => negb (esc_ok b) end) = true -> best (bsl :: r) = None.
Proof.
  intros r H. rewrite best_results. kill_rules.
  assert (U : m_unquoted (bsl :: r) = None).
  { unfold m_unquoted. rewrite unq_run_cons. change (bsl =? 92)%N with true. cbv iota.
    destruct r as [|b r']; [reflexivity|]. apply negb_true_iff in H. rewrite H. reflexivity. }
  assert (E : m_escape (bsl :: r) = None).
  { destruct r as [|b r']; [reflexivity|]. cbn [m_escape]. apply negb_true_iff in H.
    rewrite H, andb_false_r. reflexivity. }
  rewrite U, E. reflexivity.
Qed.

Lemma opens_bracket_head (l : str) : opens_bracket l = true -> exists t, l = lbr :: t.
Proof.
  destruct l as [|a t]; cbn [opens_bracket]; [discriminate|].
  intro H. apply andb_true_iff in H. destruct H as [H _]. apply N.eqb_eq in H. subst a.
  exists t. reflexivity.
Qed.

Theorem best_unterminated_bracket_comment : forall r,
  opens_bracket (take_while (fun c => negb (is_eol c)) r) = true ->
  m_bracket_arg r = None ->
  startswith doc_open (hash :: r) = false ->
  best (hash :: r) = None.
Proof.
  intros r Ho Hb Hd. rewrite best_results.
  assert (C : startswith doc_close (hash :: r) = false).
  { destruct (opens_bracket_head _ Ho) as [t Ht].
    destruct r as [|a r']; [discriminate Ht|]. cbn [take_while] in Ht.
    destruct (negb (is_eol a)); [|discriminate Ht]. inversion Ht. reflexivity. }
  assert (BC : m_bracket_comment (hash :: r) = None).
  { cbn [m_bracket_comment]. change (hash =? 35)%N with true. cbv iota. rewrite Hb. reflexivity. }
  assert (LC : m_line_comment (hash :: r) = None).
  { cbn [m_line_comment]. change (hash =? 35)%N with true. cbv iota. rewrite Ho. reflexivity. }
  rewrite BC, LC. kill_rules. reflexivity.
Qed.

Example best_unterminated_bracket_comment_ex :
  best (s"#[[ never closed") = None /\ best (s"#[=[ x ]]") = None.
Proof. split; vm_compute; reflexivity. Qed.

(* the doc_open hypothesis cannot be dropped: the bare opening marker is a token *)
Example best_unterminated_bracket_comment_needs_nodoc :
  let r := s"[[[ never closed" in
  opens_bracket (take_while (fun c => negb (is_eol c)) r) = true /\
  m_bracket_arg r = None /\ best (hash :: r) = Some (TDocStart, 4).
Proof. repeat split; vm_compute; reflexivity. Qed.

Lemma quoted_body_last (x : str) (n : nat) :
  quoted_body x = Some n -> nth_error x (n - 1) = Some dq.
Proof.
  revert n. induction x as [| a | a b r IHr IHb] using str_ind2; intros n H.
  - discriminate.
  - rewrite quoted_body_cons in H. destruct (N.eqb_spec a 34) as [E|E].
    + inversion H. subst. reflexivity.
    + destruct (a =? 92)%N; discriminate.
  - rewrite quoted_body_cons in H. destruct (N.eqb_spec a 34) as [E|E].
    + inversion H. subst. reflexivity.
    + destruct (a =? 92)%N.
      * destruct (esc_ok b); [|discriminate].
        destruct (quoted_body r) as [m|] eqn:Q; cbn [option_map] in H; [|discriminate].
        inversion H. subst n. pose proof (quoted_body_le _ _ Q) as L.
        specialize (IHr m eq_refl).
        replace (S (S m) - 1) with (S (S (m - 1))) by lia. exact IHr.
      * destruct (quoted_body (b :: r)) as [m|] eqn:Q; cbn [option_map] in H; [|discriminate].
        inversion H. subst n. pose proof (quoted_body_le _ _ Q) as L.
        specialize (IHb m eq_refl).
        replace (S m - 1) with (S (m - 1)) by lia. exact IHb.
Qed.

(* a quoted piece is always terminated *)
Theorem quoted_piece_shape : forall x n,
  best x = Some (TQuoted, n) ->
  (exists r, x = dq :: r) /\ 2 <= n /\ nth_error x (n - 1) = Some dq.
Proof.
  intros x n H. apply best_inv in H. destruct H as (m & e & Hin & Hm).
  unfold rules in Hin. cbn [In] in Hin.
  do 9 (destruct Hin as [Hin | Hin]; [discriminate Hin|]).
  destruct Hin as [Hin | Hin].
  - inversion Hin. subst m. apply noeof_inv in Hm. apply m_quoted_inv in Hm.
    destruct Hm as (r & k & -> & Q & ->).
    pose proof (quoted_body_le _ _ Q) as L. pose proof (quoted_body_last _ _ Q) as N.
    split; [exists r; reflexivity | split; [lia|]].
    replace (S k - 1) with (S (k - 1)) by lia. exact N.
  - repeat (destruct Hin as [Hin | Hin]; [discriminate Hin|]). contradiction.
Qed.

Example quoted_piece_shape_ex : best (s"""a\""b"" c") = Some (TQuoted, 6).
Proof. vm_compute. reflexivity. Qed.

Example lex_stuck_example :
  reaches (s"f(""ab") [(TIdent, s"f"); (TLParen, s"(")] (s"""ab") /\
  best (s"""ab") = None /\ lex_all (s"f(""ab") = LexErr 2.
Proof.
  split; [|split; vm_compute; reflexivity].
  apply (reaches_step (s"f(""ab") [(TIdent, s"f")] lpar (s"""ab") TLParen 0).
  - apply (reaches_step (s"f(""ab") [] 102%N (s"(""ab") TIdent 0).
    + apply reaches_nil.
    + vm_compute. reflexivity.
  - vm_compute. reflexivity.
Qed.

(* ---- A8: leading layout is invisible ---- *)

Theorem best_space : forall c r,
  is_sptab c = true -> best (c :: r) = Some (TSpace, S (count_while is_sptab r)).
Proof.
  intros c r H. rewrite best_results. kill_rules.
  rewrite (m_run_yes is_sptab c r H). reflexivity.
Qed.

Theorem best_newline : forall c r,
  is_eol c = true -> best (c :: r) = Some (TNewline, S (count_while is_eol r)).
Proof.
  intros c r H. rewrite best_results. kill_rules.
  rewrite (m_run_yes is_eol c r H). reflexivity.
Qed.

Lemma lex_sim_refl (a : lexres) : lex_sim a a.
Proof. destruct a; cbn; [reflexivity | exact I]. Qed.

Lemma lex_sim_trans (a b c : lexres) : lex_sim a b -> lex_sim b c -> lex_sim a c.
Proof.
  destruct a, b, c; cbn; intros H1 H2; try contradiction; try exact I. congruence.
Qed.

Lemma lex_sim_sym (a b : lexres) : lex_sim a b -> lex_sim b a.
Proof. destruct a, b; cbn; intro H; try contradiction; try exact I. congruence. Qed.

(* a skipped first piece does not change the visible tokens *)
Lemma lex_skip_first (a : char) (r : str) (k : tk) (n : nat) :
  best (a :: r) = Some (k, S n) -> skipped k = true ->
  lex_sim (lex (a :: r)) (lex (skipn (S n) (a :: r))).
Proof.
  intros B Hk. unfold lex. rewrite lex_all_step, B.
  destruct (lex_all (skipn (S n) (a :: r))) as [ps|p]; cbn [lex_sim]; [|exact I].
  unfold visible. cbn [filter fst]. rewrite Hk. reflexivity.
Qed.

Lemma lex_drop_sptab (y : str) : lex_sim (lex (drop_while is_sptab y)) (lex y).
Proof.
  destruct y as [|c r]; [apply lex_sim_refl|].
  cbn [drop_while]. destruct (is_sptab c) eqn:E; [|apply lex_sim_refl].
  apply lex_sim_sym.
  pose proof (lex_skip_first c r TSpace _ (best_space c r E) eq_refl) as H.
  cbn [skipn] in H. rewrite skipn_count_while in H. exact H.
Qed.

Lemma lex_drop_eol (y : str) : lex_sim (lex (drop_while is_eol y)) (lex y).
Proof.
  destruct y as [|c r]; [apply lex_sim_refl|].
  cbn [drop_while]. destruct (is_eol c) eqn:E; [|apply lex_sim_refl].
  apply lex_sim_sym.
  pose proof (lex_skip_first c r TNewline _ (best_newline c r E) eq_refl) as H.
  cbn [skipn] in H. rewrite skipn_count_while in H. exact H.
Qed.

Lemma lex_leading_ws1 (c : char) (y : str) : is_ws c = true -> lex_sim (lex (c :: y)) (lex y).
Proof.
  intro H. unfold is_ws in H. destruct (is_sptab c) eqn:E.
  - eapply lex_sim_trans; [|apply lex_drop_sptab].
    pose proof (lex_skip_first c y TSpace _ (best_space c y E) eq_refl) as H1.
    cbn [skipn] in H1. rewrite skipn_count_while in H1. exact H1.
  - cbn [orb] in H.
    eapply lex_sim_trans; [|apply lex_drop_eol].
    pose proof (lex_skip_first c y TNewline _ (best_newline c y H) eq_refl) as H1.
    cbn [skipn] in H1. rewrite skipn_count_while in H1. exact H1.
Qed.

Lemma lex_leading_ws_sim (ws x : str) :
  forallb is_ws ws = true -> lex_sim (lex (ws ++ x)) (lex x).
Proof.
  induction ws as [|c ws IH]; intro H; [apply lex_sim_refl|].
  cbn [forallb] in H. apply andb_true_iff in H. destruct H as [Hc Hr].
  cbn [app]. eapply lex_sim_trans; [apply lex_leading_ws1; exact Hc | apply IH; exact Hr].
Qed.

(* leading spaces, tabs and newlines never change the visible token stream
   (only the reported error position) *)
Theorem lex_leading_ws : forall ws x,
  forallb (fun c => is_sptab c || is_eol c) ws = true ->
  match lex (ws ++ x), lex x with
  | LexOk a, LexOk b => a = b
  | LexErr _, LexErr _ => True
  | _, _ => False
  end.
Proof. intros ws x H. apply (lex_leading_ws_sim ws x H). Qed.

Example lex_leading_ws_ex :
  forallb (fun c => is_sptab c || is_eol c) [sp; nl; tab; cr; nl; sp] = true /\
  lex ([sp; nl; tab; cr; nl; sp] ++ s" foo(a)") = lex (s" foo(a)") /\
  lex ([sp; nl] ++ s"foo(""a") = LexErr 6 /\ lex (s"foo(""a") = LexErr 4.
Proof. repeat split; vm_compute; reflexivity. Qed.

(* trailing layout is NOT invisible in general: a lone backslash is an error, but a
   backslash followed by a space is an escape sequence *)
Example lex_trailing_ws_refuted :
  lex [bsl] = LexErr 0 /\ lex ([bsl] ++ [sp]) = LexOk [(TUnquoted, [bsl; sp])].
Proof. split; vm_compute; reflexivity. Qed.

(* ---- C1: an identifier followed by a delimiter is one TIdent piece ---- *)

Lemma ident_char_unq (c : char) :
  is_ident_char c = true -> (c =? 92)%N = false /\ is_unq_char c = true.
Proof. intro H. split; char_side. Qed.

Lemma ident_start_char (c : char) : is_ident_start c = true -> is_ident_char c = true.
Proof. intro H. char_side. Qed.

Lemma count_while_app_all (p : char -> bool) (l rest : str) :
  forallb p l = true -> count_while p (l ++ rest) = length l + count_while p rest.
Proof.
  induction l as [|a l IH]; intro H; [reflexivity|].
  cbn [forallb] in H. apply andb_true_iff in H. destruct H as [Ha Hl].
  cbn [app]. rewrite count_while_cons, Ha, (IH Hl). reflexivity.
Qed.

Lemma unq_run_ident (l rest : str) :
  forallb is_ident_char l = true -> unq_run (l ++ rest) = length l + unq_run rest.
Proof.
  induction l as [|a l IH]; intro H; [reflexivity|].
  cbn [forallb] in H. apply andb_true_iff in H. destruct H as [Ha Hl].
  destruct (ident_char_unq a Ha) as [H1 H2].
  cbn [app]. rewrite unq_run_cons, H1, H2, (IH Hl). reflexivity.
Qed.

Lemma ident_delim_stops (rest : str) :
  ident_delim rest = true -> count_while is_ident_char rest = 0 /\ unq_run rest = 0.
Proof.
  destruct rest as [|c r]; intro H; [split; reflexivity|].
  cbn [ident_delim] in H. apply andb_true_iff in H. destruct H as [H H3].
  apply andb_true_iff in H. destruct H as [H1 H2].
  apply negb_true_iff in H1, H2, H3.
  rewrite count_while_cons, unq_run_cons, H1, H2, H3. split; reflexivity.
Qed.

Lemma better_same (n : nat) : better (n, false) (n, false) = false.
Proof. unfold better. cbn [fst snd]. rewrite Nat.ltb_irrefl, andb_false_r. reflexivity. Qed.

Theorem best_ident_delim : forall a r rest,
  is_ident_start a = true -> forallb is_ident_char r = true -> ident_delim rest = true ->
  best ((a :: r) ++ rest) = Some (TIdent, length (a :: r)).
Proof.
  intros a r rest Ha Hr Hd. cbn [app length].
  destruct (ident_delim_stops rest Hd) as [D1 D2].
  assert (I : m_identifier (a :: r ++ rest) = Some (S (length r))).
  { cbn [m_identifier]. rewrite Ha, (count_while_app_all _ _ _ Hr), D1, Nat.add_0_r. reflexivity. }
  assert (U : m_unquoted (a :: r ++ rest) = Some (S (length r))).
  { unfold m_unquoted. destruct (ident_char_unq a (ident_start_char a Ha)) as [H1 H2].
    rewrite unq_run_cons, H1, H2, (unq_run_ident _ _ Hr), D2, Nat.add_0_r. reflexivity. }
  rewrite best_results, I, U. kill_rules. cbn [pick noeof].
  rewrite better_same. reflexivity.
Qed.

Example best_ident_delim_ex :
  best (s"foo_1" ++ s"(x)") = Some (TIdent, 5) /\ ident_delim (s"(x)") = true.
Proof. split; vm_compute; reflexivity. Qed.

(* conversely, a TIdent piece is an identifier *)
Lemma forallb_take_while (p : char -> bool) (x : str) : forallb p (take_while p x) = true.
Proof.
  induction x as [|a r IH]; [reflexivity|].
  cbn [take_while]. destruct (p a) eqn:E; [|reflexivity]. cbn [forallb]. rewrite E, IH. reflexivity.
Qed.

Lemma firstn_count_while (p : char -> bool) (x : str) :
  firstn (count_while p x) x = take_while p x.
Proof.
  induction x as [|a r IH]; [reflexivity|].
  rewrite count_while_cons. cbn [take_while]. destruct (p a); [|reflexivity].
  cbn [firstn]. rewrite IH. reflexivity.
Qed.

Lemma best_ident_shape (x : str) (n : nat) :
  best x = Some (TIdent, n) ->
  exists a r, firstn n x = a :: r /\ is_ident_start a = true /\ forallb is_ident_char r = true.
Proof.
  intro H. apply best_inv in H. destruct H as (m & e & Hin & Hm).
  unfold rules in Hin. cbn [In] in Hin.
  do 6 (destruct Hin as [Hin | Hin]; [discriminate Hin|]).
  destruct Hin as [Hin | Hin].
  - inversion Hin. subst m. apply noeof_inv in Hm.
    destruct x as [|a t]; cbn [m_identifier] in Hm; [discriminate|].
    destruct (is_ident_start a) eqn:Ha; [|discriminate]. inversion Hm. subst n.
    exists a, (take_while is_ident_char t). cbn [firstn]. rewrite firstn_count_while.
    split; [reflexivity | split; [exact Ha | apply forallb_take_while]].
  - repeat (destruct Hin as [Hin | Hin]; [discriminate Hin|]). contradiction.
Qed.

(* ---- C2: concatenation at a stable boundary ---- *)

Lemma firstn_app_le {A} (n : nat) (l1 l2 : list A) :
  n <= length l1 -> firstn n (l1 ++ l2) = firstn n l1.
Proof.
  intro H. rewrite firstn_app. replace (n - length l1) with 0 by lia.
  cbn [firstn]. apply app_nil_r.
Qed.

Lemma skipn_app_le {A} (n : nat) (l1 l2 : list A) :
  n <= length l1 -> skipn n (l1 ++ l2) = skipn n l1 ++ l2.
Proof.
  intro H. rewrite skipn_app. replace (n - length l1) with 0 by lia. reflexivity.
Qed.

Lemma reaches_app (x y : str) (qs : list token) (rest : str) :
  stable_boundary x y -> reaches x qs rest -> reaches (x ++ y) qs (rest ++ y).
Proof.
  intros Hs H. induction H as [|ps a r k n H IH B].
  - apply reaches_nil.
  - pose proof (best_le _ _ _ B) as L.
    assert (B' : best (a :: r ++ y) = Some (k, S n)).
    { change (best ((a :: r) ++ y) = Some (k, S n)).
      rewrite (Hs ps (a :: r) H); [exact B | discriminate]. }
    rewrite <- (firstn_app_le (S n) (a :: r) y L).
    rewrite <- (skipn_app_le (S n) (a :: r) y L).
    exact (reaches_step (x ++ y) ps a (r ++ y) k n IH B').
Qed.

Theorem lex_all_app_boundary : forall x y ps,
  lex_all x = LexOk ps -> stable_boundary x y ->
  lex_all (x ++ y) = match lex_all y with
                     | LexOk qs => LexOk (ps ++ qs)
                     | LexErr p => LexErr (length x + p)
                     end.
Proof.
  intros x y ps Hx Hs.
  pose proof (reaches_app x y ps [] Hs (lex_all_reaches x ps Hx)) as R. cbn [app] in R.
  rewrite (reaches_lex_all _ _ _ R). rewrite app_length.
  replace (length x + length y - length y) with (length x) by lia. reflexivity.
Qed.

(* the special case of one piece: checkable by a single evaluation of best *)
Lemma lex_all_first_piece (u v : str) (k : tk) :
  u <> [] -> best (u ++ v) = Some (k, length u) ->
  lex_all (u ++ v) = match lex_all v with
                     | LexOk qs => LexOk ((k, u) :: qs)
                     | LexErr p => LexErr (length u + p)
                     end.
Proof.
  intros Hu B. destruct u as [|a r]; [contradiction|].
  change ((a :: r) ++ v) with (a :: r ++ v) in *. cbn [length] in B.
  rewrite lex_all_step, B. cbv beta iota.
  change (a :: r ++ v) with ((a :: r) ++ v).
  change (S (length r)) with (length (a :: r)).
  rewrite (skipn_app_le (length (a :: r)) (a :: r) v (le_n _)), skipn_all.
  rewrite (firstn_app_le (length (a :: r)) (a :: r) v (le_n _)), firstn_all.
  reflexivity.
Qed.

Definition lex_cons (k : tk) (u : str) (res : lexres) : lexres :=
  match res with
  | LexOk ts => LexOk (if skipped k then ts else (k, u) :: ts)
  | LexErr p => LexErr (length u + p)
  end.

Lemma lex_first_piece (u v : str) (k : tk) :
  u <> [] -> best (u ++ v) = Some (k, length u) -> lex (u ++ v) = lex_cons k u (lex v).
Proof.
  intros Hu B. unfold lex. rewrite (lex_all_first_piece u v k Hu B).
  destruct (lex_all v) as [qs|p]; cbn [lex_cons]; [|reflexivity].
  unfold visible. cbn [filter fst]. destruct (skipped k); reflexivity.
Qed.

Lemma lex_cons_sim (k : tk) (u : str) (a b : lexres) :
  lex_sim a b -> lex_sim (lex_cons k u a) (lex_cons k u b).
Proof.
  destruct a, b; cbn [lex_sim lex_cons]; intro H; try contradiction; try exact I.
  subst. reflexivity.
Qed.

(* one stable piece: the same piece is cut whatever follows, so layout inserted after
   it is invisible *)
Lemma lex_insert_ws_after_piece (u rest ws : str) (k : tk) :
  u <> [] ->
  best (u ++ rest) = Some (k, length u) ->
  best (u ++ ws ++ rest) = Some (k, length u) ->
  forallb is_ws ws = true ->
  lex_sim (lex (u ++ ws ++ rest)) (lex (u ++ rest)).
Proof.
  intros Hu B1 B2 Hw.
  rewrite (lex_first_piece u rest k Hu B1), (lex_first_piece u (ws ++ rest) k Hu B2).
  apply lex_cons_sim. apply lex_leading_ws_sim. exact Hw.
Qed.

Lemma ws_ident_delim (ws rest : str) :
  ws <> [] -> forallb is_ws ws = true -> ident_delim (ws ++ rest) = true.
Proof.
  intros Hne Hw. destruct ws as [|c ws']; [contradiction|].
  cbn [forallb] in Hw. apply andb_true_iff in Hw. destruct Hw as [Hc _].
  cbn [app ident_delim]. unfold is_ws in Hc.
  assert (H1 : is_ident_char c = false) by char_side.
  assert (H2 : is_unq_char c = false) by char_side.
  assert (H3 : (c =? 92)%N = false) by char_side.
  rewrite H1, H2, H3. reflexivity.
Qed.

Theorem lex_insert_ws_after_ident : forall name rest ws,
  best (name ++ rest) = Some (TIdent, length name) ->
  ws <> [] -> forallb is_ws ws = true ->
  lex_sim (lex (name ++ ws ++ rest)) (lex (name ++ rest)).
Proof.
  intros name rest ws B Hne Hw.
  destruct (best_ident_shape _ _ B) as (a & r & F & Ha & Hr).
  rewrite (firstn_app_le (length name) name rest (le_n _)), firstn_all in F. subst name.
  apply (lex_insert_ws_after_piece (a :: r) rest ws TIdent); [discriminate | exact B | | exact Hw].
  apply best_ident_delim; [exact Ha | exact Hr | apply ws_ident_delim; assumption].
Qed.

Example lex_insert_ws_after_ident_ex :
  best (s"foo" ++ s"(a)") = Some (TIdent, 3) /\
  lex (s"foo" ++ [sp; nl; tab] ++ s"(a)") = lex (s"foo" ++ s"(a)").
Proof. split; vm_compute; reflexivity. Qed.

(* without the piece hypothesis the statement is false: the identifier would be cut in two *)
Example lex_insert_ws_needs_boundary :
  lex (s"foo" ++ [sp] ++ s"bar") <> lex (s"foo" ++ s"bar").
Proof. vm_compute. discriminate. Qed.

Lemma best_lpar_any (r : str) : best (lpar :: r) = Some (TLParen, 1).
Proof. rewrite best_results. kill_rules. rewrite m_char_eq. reflexivity. Qed.

Lemma best_rpar_any (r : str) : best (rpar :: r) = Some (TRParen, 1).
Proof. rewrite best_results. kill_rules. rewrite m_char_eq. reflexivity. Qed.

Theorem lex_insert_ws_after_paren : forall c rest ws,
  c = lpar \/ c = rpar -> forallb is_ws ws = true ->
  lex_sim (lex ([c] ++ ws ++ rest)) (lex ([c] ++ rest)).
Proof.
  intros c rest ws [-> | ->] Hw.
  - apply (lex_insert_ws_after_piece [lpar] rest ws TLParen);
      [discriminate | apply best_lpar_any | apply best_lpar_any | exact Hw].
  - apply (lex_insert_ws_after_piece [rpar] rest ws TRParen);
      [discriminate | apply best_rpar_any | apply best_rpar_any | exact Hw].
Qed.

Example lex_insert_ws_after_paren_ex :
  lex ([lpar] ++ [sp; nl] ++ s"a)") = LexOk [(TLParen, [lpar]); (TIdent, s"a"); (TRParen, [rpar])].
Proof. vm_compute. reflexivity. Qed.

(* a piece starting with a double quote can only be a quoted argument *)
Lemma best_dq (r : str) :
  best (dq :: r) = match quoted_body r with Some m => Some (TQuoted, S m) | None => None end.
Proof.
  destruct (quoted_body r) as [m|] eqn:Q; [|apply best_unterminated_quote; exact Q].
  rewrite best_results. kill_rules.
  assert (E : m_quoted (dq :: r) = Some (S m)).
  { cbn [m_quoted]. change (dq =? 34)%N with true. cbv iota. rewrite Q. reflexivity. }
  rewrite E. reflexivity.
Qed.

(* the closing quote is found locally *)
Lemma quoted_body_app (x : str) : forall n y y',
  quoted_body (x ++ y) = Some n -> n <= length x -> quoted_body (x ++ y') = Some n.
Proof.
  induction x as [| a | a b r IHr IHb] using str_ind2; intros n y y' H L.
  - cbn [app] in H. destruct y as [|c y0]; [discriminate|].
    apply quoted_body_le in H. cbn [length] in L. lia.
  - cbn [app] in *. rewrite quoted_body_cons in *. destruct (a =? 34)%N; [exact H|].
    destruct (a =? 92)%N.
    + destruct y as [|c y0]; [discriminate|]. destruct (esc_ok c); [|discriminate].
      destruct (quoted_body y0) as [m|]; cbn [option_map] in H; [|discriminate].
      inversion H. subst n. cbn [length] in L. lia.
    + destruct (quoted_body y) as [m|] eqn:Q; cbn [option_map] in H; [|discriminate].
      inversion H. subst n. apply quoted_body_le in Q. cbn [length] in L. lia.
  - change ((a :: b :: r) ++ y) with (a :: (b :: r) ++ y) in H.
    change ((a :: b :: r) ++ y') with (a :: (b :: r) ++ y').
    rewrite quoted_body_cons in *. destruct (a =? 34)%N; [exact H|].
    destruct (a =? 92)%N.
    + cbn [app] in *. destruct (esc_ok b); [|discriminate].
      destruct (quoted_body (r ++ y)) as [m|] eqn:Q; cbn [option_map] in H; [|discriminate].
      inversion H. subst n. cbn [length] in L.
      rewrite (IHr m y y' Q) by lia. reflexivity.
    + destruct (quoted_body ((b :: r) ++ y)) as [m|] eqn:Q; cbn [option_map] in H; [|discriminate].
      inversion H. subst n. cbn [length] in L.
      rewrite (IHb m y y' Q) by (cbn [length]; lia). reflexivity.
Qed.

Theorem lex_insert_ws_after_quoted : forall q rest ws,
  best (q ++ rest) = Some (TQuoted, length q) ->
  forallb is_ws ws = true ->
  lex_sim (lex (q ++ ws ++ rest)) (lex (q ++ rest)).
Proof.
  intros q rest ws B Hw.
  destruct (quoted_piece_shape _ _ B) as ([r E] & L2 & _).
  destruct q as [|c body]; [cbn [length] in L2; lia|].
  cbn [app] in E. inversion E. subst c.
  apply (lex_insert_ws_after_piece (dq :: body) rest ws TQuoted); [discriminate | exact B | | exact Hw].
  cbn [app] in *. rewrite best_dq in *.
  destruct (quoted_body (body ++ rest)) as [m|] eqn:Q; [|discriminate].
  inversion B as [Hm]. cbn [length] in Hm. 
  rewrite (quoted_body_app body m rest (ws ++ rest) Q) by lia. subst m. reflexivity.
Qed.

Example lex_insert_ws_after_quoted_ex :
  best (s"""a\""b""" ++ s"x)") = Some (TQuoted, 6) /\
  lex (s"""a\""b""" ++ [sp; nl] ++ s"x)") = lex (s"""a\""b""" ++ s"x)").
Proof. split; vm_compute; reflexivity. Qed.

(* the same facts for the lexer standing anywhere inside an input *)
Corollary lex_reaches_sim (x x' : str) (ps : list token) (rest rest' : str) :
  reaches x ps rest -> reaches x' ps rest' ->
  lex_sim (lex rest) (lex rest') -> lex_sim (lex x) (lex x').
Proof.
  intros R R' H. unfold lex in *.
  rewrite (reaches_lex_all _ _ _ R), (reaches_lex_all _ _ _ R').
  destruct (lex_all rest) as [qs|p], (lex_all rest') as [qs'|p']; cbn [lex_sim] in *;
    try contradiction; try exact I.
  unfold visible in *. rewrite !filter_app. f_equal. exact H.
Qed.

(* ---- C3: inserting a line comment ---- *)

Lemma lex_insert_after_piece (u rest ins : str) (k : tk) :
  u <> [] ->
  best (u ++ rest) = Some (k, length u) ->
  best (u ++ ins ++ rest) = Some (k, length u) ->
  lex_sim (lex (ins ++ rest)) (lex rest) ->
  lex_sim (lex (u ++ ins ++ rest)) (lex (u ++ rest)).
Proof.
  intros Hu B1 B2 H.
  rewrite (lex_first_piece u rest k Hu B1), (lex_first_piece u (ins ++ rest) k Hu B2).
  apply lex_cons_sim. exact H.
Qed.

Lemma take_while_app_stop (p : char -> bool) (l : str) (c : char) (rest : str) :
  forallb p l = true -> p c = false -> take_while p (l ++ c :: rest) = l.
Proof.
  intros Hl Hc. induction l as [|a l IH].
  - cbn [app take_while]. rewrite Hc. reflexivity.
  - cbn [forallb] in Hl. apply andb_true_iff in Hl. destruct Hl as [Ha Hl].
    cbn [app take_while]. rewrite Ha, (IH Hl). reflexivity.
Qed.

Lemma drop_while_app_stop (p : char -> bool) (l : str) (c : char) (rest : str) :
  p c = false -> drop_while p (l ++ c :: rest) = drop_while p l ++ c :: rest.
Proof.
  intro Hc. induction l as [|a l IH].
  - cbn [app drop_while]. rewrite Hc. reflexivity.
  - cbn [app drop_while]. destruct (p a); [exact IH | reflexivity].
Qed.

Lemma m_bracket_arg_comment_text (text rest : str) :
  opens_bracket text = false -> m_bracket_arg (text ++ nl :: rest) = None.
Proof.
  intro Ho. destruct text as [|a t1].
  - reflexivity.
  - cbn [app m_bracket_arg]. destruct (a =? 91)%N eqn:Ea; [|reflexivity].
    rewrite skipn_count_while.
    rewrite (drop_while_app_stop (fun c => (c =? 61)%N) t1 nl rest eq_refl).
    cbn [opens_bracket] in Ho. rewrite Ea in Ho. cbn [andb] in Ho.
    destruct (drop_while (fun c => (c =? 61)%N) t1) as [|b t2].
    + reflexivity.
    + cbn [app]. rewrite Ho. reflexivity.
Qed.

Lemma doc_open_comment_text (text rest : str) :
  opens_bracket text = false -> startswith doc_open (hash :: text ++ nl :: rest) = false.
Proof.
  intro Ho. change doc_open with [hash; lbr; lbr; lbr]. cbn [startswith].
  rewrite N.eqb_refl. cbn [andb].
  destruct text as [|a t1]; [reflexivity|].
  cbn [app]. destruct (N.eqb_spec lbr a) as [Ea|Ea]; [|reflexivity]. subst a.
  cbn [andb]. cbn [opens_bracket] in Ho. change (lbr =? 91)%N with true in Ho. cbn [andb] in Ho.
  destruct t1 as [|b t2]; [reflexivity|].
  cbn [app]. destruct (N.eqb_spec lbr b) as [Eb|Eb]; [|reflexivity]. subst b.
  cbn [drop_while] in Ho. change (lbr =? 61)%N with false in Ho. cbv iota in Ho.
  change (lbr =? 91)%N with true in Ho. discriminate Ho.
Qed.

Lemma doc_close_comment_text (text rest : str) :
  startswith doc_close (hash :: text ++ nl :: rest) = true -> 2 <= length text.
Proof.
  change doc_close with [hash; rbr; rbr].
  destruct text as [|a [|b t]]; cbn [startswith app length]; intro H.
  - rewrite N.eqb_refl in H. discriminate H.
  - rewrite N.eqb_refl in H. cbn [andb] in H. apply andb_true_iff in H. destruct H as [_ H].
    discriminate H.
  - lia.
Qed.

Theorem best_line_comment : forall text rest,
  comment_text text = true ->
  best (line_comment text ++ rest) = Some (TLineComment, length (line_comment text)).
Proof.
  intros text rest H. unfold comment_text in H. apply andb_true_iff in H. destruct H as [Hn Ho].
  apply negb_true_iff in Ho.
  unfold line_comment. cbn [app]. rewrite <- app_assoc. cbn [app length].
  rewrite app_length. cbn [length].
  assert (LC : m_line_comment (hash :: text ++ nl :: rest) = Some (1 + length text + 1, false)).
  { cbn [m_line_comment]. change (hash =? 35)%N with true. cbv iota.
    rewrite (take_while_app_stop _ text nl rest Hn eq_refl), Ho.
    rewrite (skipn_app_le (length text) text (nl :: rest) (le_n _)), skipn_all. cbn [app].
    change (nl =? 13)%N with false. cbv iota. reflexivity. }
  assert (BC : m_bracket_comment (hash :: text ++ nl :: rest) = None).
  { cbn [m_bracket_comment]. change (hash =? 35)%N with true. cbv iota.
    rewrite (m_bracket_arg_comment_text text rest Ho). reflexivity. }
  pose proof (doc_open_comment_text text rest Ho) as DO.
  rewrite best_results, LC, BC. kill_rules.
  unfold m_lit. destruct (startswith doc_close (hash :: text ++ nl :: rest)) eqn:DC.
  - apply doc_close_comment_text in DC. cbn [pick noeof].
    assert (Bt : better (1 + length text + 1, false) (length doc_close, false) = true).
    { unfold better. cbn [fst snd]. change (length doc_close) with 3.
      destruct (Nat.ltb_spec 3 (1 + length text + 1)) as [_|L]; [reflexivity | lia]. }
    rewrite Bt. reflexivity.
  - cbn [pick noeof]. reflexivity.
Qed.

Lemma lex_cons_skipped_sim (k : tk) (u : str) (res : lexres) :
  skipped k = true -> lex_sim (lex_cons k u res) res.
Proof.
  intro H. destruct res as [ts|p]; cbn [lex_cons lex_sim]; [rewrite H; reflexivity | exact I].
Qed.

(* a line comment at the very beginning (of the input, or of what remains of it) is invisible *)
Theorem lex_insert_comment_at_start : forall text rest,
  comment_text text = true ->
  lex_sim (lex (line_comment text ++ rest)) (lex rest).
Proof.
  intros text rest H.
  rewrite (lex_first_piece (line_comment text) rest TLineComment);
    [apply lex_cons_skipped_sim; reflexivity | discriminate | apply best_line_comment; exact H].
Qed.

Theorem lex_insert_comment_after_paren : forall c text rest,
  c = lpar \/ c = rpar -> comment_text text = true ->
  lex_sim (lex ([c] ++ line_comment text ++ rest)) (lex ([c] ++ rest)).
Proof.
  intros c text rest [-> | ->] H.
  - apply (lex_insert_after_piece [lpar] rest (line_comment text) TLParen);
      [discriminate | apply best_lpar_any | apply best_lpar_any |
       apply lex_insert_comment_at_start; exact H].
  - apply (lex_insert_comment_at_start text rest) in H.
    apply (lex_insert_after_piece [rpar] rest (line_comment text) TRParen);
      [discriminate | apply best_rpar_any | apply best_rpar_any | exact H].
Qed.

Lemma hash_ident_delim (r : str) : ident_delim (hash :: r) = true.
Proof. reflexivity. Qed.

Theorem lex_insert_comment_after_ident : forall name text rest,
  best (name ++ rest) = Some (TIdent, length name) ->
  comment_text text = true ->
  lex_sim (lex (name ++ line_comment text ++ rest)) (lex (name ++ rest)).
Proof.
  intros name text rest B H.
  destruct (best_ident_shape _ _ B) as (a & r & F & Ha & Hr).
  rewrite (firstn_app_le (length name) name rest (le_n _)), firstn_all in F. subst name.
  apply (lex_insert_after_piece (a :: r) rest (line_comment text) TIdent);
    [discriminate | exact B | | apply lex_insert_comment_at_start; exact H].
  apply best_ident_delim; [exact Ha | exact Hr | apply hash_ident_delim].
Qed.

Example lex_insert_comment_ex :
  comment_text (s" [ note ]] ") = true /\
  lex ([lpar] ++ line_comment (s" [ note ]] ") ++ s"a)") = lex ([lpar] ++ s"a)") /\
  lex (line_comment (s"]]") ++ s"f()") = lex (s"f()") /\
  lex (s"f" ++ line_comment (s"") ++ s"()") = lex (s"f()").
Proof. repeat split; vm_compute; reflexivity. Qed.

(* the bracket condition is needed: such a text starts a bracket comment instead *)
Example lex_insert_comment_needs_no_bracket :
  comment_text (s"[[x") = false /\ lex (line_comment (s"[[x") ++ s"f()") = LexErr 0.
Proof. split; vm_compute; reflexivity. Qed.

(* ---- C2 in context: layout inserted after a piece does not disturb the pieces before it ---- *)

Lemma good_last_facts (l : char) :
  good_last l = true ->
  (l =? 35)%N = false /\ (l =? 91)%N = false /\ (l =? 93)%N = false /\ (l =? 61)%N = false /\
  (l =? 92)%N = false /\ is_sptab l = false /\ is_eol l = false.
Proof.
  unfold good_last, mem, hash, lbr, rbr, eqc, bsl, sp, tab, cr, nl, is_sptab, is_eol. intro H.
  repeat split; lia.
Qed.

Lemma ws_facts (c : char) :
  is_ws c = true ->
  (c =? 35)%N = false /\ (c =? 93)%N = false /\ (c =? 61)%N = false /\ (c =? 34)%N = false /\
  (c =? 92)%N = false /\ mem c module_kw = false.
Proof.
  unfold is_ws, is_sptab, is_eol. intro H.
  assert (E : c = 32%N \/ c = 9%N \/ c = 13%N \/ c = 10%N) by lia.
  destruct E as [-> | [-> | [-> | ->]]]; repeat split; reflexivity.
Qed.

Lemma mem_bracket_close (c : char) (n : nat) :
  (c =? 93)%N = false -> (c =? 61)%N = false -> mem c (bracket_close n) = false.
Proof.
  intros H1 H2. unfold bracket_close. cbn [app mem]. unfold rbr. rewrite H1. cbn [orb].
  induction n as [|n IH]; cbn [repeat app mem].
  - rewrite H1. reflexivity.
  - unfold eqc at 1. rewrite H2. exact IH.
Qed.

(* -- primitives -- *)

Lemma startswith_last (p v : str) (l : char) (y y' : str) :
  mem l p = false -> startswith p (v ++ l :: y) = startswith p (v ++ l :: y').
Proof.
  revert v. induction p as [|a p IH]; intros v H; [reflexivity|].
  cbn [mem] in H. apply orb_false_iff in H. destruct H as [Hl Hp].
  destruct v as [|b v]; cbn [app startswith].
  - rewrite N.eqb_sym, Hl. reflexivity.
  - rewrite (IH v Hp). reflexivity.
Qed.

Lemma startswith_len_last (p v : str) (l : char) (y : str) :
  startswith p (v ++ l :: y) = true -> mem l p = false -> length p <= length v.
Proof.
  revert v. induction p as [|a p IH]; intros v H Hm; [cbn [length]; lia|].
  cbn [mem] in Hm. apply orb_false_iff in Hm. destruct Hm as [Hl Hp].
  destruct v as [|b v]; cbn [app startswith] in H.
  - rewrite N.eqb_sym, Hl in H. discriminate H.
  - apply andb_true_iff in H. destruct H as [_ H]. specialize (IH v H Hp). cbn [length]. lia.
Qed.

Lemma startswith_local (p v z z' : str) :
  length p <= length v -> startswith p (v ++ z) = startswith p (v ++ z').
Proof.
  revert v. induction p as [|a p IH]; intros v H; [reflexivity|].
  destruct v as [|b v]; cbn [length] in H; [lia|].
  cbn [app startswith]. rewrite (IH v) by lia. reflexivity.
Qed.

Lemma startswith_insert_false (p v ins z : str) :
  (forall c, In c ins -> mem c p = false) ->
  startswith p (v ++ z) = false -> startswith p (v ++ ins ++ z) = false.
Proof.
  revert v. induction p as [|a p IH]; intros v Hins H; [discriminate H|].
  destruct v as [|b v]; cbn [app] in *.
  - destruct ins as [|c ins']; [exact H|]. cbn [app startswith].
    specialize (Hins c (or_introl eq_refl)). cbn [mem] in Hins.
    apply orb_false_iff in Hins. destruct Hins as [Hc _]. rewrite N.eqb_sym, Hc. reflexivity.
  - cbn [startswith] in *. destruct (a =? b)%N; [|reflexivity]. cbn [andb] in *.
    apply IH; [|exact H]. intros c Hc. specialize (Hins c Hc). cbn [mem] in Hins.
    apply orb_false_iff in Hins. exact (proj2 Hins).
Qed.

Lemma count_while_last (p : char -> bool) (v : str) (l : char) (y : str) :
  p l = false -> count_while p (v ++ l :: y) = count_while p v.
Proof.
  intro H. induction v as [|a v IH]; cbn [app].
  - rewrite count_while_cons, H. reflexivity.
  - rewrite !count_while_cons, IH. reflexivity.
Qed.

Lemma count_while_stop_local (p : char -> bool) (v : str) (l : char) (y y' : str) :
  count_while p (v ++ l :: y) <= length v ->
  count_while p (v ++ l :: y') = count_while p (v ++ l :: y).
Proof.
  induction v as [|a v IH]; cbn [app length]; intro H.
  - rewrite !count_while_cons in *. destruct (p l); [lia | reflexivity].
  - rewrite !(count_while_cons p a) in *. destruct (p a); [|reflexivity].
    rewrite IH by lia. reflexivity.
Qed.

Lemma find_sub_cons (pat : str) (a : char) (r : str) :
  find_sub pat (a :: r) =
  if startswith pat (a :: r) then Some 0 else option_map S (find_sub pat r).
Proof. reflexivity. Qed.

Lemma find_sub_local (pat v z z' : str) (i : nat) :
  find_sub pat (v ++ z) = Some i -> i + length pat <= length v ->
  find_sub pat (v ++ z') = Some i.
Proof.
  revert i. induction v as [|a v IH]; intros i H L.
  - cbn [length] in L. assert (i = 0) by lia. subst i.
    destruct pat as [|b pat]; [|cbn [length] in L; lia].
    destruct z'; reflexivity.
  - cbn [app] in *. rewrite find_sub_cons in *.
    destruct (startswith pat (a :: v ++ z)) eqn:E.
    + inversion H. subst i. cbn [length] in L.
      change (a :: v ++ z) with ((a :: v) ++ z) in E.
      change (a :: v ++ z') with ((a :: v) ++ z').
      rewrite (startswith_local pat (a :: v) z' z) by (cbn [length]; lia). rewrite E. reflexivity.
    + destruct (find_sub pat (v ++ z)) as [j|] eqn:F; cbn [option_map] in H; [|discriminate H].
      inversion H. subst i. cbn [length] in L.
      change (a :: v ++ z) with ((a :: v) ++ z) in E.
      change (a :: v ++ z') with ((a :: v) ++ z').
      rewrite (startswith_local pat (a :: v) z' z) by (cbn [length]; lia). rewrite E.
      rewrite (IH j eq_refl) by lia. reflexivity.
Qed.

Lemma find_sub_none_prefix (pat ins z : str) :
  (forall c, In c ins -> mem c pat = false) ->
  find_sub pat z = None -> find_sub pat (ins ++ z) = None.
Proof.
  intros Hins H. induction ins as [|c ins IH]; [exact H|].
  cbn [app]. rewrite find_sub_cons.
  assert (Hp : pat <> []).
  { intro E. subst pat. destruct z; discriminate H. }
  destruct pat as [|a pat]; [contradiction|].
  assert (Hc : mem c (a :: pat) = false) by (apply Hins; left; reflexivity).
  cbn [mem] in Hc. apply orb_false_iff in Hc. destruct Hc as [Hc _].
  cbn [startswith]. rewrite N.eqb_sym, Hc. cbn [andb].
  rewrite IH; [reflexivity|]. intros c' Hc'. apply Hins. right. exact Hc'.
Qed.

Lemma find_sub_none_insert (pat v ins z : str) :
  (forall c, In c ins -> mem c pat = false) ->
  find_sub pat (v ++ z) = None -> find_sub pat (v ++ ins ++ z) = None.
Proof.
  intros Hins. induction v as [|a v IH]; intro H.
  - cbn [app] in *. apply find_sub_none_prefix; assumption.
  - cbn [app] in *. rewrite find_sub_cons in *.
    destruct (startswith pat (a :: v ++ z)) eqn:E; [discriminate H|].
    change (a :: v ++ z) with ((a :: v) ++ z) in E.
    change (a :: v ++ ins ++ z) with ((a :: v) ++ ins ++ z).
    rewrite (startswith_insert_false pat (a :: v) ins z Hins E).
    destruct (find_sub pat (v ++ z)) as [j|]; [discriminate H|].
    rewrite IH; reflexivity.
Qed.

(* the unquoted run relative to the last character of a stable prefix *)
Lemma unq_run_last_cases (v : str) (l : char) (y y' : str) :
  (l =? 92)%N = false ->
  (unq_run (v ++ l :: y) <= length v /\ unq_run (v ++ l :: y') = unq_run (v ++ l :: y)) \/
  (length v < unq_run (v ++ l :: y) /\ length v < unq_run (v ++ l :: y')).
Proof.
  intro Hl.
  assert (Base : forall z z',
    (unq_run (l :: z) <= 0 /\ unq_run (l :: z') = unq_run (l :: z)) \/
    (0 < unq_run (l :: z) /\ 0 < unq_run (l :: z'))).
  { intros z z'. rewrite !unq_run_cons, Hl. destruct (is_unq_char l); [right; lia | left; lia]. }
  induction v as [| a | a b r IHr IHb] using str_ind2.
  - apply Base.
  - cbn [app length]. rewrite !(unq_run_cons a).
    destruct (a =? 92)%N.
    + destruct (esc_ok l); [right; lia | left; lia].
    + destruct (is_unq_char a); [|left; lia].
      destruct (Base y y') as [[B1 B2] | [B1 B2]]; [left; lia | right; lia].
  - change ((a :: b :: r) ++ l :: y) with (a :: b :: (r ++ l :: y)).
    change ((a :: b :: r) ++ l :: y') with (a :: b :: (r ++ l :: y')).
    rewrite !(unq_run_cons a). cbn [length].
    destruct (a =? 92)%N.
    + destruct (esc_ok b); [|left; lia].
      destruct IHr as [[B1 B2] | [B1 B2]]; [left; lia | right; lia].
    + destruct (is_unq_char a); [|left; lia].
      change (b :: r ++ l :: y) with ((b :: r) ++ l :: y).
      change (b :: r ++ l :: y') with ((b :: r) ++ l :: y').
      destruct IHb as [[B1 B2] | [B1 B2]]; cbn [length] in *; [left; lia | right; lia].
Qed.

Lemma quoted_body_none_prefix (ins z : str) :
  (forall c, In c ins -> (c =? 34)%N = false /\ (c =? 92)%N = false) ->
  quoted_body z = None -> quoted_body (ins ++ z) = None.
Proof.
  intros Hins H. induction ins as [|c ins IH]; [exact H|].
  cbn [app]. rewrite quoted_body_cons.
  destruct (Hins c (or_introl eq_refl)) as [H1 H2]. rewrite H1, H2.
  rewrite IH; [reflexivity|]. intros c' Hc'. apply Hins. right. exact Hc'.
Qed.

Lemma quoted_body_none_insert (v : str) (l : char) (ins y : str) :
  (l =? 92)%N = false ->
  (forall c, In c ins -> (c =? 34)%N = false /\ (c =? 92)%N = false) ->
  quoted_body (v ++ l :: y) = None -> quoted_body (v ++ l :: ins ++ y) = None.
Proof.
  intros Hl Hins.
  assert (Base : quoted_body (l :: y) = None -> quoted_body (l :: ins ++ y) = None).
  { rewrite !quoted_body_cons, Hl. destruct (l =? 34)%N; [discriminate|].
    destruct (quoted_body y) eqn:Q; [discriminate|]. intros _.
    rewrite (quoted_body_none_prefix ins y Hins Q). reflexivity. }
  induction v as [| a | a b r IHr IHb] using str_ind2; intro H.
  - apply Base. exact H.
  - cbn [app] in *. rewrite (quoted_body_cons a) in *.
    destruct (a =? 34)%N; [discriminate H|].
    destruct (a =? 92)%N.
    + destruct (esc_ok l); [|reflexivity].
      destruct (quoted_body y) eqn:Q; [discriminate H|].
      rewrite (quoted_body_none_prefix ins y Hins Q). reflexivity.
    + destruct (quoted_body (l :: y)) eqn:Q; [discriminate H|].
      rewrite (Base eq_refl). reflexivity.
  - change ((a :: b :: r) ++ l :: y) with (a :: b :: (r ++ l :: y)) in H.
    change ((a :: b :: r) ++ l :: ins ++ y) with (a :: b :: (r ++ l :: ins ++ y)).
    rewrite (quoted_body_cons a) in *.
    destruct (a =? 34)%N; [discriminate H|].
    destruct (a =? 92)%N.
    + destruct (esc_ok b); [|reflexivity].
      destruct (quoted_body (r ++ l :: y)) eqn:Q; [discriminate H|].
      rewrite (IHr eq_refl). reflexivity.
    + change (b :: r ++ l :: y) with ((b :: r) ++ l :: y) in H.
      change (b :: r ++ l :: ins ++ y) with ((b :: r) ++ l :: ins ++ y).
      destruct (quoted_body ((b :: r) ++ l :: y)) eqn:Q; [discriminate H|].
      rewrite (IHb eq_refl). reflexivity.
Qed.

(* -- the rules, one by one: a result that ends before the last character of the stable
      prefix (or no result) is not changed by layout inserted after that character -- *)

Lemma snoc_app (v : str) (l : char) (z : str) : v ++ l :: z = (v ++ [l]) ++ z.
Proof. rewrite <- app_assoc. reflexivity. Qed.

Lemma m_char_stable (c : char) (v : str) (l : char) (z z' : str) :
  m_char c (v ++ l :: z') = m_char c (v ++ l :: z).
Proof. destruct v; reflexivity. Qed.

Lemma m_lit_stable (lit v : str) (l : char) (z z' : str) :
  mem l lit = false -> m_lit lit (v ++ l :: z') = m_lit lit (v ++ l :: z).
Proof. intro H. unfold m_lit. rewrite (startswith_last lit v l z' z H). reflexivity. Qed.


  Lemma ins_ws (ins : str) (Hins : forallb is_ws ins = true) : forall c, In c ins -> is_ws c = true.
  Proof. apply forallb_forall. exact Hins. Qed.

  Lemma ins_not_in_close (ins : str) (Hins : forallb is_ws ins = true) : forall c, In c ins -> mem c doc_close = false.
  Proof.
    intros c Hc. destruct (ws_facts c (ins_ws ins Hins c Hc)) as (H1 & H2 & _).
    change doc_close with [35%N; 93%N; 93%N]. cbn [mem]. rewrite H1, H2. reflexivity.
  Qed.

  Lemma ins_not_in_bclose (ins : str) (Hins : forallb is_ws ins = true) (n : nat) : forall c, In c ins -> mem c (bracket_close n) = false.
  Proof.
    intros c Hc. destruct (ws_facts c (ins_ws ins Hins c Hc)) as (_ & H2 & H3 & _).
    apply mem_bracket_close; assumption.
  Qed.

  Lemma ins_not_quote (ins : str) (Hins : forallb is_ws ins = true) : forall c, In c ins -> (c =? 34)%N = false /\ (c =? 92)%N = false.
  Proof.
    intros c Hc. destruct (ws_facts c (ins_ws ins Hins c Hc)) as (_ & _ & _ & H4 & H5 & _).
    split; assumption.
  Qed.

  Lemma l_not_in_open (l : char) (Hl : good_last l = true) : mem l doc_open = false.
  Proof.
    destruct (good_last_facts l Hl) as (H1 & H2 & _).
    change doc_open with [35%N; 91%N; 91%N; 91%N]. cbn [mem]. rewrite H1, H2. reflexivity.
  Qed.

  Lemma l_not_in_close (l : char) (Hl : good_last l = true) : mem l doc_close = false.
  Proof.
    destruct (good_last_facts l Hl) as (H1 & _ & H3 & _).
    change doc_close with [35%N; 93%N; 93%N]. cbn [mem]. rewrite H1, H3. reflexivity.
  Qed.

  Lemma m_docstring_stable (l : char) (ins : str) (Hl : good_last l = true)
        (Hins : forallb is_ws ins = true) (v y : str) :
    short_opt (m_docstring (v ++ l :: y)) (length v) ->
    m_docstring (v ++ l :: ins ++ y) = m_docstring (v ++ l :: y).
  Proof.
    unfold m_docstring. rewrite (startswith_last doc_open v l (ins ++ y) y (l_not_in_open l Hl)).
    destruct (startswith doc_open (v ++ l :: y)) eqn:E; [|reflexivity].
    apply startswith_len_last in E; [|exact (l_not_in_open l Hl)]. change (length doc_open) with 4 in E.
    rewrite !(skipn_app_le 4 v) by exact E.
    pose proof (skipn_length 4 v) as L4. set (v4 := skipn 4 v) in *.
    destruct (find_sub doc_close (v4 ++ l :: y)) as [i|] eqn:F; cbn [short_opt]; intro H.
    - rewrite (find_sub_local doc_close v4 (l :: y) (l :: ins ++ y) i F); [reflexivity|].
      change (length doc_close) with 3. lia.
    - rewrite snoc_app in F. rewrite (snoc_app v4 l (ins ++ y)).
      rewrite (find_sub_none_insert doc_close (v4 ++ [l]) ins y (ins_not_in_close ins Hins) F). reflexivity.
  Qed.

  Lemma m_identifier_stable (l : char) (ins : str) (Hl : good_last l = true)
        (Hins : forallb is_ws ins = true) (v y : str) :
    short_opt (m_identifier (v ++ l :: y)) (length v) ->
    m_identifier (v ++ l :: ins ++ y) = m_identifier (v ++ l :: y).
  Proof.
    destruct v as [|a v]; cbn [app m_identifier length].
    - destruct (is_ident_start l); cbn [short_opt]; intro H; [lia | reflexivity].
    - destruct (is_ident_start a); cbn [short_opt]; intro H; [|reflexivity].
      rewrite (count_while_stop_local is_ident_char v l y (ins ++ y)) by lia. reflexivity.
  Qed.

  Lemma m_unquoted_stable (l : char) (ins : str) (Hl : good_last l = true)
        (Hins : forallb is_ws ins = true) (v y : str) :
    short_opt (m_unquoted (v ++ l :: y)) (length v) ->
    m_unquoted (v ++ l :: ins ++ y) = m_unquoted (v ++ l :: y).
  Proof.
    unfold m_unquoted. destruct (good_last_facts l Hl) as (_ & _ & _ & _ & H5 & _).
    destruct (unq_run_last_cases v l y (ins ++ y) H5) as [[B1 B2] | [B1 B2]].
    - rewrite B2. reflexivity.
    - destruct (unq_run (v ++ l :: y)) as [|n]; [lia|]. cbn [short_opt]. intro H. lia.
  Qed.

  Lemma m_escape_stable (l : char) (ins : str) (Hl : good_last l = true)
        (Hins : forallb is_ws ins = true) (v y : str) :
    m_escape (v ++ l :: ins ++ y) = m_escape (v ++ l :: y).
  Proof.
    destruct (good_last_facts l Hl) as (_ & _ & _ & _ & H5 & _).
    assert (B : forall z, m_escape (l :: z) = None).
    { intro z. destruct z; cbn [m_escape]; [reflexivity|]. rewrite H5. reflexivity. }
    destruct v as [|a [|b v]]; cbn [app].
    - rewrite !B. reflexivity.
    - reflexivity.
    - reflexivity.
  Qed.

  Lemma m_quoted_stable (l : char) (ins : str) (Hl : good_last l = true)
        (Hins : forallb is_ws ins = true) (v y : str) :
    short_opt (m_quoted (v ++ l :: y)) (length v) ->
    m_quoted (v ++ l :: ins ++ y) = m_quoted (v ++ l :: y).
  Proof.
    destruct (good_last_facts l Hl) as (_ & _ & _ & _ & H5 & _).
    destruct v as [|a v]; cbn [app m_quoted length].
    - destruct (l =? 34)%N; [|reflexivity].
      destruct (quoted_body y) as [m|] eqn:Q; cbn [option_map short_opt]; intro H; [lia|].
      rewrite (quoted_body_none_prefix ins y (ins_not_quote ins Hins) Q). reflexivity.
    - destruct (a =? 34)%N; [|reflexivity].
      destruct (quoted_body (v ++ l :: y)) as [m|] eqn:Q; cbn [option_map short_opt]; intro H.
      + rewrite snoc_app in Q. rewrite (snoc_app v l (ins ++ y)).
        rewrite (quoted_body_app (v ++ [l]) m y (ins ++ y) Q); [reflexivity|].
        rewrite app_length. cbn [length]. lia.
      + rewrite (quoted_body_none_insert v l ins y H5 (ins_not_quote ins Hins) Q). reflexivity.
  Qed.

  Lemma m_bracket_arg_stable (l : char) (ins : str) (Hl : good_last l = true)
        (Hins : forallb is_ws ins = true) (v y : str) :
    short_opt (m_bracket_arg (v ++ l :: y)) (length v) ->
    m_bracket_arg (v ++ l :: ins ++ y) = m_bracket_arg (v ++ l :: y).
  Proof.
    destruct (good_last_facts l Hl) as (_ & H2 & _ & H4 & _).
    destruct v as [|a v]; cbn [app m_bracket_arg length].
    - rewrite H2. reflexivity.
    - destruct (a =? 91)%N; [|reflexivity].
      rewrite !(count_while_last (fun c => (c =? 61)%N) v l) by exact H4.
      pose proof (count_while_le (fun c => (c =? 61)%N) v) as Lc.
      set (c := count_while (fun c => (c =? 61)%N) v) in *.
      rewrite !(skipn_app_le c v) by exact Lc.
      pose proof (skipn_length c v) as L2.
      destruct (skipn c v) as [|b v3]; cbn [app].
      + rewrite H2. reflexivity.
      + destruct (b =? 91)%N; [|reflexivity]. cbn [length] in L2.
        destruct (find_sub (bracket_close c) (v3 ++ l :: y)) as [i|] eqn:F; cbn [short_opt]; intro H.
        * rewrite (find_sub_local (bracket_close c) v3 (l :: y) (l :: ins ++ y) i F); [reflexivity|].
          rewrite bracket_close_length. lia.
        * rewrite snoc_app in F. rewrite (snoc_app v3 l (ins ++ y)).
          rewrite (find_sub_none_insert (bracket_close c) (v3 ++ [l]) ins y (ins_not_in_bclose ins Hins c) F).
          reflexivity.
  Qed.

  Lemma m_bracket_comment_stable (l : char) (ins : str) (Hl : good_last l = true)
        (Hins : forallb is_ws ins = true) (v y : str) :
    short_opt (m_bracket_comment (v ++ l :: y)) (length v) ->
    m_bracket_comment (v ++ l :: ins ++ y) = m_bracket_comment (v ++ l :: y).
  Proof.
    destruct (good_last_facts l Hl) as (H1 & _).
    destruct v as [|a v]; cbn [app m_bracket_comment length].
    - rewrite H1. reflexivity.
    - destruct (a =? 35)%N; [|reflexivity].
      destruct (m_bracket_arg (v ++ l :: y)) as [m|] eqn:B; cbn [option_map short_opt]; intro H.
      + rewrite (m_bracket_arg_stable l ins Hl Hins); rewrite B; [reflexivity | cbn [short_opt]; lia].
      + rewrite (m_bracket_arg_stable l ins Hl Hins); rewrite B; [reflexivity | exact I].
  Qed.

  Lemma m_run_stable (l : char) (ins : str) (p : char -> bool) (v y : str) :
    short_opt (m_run p (v ++ l :: y)) (length v) ->
    m_run p (v ++ l :: ins ++ y) = m_run p (v ++ l :: y).
  Proof.
    unfold m_run. intro H.
    rewrite (count_while_stop_local p v l y (ins ++ y)); [reflexivity|].
    destruct (count_while p (v ++ l :: y)); cbn [short_opt] in H; lia.
  Qed.


(* line comments *)
Definition lc_end (len : nat) (rest : str) : option (nat * bool) :=
  match rest with
  | [] => Some (1 + len, true)
  | c :: r' =>
      if (c =? 13)%N then
        match r' with
        | c2 :: _ => if (c2 =? 10)%N then Some (1 + len + 2, false)
                     else Some (1 + len + 1, false)
        | [] => Some (1 + len + 1, false)
        end
      else Some (1 + len + 1, false)
  end.

Lemma m_line_comment_cons (a : char) (r : str) :
  m_line_comment (a :: r) =
  if (a =? 35)%N then
    let line := take_while (fun c => negb (is_eol c)) r in
    if opens_bracket line then None else lc_end (length line) (skipn (length line) r)
  else None.
Proof. reflexivity. Qed.

Lemma lc_end_ge (len : nat) (rest : str) (n : nat) (e : bool) :
  lc_end len rest = Some (n, e) -> 1 + len <= n.
Proof.
  unfold lc_end. destruct rest as [|c r']; [intro H; inversion H; lia|].
  destruct (c =? 13)%N; [|intro H; inversion H; lia].
  destruct r' as [|c2 r'']; [intro H; inversion H; lia|].
  destruct (c2 =? 10)%N; intro H; inversion H; lia.
Qed.

Lemma lc_end_stable (len : nat) (c : char) (v5 : str) (l : char) (z z' : str) :
  (l =? 10)%N = false ->
  lc_end len (c :: v5 ++ l :: z') = lc_end len (c :: v5 ++ l :: z).
Proof.
  intro H. destruct v5 as [|c2 v6]; cbn [lc_end app]; [rewrite H|]; reflexivity.
Qed.

Lemma take_while_app_all (p : char -> bool) (v z : str) :
  forallb p v = true -> take_while p (v ++ z) = v ++ take_while p z.
Proof.
  induction v as [|a v IH]; intro H; [reflexivity|].
  cbn [forallb] in H. apply andb_true_iff in H. destruct H as [Ha Hv].
  cbn [app take_while]. rewrite Ha, (IH Hv). reflexivity.
Qed.

Lemma forallb_false_split (p : char -> bool) (v : str) :
  forallb p v = false ->
  exists v1 c v5, v = v1 ++ c :: v5 /\ forallb p v1 = true /\ p c = false.
Proof.
  induction v as [|a v IH]; intro H; [discriminate H|].
  cbn [forallb] in H. destruct (p a) eqn:Ea.
  - cbn [andb] in H. destruct (IH H) as (v1 & c & v5 & -> & H1 & H2).
    exists (a :: v1), c, v5. cbn [forallb app]. rewrite Ea, H1. repeat split. exact H2.
  - exists [], a, v. repeat split. exact Ea.
Qed.

Lemma opens_bracket_last (v : str) (l : char) (t t' : str) :
  (l =? 91)%N = false -> (l =? 61)%N = false ->
  opens_bracket (v ++ l :: t') = opens_bracket (v ++ l :: t).
Proof.
  intros H1 H2. destruct v as [|a v]; cbn [app opens_bracket].
  - rewrite H1. reflexivity.
  - rewrite !(drop_while_app_stop (fun c => (c =? 61)%N) v l) by exact H2.
    destruct (drop_while (fun c => (c =? 61)%N) v); reflexivity.
Qed.

Lemma m_line_comment_stable (l : char) (ins : str) (Hl : good_last l = true)
      (Hins : forallb is_ws ins = true) (v y : str) :
  short_res (m_line_comment (v ++ l :: y)) (length v) ->
  m_line_comment (v ++ l :: ins ++ y) = m_line_comment (v ++ l :: y).
Proof.
  destruct (good_last_facts l Hl) as (H1 & H2 & _ & H4 & _ & _ & H7).
  assert (H10 : (l =? 10)%N = false) by (unfold is_eol in H7; lia).
  destruct v as [|a v]; cbn [app length]; rewrite !m_line_comment_cons.
  - rewrite H1. reflexivity.
  - destruct (a =? 35)%N; [|reflexivity]. cbv zeta.
    set (noeol := fun c => negb (is_eol c)).
    destruct (forallb noeol v) eqn:Fv.
    + assert (Fl : forallb noeol (v ++ [l]) = true).
      { rewrite forallb_app, Fv. cbn [forallb]. unfold noeol. rewrite H7. reflexivity. }
      rewrite (snoc_app v l y), (snoc_app v l (ins ++ y)).
      rewrite !(take_while_app_all noeol (v ++ [l])) by exact Fl.
      rewrite <- !app_assoc. cbn [app].
      rewrite (opens_bracket_last v l (take_while noeol y) (take_while noeol (ins ++ y)) H2 H4).
      destruct (opens_bracket (v ++ l :: take_while noeol y)); [reflexivity|].
      destruct (lc_end _ _) as [[n e]|] eqn:E; cbn [short_res]; intro H.
      * apply lc_end_ge in E. rewrite app_length in E. cbn [length] in E. lia.
      * unfold lc_end in E. destruct (skipn _ _) as [|c r'] in E; [discriminate E|].
        destruct (c =? 13)%N; [|discriminate E]. destruct r' as [|c2 r'']; [discriminate E|].
        destruct (c2 =? 10)%N; discriminate E.
    + destruct (forallb_false_split noeol v Fv) as (v1 & c & v5 & -> & F1 & Fc).
      rewrite <- !app_assoc. cbn [app].
      rewrite !(take_while_app_stop noeol v1 c) by assumption.
      rewrite !(skipn_app_le (length v1) v1) by apply le_n. rewrite skipn_all. cbn [app].
      rewrite (lc_end_stable (length v1) c v5 l y (ins ++ y) H10). reflexivity.
Qed.

(* module docstrings *)
Lemma mod_term_S (f from bend : nat) (x : str) :
  mod_term (S f) from bend x =
  match find_sub doc_close (skipn from x) with
  | None => None
  | Some i =>
      let e := from + i + 3 in
      if Nat.leb e bend then
        match mod_term f e bend x with
        | Some e' => Some e'
        | None => Some e
        end
      else Some e
  end.
Proof. reflexivity. Qed.

Lemma find_sub_close_nil : find_sub doc_close [] = None.
Proof. reflexivity. Qed.

Lemma mod_term_fuel (f1 : nat) : forall f2 from bend z,
  length z < from + f1 -> length z < from + f2 ->
  mod_term f1 from bend z = mod_term f2 from bend z.
Proof.
  induction f1 as [|f1 IH]; intros f2 from bend z L1 L2.
  - destruct f2 as [|f2]; [reflexivity|]. rewrite mod_term_S.
    rewrite skipn_all2 by lia. rewrite find_sub_close_nil. reflexivity.
  - destruct f2 as [|f2].
    + rewrite mod_term_S. rewrite skipn_all2 by lia. rewrite find_sub_close_nil. reflexivity.
    + rewrite !mod_term_S. destruct (find_sub doc_close (skipn from z)) as [i|]; [|reflexivity].
      cbv zeta. rewrite (IH f2 (from + i + 3) bend z) by lia. reflexivity.
Qed.

Lemma mod_term_gt (f : nat) : forall from bend z e,
  mod_term f from bend z = Some e -> from < e.
Proof.
  induction f as [|f IH]; intros from bend z e H; [discriminate H|].
  rewrite mod_term_S in H. destruct (find_sub doc_close (skipn from z)) as [i|]; [|discriminate H].
  cbv zeta in H. destruct (Nat.leb (from + i + 3) bend).
  - destruct (mod_term f (from + i + 3) bend z) as [e'|] eqn:M.
    + inversion H. subst e'. apply IH in M. lia.
    + inversion H. lia.
  - inversion H. lia.
Qed.

Lemma mod_term_stable (l : char) (ins : str) (Hins : forallb is_ws ins = true)
      (v3 y : str) (bend bend' : nat) (f : nat) : forall from,
  from <= length v3 ->
  (bend = bend' \/ (length v3 <= bend /\ length v3 <= bend')) ->
  short_opt (mod_term f from bend (v3 ++ l :: y)) (length v3) ->
  mod_term f from bend' (v3 ++ l :: ins ++ y) = mod_term f from bend (v3 ++ l :: y).
Proof.
  induction f as [|f IH]; intros from Lf Hb H; [reflexivity|].
  rewrite !mod_term_S in *. rewrite !(skipn_app_le from v3) in * by exact Lf.
  pose proof (skipn_length from v3) as Lv. set (v' := skipn from v3) in *.
  destruct (find_sub doc_close (v' ++ l :: y)) as [i|] eqn:F.
  - cbv zeta in *. destruct (Nat.le_gt_cases (from + i + 3) (length v3)) as [Le|Gt].
    + rewrite (find_sub_local doc_close v' (l :: y) (l :: ins ++ y) i F)
        by (change (length doc_close) with 3; lia).
      assert (Eb : Nat.leb (from + i + 3) bend' = Nat.leb (from + i + 3) bend).
      { destruct Hb as [-> | [B1 B2]]; [reflexivity|].
        rewrite (proj2 (Nat.leb_le _ _)) by lia. rewrite (proj2 (Nat.leb_le _ _)) by lia.
        reflexivity. }
      rewrite Eb. destruct (Nat.leb (from + i + 3) bend); [|reflexivity].
      rewrite (IH (from + i + 3) Le Hb); [reflexivity|].
      destruct (mod_term f (from + i + 3) bend (v3 ++ l :: y)); cbn [short_opt] in *; [exact H | exact I].
    + exfalso. destruct (Nat.leb (from + i + 3) bend).
      * destruct (mod_term f (from + i + 3) bend (v3 ++ l :: y)) as [e'|] eqn:M; cbn [short_opt] in H.
        -- apply mod_term_gt in M. lia.
        -- lia.
      * cbn [short_opt] in H. lia.
  - rewrite snoc_app in F. rewrite (snoc_app v' l (ins ++ y)).
    rewrite (find_sub_none_insert doc_close (v' ++ [l]) ins y (ins_not_in_close ins Hins) F).
    reflexivity.
Qed.

Lemma m_module_docstring_stable (l : char) (ins : str) (Hl : good_last l = true)
      (Hins : forallb is_ws ins = true) (v y : str) :
  short_opt (m_module_docstring (v ++ l :: y)) (length v) ->
  m_module_docstring (v ++ l :: ins ++ y) = m_module_docstring (v ++ l :: y).
Proof.
  destruct ins as [|c0 ins0] eqn:Eins; [reflexivity|]. rewrite <- Eins in *.
  assert (Hc0 : In c0 ins) by (rewrite Eins; left; reflexivity).
  destruct (good_last_facts l Hl) as (_ & _ & _ & _ & H5 & H6 & _).
  unfold m_module_docstring.
  rewrite (startswith_last doc_open v l (ins ++ y) y (l_not_in_open l Hl)).
  destruct (startswith doc_open (v ++ l :: y)) eqn:E; [|reflexivity].
  apply startswith_len_last in E; [|exact (l_not_in_open l Hl)]. change (length doc_open) with 4 in E.
  cbv zeta. rewrite !(skipn_app_le 4 v) by exact E.
  pose proof (skipn_length 4 v) as L1. set (v1 := skipn 4 v) in *.
  rewrite !(count_while_last is_sptab v1 l) by exact H6.
  pose proof (count_while_le is_sptab v1) as Lk0. set (k0 := count_while is_sptab v1) in *.
  rewrite !(skipn_app_le k0 v1) by exact Lk0.
  pose proof (skipn_length k0 v1) as L2. set (v2 := skipn k0 v1) in *.
  assert (Hkw : forall c, In c ins -> mem c module_kw = false).
  { intros c Hc. destruct (ws_facts c (ins_ws ins Hins c Hc)) as (_ & _ & _ & _ & _ & Hm). exact Hm. }
  destruct (startswith module_kw (v2 ++ l :: y)) eqn:E1.
  - destruct (le_lt_dec 7 (length v2)) as [L7|L7].
    + (* the keyword lies inside the stable prefix *)
      rewrite (startswith_local module_kw v2 (l :: ins ++ y) (l :: y)) by exact L7. rewrite E1.
      rewrite !(skipn_app_le 7 v2) by exact L7.
      pose proof (skipn_length 7 v2) as L3. set (v3 := skipn 7 v2) in *.
      rewrite !(count_while_last is_sptab v3 l) by exact H6.
      pose proof (count_while_le is_sptab v3) as Lk. set (k := count_while is_sptab v3) in *.
      set (bend := match k with 0 => 0 | S _ => k + unq_run (skipn k (v3 ++ l :: y)) end).
      set (bend' := match k with 0 => 0 | S _ => k + unq_run (skipn k (v3 ++ l :: ins ++ y)) end).
      assert (Hb : bend = bend' \/ (length v3 <= bend /\ length v3 <= bend')).
      { unfold bend, bend'. destruct k as [|k']; [left; reflexivity|].
        rewrite !(skipn_app_le (S k') v3) by exact Lk.
        pose proof (skipn_length (S k') v3) as L4. set (v4 := skipn (S k') v3) in *.
        destruct (unq_run_last_cases v4 l y (ins ++ y) H5) as [[B1 B2] | [B1 B2]].
        - left. rewrite B2. reflexivity.
        - right. lia. }
      rewrite (mod_term_fuel (S (length (v3 ++ l :: y))) (S (length (v3 ++ l :: ins ++ y)))
                             0 bend (v3 ++ l :: y))
        by (rewrite ?app_length; cbn [length]; rewrite ?app_length; lia).
      intro H.
      rewrite (mod_term_stable l ins Hins v3 y bend bend' _ 0 (Nat.le_0_l _) Hb); [reflexivity|].
      destruct (mod_term _ 0 bend (v3 ++ l :: y)) as [e|]; cbn [short_opt] in *; [lia | exact I].
    + (* the keyword reaches beyond the stable prefix: no short result is possible *)
      intro H.
      assert (N : mod_term (S (length (skipn 7 (v2 ++ l :: y)))) 0
                    (match count_while is_sptab (skipn 7 (v2 ++ l :: y)) with
                     | 0 => 0
                     | S _ => count_while is_sptab (skipn 7 (v2 ++ l :: y)) +
                              unq_run (skipn (count_while is_sptab (skipn 7 (v2 ++ l :: y)))
                                             (skipn 7 (v2 ++ l :: y)))
                     end) (skipn 7 (v2 ++ l :: y)) = None).
      { destruct (mod_term _ 0 _ (skipn 7 (v2 ++ l :: y))) as [e|]; [|reflexivity].
        cbn [short_opt] in H. lia. }
      rewrite N.
      destruct (startswith module_kw (v2 ++ l :: ins ++ y)) eqn:E1'; [|reflexivity].
      rewrite Eins in E1'. rewrite snoc_app in E1'. cbn [app] in E1'.
      apply startswith_len_last in E1'; [|rewrite Eins in Hkw; apply Hkw; left; reflexivity].
      change (length module_kw) with 7 in E1'. rewrite app_length in E1'. cbn [length] in E1'.
      assert (L6 : length (v2 ++ [l]) = 7) by (rewrite app_length; cbn [length]; lia).
      rewrite mod_term_S in N. rewrite (snoc_app v2 l y) in N.
      rewrite (snoc_app v2 l (ins ++ y)).
      rewrite !(skipn_app_le 7 (v2 ++ [l])) in * by lia.
      rewrite (skipn_all2 (v2 ++ [l])) in * by lia. cbn [app skipn] in *.
      rewrite mod_term_S. cbn [skipn].
      destruct (find_sub doc_close y) as [i|] eqn:F.
      * cbv zeta in N. destruct (Nat.leb _ _) in N; [destruct (mod_term _ _ _ _) in N|]; discriminate N.
      * rewrite (find_sub_none_prefix doc_close ins y (ins_not_in_close ins Hins) F). reflexivity.
  - rewrite snoc_app in E1. rewrite (snoc_app v2 l (ins ++ y)).
    rewrite (startswith_insert_false module_kw (v2 ++ [l]) ins y Hkw E1). reflexivity.
Qed.

(* -- best is the maximum over all rules -- *)

Lemma better_true_le (a b : nat * bool) : better a b = true -> fst b <= fst a.
Proof. unfold better. destruct a as [na ea], b as [nb eb]. cbn [fst snd]. lia. Qed.

Lemma better_false_le (a b : nat * bool) : better a b = false -> fst a <= fst b.
Proof. unfold better. destruct a as [na ea], b as [nb eb]. cbn [fst snd]. lia. Qed.

Lemma pick_max (rs : list (tk * option (nat * bool))) : forall cur k n e,
  pick rs cur = Some (k, (n, e)) ->
  (forall k' n' e', In (k', Some (n', e')) rs -> n' <= n) /\
  (forall kc nc ec, cur = Some (kc, (nc, ec)) -> nc <= n).
Proof.
  induction rs as [|[k0 [r|]] rest IH]; intros cur k n e H.
  - cbn [pick] in H. split; [intros k' n' e' []|]. intros kc nc ec E. rewrite E in H.
    inversion H. lia.
  - cbn [pick] in H. destruct cur as [[kc rc]|].
    + destruct (better r rc) eqn:B.
      * destruct (IH _ _ _ _ H) as [A1 A2]. specialize (A2 k0 (fst r) (snd r)).
        rewrite <- surjective_pairing in A2. specialize (A2 eq_refl).
        apply better_true_le in B. split.
        -- intros k' n' e' [E | Hin]; [inversion E; subst; exact A2 | exact (A1 _ _ _ Hin)].
        -- intros kc' nc ec E. inversion E. subst. cbn [fst] in B. lia.
      * destruct (IH _ _ _ _ H) as [A1 A2]. specialize (A2 kc (fst rc) (snd rc)).
        rewrite <- surjective_pairing in A2. specialize (A2 eq_refl).
        apply better_false_le in B. split.
        -- intros k' n' e' [E | Hin]; [inversion E; subst; cbn [fst] in B; lia | exact (A1 _ _ _ Hin)].
        -- intros kc' nc ec E. inversion E. subst. cbn [fst] in A2. exact A2.
    + destruct (IH _ _ _ _ H) as [A1 A2]. specialize (A2 k0 (fst r) (snd r)).
      rewrite <- surjective_pairing in A2. specialize (A2 eq_refl). split.
      * intros k' n' e' [E | Hin]; [inversion E; subst; exact A2 | exact (A1 _ _ _ Hin)].
      * intros kc nc ec E. discriminate E.
  - cbn [pick] in H. destruct (IH _ _ _ _ H) as [A1 A2]. split; [|exact A2].
    intros k' n' e' [E | Hin]; [discriminate E | exact (A1 _ _ _ Hin)].
Qed.

Theorem best_max (x : str) (k : tk) (n : nat) :
  best x = Some (k, n) ->
  forall k' m', In (k', m') rules -> short_res (m' x) n.
Proof.
  unfold best. rewrite best_of_pick. intros H k' m' Hin.
  destruct (pick _ None) as [[k0 [n0 e0]]|] eqn:P; [|discriminate H]. inversion H. subst k0 n0.
  destruct (pick_max _ _ _ _ _ P) as [A _].
  destruct (m' x) as [[n' e']|] eqn:E; cbn [short_res]; [|exact I].
  apply (A k' n' e'). rewrite <- E.
  apply (in_map (fun km : tk * (str -> option (nat * bool)) => (fst km, snd km x)) rules (k', m') Hin).
Qed.

Lemma short_noeof (m : option nat) (n b : nat) :
  short_res (noeof m) n -> n <= b -> short_opt m b.
Proof. destruct m as [n'|]; cbn [noeof short_res short_opt]; intros H L; [lia | exact I]. Qed.

Ltac in_rules := unfold rules; cbn [In]; repeat first [left; reflexivity | right].

(* the decision of the lexer at a piece start is not changed by layout inserted after a
   later good character, as long as the piece ends before that character *)
Theorem best_insert_stable : forall v l y ins k n,
  good_last l = true -> forallb is_ws ins = true ->
  best (v ++ l :: y) = Some (k, n) -> n <= length v ->
  best (v ++ l :: ins ++ y) = Some (k, n).
Proof.
  intros v l y ins k n Hl Hins B Ln.
  pose proof (best_max _ _ _ B) as M.
  assert (E3 : m_module_docstring (v ++ l :: ins ++ y) = m_module_docstring (v ++ l :: y)).
  { apply (m_module_docstring_stable l ins Hl Hins).
    apply (short_noeof _ n); [|exact Ln].
    apply (M TModuleDoc (fun x => noeof (m_module_docstring x))). in_rules. }
  assert (E4 : m_docstring (v ++ l :: ins ++ y) = m_docstring (v ++ l :: y)).
  { apply (m_docstring_stable l ins Hl Hins).
    apply (short_noeof _ n); [|exact Ln].
    apply (M TDocstring (fun x => noeof (m_docstring x))). in_rules. }
  assert (E7 : m_identifier (v ++ l :: ins ++ y) = m_identifier (v ++ l :: y)).
  { apply (m_identifier_stable l ins Hl Hins).
    apply (short_noeof _ n); [|exact Ln].
    apply (M TIdent (fun x => noeof (m_identifier x))). in_rules. }
  assert (E8 : m_unquoted (v ++ l :: ins ++ y) = m_unquoted (v ++ l :: y)).
  { apply (m_unquoted_stable l ins Hl Hins).
    apply (short_noeof _ n); [|exact Ln].
    apply (M TUnquoted (fun x => noeof (m_unquoted x))). in_rules. }
  assert (E10 : m_quoted (v ++ l :: ins ++ y) = m_quoted (v ++ l :: y)).
  { apply (m_quoted_stable l ins Hl Hins).
    apply (short_noeof _ n); [|exact Ln].
    apply (M TQuoted (fun x => noeof (m_quoted x))). in_rules. }
  assert (E11 : m_bracket_arg (v ++ l :: ins ++ y) = m_bracket_arg (v ++ l :: y)).
  { apply (m_bracket_arg_stable l ins Hl Hins).
    apply (short_noeof _ n); [|exact Ln].
    apply (M TBracketArg (fun x => noeof (m_bracket_arg x))). in_rules. }
  assert (E12 : m_bracket_comment (v ++ l :: ins ++ y) = m_bracket_comment (v ++ l :: y)).
  { apply (m_bracket_comment_stable l ins Hl Hins).
    apply (short_noeof _ n); [|exact Ln].
    apply (M TBracketComment (fun x => noeof (m_bracket_comment x))). in_rules. }
  assert (E13 : m_line_comment (v ++ l :: ins ++ y) = m_line_comment (v ++ l :: y)).
  { apply (m_line_comment_stable l ins Hl Hins).
    assert (S13 : short_res (m_line_comment (v ++ l :: y)) n) by (apply (M TLineComment m_line_comment); in_rules).
    destruct (m_line_comment (v ++ l :: y)) as [[n' e']|]; cbn [short_res] in *; [lia | exact I]. }
  assert (E14 : m_run is_eol (v ++ l :: ins ++ y) = m_run is_eol (v ++ l :: y)).
  { apply (m_run_stable l ins).
    apply (short_noeof _ n); [|exact Ln].
    apply (M TNewline (fun x => noeof (m_run is_eol x))). in_rules. }
  assert (E15 : m_run is_sptab (v ++ l :: ins ++ y) = m_run is_sptab (v ++ l :: y)).
  { apply (m_run_stable l ins).
    apply (short_noeof _ n); [|exact Ln].
    apply (M TSpace (fun x => noeof (m_run is_sptab x))). in_rules. }
  rewrite best_results.
  rewrite (m_char_stable 40%N v l y (ins ++ y)), (m_char_stable 41%N v l y (ins ++ y)).
  rewrite (m_lit_stable doc_open v l y (ins ++ y) (l_not_in_open l Hl)).
  rewrite (m_lit_stable doc_close v l y (ins ++ y) (l_not_in_close l Hl)).
  rewrite (m_escape_stable l ins Hl Hins v y).
  rewrite E3, E4, E7, E8, E10, E11, E12, E13, E14, E15.
  rewrite <- best_results. exact B.
Qed.

(* -- in context -- *)

Lemma firstn_exact {A} (l1 l2 : list A) : firstn (length l1) (l1 ++ l2) = l1.
Proof. rewrite (firstn_app_le (length l1) l1 l2 (le_n _)). apply firstn_all. Qed.

Lemma skipn_exact {A} (l1 l2 : list A) : skipn (length l1) (l1 ++ l2) = l2.
Proof. rewrite (skipn_app_le (length l1) l1 l2 (le_n _)), skipn_all. reflexivity. Qed.

Lemma reaches_insert (p u0 : str) (l : char) (rest ins : str) (x : str)
      (ps : list token) (R : str) :
  good_last l = true -> forallb is_ws ins = true ->
  x = p ++ (u0 ++ [l]) ++ rest ->
  reaches x ps R ->
  forall t, R = t ++ (u0 ++ [l]) ++ rest ->
            reaches (p ++ (u0 ++ [l]) ++ ins ++ rest) ps (t ++ (u0 ++ [l]) ++ ins ++ rest).
Proof.
  intros Hl Hins Hx H. induction H as [|ps a r k n H IH B]; intros t Ht.
  - rewrite Hx in Ht. apply app_inv_tail in Ht. subst t. apply reaches_nil.
  - pose proof (best_le _ _ _ B) as Ln.
    set (pc := firstn (S n) (a :: r)) in *.
    assert (Lpc : length pc = S n) by (unfold pc; apply firstn_length_le; exact Ln).
    assert (Esplit : a :: r = (pc ++ t) ++ (u0 ++ [l]) ++ rest).
    { rewrite <- app_assoc, <- Ht. unfold pc. symmetry. apply firstn_skipn. }
    specialize (IH (pc ++ t) Esplit).
    assert (B' : best (((pc ++ t) ++ u0) ++ l :: ins ++ rest) = Some (k, S n)).
    { apply best_insert_stable; [exact Hl | exact Hins | |].
      - rewrite <- B. f_equal. symmetry. etransitivity; [exact Esplit|].
        rewrite <- !app_assoc. reflexivity.
      - rewrite !app_length. lia. }
    assert (Eq1 : (pc ++ t) ++ (u0 ++ [l]) ++ ins ++ rest = ((pc ++ t) ++ u0) ++ l :: ins ++ rest).
    { rewrite <- !app_assoc. reflexivity. }
    rewrite <- Eq1 in B'.
    destruct pc as [|a' pc'] eqn:Epc; [cbn [length] in Lpc; lia|].
    assert (Eshape : (((a' :: pc') ++ t) ++ (u0 ++ [l]) ++ ins ++ rest) =
                     a' :: (pc' ++ t ++ (u0 ++ [l]) ++ ins ++ rest)).
    { rewrite <- !app_assoc. reflexivity. }
    rewrite Eshape in IH, B'.
    pose proof (reaches_step _ _ _ _ _ _ IH B') as Hs.
    assert (E1 : a' :: pc' ++ t ++ (u0 ++ [l]) ++ ins ++ rest =
                 (a' :: pc') ++ (t ++ (u0 ++ [l]) ++ ins ++ rest)) by reflexivity.
    rewrite E1 in Hs. rewrite <- Lpc in Hs.
    rewrite firstn_exact, skipn_exact in Hs. exact Hs.
Qed.

(* layout inserted after a piece ending in a good character is invisible, wherever in the
   input the piece occurs *)
Theorem lex_insert_ws_in_context : forall x ps u0 l rest ins k,
  reaches x ps ((u0 ++ [l]) ++ rest) ->
  good_last l = true -> forallb is_ws ins = true ->
  best ((u0 ++ [l]) ++ rest) = Some (k, length (u0 ++ [l])) ->
  best ((u0 ++ [l]) ++ ins ++ rest) = Some (k, length (u0 ++ [l])) ->
  lex_sim (lex (concat (map snd ps) ++ (u0 ++ [l]) ++ ins ++ rest)) (lex x).
Proof.
  intros x ps u0 l rest ins k R Hl Hins B1 B2.
  pose proof (reaches_concat _ _ _ R) as Hx. symmetry in Hx.
  pose proof (reaches_insert (concat (map snd ps)) u0 l rest ins x ps _ Hl Hins Hx R [] eq_refl) as R'.
  cbn [app] in R'.
  apply (lex_reaches_sim _ _ ps _ _ R' R).
  apply (lex_insert_ws_after_piece (u0 ++ [l]) rest ins k); try assumption.
  destruct u0; discriminate.
Qed.

Lemma ident_char_good_last (c : char) : is_ident_char c = true -> good_last c = true.
Proof.
  unfold good_last, mem, hash, lbr, rbr, eqc, bsl, sp, tab, cr, nl.
  intro H. char_side.
Qed.

Theorem lex_insert_ws_after_ident_ctx : forall x ps name rest ins,
  reaches x ps (name ++ rest) ->
  best (name ++ rest) = Some (TIdent, length name) ->
  ins <> [] -> forallb is_ws ins = true ->
  lex_sim (lex (concat (map snd ps) ++ name ++ ins ++ rest)) (lex x).
Proof.
  intros x ps name rest ins R B Hne Hins.
  destruct (best_ident_shape _ _ B) as (a & r & F & Ha & Hr).
  rewrite firstn_exact in F.
  assert (Hall : forallb is_ident_char name = true).
  { subst name. cbn [forallb]. rewrite (ident_start_char a Ha), Hr. reflexivity. }
  destruct (exists_last (l := name)) as (u0 & l & E); [subst name; discriminate|].
  rewrite E in Hall. rewrite forallb_app in Hall. apply andb_true_iff in Hall.
  destruct Hall as [_ Hlast]. cbn [forallb] in Hlast. rewrite andb_true_r in Hlast.
  assert (B2 : best (name ++ ins ++ rest) = Some (TIdent, length name)).
  { rewrite F. apply best_ident_delim; [exact Ha | exact Hr | apply ws_ident_delim; assumption]. }
  rewrite E in *.
  apply (lex_insert_ws_in_context x ps u0 l rest ins TIdent R
           (ident_char_good_last l Hlast) Hins B B2).
Qed.

Theorem lex_insert_ws_after_paren_ctx : forall x ps c rest ins,
  reaches x ps ([c] ++ rest) -> c = lpar \/ c = rpar ->
  forallb is_ws ins = true ->
  lex_sim (lex (concat (map snd ps) ++ [c] ++ ins ++ rest)) (lex x).
Proof.
  intros x ps c rest ins R [-> | ->] Hins.
  - apply (lex_insert_ws_in_context x ps [] lpar rest ins TLParen R eq_refl Hins);
      apply best_lpar_any.
  - apply (lex_insert_ws_in_context x ps [] rpar rest ins TRParen R eq_refl Hins);
      apply best_rpar_any.
Qed.

Theorem lex_insert_ws_after_quoted_ctx : forall x ps q rest ins,
  reaches x ps (q ++ rest) ->
  best (q ++ rest) = Some (TQuoted, length q) ->
  forallb is_ws ins = true ->
  lex_sim (lex (concat (map snd ps) ++ q ++ ins ++ rest)) (lex x).
Proof.
  intros x ps q rest ins R B Hins.
  destruct (quoted_piece_shape _ _ B) as ([r E] & L2 & N).
  destruct (exists_last (l := q)) as (u0 & l & Eq); [intro Eq; subst q; cbn [length] in L2; lia|].
  assert (El : l = dq).
  { rewrite Eq in N. rewrite app_length in N. cbn [length] in N.
    replace (length u0 + 1 - 1) with (length u0) in N by lia.
    rewrite <- app_assoc in N. rewrite nth_error_app2 in N by lia.
    rewrite Nat.sub_diag in N. cbn in N. inversion N. reflexivity. }
  assert (B2 : best (q ++ ins ++ rest) = Some (TQuoted, length q)).
  { destruct q as [|c body]; [cbn [length] in L2; lia|].
    cbn [app] in E. inversion E. subst c. cbn [app] in *. rewrite best_dq in *.
    destruct (quoted_body (body ++ rest)) as [m|] eqn:Q; [|discriminate B].
    inversion B as [Hm]. cbn [length] in Hm.
    rewrite (quoted_body_app body m rest (ins ++ rest) Q) by lia. subst m. reflexivity. }
  rewrite Eq in *. subst l.
  apply (lex_insert_ws_in_context x ps u0 dq rest ins TQuoted R eq_refl Hins B B2).
Qed.

Example lex_insert_ws_in_context_ex :
  reaches (s"foo(""a"")") [(TIdent, s"foo"); (TLParen, s"(")] (s"""a""" ++ s")") /\
  lex (s"foo(" ++ s"""a""" ++ [sp; nl] ++ s")") = lex (s"foo(""a"")").
Proof.
  split; [|vm_compute; reflexivity].
  apply (reaches_step (s"foo(""a"")") [(TIdent, s"foo")] lpar (s"""a"")") TLParen 0).
  - apply (reaches_step (s"foo(""a"")") [] 102%N (s"oo(""a"")") TIdent 2).
    + apply reaches_nil.
    + vm_compute. reflexivity.
  - vm_compute. reflexivity.
Qed.

(* a line comment inserted in the middle of an input is NOT always invisible: its text can
   terminate a bracket argument (or a doccomment) whose opening was, until then, lexed as
   something else.  Here the first input is even accepted by the parser (see ParserFacts). *)
Example lex_insert_comment_in_context_refuted :
  comment_text (s" ]]") = true /\
  reaches (s"foo([[ ())") [(TIdent, s"foo"); (TLParen, s"("); (TUnquoted, s"[["); (TSpace, s" ")]
          ([lpar] ++ s"))") /\
  lex (s"foo([[ " ++ [lpar] ++ s"))") =
    LexOk [(TIdent, s"foo"); (TLParen, s"("); (TUnquoted, s"[["); (TLParen, s"(");
           (TRParen, s")"); (TRParen, s")")] /\
  lex (s"foo([[ " ++ [lpar] ++ line_comment (s" ]]") ++ s"))") =
    LexOk [(TIdent, s"foo"); (TLParen, s"("); (TBracketArg, s"[[ (# ]]");
           (TRParen, s")"); (TRParen, s")")].
Proof.
  split; [vm_compute; reflexivity|]. split; [|split; vm_compute; reflexivity].
  apply (reaches_step (s"foo([[ ())") [(TIdent, s"foo"); (TLParen, s"("); (TUnquoted, s"[[")]
                      sp (s"())") TSpace 0).
  - apply (reaches_step (s"foo([[ ())") [(TIdent, s"foo"); (TLParen, s"(")]
                        lbr (s"[ ())") TUnquoted 1).
    + apply (reaches_step (s"foo([[ ())") [(TIdent, s"foo")] lpar (s"[[ ())") TLParen 0).
      * apply (reaches_step (s"foo([[ ())") [] 102%N (s"oo([[ ())") TIdent 2).
        -- apply reaches_nil.
        -- vm_compute. reflexivity.
      * vm_compute. reflexivity.
    + vm_compute. reflexivity.
  - vm_compute. reflexivity.
Qed.

(* ---- further non-vacuity examples ---- *)

Example lex_all_go_fuel_ex :
  length (s"f(a)") <= 100 /\ lex_all_go 100 0 (s"f(a)") = lex_all (s"f(a)").
Proof. split; [cbn; lia | vm_compute; reflexivity]. Qed.

Example lex_visible_ex : exists ts, lex (s"f( a ) # c") = LexOk ts /\ length ts = 4.
Proof. eexists. split; vm_compute; reflexivity. Qed.

Example best_unterminated_quote_ex : quoted_body (s"ab\""c") = None.
Proof. vm_compute. reflexivity. Qed.

Example best_bad_escape_ex :
  (match s"a" with [] => true | b :: _ => negb (esc_ok b) end) = true /\
  (match @nil char with [] => true | b :: _ => negb (esc_ok b) end) = true.
Proof. split; reflexivity. Qed.

Example best_unterminated_bracket_comment_hyp_ex :
  let r := s"[=[ x ]]" in
  opens_bracket (take_while (fun c => negb (is_eol c)) r) = true /\
  m_bracket_arg r = None /\ startswith doc_open (hash :: r) = false.
Proof. repeat split; vm_compute; reflexivity. Qed.

Example best_space_newline_ex : is_sptab tab = true /\ is_eol cr = true.
Proof. split; reflexivity. Qed.

Example best_ident_delim_hyp_ex :
  is_ident_start 102%N = true /\ forallb is_ident_char (s"oo_1") = true /\
  ident_delim (s"(x)") = true.
Proof. repeat split; reflexivity. Qed.

Example stable_boundary_ex :
  stable_boundary [lpar] (s"a)") /\ lex_all [lpar] = LexOk [(TLParen, [lpar])].
Proof.
  split; [|vm_compute; reflexivity].
  intros qs rest R Hne. pose proof (reaches_concat _ _ _ R) as C.
  assert (E : rest = [lpar]).
  { destruct (concat (map snd qs)) as [|c0 [|c1 t]]; cbn [app] in C.
    - exact C.
    - inversion C. contradiction.
    - inversion C. }
  subst rest. cbn [app]. rewrite !best_lpar_any. reflexivity.
Qed.

Example best_insert_stable_ex :
  good_last 97%N = true /\ best (s"foo(" ++ 97%N :: s")") = Some (TIdent, 3) /\
  3 <= length (s"foo(") /\
  best (s"foo(" ++ 97%N :: [sp; nl] ++ s")") = Some (TIdent, 3).
Proof. repeat split; vm_compute; try reflexivity. lia. Qed.

(* ==== MAIN THEOREMS ==== 
   lex_all_go_fuel, lex_all_step, best_le                       A1 A2
   lex_all_concat, lex_all_nonempty, lex_tokens_canon, lex_visible   A3-A6
   lex_stuck, lex_all_reaches, best_unterminated_quote, best_bad_escape,
   best_unterminated_bracket_comment, quoted_piece_shape        A7
   best_space, best_newline, lex_leading_ws                     A8
   best_ident_delim                                             C1
   lex_all_app_boundary, lex_insert_ws_after_ident, lex_insert_ws_after_paren,
   lex_insert_ws_after_quoted                                   C2
   best_line_comment, lex_insert_comment_at_start, lex_insert_comment_after_paren,
   lex_insert_comment_after_ident                               C3
   best_max, best_insert_stable, lex_insert_ws_in_context, lex_insert_ws_after_ident_ctx,
   lex_insert_ws_after_paren_ctx, lex_insert_ws_after_quoted_ctx     C2 in context
*)
Print Assumptions lex_all_go_fuel.
Print Assumptions lex_all_step.
Print Assumptions best_le.
Print Assumptions lex_all_concat.
Print Assumptions lex_all_nonempty.
Print Assumptions lex_tokens_canon.
Print Assumptions lex_visible.
Print Assumptions lex_stuck.
Print Assumptions lex_all_reaches.
Print Assumptions best_unterminated_quote.
Print Assumptions best_bad_escape.
Print Assumptions best_unterminated_bracket_comment.
Print Assumptions quoted_piece_shape.
Print Assumptions best_space.
Print Assumptions best_newline.
Print Assumptions lex_leading_ws.
Print Assumptions best_ident_delim.
Print Assumptions lex_all_app_boundary.
Print Assumptions lex_insert_ws_after_ident.
Print Assumptions lex_insert_ws_after_paren.
Print Assumptions lex_insert_ws_after_quoted.
Print Assumptions best_line_comment.
Print Assumptions lex_insert_comment_at_start.
Print Assumptions lex_insert_comment_after_paren.
Print Assumptions lex_insert_comment_after_ident.
Print Assumptions best_max.
Print Assumptions best_insert_stable.
Print Assumptions lex_insert_ws_in_context.
Print Assumptions lex_insert_ws_after_ident_ctx.
Print Assumptions lex_insert_ws_after_paren_ctx.
Print Assumptions lex_insert_ws_after_quoted_ctx.
