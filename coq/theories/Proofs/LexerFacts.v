(* Proofs/LexerFacts.v -- facts about Model/Lexer.v: nothing of the input is silently
   dropped (every character is in exactly one piece, in order), faults are loud,
   leading layout is invisible.  See DESIGN.md section 7. *)
From Coq Require Import String List NArith Bool Arith Lia ZifyBool.
From CMinx Require Import Base.Str Model.Lexer.
Import ListNotations.

(* ---- spec ---- *)

(* parentheses tokens carry exactly their character *)
Definition tok_canon (t : token) : Prop :=
  (fst t = TLParen -> snd t = [lpar]) /\ (fst t = TRParen -> snd t = [rpar]).

(* lexing x produces the pieces ps and then stands at the remaining input rest *)
Inductive reaches (x : str) : list token -> str -> Prop :=
| reaches_nil : reaches x [] x
| reaches_step : forall ps a r k n,
    reaches x ps (a :: r) ->
    best (a :: r) = Some (k, S n) ->
    reaches x (ps ++ [(k, firstn (S n) (a :: r))]) (skipn (S n) (a :: r)).

(* equality of lexer results up to the reported error position *)
Definition lex_sim (a b : lexres) : Prop :=
  match a, b with
  | LexOk p, LexOk q => p = q
  | LexErr _, LexErr _ => True
  | _, _ => False
  end.

Definition is_ws (c : char) : bool := is_sptab c || is_eol c.

(* the character following an identifier must end both the identifier and the
   unquoted-argument reading of it *)
Definition ident_delim (rest : str) : bool :=
  match rest with
  | [] => true
  | c :: _ => negb (is_ident_char c) && negb (is_unq_char c) && negb (c =? 92)%N
  end.

(* ---- generic list / string helpers ---- *)

Lemma str_ind2 (P : str -> Prop) :
  P [] -> (forall a, P [a]) -> (forall a b r, P r -> P (b :: r) -> P (a :: b :: r)) ->
  forall x, P x.
Proof.
  intros H0 H1 H2 x.
  assert (H : P x /\ forall a, P (a :: x)).
  { induction x as [|b r [IHa IHb]].
    - split; [exact H0 | exact H1].
    - split; [apply IHb | intro a; apply H2; [exact IHa | apply IHb]]. }
  exact (proj1 H).
Qed.

Lemma skipn_length_le {A} (n : nat) (l : list A) : length (skipn n l) <= length l.
Proof. rewrite skipn_length. lia. Qed.

Lemma startswith_length (p x : str) : startswith p x = true -> length p <= length x.
Proof.
  revert x. induction p as [|a p IH]; intros x H.
  - cbn [length]. lia.
  - destruct x as [|b x]; cbn [startswith] in H; [discriminate|].
    apply andb_true_iff in H. destruct H as [_ H]. apply IH in H. cbn [length]. lia.
Qed.

Lemma find_sub_le (pat x : str) (i : nat) :
  find_sub pat x = Some i -> i + length pat <= length x.
Proof.
  revert i. induction x as [|a r IH]; intros i H.
  - cbn [find_sub] in H. destruct (startswith pat []) eqn:E.
    + apply startswith_length in E. inversion H. subst. lia.
    + discriminate.
  - cbn [find_sub] in H. destruct (startswith pat (a :: r)) eqn:E.
    + apply startswith_length in E. inversion H. subst. lia.
    + destruct (find_sub pat r) as [j|] eqn:F; cbn [option_map] in H; [|discriminate].
      inversion H. subst. specialize (IH j eq_refl). cbn [length]. lia.
Qed.

Lemma take_while_length_le (p : char -> bool) (x : str) : length (take_while p x) <= length x.
Proof.
  induction x as [|a r IH]; cbn [take_while length]; [lia|].
  destruct (p a); cbn [length]; lia.
Qed.

Lemma count_while_le (p : char -> bool) (x : str) : count_while p x <= length x.
Proof. apply take_while_length_le. Qed.

Lemma count_while_cons (p : char -> bool) (a : char) (r : str) :
  count_while p (a :: r) = if p a then S (count_while p r) else 0.
Proof. unfold count_while. cbn [take_while]. destruct (p a); reflexivity. Qed.

Lemma skipn_count_while (p : char -> bool) (x : str) :
  skipn (count_while p x) x = drop_while p x.
Proof.
  induction x as [|a r IH]; [reflexivity|].
  rewrite count_while_cons. cbn [drop_while]. destruct (p a); [cbn [skipn]; exact IH | reflexivity].
Qed.

Lemma unq_run_le (x : str) : unq_run x <= length x.
Proof.
  induction x as [| a | a b r IHr IHb] using str_ind2.
  - cbn. lia.
  - cbn [unq_run length]. destruct (a =? 92)%N; [lia|]. destruct (is_unq_char a); cbn [unq_run]; lia.
  - cbn [unq_run] in *. cbn [length] in *. destruct (a =? 92)%N.
    + destruct (esc_ok b); lia.
    + destruct (is_unq_char a); [|lia].
      destruct (b =? 92)%N.
      * destruct r as [|c r']; [lia|]. destruct (esc_ok c); cbn [length] in *; lia.
      * destruct (is_unq_char b); lia.
Qed.

Lemma quoted_body_cons (a : char) (r : str) :
  quoted_body (a :: r) =
  if (a =? 34)%N then Some 1
  else if (a =? 92)%N then
         match r with
         | b :: r' => if esc_ok b then option_map (fun n => S (S n)) (quoted_body r') else None
         | [] => None
         end
       else option_map S (quoted_body r).
Proof. reflexivity. Qed.

Lemma quoted_body_le (x : str) (n : nat) : quoted_body x = Some n -> 1 <= n <= length x.
Proof.
  revert n. induction x as [| a | a b r IHr IHb] using str_ind2; intros n H.
  - discriminate.
  - cbn [quoted_body option_map] in H. destruct (a =? 34)%N; [inversion H; cbn [length]; lia|].
    destruct (a =? 92)%N; discriminate.
  - rewrite quoted_body_cons in H. destruct (a =? 34)%N; [inversion H; cbn [length]; lia|].
    destruct (a =? 92)%N.
    + destruct (esc_ok b); [|discriminate].
      destruct (quoted_body r) as [m|] eqn:E; cbn [option_map] in H; [|discriminate].
      inversion H. subst. specialize (IHr m eq_refl). cbn [length]. lia.
    + destruct (quoted_body (b :: r)) as [m|] eqn:E; cbn [option_map] in H; [|discriminate].
      inversion H. subst. specialize (IHb m eq_refl). cbn [length] in *. lia.
Qed.

(* ---- best: inversion and the length bound ---- *)

Lemma best_of_inv (rs : list (tk * (str -> option (nat * bool)))) (x : str)
      (cur : option (tk * (nat * bool))) :
  best_of rs x cur = cur \/
  exists k m r, In (k, m) rs /\ m x = Some r /\ best_of rs x cur = Some (k, r).
Proof.
  revert cur. induction rs as [|[k m] rest IH]; intro cur.
  - left. reflexivity.
  - cbn [best_of]. destruct (m x) as [r|] eqn:Em.
    + assert (Hnew : best_of rest x (Some (k, r)) = Some (k, r) \/
                     exists k' m' r', In (k', m') rest /\ m' x = Some r' /\
                                      best_of rest x (Some (k, r)) = Some (k', r')) by apply IH.
      assert (Hgo : exists k' m' r', In (k', m') ((k, m) :: rest) /\ m' x = Some r' /\
                                     best_of rest x (Some (k, r)) = Some (k', r')).
      { destruct Hnew as [Hn | (k' & m' & r' & Hin & Hm & Hb)].
        - exists k, m, r. split; [left; reflexivity | split; assumption].
        - exists k', m', r'. split; [right; exact Hin | split; assumption]. }
      destruct cur as [[kc rc]|].
      * destruct (better r rc).
        -- right. exact Hgo.
        -- destruct (IH (Some (kc, rc))) as [Hc | (k' & m' & r' & Hin & Hm & Hb)].
           ++ left. exact Hc.
           ++ right. exists k', m', r'. split; [right; exact Hin | split; assumption].
      * right. exact Hgo.
    + destruct (IH cur) as [Hc | (k' & m' & r' & Hin & Hm & Hb)].
      * left. exact Hc.
      * right. exists k', m', r'. split; [right; exact Hin | split; assumption].
Qed.

Lemma best_inv (x : str) (k : tk) (n : nat) :
  best x = Some (k, n) -> exists m e, In (k, m) rules /\ m x = Some (n, e).
Proof.
  unfold best. intro H.
  destruct (best_of_inv rules x None) as [Hc | (k' & m' & r' & Hin & Hm & Hb)].
  - rewrite Hc in H. discriminate.
  - rewrite Hb in H. destruct r' as [n' e']. inversion H. subst.
    exists m', e'. split; assumption.
Qed.

Lemma noeof_inv (m : option nat) (n : nat) (e : bool) : noeof m = Some (n, e) -> m = Some n.
Proof. destruct m as [n'|]; cbn [noeof]; intro H; [inversion H; reflexivity | discriminate]. Qed.

Lemma m_char_inv (c : char) (x : str) (n : nat) :
  m_char c x = Some n -> n = 1 /\ exists r, x = c :: r.
Proof.
  destruct x as [|a r]; cbn [m_char]; [discriminate|].
  destruct (N.eqb_spec a c) as [E|E]; [|discriminate].
  intro H. inversion H. subst. split; [reflexivity | exists r; reflexivity].
Qed.

Lemma m_lit_le (lit x : str) (n : nat) : m_lit lit x = Some n -> n <= length x.
Proof.
  unfold m_lit. destruct (startswith lit x) eqn:E; [|discriminate].
  intro H. inversion H. subst. apply startswith_length. exact E.
Qed.

Lemma m_docstring_le (x : str) (n : nat) : m_docstring x = Some n -> n <= length x.
Proof.
  unfold m_docstring. destruct (startswith doc_open x) eqn:E; [|discriminate].
  apply startswith_length in E. change (length doc_open) with 4 in E.
  destruct (find_sub doc_close (skipn 4 x)) as [i|] eqn:F; [|discriminate].
  apply find_sub_le in F. change (length doc_close) with 3 in F.
  rewrite skipn_length in F. intro H. inversion H. lia.
Qed.

Lemma mod_term_le (fuel from bend : nat) (x : str) (e : nat) :
  mod_term fuel from bend x = Some e -> e <= length x.
Proof.
  revert from e. induction fuel as [|f IH]; intros from e H; [discriminate|].
  cbn [mod_term] in H.
  destruct (find_sub doc_close (skipn from x)) as [i|] eqn:F; [|discriminate].
  apply find_sub_le in F. change (length doc_close) with 3 in F. rewrite skipn_length in F.
  destruct (Nat.leb (from + i + 3) bend).
  - destruct (mod_term f (from + i + 3) bend x) as [e'|] eqn:M.
    + inversion H. subst. apply IH in M. exact M.
    + inversion H. lia.
  - inversion H. lia.
Qed.

Lemma m_module_docstring_le (x : str) (n : nat) :
  m_module_docstring x = Some n -> n <= length x.
Proof.
  unfold m_module_docstring. destruct (startswith doc_open x) eqn:E; [|discriminate].
  apply startswith_length in E. change (length doc_open) with 4 in E.
  set (r0 := skipn 4 x). set (k0 := count_while is_sptab r0). set (r1 := skipn k0 r0).
  destruct (startswith module_kw r1) eqn:E1; [|discriminate].
  apply startswith_length in E1. change (length module_kw) with 7 in E1.
  set (r2 := skipn 7 r1). set (k := count_while is_sptab r2).
  destruct (mod_term (S (length r2)) 0 _ r2) as [e|] eqn:M; [|discriminate].
  apply mod_term_le in M. intro H. inversion H.
  assert (L2 : length r2 = length r1 - 7) by (unfold r2; apply skipn_length).
  assert (L1 : length r1 = length r0 - k0) by (unfold r1; apply skipn_length).
  assert (L0 : length r0 = length x - 4) by (unfold r0; apply skipn_length).
  assert (K0 : k0 <= length r0) by (unfold k0; apply count_while_le).
  lia.
Qed.

Lemma m_identifier_le (x : str) (n : nat) : m_identifier x = Some n -> n <= length x.
Proof.
  destruct x as [|a r]; cbn [m_identifier]; [discriminate|].
  destruct (is_ident_start a); [|discriminate].
  intro H. inversion H. pose proof (count_while_le is_ident_char r). cbn [length]. lia.
Qed.

Lemma m_unquoted_le (x : str) (n : nat) : m_unquoted x = Some n -> n <= length x.
Proof.
  unfold m_unquoted. pose proof (unq_run_le x) as L.
  destruct (unq_run x); [discriminate|]. intro H. inversion H. lia.
Qed.

Lemma m_escape_le (x : str) (n : nat) : m_escape x = Some n -> n <= length x.
Proof.
  destruct x as [|a [|b r]]; cbn [m_escape]; try discriminate.
  destruct ((a =? 92)%N && esc_ok b); [|discriminate].
  intro H. inversion H. cbn [length]. lia.
Qed.

Lemma m_quoted_inv (x : str) (n : nat) :
  m_quoted x = Some n -> exists r m, x = dq :: r /\ quoted_body r = Some m /\ n = S m.
Proof.
  destruct x as [|a r]; cbn [m_quoted]; [discriminate|].
  destruct (N.eqb_spec a 34) as [E|E]; [|discriminate].
  destruct (quoted_body r) as [m|] eqn:Q; cbn [option_map]; [|discriminate].
  intro H. inversion H. subst. exists r, m. repeat split. exact Q.
Qed.

Lemma m_quoted_le (x : str) (n : nat) : m_quoted x = Some n -> n <= length x.
Proof.
  intro H. apply m_quoted_inv in H. destruct H as (r & m & -> & Q & ->).
  apply quoted_body_le in Q. cbn [length]. lia.
Qed.

Lemma bracket_close_length (n : nat) : length (bracket_close n) = n + 2.
Proof. unfold bracket_close. rewrite !app_length, repeat_length. cbn [length]. lia. Qed.

Lemma m_bracket_arg_le (x : str) (n : nat) : m_bracket_arg x = Some n -> n <= length x.
Proof.
  destruct x as [|a r]; cbn [m_bracket_arg]; [discriminate|].
  destruct (a =? 91)%N; [|discriminate].
  set (c := count_while (fun c => (c =? 61)%N) r).
  destruct (skipn c r) as [|b r'] eqn:S; [discriminate|].
  destruct (b =? 91)%N; [|discriminate].
  destruct (find_sub (bracket_close c) r') as [i|] eqn:F; [|discriminate].
  apply find_sub_le in F. rewrite bracket_close_length in F.
  assert (L : length (skipn c r) = length r - c) by apply skipn_length.
  rewrite S in L. cbn [length] in L.
  intro H. inversion H. cbn [length]. lia.
Qed.

Lemma m_bracket_comment_le (x : str) (n : nat) : m_bracket_comment x = Some n -> n <= length x.
Proof.
  destruct x as [|a r]; cbn [m_bracket_comment]; [discriminate|].
  destruct (a =? 35)%N; [|discriminate].
  destruct (m_bracket_arg r) as [m|] eqn:B; cbn [option_map]; [|discriminate].
  apply m_bracket_arg_le in B. intro H. inversion H. cbn [length]. lia.
Qed.

Lemma m_line_comment_le (x : str) (n : nat) (e : bool) :
  m_line_comment x = Some (n, e) -> n <= length x.
Proof.
  destruct x as [|a r]; cbn [m_line_comment]; [discriminate|].
  destruct (a =? 35)%N; [|discriminate].
  set (line := take_while (fun c => negb (is_eol c)) r).
  destruct (opens_bracket line); [discriminate|].
  assert (L : length (skipn (length line) r) = length r - length line) by apply skipn_length.
  assert (LL : length line <= length r) by apply take_while_length_le.
  destruct (skipn (length line) r) as [|c r'] eqn:S.
  - intro H. inversion H. cbn [length]. lia.
  - cbn [length] in L. destruct (c =? 13)%N.
    + destruct r' as [|c2 r''].
      * intro H. inversion H. cbn [length]. lia.
      * cbn [length] in L. destruct (c2 =? 10)%N; intro H; inversion H; cbn [length]; lia.
    + intro H. inversion H. cbn [length]. lia.
Qed.

Lemma m_run_le (p : char -> bool) (x : str) (n : nat) : m_run p x = Some n -> n <= length x.
Proof.
  unfold m_run. pose proof (count_while_le p x) as L.
  destruct (count_while p x); [discriminate|]. intro H. inversion H. lia.
Qed.

(* every matcher returns the length of an actual prefix *)
Lemma best_le (x : str) (k : tk) (n : nat) : best x = Some (k, n) -> n <= length x.
Proof.
  intro H. apply best_inv in H. destruct H as (m & e & Hin & Hm).
  unfold rules in Hin. cbn [In] in Hin.
  repeat (destruct Hin as [Hin | Hin];
          [ inversion Hin; subst m; clear Hin;
            first [ apply m_line_comment_le in Hm; exact Hm
                  | apply noeof_inv in Hm ] | ]);
  try contradiction.
  - apply m_char_inv in Hm. destruct Hm as [-> [r ->]]. cbn [length]. lia.
  - apply m_char_inv in Hm. destruct Hm as [-> [r ->]]. cbn [length]. lia.
  - apply m_module_docstring_le. exact Hm.
  - apply m_docstring_le. exact Hm.
  - apply m_lit_le in Hm. exact Hm.
  - apply m_lit_le in Hm. exact Hm.
  - apply m_identifier_le. exact Hm.
  - apply m_unquoted_le. exact Hm.
  - apply m_escape_le. exact Hm.
  - apply m_quoted_le. exact Hm.
  - apply m_bracket_arg_le. exact Hm.
  - apply m_bracket_comment_le. exact Hm.
  - apply m_run_le in Hm. exact Hm.
  - apply m_run_le in Hm. exact Hm.
Qed.

(* ---- A1-A2: fuel and the one-step characterisation ---- *)

Definition shift_err (d : nat) (r : lexres) : lexres :=
  match r with
  | LexOk ps => LexOk ps
  | LexErr p => LexErr (d + p)
  end.

Lemma lex_all_go_fuel2 (f1 : nat) : forall f2 x pos,
  length x <= f1 -> length x <= f2 -> lex_all_go f1 pos x = lex_all_go f2 pos x.
Proof.
  induction f1 as [|f1 IH]; intros f2 x pos H1 H2.
  - destruct x as [|a r]; [destruct f2; reflexivity | cbn [length] in H1; lia].
  - destruct x as [|a r]; [destruct f2; reflexivity|].
    destruct f2 as [|f2]; [cbn [length] in H2; lia|].
    cbn [lex_all_go]. destruct (best (a :: r)) as [[k n]|]; [|reflexivity].
    destruct n as [|n]; [reflexivity|].
    assert (L : length (skipn (S n) (a :: r)) <= length r).
    { cbn [skipn]. apply skipn_length_le. }
    cbn [length] in H1, H2.
    rewrite (IH f2 (skipn (S n) (a :: r)) (pos + S n)) by lia. reflexivity.
Qed.

(* A1: the out-of-fuel branch is unreachable when fuel >= length *)
Lemma lex_all_go_fuel : forall f x pos,
  length x <= f -> lex_all_go f pos x = lex_all_go (length x) pos x.
Proof. intros f x pos H. apply lex_all_go_fuel2; [exact H | lia]. Qed.

Lemma lex_all_go_pos (f : nat) : forall pos x,
  lex_all_go f pos x = shift_err pos (lex_all_go f 0 x).
Proof.
  induction f as [|f IH]; intros pos x.
  - destruct x; cbn [lex_all_go shift_err]; [reflexivity | f_equal; lia].
  - destruct x as [|a r]; [reflexivity|].
    cbn [lex_all_go]. destruct (best (a :: r)) as [[k n]|]; [|cbn [shift_err]; f_equal; lia].
    destruct n as [|n]; [cbn [shift_err]; f_equal; lia|].
    rewrite (IH (pos + S n)). rewrite (IH (0 + S n)).
    destruct (lex_all_go f 0 (skipn (S n) (a :: r))) as [ps|p]; cbn [shift_err]; [reflexivity|].
    f_equal. lia.
Qed.

(* A2: one step of the lexer *)
Lemma lex_all_step : forall a r,
  lex_all (a :: r) =
  match best (a :: r) with
  | None => LexErr 0
  | Some (k, O) => LexErr 0
  | Some (k, S n) =>
      match lex_all (skipn (S n) (a :: r)) with
      | LexOk ps => LexOk ((k, firstn (S n) (a :: r)) :: ps)
      | LexErr p => LexErr (S n + p)
      end
  end.
Proof.
  intros a r. unfold lex_all at 1. cbn [length lex_all_go].
  destruct (best (a :: r)) as [[k n]|]; [|reflexivity].
  destruct n as [|n]; [reflexivity|].
  assert (L : length (skipn (S n) (a :: r)) <= length r).
  { cbn [skipn]. apply skipn_length_le. }
  rewrite (lex_all_go_fuel (length r) (skipn (S n) (a :: r)) (0 + S n) L).
  rewrite lex_all_go_pos. fold (lex_all (skipn (S n) (a :: r))).
  destruct (lex_all (skipn (S n) (a :: r))) as [ps|p]; cbn [shift_err]; reflexivity.
Qed.

Lemma lex_all_nil : lex_all [] = LexOk [].
Proof. reflexivity. Qed.

(* induction along the lexer: enough to treat one step *)
Lemma lex_all_ind (P : str -> list token -> Prop) :
  P [] [] ->
  (forall a r k n ps,
      best (a :: r) = Some (k, S n) ->
      lex_all (skipn (S n) (a :: r)) = LexOk ps ->
      P (skipn (S n) (a :: r)) ps ->
      P (a :: r) ((k, firstn (S n) (a :: r)) :: ps)) ->
  forall x ps, lex_all x = LexOk ps -> P x ps.
Proof.
  intros H0 Hs x.
  remember (length x) as len eqn:Hl. revert x Hl.
  induction len as [len IH] using lt_wf_ind. intros x Hl ps H.
  destruct x as [|a r].
  - rewrite lex_all_nil in H. inversion H. exact H0.
  - rewrite lex_all_step in H.
    destruct (best (a :: r)) as [[k n]|] eqn:B; [|discriminate].
    destruct n as [|n]; [discriminate|].
    destruct (lex_all (skipn (S n) (a :: r))) as [qs|p] eqn:R; [|discriminate].
    inversion H. subst ps.
    apply Hs; [exact B | exact R |].
    apply (IH (length (skipn (S n) (a :: r)))); [|reflexivity | exact R].
    subst len. cbn [skipn length]. pose proof (skipn_length_le n r). lia.
Qed.

(* A3: every character of the input is in exactly one piece, in order *)
Theorem lex_all_concat : forall x ps, lex_all x = LexOk ps -> concat (map snd ps) = x.
Proof.
  apply (lex_all_ind (fun x ps => concat (map snd ps) = x)).
  - reflexivity.
  - intros a r k n ps _ _ IH. cbn [map concat snd]. rewrite IH. apply firstn_skipn.
Qed.

(* A4: no piece is empty *)
Theorem lex_all_nonempty : forall x ps,
  lex_all x = LexOk ps -> Forall (fun t => snd t <> []) ps.
Proof.
  apply (lex_all_ind (fun _ ps => Forall (fun t => snd t <> []) ps)).
  - constructor.
  - intros a r k n ps _ _ IH. constructor; [|exact IH]. cbn [snd firstn]. discriminate.
Qed.

Lemma best_lparen (x : str) (n : nat) : best x = Some (TLParen, n) -> firstn n x = [lpar].
Proof.
  intro H. apply best_inv in H. destruct H as (m & e & Hin & Hm).
  unfold rules in Hin. cbn [In] in Hin.
  destruct Hin as [Hin | Hin].
  - inversion Hin. subst m. apply noeof_inv in Hm. apply m_char_inv in Hm.
    destruct Hm as [-> [r ->]]. reflexivity.
  - repeat (destruct Hin as [Hin | Hin]; [discriminate Hin|]). contradiction.
Qed.

Lemma best_rparen (x : str) (n : nat) : best x = Some (TRParen, n) -> firstn n x = [rpar].
Proof.
  intro H. apply best_inv in H. destruct H as (m & e & Hin & Hm).
  unfold rules in Hin. cbn [In] in Hin.
  destruct Hin as [Hin | Hin]; [discriminate Hin|].
  destruct Hin as [Hin | Hin].
  - inversion Hin. subst m. apply noeof_inv in Hm. apply m_char_inv in Hm.
    destruct Hm as [-> [r ->]]. reflexivity.
  - repeat (destruct Hin as [Hin | Hin]; [discriminate Hin|]). contradiction.
Qed.

(* A5: parenthesis tokens are exactly one parenthesis character *)
Theorem lex_tokens_canon : forall x ps,
  lex_all x = LexOk ps ->
  Forall (fun t => (fst t = TLParen -> snd t = [lpar]) /\ (fst t = TRParen -> snd t = [rpar])) ps.
Proof.
  apply (lex_all_ind (fun _ ps =>
    Forall (fun t => (fst t = TLParen -> snd t = [lpar]) /\ (fst t = TRParen -> snd t = [rpar])) ps)).
  - constructor.
  - intros a r k n ps B _ IH. constructor; [|exact IH]. cbn [fst snd]. split; intro E; subst k.
    + apply best_lparen. exact B.
    + apply best_rparen. exact B.
Qed.

(* A6: the visible tokens come from a full partition of the input *)
Theorem lex_visible : forall x ts,
  lex x = LexOk ts ->
  exists ps, lex_all x = LexOk ps /\ ts = visible ps /\ concat (map snd ps) = x.
Proof.
  intros x ts H. unfold lex in H. destruct (lex_all x) as [ps|p] eqn:E; [|discriminate].
  inversion H. exists ps. split; [reflexivity | split; [reflexivity|]].
  apply lex_all_concat. exact E.
Qed.

Example lex_all_concat_nonvacuous :
  exists ps, lex_all (s"foo(a [[b]] #c") = LexOk ps /\ length ps = 7.
Proof. eexists. split; vm_compute; reflexivity. Qed.

(* ---- A7: faults are loud ---- *)

Lemma reaches_concat (x : str) (ps : list token) (rest : str) :
  reaches x ps rest -> concat (map snd ps) ++ rest = x.
Proof.
  intro H. induction H as [|ps a r k n H IH B]; [reflexivity|].
  rewrite map_app, concat_app. cbn [map concat snd]. rewrite app_nil_r, <- app_assoc.
  rewrite firstn_skipn. exact IH.
Qed.

Lemma reaches_length (x : str) (ps : list token) (rest : str) :
  reaches x ps rest -> length rest <= length x.
Proof.
  intro H. apply reaches_concat in H. rewrite <- H, app_length. lia.
Qed.

(* lexing x = the pieces produced so far, followed by lexing the rest *)
Lemma reaches_lex_all (x : str) (ps : list token) (rest : str) :
  reaches x ps rest ->
  lex_all x = match lex_all rest with
              | LexOk qs => LexOk (ps ++ qs)
              | LexErr p => LexErr (length x - length rest + p)
              end.
Proof.
  intro H. induction H as [|ps a r k n H IH B].
  - destruct (lex_all x) as [qs|p]; [reflexivity | f_equal; lia].
  - rewrite IH, lex_all_step, B.
    pose proof (best_le _ _ _ B) as L. pose proof (reaches_length _ _ _ H) as L2.
    assert (L3 : length (skipn (S n) (a :: r)) = length (a :: r) - S n) by apply skipn_length.
    destruct (lex_all (skipn (S n) (a :: r))) as [qs|p].
    + rewrite <- app_assoc. reflexivity.
    + f_equal. lia.
Qed.

Theorem lex_stuck : forall x ps rest,
  reaches x ps rest -> rest <> [] -> best rest = None ->
  lex_all x = LexErr (length x - length rest).
Proof.
  intros x ps rest H Hne B. rewrite (reaches_lex_all _ _ _ H).
  destruct rest as [|a r]; [contradiction|].
  rewrite lex_all_step, B. f_equal. lia.
Qed.

Corollary lex_stuck_ex : forall x ps rest,
  reaches x ps rest -> rest <> [] -> best rest = None -> exists p, lex_all x = LexErr p.
Proof. intros x ps rest H Hne B. eexists. eapply lex_stuck; eassumption. Qed.

(* conversely, a successful run reaches the end of the input *)
Lemma reaches_trans_step (x : str) (ps : list token) (rest : str) :
  reaches x ps rest -> forall qs, lex_all rest = LexOk qs -> reaches x (ps ++ qs) [].
Proof.
  intros H qs Hq. revert ps H.
  refine (lex_all_ind (fun rest qs => forall ps, reaches x ps rest -> reaches x (ps ++ qs) [])
                      _ _ rest qs Hq).
  - intros ps H. rewrite app_nil_r. exact H.
  - intros a r k n qs' B _ IH ps H.
    change ((k, firstn (S n) (a :: r)) :: qs') with ([(k, firstn (S n) (a :: r))] ++ qs').
    rewrite app_assoc. apply IH. apply reaches_step; assumption.
Qed.

Theorem lex_all_reaches : forall x ps, lex_all x = LexOk ps -> reaches x ps [].
Proof.
  intros x ps H. apply (reaches_trans_step x [] x (reaches_nil x) ps H).
Qed.

(* ---- computing best from the first character ---- *)

Fixpoint pick (rs : list (tk * option (nat * bool))) (cur : option (tk * (nat * bool)))
  : option (tk * (nat * bool)) :=
  match rs with
  | [] => cur
  | (k, None) :: rest => pick rest cur
  | (k, Some r) :: rest =>
      match cur with
      | None => pick rest (Some (k, r))
      | Some (_, rc) => if better r rc then pick rest (Some (k, r)) else pick rest cur
      end
  end.

Lemma best_of_pick (rs : list (tk * (str -> option (nat * bool)))) (x : str) :
  forall cur, best_of rs x cur = pick (map (fun km => (fst km, snd km x)) rs) cur.
Proof.
  induction rs as [|[k m] rest IH]; intro cur; [reflexivity|].
  cbn [best_of map fst snd pick]. destruct (m x) as [r|].
  - destruct cur as [[kc rc]|]; [destruct (better r rc)|]; apply IH.
  - apply IH.
Qed.

Lemma best_results (x : str) :
  best x =
  match pick [ (TLParen, noeof (m_char 40%N x)); (TRParen, noeof (m_char 41%N x));
               (TModuleDoc, noeof (m_module_docstring x)); (TDocstring, noeof (m_docstring x));
               (TDocStart, noeof (m_lit doc_open x)); (TBlockEnd, noeof (m_lit doc_close x));
               (TIdent, noeof (m_identifier x)); (TUnquoted, noeof (m_unquoted x));
               (TEscape, noeof (m_escape x)); (TQuoted, noeof (m_quoted x));
               (TBracketArg, noeof (m_bracket_arg x));
               (TBracketComment, noeof (m_bracket_comment x));
               (TLineComment, m_line_comment x);
               (TNewline, noeof (m_run is_eol x)); (TSpace, noeof (m_run is_sptab x)) ] None with
  | Some (k, (n, _)) => Some (k, n)
  | None => None
  end.
Proof. unfold best. rewrite best_of_pick. reflexivity. Qed.

Lemma m_char_ne (c a : char) (r : str) : (a =? c)%N = false -> m_char c (a :: r) = None.
Proof. intro H. cbn [m_char]. rewrite H. reflexivity. Qed.

Lemma m_char_eq (c : char) (r : str) : m_char c (c :: r) = Some 1.
Proof. cbn [m_char]. rewrite N.eqb_refl. reflexivity. Qed.

Lemma startswith_hash_ne (p : str) (a : char) (r : str) :
  (a =? 35)%N = false -> startswith (hash :: p) (a :: r) = false.
Proof.
  intro H. cbn [startswith]. unfold hash. rewrite N.eqb_sym, H. reflexivity.
Qed.

Lemma m_module_docstring_nopen (x : str) :
  startswith doc_open x = false -> m_module_docstring x = None.
Proof. intro H. unfold m_module_docstring. rewrite H. reflexivity. Qed.

Lemma m_docstring_nopen (x : str) : startswith doc_open x = false -> m_docstring x = None.
Proof. intro H. unfold m_docstring. rewrite H. reflexivity. Qed.

Lemma m_lit_no (lit x : str) : startswith lit x = false -> m_lit lit x = None.
Proof. intro H. unfold m_lit. rewrite H. reflexivity. Qed.

Lemma doc_open_nohash (a : char) (r : str) :
  (a =? 35)%N = false -> startswith doc_open (a :: r) = false.
Proof. apply (startswith_hash_ne (s"[[[")). Qed.

Lemma doc_close_nohash (a : char) (r : str) :
  (a =? 35)%N = false -> startswith doc_close (a :: r) = false.
Proof. apply (startswith_hash_ne (s"]]")). Qed.

Lemma m_identifier_no (a : char) (r : str) :
  is_ident_start a = false -> m_identifier (a :: r) = None.
Proof. intro H. cbn [m_identifier]. rewrite H. reflexivity. Qed.

Lemma unq_run_cons (a : char) (r : str) :
  unq_run (a :: r) =
  if (a =? 92)%N then
    match r with
    | b :: r' => if esc_ok b then S (S (unq_run r')) else 0
    | [] => 0
    end
  else if is_unq_char a then S (unq_run r) else 0.
Proof. reflexivity. Qed.

Lemma m_unquoted_no (a : char) (r : str) :
  (a =? 92)%N = false -> is_unq_char a = false -> m_unquoted (a :: r) = None.
Proof. intros H1 H2. unfold m_unquoted. rewrite unq_run_cons, H1, H2. reflexivity. Qed.

Lemma m_escape_no (a : char) (r : str) : (a =? 92)%N = false -> m_escape (a :: r) = None.
Proof. intro H. destruct r as [|b r]; cbn [m_escape]; [reflexivity|]. rewrite H. reflexivity. Qed.

Lemma m_quoted_no (a : char) (r : str) : (a =? 34)%N = false -> m_quoted (a :: r) = None.
Proof. intro H. cbn [m_quoted]. rewrite H. reflexivity. Qed.

Lemma m_bracket_arg_no (a : char) (r : str) : (a =? 91)%N = false -> m_bracket_arg (a :: r) = None.
Proof. intro H. cbn [m_bracket_arg]. rewrite H. reflexivity. Qed.

Lemma m_bracket_comment_no (a : char) (r : str) :
  (a =? 35)%N = false -> m_bracket_comment (a :: r) = None.
Proof. intro H. cbn [m_bracket_comment]. rewrite H. reflexivity. Qed.

Lemma m_line_comment_no (a : char) (r : str) :
  (a =? 35)%N = false -> m_line_comment (a :: r) = None.
Proof. intro H. cbn [m_line_comment]. rewrite H. reflexivity. Qed.

Lemma m_run_no (p : char -> bool) (a : char) (r : str) : p a = false -> m_run p (a :: r) = None.
Proof. intro H. unfold m_run. rewrite count_while_cons, H. reflexivity. Qed.

Lemma m_run_yes (p : char -> bool) (a : char) (r : str) :
  p a = true -> m_run p (a :: r) = Some (S (count_while p r)).
Proof. intro H. unfold m_run. rewrite count_while_cons, H. reflexivity. Qed.

(* side conditions on one character: closed ones by computation, open ones by lia *)
Ltac char_side :=
  first [ reflexivity
        | assumption
        | unfold is_ident_start, is_ident_char, is_alnum, is_upper, is_lower, is_digit,
                 is_unq_char, is_sptab, is_eol, esc_ok in *; lia ].

(* rewrite away every rule that cannot start with the first character *)
Ltac kill_rules :=
  rewrite ?(m_char_ne 40%N) by char_side;
  rewrite ?(m_char_ne 41%N) by char_side;
  rewrite ?m_module_docstring_nopen by (first [assumption | apply doc_open_nohash; char_side]);
  rewrite ?m_docstring_nopen by (first [assumption | apply doc_open_nohash; char_side]);
  rewrite ?(m_lit_no doc_open) by (first [assumption | apply doc_open_nohash; char_side]);
  rewrite ?(m_lit_no doc_close) by (first [assumption | apply doc_close_nohash; char_side]);
  rewrite ?m_identifier_no by char_side;
  rewrite ?m_unquoted_no by char_side;
  rewrite ?m_escape_no by char_side;
  rewrite ?m_quoted_no by char_side;
  rewrite ?m_bracket_arg_no by char_side;
  rewrite ?m_bracket_comment_no by char_side;
  rewrite ?m_line_comment_no by char_side;
  rewrite ?(m_run_no is_eol) by char_side;
  rewrite ?(m_run_no is_sptab) by char_side.

Theorem best_unterminated_quote : forall r, quoted_body r = None -> best (dq :: r) = None.
Proof.
  intros r H. rewrite best_results. kill_rules.
  assert (Q : m_quoted (dq :: r) = None).
  { cbn [m_quoted]. rewrite H. reflexivity. }
  rewrite Q. reflexivity.
Qed.

Theorem best_bad_escape : forall r,
  (match r with [] => true | b :: _ => negb (esc_ok b) end) = true -> best (bsl :: r) = None.
Proof.
  intros r H. rewrite best_results. kill_rules.
  assert (U : m_unquoted (bsl :: r) = None).
  { unfold m_unquoted. rewrite unq_run_cons. change (bsl =? 92)%N with true. cbv iota.
    destruct r as [|b r']; [reflexivity|]. apply negb_true_iff in H. rewrite H. reflexivity. }
  assert (E : m_escape (bsl :: r) = None).
  { destruct r as [|b r']; [reflexivity|]. cbn [m_escape]. apply negb_true_iff in H.
    rewrite H, andb_false_r. reflexivity. }
  rewrite U, E. reflexivity.
Qed.

Lemma opens_bracket_head (l : str) : opens_bracket l = true -> exists t, l = lbr :: t.
Proof.
  destruct l as [|a t]; cbn [opens_bracket]; [discriminate|].
  intro H. apply andb_true_iff in H. destruct H as [H _]. apply N.eqb_eq in H. subst a.
  exists t. reflexivity.
Qed.

Theorem best_unterminated_bracket_comment : forall r,
  opens_bracket (take_while (fun c => negb (is_eol c)) r) = true ->
  m_bracket_arg r = None ->
  startswith doc_open (hash :: r) = false ->
  best (hash :: r) = None.
Proof.
  intros r Ho Hb Hd. rewrite best_results.
  assert (C : startswith doc_close (hash :: r) = false).
  { destruct (opens_bracket_head _ Ho) as [t Ht].
    destruct r as [|a r']; [discriminate Ht|]. cbn [take_while] in Ht.
    destruct (negb (is_eol a)); [|discriminate Ht]. inversion Ht. reflexivity. }
  assert (BC : m_bracket_comment (hash :: r) = None).
  { cbn [m_bracket_comment]. change (hash =? 35)%N with true. cbv iota. rewrite Hb. reflexivity. }
  assert (LC : m_line_comment (hash :: r) = None).
  { cbn [m_line_comment]. change (hash =? 35)%N with true. cbv iota. rewrite Ho. reflexivity. }
  rewrite BC, LC. kill_rules. reflexivity.
Qed.

Example best_unterminated_bracket_comment_ex :
  best (s"#[[ never closed") = None /\ best (s"#[=[ x ]]") = None.
Proof. split; vm_compute; reflexivity. Qed.

(* the doc_open hypothesis cannot be dropped: the bare opening marker is a token *)
Example best_unterminated_bracket_comment_needs_nodoc :
  let r := s"[[[ never closed" in
  opens_bracket (take_while (fun c => negb (is_eol c)) r) = true /\
  m_bracket_arg r = None /\ best (hash :: r) = Some (TDocStart, 4).
Proof. repeat split; vm_compute; reflexivity. Qed.

Lemma quoted_body_last (x : str) (n : nat) :
  quoted_body x = Some n -> nth_error x (n - 1) = Some dq.
Proof.
  revert n. induction x as [| a | a b r IHr IHb] using str_ind2; intros n H.
  - discriminate.
  - rewrite quoted_body_cons in H. destruct (N.eqb_spec a 34) as [E|E].
    + inversion H. subst. reflexivity.
    + destruct (a =? 92)%N; discriminate.
  - rewrite quoted_body_cons in H. destruct (N.eqb_spec a 34) as [E|E].
    + inversion H. subst. reflexivity.
    + destruct (a =? 92)%N.
      * destruct (esc_ok b); [|discriminate].
        destruct (quoted_body r) as [m|] eqn:Q; cbn [option_map] in H; [|discriminate].
        inversion H. subst n. pose proof (quoted_body_le _ _ Q) as L.
        specialize (IHr m eq_refl).
        replace (S (S m) - 1) with (S (S (m - 1))) by lia. exact IHr.
      * destruct (quoted_body (b :: r)) as [m|] eqn:Q; cbn [option_map] in H; [|discriminate].
        inversion H. subst n. pose proof (quoted_body_le _ _ Q) as L.
        specialize (IHb m eq_refl).
        replace (S m - 1) with (S (m - 1)) by lia. exact IHb.
Qed.

(* a quoted piece is always terminated *)
Theorem quoted_piece_shape : forall x n,
  best x = Some (TQuoted, n) ->
  (exists r, x = dq :: r) /\ 2 <= n /\ nth_error x (n - 1) = Some dq.
Proof.
  intros x n H. apply best_inv in H. destruct H as (m & e & Hin & Hm).
  unfold rules in Hin. cbn [In] in Hin.
  do 9 (destruct Hin as [Hin | Hin]; [discriminate Hin|]).
  destruct Hin as [Hin | Hin].
  - inversion Hin. subst m. apply noeof_inv in Hm. apply m_quoted_inv in Hm.
    destruct Hm as (r & k & -> & Q & ->).
    pose proof (quoted_body_le _ _ Q) as L. pose proof (quoted_body_last _ _ Q) as N.
    split; [exists r; reflexivity | split; [lia|]].
    replace (S k - 1) with (S (k - 1)) by lia. exact N.
  - repeat (destruct Hin as [Hin | Hin]; [discriminate Hin|]). contradiction.
Qed.

Example quoted_piece_shape_ex : best (s"""a\""b"" c") = Some (TQuoted, 6).
Proof. vm_compute. reflexivity. Qed.

Example lex_stuck_ex1 :
  reaches (s"f(""ab") [(TIdent, s"f"); (TLParen, s"(")] (s"""ab") /\
  best (s"""ab") = None /\ lex_all (s"f(""ab") = LexErr 2.
Proof.
  split; [|split; vm_compute; reflexivity].
  apply (reaches_step (s"f(""ab") [(TIdent, s"f")] lpar (s"""ab") TLParen 0).
  - apply (reaches_step (s"f(""ab") [] 102%N (s"(""ab") TIdent 0).
    + apply reaches_nil.
    + vm_compute. reflexivity.
  - vm_compute. reflexivity.
Qed.

(* ---- A8: leading layout is invisible ---- *)

Theorem best_space : forall c r,
  is_sptab c = true -> best (c :: r) = Some (TSpace, S (count_while is_sptab r)).
Proof.
  intros c r H. rewrite best_results. kill_rules.
  rewrite (m_run_yes is_sptab c r H). reflexivity.
Qed.

Theorem best_newline : forall c r,
  is_eol c = true -> best (c :: r) = Some (TNewline, S (count_while is_eol r)).
Proof.
  intros c r H. rewrite best_results. kill_rules.
  rewrite (m_run_yes is_eol c r H). reflexivity.
Qed.

Lemma lex_sim_refl (a : lexres) : lex_sim a a.
Proof. destruct a; cbn; [reflexivity | exact I]. Qed.

Lemma lex_sim_trans (a b c : lexres) : lex_sim a b -> lex_sim b c -> lex_sim a c.
Proof.
  destruct a, b, c; cbn; intros H1 H2; try contradiction; try exact I. congruence.
Qed.

Lemma lex_sim_sym (a b : lexres) : lex_sim a b -> lex_sim b a.
Proof. destruct a, b; cbn; intro H; try contradiction; try exact I. congruence. Qed.

(* a skipped first piece does not change the visible tokens *)
Lemma lex_skip_first (a : char) (r : str) (k : tk) (n : nat) :
  best (a :: r) = Some (k, S n) -> skipped k = true ->
  lex_sim (lex (a :: r)) (lex (skipn (S n) (a :: r))).
Proof.
  intros B Hk. unfold lex. rewrite lex_all_step, B.
  destruct (lex_all (skipn (S n) (a :: r))) as [ps|p]; cbn [lex_sim]; [|exact I].
  unfold visible. cbn [filter fst]. rewrite Hk. reflexivity.
Qed.

Lemma lex_drop_sptab (y : str) : lex_sim (lex (drop_while is_sptab y)) (lex y).
Proof.
  destruct y as [|c r]; [apply lex_sim_refl|].
  cbn [drop_while]. destruct (is_sptab c) eqn:E; [|apply lex_sim_refl].
  apply lex_sim_sym.
  pose proof (lex_skip_first c r TSpace _ (best_space c r E) eq_refl) as H.
  cbn [skipn] in H. rewrite skipn_count_while in H. exact H.
Qed.

Lemma lex_drop_eol (y : str) : lex_sim (lex (drop_while is_eol y)) (lex y).
Proof.
  destruct y as [|c r]; [apply lex_sim_refl|].
  cbn [drop_while]. destruct (is_eol c) eqn:E; [|apply lex_sim_refl].
  apply lex_sim_sym.
  pose proof (lex_skip_first c r TNewline _ (best_newline c r E) eq_refl) as H.
  cbn [skipn] in H. rewrite skipn_count_while in H. exact H.
Qed.

Lemma lex_leading_ws1 (c : char) (y : str) : is_ws c = true -> lex_sim (lex (c :: y)) (lex y).
Proof.
  intro H. unfold is_ws in H. destruct (is_sptab c) eqn:E.
  - eapply lex_sim_trans; [|apply lex_drop_sptab].
    pose proof (lex_skip_first c y TSpace _ (best_space c y E) eq_refl) as H1.
    cbn [skipn] in H1. rewrite skipn_count_while in H1. exact H1.
  - cbn [orb] in H.
    eapply lex_sim_trans; [|apply lex_drop_eol].
    pose proof (lex_skip_first c y TNewline _ (best_newline c y H) eq_refl) as H1.
    cbn [skipn] in H1. rewrite skipn_count_while in H1. exact H1.
Qed.

Lemma lex_leading_ws_sim (ws x : str) :
  forallb is_ws ws = true -> lex_sim (lex (ws ++ x)) (lex x).
Proof.
  induction ws as [|c ws IH]; intro H; [apply lex_sim_refl|].
  cbn [forallb] in H. apply andb_true_iff in H. destruct H as [Hc Hr].
  cbn [app]. eapply lex_sim_trans; [apply lex_leading_ws1; exact Hc | apply IH; exact Hr].
Qed.

(* leading spaces, tabs and newlines never change the visible token stream
   (only the reported error position) *)
Theorem lex_leading_ws : forall ws x,
  forallb (fun c => is_sptab c || is_eol c) ws = true ->
  match lex (ws ++ x), lex x with
  | LexOk a, LexOk b => a = b
  | LexErr _, LexErr _ => True
  | _, _ => False
  end.
Proof. intros ws x H. apply (lex_leading_ws_sim ws x H). Qed.

Example lex_leading_ws_ex :
  forallb (fun c => is_sptab c || is_eol c) [sp; nl; tab; cr; nl; sp] = true /\
  lex ([sp; nl; tab; cr; nl; sp] ++ s" foo(a)") = lex (s" foo(a)") /\
  lex ([sp; nl] ++ s"foo(""a") = LexErr 6 /\ lex (s"foo(""a") = LexErr 4.
Proof. repeat split; vm_compute; reflexivity. Qed.

(* trailing layout is NOT invisible in general: a lone backslash is an error, but a
   backslash followed by a space is an escape sequence *)
Example lex_trailing_ws_refuted :
  lex [bsl] = LexErr 0 /\ lex ([bsl] ++ [sp]) = LexOk [(TUnquoted, [bsl; sp])].
Proof. split; vm_compute; reflexivity. Qed.

(* ---- C1: an identifier followed by a delimiter is one TIdent piece ---- *)

Lemma ident_char_unq (c : char) :
  is_ident_char c = true -> (c =? 92)%N = false /\ is_unq_char c = true.
Proof. intro H. split; char_side. Qed.

Lemma ident_start_char (c : char) : is_ident_start c = true -> is_ident_char c = true.
Proof. intro H. char_side. Qed.

Lemma count_while_app_all (p : char -> bool) (l rest : str) :
  forallb p l = true -> count_while p (l ++ rest) = length l + count_while p rest.
Proof.
  induction l as [|a l IH]; intro H; [reflexivity|].
  cbn [forallb] in H. apply andb_true_iff in H. destruct H as [Ha Hl].
  cbn [app]. rewrite count_while_cons, Ha, (IH Hl). reflexivity.
Qed.

Lemma unq_run_ident (l rest : str) :
  forallb is_ident_char l = true -> unq_run (l ++ rest) = length l + unq_run rest.
Proof.
  induction l as [|a l IH]; intro H; [reflexivity|].
  cbn [forallb] in H. apply andb_true_iff in H. destruct H as [Ha Hl].
  destruct (ident_char_unq a Ha) as [H1 H2].
  cbn [app]. rewrite unq_run_cons, H1, H2, (IH Hl). reflexivity.
Qed.

Lemma ident_delim_stops (rest : str) :
  ident_delim rest = true -> count_while is_ident_char rest = 0 /\ unq_run rest = 0.
Proof.
  destruct rest as [|c r]; intro H; [split; reflexivity|].
  cbn [ident_delim] in H. apply andb_true_iff in H. destruct H as [H H3].
  apply andb_true_iff in H. destruct H as [H1 H2].
  apply negb_true_iff in H1, H2, H3.
  rewrite count_while_cons, unq_run_cons, H1, H2, H3. split; reflexivity.
Qed.

Lemma better_same (n : nat) : better (n, false) (n, false) = false.
Proof. unfold better. cbn [fst snd]. rewrite Nat.ltb_irrefl, andb_false_r. reflexivity. Qed.

Theorem best_ident_delim : forall a r rest,
  is_ident_start a = true -> forallb is_ident_char r = true -> ident_delim rest = true ->
  best ((a :: r) ++ rest) = Some (TIdent, length (a :: r)).
Proof.
  intros a r rest Ha Hr Hd. cbn [app length].
  destruct (ident_delim_stops rest Hd) as [D1 D2].
  assert (I : m_identifier (a :: r ++ rest) = Some (S (length r))).
  { cbn [m_identifier]. rewrite Ha, (count_while_app_all _ _ _ Hr), D1, Nat.add_0_r. reflexivity. }
  assert (U : m_unquoted (a :: r ++ rest) = Some (S (length r))).
  { unfold m_unquoted. destruct (ident_char_unq a (ident_start_char a Ha)) as [H1 H2].
    rewrite unq_run_cons, H1, H2, (unq_run_ident _ _ Hr), D2, Nat.add_0_r. reflexivity. }
  rewrite best_results, I, U. kill_rules. cbn [pick noeof].
  rewrite better_same. reflexivity.
Qed.

Example best_ident_delim_ex :
  best (s"foo_1" ++ s"(x)") = Some (TIdent, 5) /\ ident_delim (s"(x)") = true.
Proof. split; vm_compute; reflexivity. Qed.

(* conversely, a TIdent piece is an identifier *)
Lemma forallb_take_while (p : char -> bool) (x : str) : forallb p (take_while p x) = true.
Proof.
  induction x as [|a r IH]; [reflexivity|].
  cbn [take_while]. destruct (p a) eqn:E; [|reflexivity]. cbn [forallb]. rewrite E, IH. reflexivity.
Qed.

Lemma firstn_count_while (p : char -> bool) (x : str) :
  firstn (count_while p x) x = take_while p x.
Proof.
  induction x as [|a r IH]; [reflexivity|].
  rewrite count_while_cons. cbn [take_while]. destruct (p a); [|reflexivity].
  cbn [firstn]. rewrite IH. reflexivity.
Qed.

Lemma best_ident_shape (x : str) (n : nat) :
  best x = Some (TIdent, n) ->
  exists a r, firstn n x = a :: r /\ is_ident_start a = true /\ forallb is_ident_char r = true.
Proof.
  intro H. apply best_inv in H. destruct H as (m & e & Hin & Hm).
  unfold rules in Hin. cbn [In] in Hin.
  do 6 (destruct Hin as [Hin | Hin]; [discriminate Hin|]).
  destruct Hin as [Hin | Hin].
  - inversion Hin. subst m. apply noeof_inv in Hm.
    destruct x as [|a t]; cbn [m_identifier] in Hm; [discriminate|].
    destruct (is_ident_start a) eqn:Ha; [|discriminate]. inversion Hm. subst n.
    exists a, (take_while is_ident_char t). cbn [firstn]. rewrite firstn_count_while.
    split; [reflexivity | split; [exact Ha | apply forallb_take_while]].
  - repeat (destruct Hin as [Hin | Hin]; [discriminate Hin|]). contradiction.
Qed.

(* ---- C2: concatenation at a stable boundary ---- *)

Lemma firstn_app_le {A} (n : nat) (l1 l2 : list A) :
  n <= length l1 -> firstn n (l1 ++ l2) = firstn n l1.
Proof.
  intro H. rewrite firstn_app. replace (n - length l1) with 0 by lia.
  cbn [firstn]. apply app_nil_r.
Qed.

Lemma skipn_app_le {A} (n : nat) (l1 l2 : list A) :
  n <= length l1 -> skipn n (l1 ++ l2) = skipn n l1 ++ l2.
Proof.
  intro H. rewrite skipn_app. replace (n - length l1) with 0 by lia. reflexivity.
Qed.

(* boundary condition: at every piece start inside x, the following text y does not
   change the decision of the lexer *)
Definition stable_boundary (x y : str) : Prop :=
  forall qs rest, reaches x qs rest -> rest <> [] -> best (rest ++ y) = best rest.

Lemma reaches_app (x y : str) (qs : list token) (rest : str) :
  stable_boundary x y -> reaches x qs rest -> reaches (x ++ y) qs (rest ++ y).
Proof.
  intros Hs H. induction H as [|ps a r k n H IH B].
  - apply reaches_nil.
  - pose proof (best_le _ _ _ B) as L.
    assert (B' : best (a :: r ++ y) = Some (k, S n)).
    { change (best ((a :: r) ++ y) = Some (k, S n)).
      rewrite (Hs ps (a :: r) H); [exact B | discriminate]. }
    rewrite <- (firstn_app_le (S n) (a :: r) y L).
    rewrite <- (skipn_app_le (S n) (a :: r) y L).
    exact (reaches_step (x ++ y) ps a (r ++ y) k n IH B').
Qed.

Theorem lex_all_app_boundary : forall x y ps,
  lex_all x = LexOk ps -> stable_boundary x y ->
  lex_all (x ++ y) = match lex_all y with
                     | LexOk qs => LexOk (ps ++ qs)
                     | LexErr p => LexErr (length x + p)
                     end.
Proof.
  intros x y ps Hx Hs.
  pose proof (reaches_app x y ps [] Hs (lex_all_reaches x ps Hx)) as R. cbn [app] in R.
  rewrite (reaches_lex_all _ _ _ R). rewrite app_length.
  replace (length x + length y - length y) with (length x) by lia. reflexivity.
Qed.

(* the special case of one piece: checkable by a single evaluation of best *)
Lemma lex_all_first_piece (u v : str) (k : tk) :
  u <> [] -> best (u ++ v) = Some (k, length u) ->
  lex_all (u ++ v) = match lex_all v with
                     | LexOk qs => LexOk ((k, u) :: qs)
                     | LexErr p => LexErr (length u + p)
                     end.
Proof.
  intros Hu B. destruct u as [|a r]; [contradiction|].
  change ((a :: r) ++ v) with (a :: r ++ v) in *. cbn [length] in B.
  rewrite lex_all_step, B. cbv beta iota.
  change (a :: r ++ v) with ((a :: r) ++ v).
  change (S (length r)) with (length (a :: r)).
  rewrite (skipn_app_le (length (a :: r)) (a :: r) v (le_n _)), skipn_all.
  rewrite (firstn_app_le (length (a :: r)) (a :: r) v (le_n _)), firstn_all.
  reflexivity.
Qed.

Definition lex_cons (k : tk) (u : str) (res : lexres) : lexres :=
  match res with
  | LexOk ts => LexOk (if skipped k then ts else (k, u) :: ts)
  | LexErr p => LexErr (length u + p)
  end.

Lemma lex_first_piece (u v : str) (k : tk) :
  u <> [] -> best (u ++ v) = Some (k, length u) -> lex (u ++ v) = lex_cons k u (lex v).
Proof.
  intros Hu B. unfold lex. rewrite (lex_all_first_piece u v k Hu B).
  destruct (lex_all v) as [qs|p]; cbn [lex_cons]; [|reflexivity].
  unfold visible. cbn [filter fst]. destruct (skipped k); reflexivity.
Qed.

Lemma lex_cons_sim (k : tk) (u : str) (a b : lexres) :
  lex_sim a b -> lex_sim (lex_cons k u a) (lex_cons k u b).
Proof.
  destruct a, b; cbn [lex_sim lex_cons]; intro H; try contradiction; try exact I.
  subst. reflexivity.
Qed.

(* one stable piece: the same piece is cut whatever follows, so layout inserted after
   it is invisible *)
Lemma lex_insert_ws_after_piece (u rest ws : str) (k : tk) :
  u <> [] ->
  best (u ++ rest) = Some (k, length u) ->
  best (u ++ ws ++ rest) = Some (k, length u) ->
  forallb is_ws ws = true ->
  lex_sim (lex (u ++ ws ++ rest)) (lex (u ++ rest)).
Proof.
  intros Hu B1 B2 Hw.
  rewrite (lex_first_piece u rest k Hu B1), (lex_first_piece u (ws ++ rest) k Hu B2).
  apply lex_cons_sim. apply lex_leading_ws_sim. exact Hw.
Qed.

Lemma ws_ident_delim (ws rest : str) :
  ws <> [] -> forallb is_ws ws = true -> ident_delim (ws ++ rest) = true.
Proof.
  intros Hne Hw. destruct ws as [|c ws']; [contradiction|].
  cbn [forallb] in Hw. apply andb_true_iff in Hw. destruct Hw as [Hc _].
  cbn [app ident_delim]. unfold is_ws in Hc.
  assert (H1 : is_ident_char c = false) by char_side.
  assert (H2 : is_unq_char c = false) by char_side.
  assert (H3 : (c =? 92)%N = false) by char_side.
  rewrite H1, H2, H3. reflexivity.
Qed.

Theorem lex_insert_ws_after_ident : forall name rest ws,
  best (name ++ rest) = Some (TIdent, length name) ->
  ws <> [] -> forallb is_ws ws = true ->
  lex_sim (lex (name ++ ws ++ rest)) (lex (name ++ rest)).
Proof.
  intros name rest ws B Hne Hw.
  destruct (best_ident_shape _ _ B) as (a & r & F & Ha & Hr).
  rewrite (firstn_app_le (length name) name rest (le_n _)), firstn_all in F. subst name.
  apply (lex_insert_ws_after_piece (a :: r) rest ws TIdent); [discriminate | exact B | | exact Hw].
  apply best_ident_delim; [exact Ha | exact Hr | apply ws_ident_delim; assumption].
Qed.

Example lex_insert_ws_after_ident_ex :
  best (s"foo" ++ s"(a)") = Some (TIdent, 3) /\
  lex (s"foo" ++ [sp; nl; tab] ++ s"(a)") = lex (s"foo" ++ s"(a)").
Proof. split; vm_compute; reflexivity. Qed.

(* without the piece hypothesis the statement is false: the identifier would be cut in two *)
Example lex_insert_ws_needs_boundary :
  lex (s"foo" ++ [sp] ++ s"bar") <> lex (s"foo" ++ s"bar").
Proof. vm_compute. discriminate. Qed.

Lemma best_lpar_any (r : str) : best (lpar :: r) = Some (TLParen, 1).
Proof. rewrite best_results. kill_rules. rewrite m_char_eq. reflexivity. Qed.

Lemma best_rpar_any (r : str) : best (rpar :: r) = Some (TRParen, 1).
Proof. rewrite best_results. kill_rules. rewrite m_char_eq. reflexivity. Qed.

Theorem lex_insert_ws_after_paren : forall c rest ws,
  c = lpar \/ c = rpar -> forallb is_ws ws = true ->
  lex_sim (lex ([c] ++ ws ++ rest)) (lex ([c] ++ rest)).
Proof.
  intros c rest ws [-> | ->] Hw.
  - apply (lex_insert_ws_after_piece [lpar] rest ws TLParen);
      [discriminate | apply best_lpar_any | apply best_lpar_any | exact Hw].
  - apply (lex_insert_ws_after_piece [rpar] rest ws TRParen);
      [discriminate | apply best_rpar_any | apply best_rpar_any | exact Hw].
Qed.

Example lex_insert_ws_after_paren_ex :
  lex ([lpar] ++ [sp; nl] ++ s"a)") = LexOk [(TLParen, [lpar]); (TIdent, s"a"); (TRParen, [rpar])].
Proof. vm_compute. reflexivity. Qed.

(* a piece starting with a double quote can only be a quoted argument *)
Lemma best_dq (r : str) :
  best (dq :: r) = match quoted_body r with Some m => Some (TQuoted, S m) | None => None end.
Proof.
  destruct (quoted_body r) as [m|] eqn:Q; [|apply best_unterminated_quote; exact Q].
  rewrite best_results. kill_rules.
  assert (E : m_quoted (dq :: r) = Some (S m)).
  { cbn [m_quoted]. change (dq =? 34)%N with true. cbv iota. rewrite Q. reflexivity. }
  rewrite E. reflexivity.
Qed.

(* the closing quote is found locally *)
Lemma quoted_body_app (x : str) : forall n y y',
  quoted_body (x ++ y) = Some n -> n <= length x -> quoted_body (x ++ y') = Some n.
Proof.
  induction x as [| a | a b r IHr IHb] using str_ind2; intros n y y' H L.
  - cbn [app] in H. destruct y as [|c y0]; [discriminate|].
    apply quoted_body_le in H. cbn [length] in L. lia.
  - cbn [app] in *. rewrite quoted_body_cons in *. destruct (a =? 34)%N; [exact H|].
    destruct (a =? 92)%N.
    + destruct y as [|c y0]; [discriminate|]. destruct (esc_ok c); [|discriminate].
      destruct (quoted_body y0) as [m|]; cbn [option_map] in H; [|discriminate].
      inversion H. subst n. cbn [length] in L. lia.
    + destruct (quoted_body y) as [m|] eqn:Q; cbn [option_map] in H; [|discriminate].
      inversion H. subst n. apply quoted_body_le in Q. cbn [length] in L. lia.
  - change ((a :: b :: r) ++ y) with (a :: (b :: r) ++ y) in H.
    change ((a :: b :: r) ++ y') with (a :: (b :: r) ++ y').
    rewrite quoted_body_cons in *. destruct (a =? 34)%N; [exact H|].
    destruct (a =? 92)%N.
    + cbn [app] in *. destruct (esc_ok b); [|discriminate].
      destruct (quoted_body (r ++ y)) as [m|] eqn:Q; cbn [option_map] in H; [|discriminate].
      inversion H. subst n. cbn [length] in L.
      rewrite (IHr m y y' Q) by lia. reflexivity.
    + destruct (quoted_body ((b :: r) ++ y)) as [m|] eqn:Q; cbn [option_map] in H; [|discriminate].
      inversion H. subst n. cbn [length] in L.
      rewrite (IHb m y y' Q) by (cbn [length]; lia). reflexivity.
Qed.

Theorem lex_insert_ws_after_quoted : forall q rest ws,
  best (q ++ rest) = Some (TQuoted, length q) ->
  forallb is_ws ws = true ->
  lex_sim (lex (q ++ ws ++ rest)) (lex (q ++ rest)).
Proof.
  intros q rest ws B Hw.
  destruct (quoted_piece_shape _ _ B) as ([r E] & L2 & _).
  destruct q as [|c body]; [cbn [length] in L2; lia|].
  cbn [app] in E. inversion E. subst c.
  apply (lex_insert_ws_after_piece (dq :: body) rest ws TQuoted); [discriminate | exact B | | exact Hw].
  cbn [app] in *. rewrite best_dq in *.
  destruct (quoted_body (body ++ rest)) as [m|] eqn:Q; [|discriminate].
  inversion B as [Hm]. cbn [length] in Hm. 
  rewrite (quoted_body_app body m rest (ws ++ rest) Q) by lia. subst m. reflexivity.
Qed.

Example lex_insert_ws_after_quoted_ex :
  best (s"""a\""b""" ++ s"x)") = Some (TQuoted, 6) /\
  lex (s"""a\""b""" ++ [sp; nl] ++ s"x)") = lex (s"""a\""b""" ++ s"x)").
Proof. split; vm_compute; reflexivity. Qed.

(* the same facts for the lexer standing anywhere inside an input *)
Corollary lex_reaches_sim (x x' : str) (ps : list token) (rest rest' : str) :
  reaches x ps rest -> reaches x' ps rest' ->
  lex_sim (lex rest) (lex rest') -> lex_sim (lex x) (lex x').
Proof.
  intros R R' H. unfold lex in *.
  rewrite (reaches_lex_all _ _ _ R), (reaches_lex_all _ _ _ R').
  destruct (lex_all rest) as [qs|p], (lex_all rest') as [qs'|p']; cbn [lex_sim] in *;
    try contradiction; try exact I.
  unfold visible in *. rewrite !filter_app. f_equal. exact H.
Qed.

(* ---- C3: inserting a line comment ---- *)

(* the text of a one-line comment: no end-of-line inside, not the start of a bracket comment *)
Definition comment_text (text : str) : bool :=
  forallb (fun c => negb (is_eol c)) text && negb (opens_bracket text).

Definition line_comment (text : str) : str := hash :: text ++ [nl].

Lemma lex_insert_after_piece (u rest ins : str) (k : tk) :
  u <> [] ->
  best (u ++ rest) = Some (k, length u) ->
  best (u ++ ins ++ rest) = Some (k, length u) ->
  lex_sim (lex (ins ++ rest)) (lex rest) ->
  lex_sim (lex (u ++ ins ++ rest)) (lex (u ++ rest)).
Proof.
  intros Hu B1 B2 H.
  rewrite (lex_first_piece u rest k Hu B1), (lex_first_piece u (ins ++ rest) k Hu B2).
  apply lex_cons_sim. exact H.
Qed.

Lemma take_while_app_stop (p : char -> bool) (l : str) (c : char) (rest : str) :
  forallb p l = true -> p c = false -> take_while p (l ++ c :: rest) = l.
Proof.
  intros Hl Hc. induction l as [|a l IH].
  - cbn [app take_while]. rewrite Hc. reflexivity.
  - cbn [forallb] in Hl. apply andb_true_iff in Hl. destruct Hl as [Ha Hl].
    cbn [app take_while]. rewrite Ha, (IH Hl). reflexivity.
Qed.

Lemma drop_while_app_stop (p : char -> bool) (l : str) (c : char) (rest : str) :
  p c = false -> drop_while p (l ++ c :: rest) = drop_while p l ++ c :: rest.
Proof.
  intro Hc. induction l as [|a l IH].
  - cbn [app drop_while]. rewrite Hc. reflexivity.
  - cbn [app drop_while]. destruct (p a); [exact IH | reflexivity].
Qed.

Lemma m_bracket_arg_comment_text (text rest : str) :
  opens_bracket text = false -> m_bracket_arg (text ++ nl :: rest) = None.
Proof.
  intro Ho. destruct text as [|a t1].
  - reflexivity.
  - cbn [app m_bracket_arg]. destruct (a =? 91)%N eqn:Ea; [|reflexivity].
    rewrite skipn_count_while.
    rewrite (drop_while_app_stop (fun c => (c =? 61)%N) t1 nl rest eq_refl).
    cbn [opens_bracket] in Ho. rewrite Ea in Ho. cbn [andb] in Ho.
    destruct (drop_while (fun c => (c =? 61)%N) t1) as [|b t2].
    + reflexivity.
    + cbn [app]. rewrite Ho. reflexivity.
Qed.

Lemma doc_open_comment_text (text rest : str) :
  opens_bracket text = false -> startswith doc_open (hash :: text ++ nl :: rest) = false.
Proof.
  intro Ho. change doc_open with [hash; lbr; lbr; lbr]. cbn [startswith].
  rewrite N.eqb_refl. cbn [andb].
  destruct text as [|a t1]; [reflexivity|].
  cbn [app]. destruct (N.eqb_spec lbr a) as [Ea|Ea]; [|reflexivity]. subst a.
  cbn [andb]. cbn [opens_bracket] in Ho. change (lbr =? 91)%N with true in Ho. cbn [andb] in Ho.
  destruct t1 as [|b t2]; [reflexivity|].
  cbn [app]. destruct (N.eqb_spec lbr b) as [Eb|Eb]; [|reflexivity]. subst b.
  cbn [drop_while] in Ho. change (lbr =? 61)%N with false in Ho. cbv iota in Ho.
  change (lbr =? 91)%N with true in Ho. discriminate Ho.
Qed.

Lemma doc_close_comment_text (text rest : str) :
  startswith doc_close (hash :: text ++ nl :: rest) = true -> 2 <= length text.
Proof.
  change doc_close with [hash; rbr; rbr].
  destruct text as [|a [|b t]]; cbn [startswith app length]; intro H.
  - rewrite N.eqb_refl in H. discriminate H.
  - rewrite N.eqb_refl in H. cbn [andb] in H. apply andb_true_iff in H. destruct H as [_ H].
    discriminate H.
  - lia.
Qed.

Theorem best_line_comment : forall text rest,
  comment_text text = true ->
  best (line_comment text ++ rest) = Some (TLineComment, length (line_comment text)).
Proof.
  intros text rest H. unfold comment_text in H. apply andb_true_iff in H. destruct H as [Hn Ho].
  apply negb_true_iff in Ho.
  unfold line_comment. cbn [app]. rewrite <- app_assoc. cbn [app length].
  rewrite app_length. cbn [length].
  assert (LC : m_line_comment (hash :: text ++ nl :: rest) = Some (1 + length text + 1, false)).
  { cbn [m_line_comment]. change (hash =? 35)%N with true. cbv iota.
    rewrite (take_while_app_stop _ text nl rest Hn eq_refl), Ho.
    rewrite (skipn_app_le (length text) text (nl :: rest) (le_n _)), skipn_all. cbn [app].
    change (nl =? 13)%N with false. cbv iota. reflexivity. }
  assert (BC : m_bracket_comment (hash :: text ++ nl :: rest) = None).
  { cbn [m_bracket_comment]. change (hash =? 35)%N with true. cbv iota.
    rewrite (m_bracket_arg_comment_text text rest Ho). reflexivity. }
  pose proof (doc_open_comment_text text rest Ho) as DO.
  rewrite best_results, LC, BC. kill_rules.
  unfold m_lit. destruct (startswith doc_close (hash :: text ++ nl :: rest)) eqn:DC.
  - apply doc_close_comment_text in DC. cbn [pick noeof].
    assert (Bt : better (1 + length text + 1, false) (length doc_close, false) = true).
    { unfold better. cbn [fst snd]. change (length doc_close) with 3.
      destruct (Nat.ltb_spec 3 (1 + length text + 1)) as [_|L]; [reflexivity | lia]. }
    rewrite Bt. reflexivity.
  - cbn [pick noeof]. reflexivity.
Qed.

Lemma lex_cons_skipped_sim (k : tk) (u : str) (res : lexres) :
  skipped k = true -> lex_sim (lex_cons k u res) res.
Proof.
  intro H. destruct res as [ts|p]; cbn [lex_cons lex_sim]; [rewrite H; reflexivity | exact I].
Qed.

(* a line comment at the very beginning (of the input, or of what remains of it) is invisible *)
Theorem lex_insert_comment_at_start : forall text rest,
  comment_text text = true ->
  lex_sim (lex (line_comment text ++ rest)) (lex rest).
Proof.
  intros text rest H.
  rewrite (lex_first_piece (line_comment text) rest TLineComment);
    [apply lex_cons_skipped_sim; reflexivity | discriminate | apply best_line_comment; exact H].
Qed.

Theorem lex_insert_comment_after_paren : forall c text rest,
  c = lpar \/ c = rpar -> comment_text text = true ->
  lex_sim (lex ([c] ++ line_comment text ++ rest)) (lex ([c] ++ rest)).
Proof.
  intros c text rest [-> | ->] H.
  - apply (lex_insert_after_piece [lpar] rest (line_comment text) TLParen);
      [discriminate | apply best_lpar_any | apply best_lpar_any |
       apply lex_insert_comment_at_start; exact H].
  - apply (lex_insert_comment_at_start text rest) in H.
    apply (lex_insert_after_piece [rpar] rest (line_comment text) TRParen);
      [discriminate | apply best_rpar_any | apply best_rpar_any | exact H].
Qed.

Lemma hash_ident_delim (r : str) : ident_delim (hash :: r) = true.
Proof. reflexivity. Qed.

Theorem lex_insert_comment_after_ident : forall name text rest,
  best (name ++ rest) = Some (TIdent, length name) ->
  comment_text text = true ->
  lex_sim (lex (name ++ line_comment text ++ rest)) (lex (name ++ rest)).
Proof.
  intros name text rest B H.
  destruct (best_ident_shape _ _ B) as (a & r & F & Ha & Hr).
  rewrite (firstn_app_le (length name) name rest (le_n _)), firstn_all in F. subst name.
  apply (lex_insert_after_piece (a :: r) rest (line_comment text) TIdent);
    [discriminate | exact B | | apply lex_insert_comment_at_start; exact H].
  apply best_ident_delim; [exact Ha | exact Hr | apply hash_ident_delim].
Qed.

Example lex_insert_comment_ex :
  comment_text (s" [ note ]] ") = true /\
  lex ([lpar] ++ line_comment (s" [ note ]] ") ++ s"a)") = lex ([lpar] ++ s"a)") /\
  lex (line_comment (s"]]") ++ s"f()") = lex (s"f()") /\
  lex (s"f" ++ line_comment (s"") ++ s"()") = lex (s"f()").
Proof. repeat split; vm_compute; reflexivity. Qed.

(* the bracket condition is needed: such a text starts a bracket comment instead *)
Example lex_insert_comment_needs_no_bracket :
  comment_text (s"[[x") = false /\ lex (line_comment (s"[[x") ++ s"f()") = LexErr 0.
Proof. split; vm_compute; reflexivity. Qed.

(* ==== MAIN THEOREMS ==== 
   lex_all_go_fuel, lex_all_step, best_le                       A1 A2
   lex_all_concat, lex_all_nonempty, lex_tokens_canon, lex_visible   A3-A6
   lex_stuck, lex_all_reaches, best_unterminated_quote, best_bad_escape,
   best_unterminated_bracket_comment, quoted_piece_shape        A7
   best_space, best_newline, lex_leading_ws                     A8
   best_ident_delim                                             C1
   lex_all_app_boundary, lex_insert_ws_after_ident, lex_insert_ws_after_paren,
   lex_insert_ws_after_quoted                                   C2
   best_line_comment, lex_insert_comment_at_start, lex_insert_comment_after_paren,
   lex_insert_comment_after_ident                               C3
*)
Print Assumptions lex_all_go_fuel.
Print Assumptions lex_all_step.
Print Assumptions best_le.
Print Assumptions lex_all_concat.
Print Assumptions lex_all_nonempty.
Print Assumptions lex_tokens_canon.
Print Assumptions lex_visible.
Print Assumptions lex_stuck.
Print Assumptions lex_all_reaches.
Print Assumptions best_unterminated_quote.
Print Assumptions best_bad_escape.
Print Assumptions best_unterminated_bracket_comment.
Print Assumptions quoted_piece_shape.
Print Assumptions best_space.
Print Assumptions best_newline.
Print Assumptions lex_leading_ws.
Print Assumptions best_ident_delim.
Print Assumptions lex_all_app_boundary.
Print Assumptions lex_insert_ws_after_ident.
Print Assumptions lex_insert_ws_after_paren.
Print Assumptions lex_insert_ws_after_quoted.
Print Assumptions best_line_comment.
Print Assumptions lex_insert_comment_at_start.
Print Assumptions lex_insert_comment_after_paren.
Print Assumptions lex_insert_comment_after_ident.
