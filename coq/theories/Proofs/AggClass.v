(* Proofs/AggClass.v -- lemmas; see DESIGN.md section 7 *)
