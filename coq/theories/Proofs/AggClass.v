(* Proofs/AggClass.v -- property C09: class entries reflect the cpp_class structure.
   Theorems about Model/Aggregator.v (state machine) against the nested view of Spec/AggSpec.v. *)
From Coq Require Import String List NArith Bool Arith Lia.
From CMinx Require Import Base.Str Model.Lexer Model.Parser Model.Writer Model.DocTypes
     Model.Aggregator Spec.AggSpec.
Import ListNotations.

(* ---- spec ---- *)

(* every cpp_class header in the forest has at least one single argument *)
Fixpoint class_hdrs_ok_node (n : node) : bool :=
  match n with
  | NCmd _ _ => true
  | NDangling _ => true
  | NDef _ _ body _ =>
      (fix all (l : list node) : bool :=
         match l with [] => true | x :: r => class_hdrs_ok_node x && all r end) body
  | NClass _ hdr body _ =>
      negb (match singles hdr with [] => true | _ :: _ => false end)
      && (fix all (l : list node) : bool :=
            match l with [] => true | x :: r => class_hdrs_ok_node x && all r end) body
  end.
Definition class_hdrs_ok (l : list node) : bool := forallb class_hdrs_ok_node l.

(* no cpp_class in the forest carries a doccomment (the shape for which F9 cannot strike) *)
Fixpoint no_doc_class_node (n : node) : bool :=
  match n with
  | NCmd _ _ => true
  | NDangling _ => true
  | NDef _ _ body _ =>
      (fix all (l : list node) : bool :=
         match l with [] => true | x :: r => no_doc_class_node x && all r end) body
  | NClass doc _ body _ =>
      (match doc with None => true | Some _ => false end)
      && (fix all (l : list node) : bool :=
            match l with [] => true | x :: r => no_doc_class_node x && all r end) body
  end.
Definition no_doc_class (l : list node) : bool := forallb no_doc_class_node l.

(* the method a cpp_member / cpp_constructor command declares *)
Definition decl_method (is_ctor : bool) (name parent : str) (types : list str)
           (doc : str) (docd : bool) : method :=
  {| m_name := name; m_doc := doc; m_parent := parent; m_types := types; m_params := [];
     m_ctor := is_ctor; m_macro := false; m_docd := docd |}.

(* the attribute a cpp_attr command declares *)
Definition decl_attr (c : cmd) (parent name : str) (doc : str) (docd : bool) : attribute :=
  {| a_name := name; a_doc := doc; a_parent := parent; a_default := nth_error (singles c) 2;
     a_docd := docd |}.

(* the doc text and ghost flag an element hands to its handler *)
Definition doc_of (doc : option str) : str :=
  match doc with Some d => clean_doc_text d | None => [] end.
Definition docd_of (doc : option str) : bool :=
  match doc with Some _ => true | None => false end.

(* items of a class body that belong to THIS class: NDef bodies are transparent,
   nested NClass nodes are not entered *)
Definition attr_item (c : cmd) : list (str * str * option str) :=
  if kind_is c (s"cpp_attr") then
    match singles c with
    | parent :: name :: _ => [(parent, name, nth_error (singles c) 2)]
    | _ => []
    end
  else [].

Definition method_item (is_ctor : bool) (c : cmd) : list (str * str * list str) :=
  if kind_is c (if is_ctor then s"cpp_constructor" else s"cpp_member") then
    match singles c with
    | name :: parent :: types => [(name, parent, types)]
    | _ => []
    end
  else [].

Fixpoint node_attrs (n : node) : list (str * str * option str) :=
  match n with
  | NCmd _ c => attr_item c
  | NDangling _ => []
  | NDef _ _ body _ =>
      (fix go (l : list node) := match l with [] => [] | x :: r => node_attrs x ++ go r end) body
  | NClass _ _ _ _ => []
  end.
Definition class_attrs (body : list node) : list (str * str * option str) :=
  flat_map node_attrs body.

Fixpoint node_method_decls (is_ctor : bool) (n : node) : list (str * str * list str) :=
  match n with
  | NCmd _ c => method_item is_ctor c
  | NDangling _ => []
  | NDef _ _ body _ =>
      (fix go (l : list node) :=
         match l with [] => [] | x :: r => node_method_decls is_ctor x ++ go r end) body
  | NClass _ _ _ _ => []
  end.
Definition class_method_decls (is_ctor : bool) (body : list node) : list (str * str * list str) :=
  flat_map (node_method_decls is_ctor) body.

Fixpoint node_inner (n : node) : list str :=
  match n with
  | NCmd _ _ => []
  | NDangling _ => []
  | NDef _ _ body _ =>
      (fix go (l : list node) := match l with [] => [] | x :: r => node_inner x ++ go r end) body
  | NClass _ hdr _ _ => match singles hdr with [] => [] | name :: _ => [name] end
  end.
Definition class_inner (body : list node) : list str := flat_map node_inner body.

Definition attr_view (a : attribute) : str * str * option str :=
  (a_parent a, a_name a, a_default a).
Definition method_view (m : method) : str * str * list str :=
  (m_name m, m_parent m, m_types m).

(* the four class-owned lists of an entry (empty for non-class entries) *)
Definition e_inner (e : entry) : list str :=
  match e with EClass _ _ _ inner _ _ _ => inner | _ => [] end.
Definition e_ctors (e : entry) : list method :=
  match e with EClass _ _ _ _ ct _ _ => ct | _ => [] end.
Definition e_members (e : entry) : list method :=
  match e with EClass _ _ _ _ _ me _ => me | _ => [] end.
Definition e_attrs (e : entry) : list attribute :=
  match e with EClass _ _ _ _ _ _ at_ => at_ | _ => [] end.
Definition is_class_entry (e : entry) : bool :=
  match e with EClass _ _ _ _ _ _ _ => true | _ => false end.

(* the class-structural content of an entry: what C09 speaks about.  The argument names and
   macro notes of methods come from later definitions and are not part of this view. *)
Record cv := {
  cv_name : str; cv_doc : str; cv_supers : list str; cv_inner : list str;
  cv_ctors : list (str * str * list str); cv_members : list (str * str * list str);
  cv_attrs : list (str * str * option str) }.

Definition cview (e : entry) : option cv :=
  match e with
  | EClass n d su inner ct me at_ =>
      Some {| cv_name := n; cv_doc := d; cv_supers := su; cv_inner := inner;
              cv_ctors := map method_view ct; cv_members := map method_view me;
              cv_attrs := map attr_view at_ |}
  | _ => None
  end.

Definition cview_at (st : agg) (i : nat) : option cv :=
  match nth_error (documented st) i with Some e => cview e | None => None end.

(* st' keeps every class view of st (entries may have been appended) *)
Definition cv_frame (st st' : agg) : Prop :=
  length (documented st) <= length (documented st')
  /\ forall i, i < length (documented st) -> cview_at st' i = cview_at st i.

(* what a stretch of a class body contributes to the class on top of the stack *)
Record items := {
  it_inner : list str;
  it_ctors : list (str * str * list str);
  it_members : list (str * str * list str);
  it_attrs : list (str * str * option str) }.

Definition no_items : items :=
  {| it_inner := []; it_ctors := []; it_members := []; it_attrs := [] |}.
Definition items_app (a b : items) : items :=
  {| it_inner := it_inner a ++ it_inner b; it_ctors := it_ctors a ++ it_ctors b;
     it_members := it_members a ++ it_members b; it_attrs := it_attrs a ++ it_attrs b |}.
Definition node_items (n : node) : items :=
  {| it_inner := node_inner n; it_ctors := node_method_decls true n;
     it_members := node_method_decls false n; it_attrs := node_attrs n |}.
Definition items_of (body : list node) : items :=
  {| it_inner := class_inner body; it_ctors := class_method_decls true body;
     it_members := class_method_decls false body; it_attrs := class_attrs body |}.

Definition cv_ext (it : items) (v : cv) : cv :=
  {| cv_name := cv_name v; cv_doc := cv_doc v; cv_supers := cv_supers v;
     cv_inner := cv_inner v ++ it_inner it; cv_ctors := cv_ctors v ++ it_ctors it;
     cv_members := cv_members v ++ it_members it; cv_attrs := cv_attrs v ++ it_attrs it |}.

(* running from st to st' added exactly [it] to class N and nothing to any older class *)
Definition class_run (N : nat) (it : items) (st st' : agg) : Prop :=
  class_stack st' = class_stack st
  /\ length (documented st) <= length (documented st')
  /\ (forall i, i < length (documented st) -> i <> N -> cview_at st' i = cview_at st i)
  /\ (N < length (documented st) -> cview_at st' N = option_map (cv_ext it) (cview_at st N)).

(* the four flags that govern class content *)
Definition class_flags_on (fl : flags) : bool :=
  inc_cpp_class fl && inc_cpp_attr fl && inc_cpp_constructor fl && inc_cpp_member fl.

(* kinds of commands, one element's kind, and state predicates used in the statements below *)
Definition k_class_cmd (k : str) : Prop := k = s"cpp_class" \/ k = s"cpp_end_class".
Definition k_decl_cmd (k : str) : Prop :=
  k = s"ct_add_test" \/ k = s"ct_add_section" \/ k = s"cpp_member" \/ k = s"cpp_constructor".
Definition k_class_item (k : str) : Prop :=
  k = s"cpp_class" \/ k = s"cpp_end_class" \/ k = s"cpp_member" \/ k = s"cpp_constructor"
  \/ k = s"cpp_attr".

(* one element: Q4b and the frame facts used below *)
Definition elem_kind (e : element) : option str :=
  match e with
  | EDocCmd _ c => Some (cmd_kind c)
  | ECmd c => Some (cmd_kind c)
  | EDangling _ => None
  end.

(* the hypothesis under which blocks are balanced: with the class flag on every header needs
   a name; with the flag off no class may carry a doccomment (finding F9) *)
Definition balanced_node (fl : flags) (n : node) : bool :=
  if inc_cpp_class fl then class_hdrs_ok_node n else no_doc_class_node n.
Definition balanced_nodes (fl : flags) (l : list node) : bool :=
  if inc_cpp_class fl then class_hdrs_ok l else no_doc_class l.

(* the top of the class stack, if any, points at an existing entry *)
Definition top_in_range (st : agg) : bool :=
  match class_stack st with
  | Some i :: _ => Nat.ltb i (length (documented st))
  | _ => true
  end.
Definition is_top (i : nat) (st : agg) : bool :=
  match class_stack st with
  | Some j :: _ => Nat.eqb i j
  | _ => false
  end.

Definition stack_in_range (st : agg) : bool :=
  forallb (fun o => match o with
                    | Some i => Nat.ltb i (length (documented st))
                    | None => true
                    end) (class_stack st).


(* ---- generic list / string helpers ------------------------------------------------ *)

Lemma str_eqb_refl : forall a, str_eqb a a = true.
Proof.
  induction a as [|x a IH]; cbn [str_eqb]; [reflexivity|].
  rewrite N.eqb_refl, IH. reflexivity.
Qed.

Lemma str_eqb_eq : forall a b, str_eqb a b = true <-> a = b.
Proof.
  induction a as [|x a IH]; intros [|y b]; cbn [str_eqb]; split; intro H;
    try reflexivity; try discriminate.
  - apply andb_true_iff in H. destruct H as [H1 H2].
    apply N.eqb_eq in H1. apply IH in H2. subst. reflexivity.
  - inversion H; subst. rewrite N.eqb_refl. cbn [andb]. apply IH. reflexivity.
Qed.

Lemma str_eqb_neq : forall a b, str_eqb a b = false <-> a <> b.
Proof.
  intros a b. split.
  - intros H E. apply str_eqb_eq in E. congruence.
  - intros H. destruct (str_eqb a b) eqn:E; [|reflexivity].
    apply str_eqb_eq in E. contradiction.
Qed.

Lemma length_update_nth : forall A (f : A -> A) l n, length (update_nth n f l) = length l.
Proof.
  intros A f. induction l as [|x l IH]; intros [|n]; cbn [update_nth length]; auto.
Qed.

Lemma nth_error_update_nth_eq : forall A (f : A -> A) l n x,
    nth_error l n = Some x -> nth_error (update_nth n f l) n = Some (f x).
Proof.
  intros A f. induction l as [|y l IH]; intros [|n] x H; cbn in H |- *; try discriminate.
  - inversion H; reflexivity.
  - apply IH; exact H.
Qed.

Lemma nth_error_update_nth_neq : forall A (f : A -> A) l n i,
    i <> n -> nth_error (update_nth n f l) i = nth_error l i.
Proof.
  intros A f. induction l as [|y l IH]; intros [|n] [|i] H; cbn; try reflexivity.
  - contradiction.
  - apply IH. lia.
Qed.

Lemma update_nth_none : forall A (f : A -> A) l n,
    nth_error l n = None -> update_nth n f l = l.
Proof.
  intros A f. induction l as [|y l IH]; intros [|n] H; cbn in H |- *; try reflexivity.
  - discriminate.
  - f_equal. apply IH. exact H.
Qed.

Lemma update_last_snoc : forall A (f : A -> A) l x, update_last f (l ++ [x]) = l ++ [f x].
Proof.
  intros A f l x. unfold update_last. rewrite rev_app_distr. cbn [rev app].
  rewrite rev_involutive. reflexivity.
Qed.

Lemma update_last_nil : forall A (f : A -> A), update_last f [] = [].
Proof. reflexivity. Qed.

Lemma skipn2_guard : forall A (l : list A),
    (if Nat.ltb 2 (length l) then skipn 2 l else []) = skipn 2 l.
Proof.
  intros A [|a [|b [|c l]]]; reflexivity.
Qed.

Lemma nth_error_update_nth : forall A (f : A -> A) l n i,
    nth_error (update_nth n f l) i
    = if Nat.eqb i n then option_map f (nth_error l i) else nth_error l i.
Proof.
  intros A f l n i. destruct (Nat.eqb i n) eqn:E.
  - apply Nat.eqb_eq in E. subst i. destruct (nth_error l n) as [x|] eqn:Hn.
    + cbn [option_map]. apply nth_error_update_nth_eq. exact Hn.
    + cbn [option_map]. rewrite update_nth_none by exact Hn. exact Hn.
  - apply Nat.eqb_neq in E. apply nth_error_update_nth_neq. exact E.
Qed.

Lemma map_update_last_view : forall mac extra l,
    map method_view (update_last (upd_method mac extra) l) = map method_view l.
Proof.
  intros mac extra l. destruct l as [|x l] using rev_ind; [reflexivity|].
  rewrite update_last_snoc, !map_app. reflexivity.
Qed.

Lemma cv_frame_refl : forall st, cv_frame st st.
Proof. intros st. split; [lia|reflexivity]. Qed.

Lemma cv_frame_trans : forall a b c, cv_frame a b -> cv_frame b c -> cv_frame a c.
Proof.
  intros a b c [L1 H1] [L2 H2]. split; [lia|].
  intros i Hi. rewrite H2 by lia. apply H1. exact Hi.
Qed.

Lemma cv_frame_same : forall st st', documented st' = documented st -> cv_frame st st'.
Proof.
  intros st st' H. split; [rewrite H; lia|]. intros i _. unfold cview_at. rewrite H. reflexivity.
Qed.

Lemma cv_frame_app : forall st st' l, documented st' = documented st ++ l -> cv_frame st st'.
Proof.
  intros st st' l H. split; [rewrite H, app_length; lia|].
  intros i Hi. unfold cview_at. rewrite H, nth_error_app1 by exact Hi. reflexivity.
Qed.

Lemma cv_frame_upd : forall st idx f,
    (forall e, cview (f e) = cview e) -> cv_frame st (with_docs (update_nth idx f) st).
Proof.
  intros st idx f Hf. split.
  - cbn [with_docs documented]. rewrite length_update_nth. lia.
  - intros i _. unfold cview_at. cbn [with_docs documented]. rewrite nth_error_update_nth.
    destruct (Nat.eqb i idx); [|reflexivity].
    destruct (nth_error (documented st) i) as [e|]; cbn [option_map]; [apply Hf|reflexivity].
Qed.

(* evaluate str_eqb / is_def_name on closed arguments only *)
Ltac eval_closed :=
  repeat match goal with
         | |- context [str_eqb ?a ?b] =>
             let v := eval vm_compute in (str_eqb a b) in
             match v with
             | true => change (str_eqb a b) with true
             | false => change (str_eqb a b) with false
             end
         | |- context [is_def_name ?a] =>
             let v := eval vm_compute in (is_def_name a) in
             match v with
             | true => change (is_def_name a) with true
             | false => change (is_def_name a) with false
             end
         end.

(* ---- Q2: members and attributes attach to the top class only ----------------------- *)

Theorem member_attaches_to_top_only :
  forall is_ctor c doc docd st cidx rest name parent types n d su inner ct me at_,
    singles c = name :: parent :: types ->
    class_stack st = Some cidx :: rest ->
    nth_error (documented st) cidx = Some (EClass n d su inner ct me at_) ->
    let m := decl_method is_ctor name parent types doc docd in
    let st' := process_member is_ctor c doc docd st in
    nth_error (documented st') cidx
      = Some (if is_ctor then EClass n d su inner (ct ++ [m]) me at_
              else EClass n d su inner ct (me ++ [m]) at_)
    /\ (forall i, i <> cidx -> nth_error (documented st') i = nth_error (documented st) i)
    /\ length (documented st') = length (documented st)
    /\ origins st' = origins st
    /\ class_stack st' = class_stack st
    /\ def_stack st' = def_stack st
    /\ awaiting st' = AwMethod cidx is_ctor.
Proof.
  intros is_ctor c doc docd st cidx rest name parent types n d su inner ct me at_ Hs Hcs Hn m st'.
  subst st' m. unfold process_member. rewrite Hs, Hcs. cbn [length Nat.ltb Nat.leb nth skipn].
  cbn [with_awaiting with_docs documented origins class_stack def_stack awaiting].
  repeat split.
  - erewrite nth_error_update_nth_eq by exact Hn.
    cbn [add_method]. destruct is_ctor; reflexivity.
  - intros i Hi. apply nth_error_update_nth_neq. exact Hi.
  - apply length_update_nth.
  - exact Hcs.
Qed.

Theorem attr_attaches_to_top_only :
  forall c doc docd st cidx rest parent name more n d su inner ct me at_,
    singles c = parent :: name :: more ->
    class_stack st = Some cidx :: rest ->
    nth_error (documented st) cidx = Some (EClass n d su inner ct me at_) ->
    let a := decl_attr c parent name doc docd in
    let st' := process_attr c doc docd st in
    nth_error (documented st') cidx = Some (EClass n d su inner ct me (at_ ++ [a]))
    /\ (forall i, i <> cidx -> nth_error (documented st') i = nth_error (documented st) i)
    /\ length (documented st') = length (documented st)
    /\ origins st' = origins st
    /\ class_stack st' = class_stack st
    /\ def_stack st' = def_stack st
    /\ awaiting st' = awaiting st.
Proof.
  intros c doc docd st cidx rest parent name more n d su inner ct me at_ Hs Hcs Hn a st'.
  subst st' a. unfold process_attr, decl_attr. rewrite Hs, Hcs.
  cbn [length Nat.ltb Nat.leb nth].
  cbn [with_docs documented origins class_stack def_stack awaiting].
  repeat split.
  - erewrite nth_error_update_nth_eq by exact Hn. reflexivity.
  - intros i Hi. apply nth_error_update_nth_neq. exact Hi.
  - apply length_update_nth.
  - exact Hcs.
Qed.

(* the default is recorded iff a third argument is given ... *)
Lemma attr_default_iff : forall c parent name doc docd,
    a_default (decl_attr c parent name doc docd) = None <-> length (singles c) < 3.
Proof.
  intros c parent name doc docd. cbn [decl_attr a_default]. rewrite nth_error_None. lia.
Qed.

(* ... and then it is the third argument *)
Lemma attr_default_third : forall c parent name v more doc docd,
    singles c = parent :: name :: v :: more ->
    a_default (decl_attr c parent name doc docd) = Some v.
Proof.
  intros c parent name v more doc docd Hs. cbn [decl_attr a_default]. rewrite Hs. reflexivity.
Qed.

(* too few arguments, or no class open, or the open class is hidden: nothing happens *)
Lemma member_ignored : forall is_ctor c doc docd st,
    length (singles c) < 2 \/ class_stack st = [] \/ (exists r, class_stack st = None :: r) ->
    process_member is_ctor c doc docd st = st.
Proof.
  intros is_ctor c doc docd st H. unfold process_member.
  destruct (Nat.ltb (length (singles c)) 2) eqn:E; [reflexivity|].
  apply Nat.ltb_ge in E.
  destruct H as [H|[H|[r H]]]; [lia| |]; rewrite H; reflexivity.
Qed.

Lemma attr_ignored : forall c doc docd st,
    length (singles c) < 2 \/ class_stack st = [] \/ (exists r, class_stack st = None :: r) ->
    process_attr c doc docd st = st.
Proof.
  intros c doc docd st H. unfold process_attr.
  destruct (Nat.ltb (length (singles c)) 2) eqn:E; [reflexivity|].
  apply Nat.ltb_ge in E.
  destruct H as [H|[H|[r H]]]; [lia| |]; rewrite H; reflexivity.
Qed.

(* ---- Q3: a class inside a class --------------------------------------------------- *)

Theorem inner_class_registered :
  forall c doc docd st cidx rest name supers n d su inner ct me at_,
    singles c = name :: supers ->
    class_stack st = Some cidx :: rest ->
    nth_error (documented st) cidx = Some (EClass n d su inner ct me at_) ->
    let st' := process_class c doc docd st in
    documented st'
      = update_nth cidx (fun _ => EClass n d su (inner ++ [name]) ct me at_) (documented st)
        ++ [EClass name doc supers [] [] [] []]
    /\ nth_error (documented st') (length (documented st))
       = Some (EClass name doc supers [] [] [] [])
    /\ nth_error (documented st') cidx = Some (EClass n d su (inner ++ [name]) ct me at_)
    /\ (forall i, i <> cidx -> i < length (documented st) ->
                  nth_error (documented st') i = nth_error (documented st) i)
    /\ length (documented st') = S (length (documented st))
    /\ origins st' = origins st ++ [docd]
    /\ class_stack st' = Some (length (documented st)) :: class_stack st
    /\ def_stack st' = def_stack st
    /\ awaiting st' = awaiting st.
Proof.
  intros c doc docd st cidx rest name supers n d su inner ct me at_ Hs Hcs Hn st'.
  subst st'. unfold process_class. rewrite Hs, Hcs.
  cbn [with_class_stack with_docs append documented origins class_stack def_stack awaiting].
  assert (Hlt : cidx < length (documented st)).
  { apply nth_error_Some. rewrite Hn. discriminate. }
  assert (Hupd : update_nth cidx (add_inner name) (documented st ++ [EClass name doc supers [] [] [] []])
                 = update_nth cidx (fun _ => EClass n d su (inner ++ [name]) ct me at_) (documented st)
                   ++ [EClass name doc supers [] [] [] []]).
  { clear Hcs. revert cidx Hn Hlt. generalize (documented st) as l.
    induction l as [|y l IH]; intros [|k] Hn Hlt; cbn in Hn, Hlt |- *; try lia.
    - inversion Hn; subst. reflexivity.
    - f_equal. apply IH; [exact Hn|lia]. }
  rewrite Hupd.
  assert (Hlen : length (update_nth cidx (fun _ => EClass n d su (inner ++ [name]) ct me at_)
                                   (documented st)) = length (documented st))
    by apply length_update_nth.
  repeat split.
  - rewrite nth_error_app2 by lia. rewrite Hlen, Nat.sub_diag. reflexivity.
  - rewrite nth_error_app1 by lia. erewrite nth_error_update_nth_eq by exact Hn. reflexivity.
  - intros i Hi Hil. rewrite nth_error_app1 by lia. apply nth_error_update_nth_neq. exact Hi.
  - rewrite app_length, Hlen. cbn [length]. lia.
  - rewrite Hcs. reflexivity.
Qed.

(* with no class open (or a hidden one on top) the new class is only appended and pushed *)
Theorem outer_class_registered :
  forall c doc docd st name supers,
    singles c = name :: supers ->
    (class_stack st = [] \/ exists r, class_stack st = None :: r) ->
    let st' := process_class c doc docd st in
    documented st' = documented st ++ [EClass name doc supers [] [] [] []]
    /\ origins st' = origins st ++ [docd]
    /\ class_stack st' = Some (length (documented st)) :: class_stack st
    /\ def_stack st' = def_stack st
    /\ awaiting st' = awaiting st.
Proof.
  intros c doc docd st name supers Hs Hcs st'. subst st'. unfold process_class. rewrite Hs.
  destruct Hcs as [Hcs|[r Hcs]]; rewrite Hcs;
    cbn [with_class_stack with_docs append documented origins class_stack def_stack awaiting];
    repeat split; rewrite Hcs; reflexivity.
Qed.

(* an argument-less cpp_class does nothing at all -- in particular it pushes no frame *)
Lemma class_no_args_noop : forall c doc docd st,
    singles c = [] -> process_class c doc docd st = st.
Proof. intros c doc docd st Hs. unfold process_class. rewrite Hs. reflexivity. Qed.

(* ---- the nested view: induction principle and unfolding lemmas ---------------------- *)

Section NodeInd.
  Variable P : node -> Prop.
  Hypothesis HCmd : forall d c, P (NCmd d c).
  Hypothesis HDang : forall d, P (NDangling d).
  Hypothesis HDef : forall d h body e, Forall P body -> P (NDef d h body e).
  Hypothesis HClass : forall d h body e, Forall P body -> P (NClass d h body e).

  Fixpoint node_ind2 (n : node) : P n :=
    match n with
    | NCmd d c => HCmd d c
    | NDangling d => HDang d
    | NDef d h body e =>
        HDef d h body e
             ((fix go (l : list node) : Forall P l :=
                 match l with
                 | [] => Forall_nil P
                 | x :: r => Forall_cons x (node_ind2 x) (go r)
                 end) body)
    | NClass d h body e =>
        HClass d h body e
               ((fix go (l : list node) : Forall P l :=
                   match l with
                   | [] => Forall_nil P
                   | x :: r => Forall_cons x (node_ind2 x) (go r)
                   end) body)
    end.
End NodeInd.

Lemma flatten_def : forall d h body e,
    flatten (NDef d h body e) = elem_of d h :: flatten_all body ++ [ECmd e].
Proof.
  intros d h body e. reflexivity.
Qed.

Lemma flatten_class : forall d h body e,
    flatten (NClass d h body e) = elem_of d h :: flatten_all body ++ [ECmd e].
Proof.
  intros d h body e. reflexivity.
Qed.

Lemma wf_def : forall d h body e,
    wf_node (NDef d h body e) = is_def_cmd h && is_end_def_cmd e && wf_nodes body.
Proof.
  intros d h body e. reflexivity.
Qed.

Lemma wf_class : forall d h body e,
    wf_node (NClass d h body e) = is_class_cmd h && is_end_class_cmd e && wf_nodes body.
Proof.
  intros d h body e. reflexivity.
Qed.

Lemma hdrs_ok_def : forall d h body e,
    class_hdrs_ok_node (NDef d h body e) = class_hdrs_ok body.
Proof.
  intros d h body e. reflexivity.
Qed.

Lemma hdrs_ok_class : forall d h body e,
    class_hdrs_ok_node (NClass d h body e)
    = negb (match singles h with [] => true | _ :: _ => false end) && class_hdrs_ok body.
Proof.
  intros d h body e. reflexivity.
Qed.

Lemma no_doc_def : forall d h body e,
    no_doc_class_node (NDef d h body e) = no_doc_class body.
Proof.
  intros d h body e. reflexivity.
Qed.

Lemma no_doc_class_class : forall d h body e,
    no_doc_class_node (NClass d h body e)
    = (match d with None => true | Some _ => false end) && no_doc_class body.
Proof.
  intros d h body e. reflexivity.
Qed.

(* what well-formedness says about the kind of a plain command *)
Lemma wf_cmd_kinds : forall d c,
    wf_node (NCmd d c) = true ->
    is_def_name (cmd_kind c) = false
    /\ (cmd_kind c <> s"endfunction" /\ cmd_kind c <> s"endmacro")
    /\ cmd_kind c <> s"cpp_class"
    /\ cmd_kind c <> s"cpp_end_class".
Proof.
  intros d c H. cbn [wf_node] in H.
  apply andb_true_iff in H. destruct H as [H H4].
  apply andb_true_iff in H. destruct H as [H H3].
  apply andb_true_iff in H. destruct H as [H1 H2].
  apply negb_true_iff in H1, H2, H3, H4.
  unfold is_def_cmd, is_end_def_cmd, is_class_cmd, is_end_class_cmd, kind_is in *.
  apply orb_false_iff in H2. destruct H2 as [H2a H2b].
  repeat split; try (apply str_eqb_neq; assumption). exact H1.
Qed.

(* ---- the command-kind dispatch ---------------------------------------------------- *)

Definition kind_name (h : handler) : str :=
  match h with
  | HFunction => s"function" | HMacro => s"macro" | HCpa => s"cmake_parse_arguments"
  | HTest => s"ct_add_test" | HSection => s"ct_add_section" | HSet => s"set"
  | HClass => s"cpp_class" | HMember => s"cpp_member" | HCtor => s"cpp_constructor"
  | HAttr => s"cpp_attr" | HAddTest => s"add_test" | HOption => s"option"
  end.

Lemma lookup_handler_kind : forall k h, lookup k handler_table = Some h -> k = kind_name h.
Proof.
  intros k h. unfold handler_table. cbn [lookup].
  do 12 (let E := fresh "E" in
         lazymatch goal with
         | |- (if str_eqb k ?x then _ else _) = _ -> _ => destruct (str_eqb k x) eqn:E
         end;
         [apply str_eqb_eq in E; intro H; inversion H; subst; reflexivity|]).
  intro H; discriminate H.
Qed.

Lemma lookup_kind_name : forall h, lookup (kind_name h) handler_table = Some h.
Proof. intros h; destruct h; vm_compute; reflexivity. Qed.

Ltac eval_lookup :=
  repeat match goal with
         | |- context [@lookup handler ?a handler_table] =>
             let v := eval vm_compute in (@lookup handler a handler_table) in
             match v with
             | Some _ => change (@lookup handler a handler_table) with v
             | None => change (@lookup handler a handler_table) with v
             end
         end.

Section WithParams.
  Variable trigger : str.
  Variables strip_fn strip_mac strip_mem : str -> str.

  Notation step fl := (agg_step fl trigger strip_fn strip_mac strip_mem).
  Notation run fl := (agg_run fl trigger strip_fn strip_mac strip_mem).
  Notation entercmd fl := (enter_command fl trigger strip_fn strip_mac strip_mem).
  Notation enterdoc := (enter_documented trigger strip_fn strip_mac).
  Notation runh := (run_handler trigger strip_fn strip_mac).

  Lemma run_app : forall fl a b st,
      run fl st (a ++ b) = match run fl st a with Ok st1 => run fl st1 b | Crash => Crash end.
  Proof.
    intros fl a. induction a as [|e a IH]; intros b st; cbn [app agg_run]; [reflexivity|].
    destruct (step fl st e) as [st1|]; [apply IH|reflexivity].
  Qed.

  (* ---- Q4: the next definition supplies the parameter names ----------------------- *)

  Theorem method_params_from_next_definition :
    forall fl consumed c st cidx is_ctor n d su inner ct me at_ ms0 m,
      awaiting st = AwMethod cidx is_ctor ->
      nth_error (documented st) cidx = Some (EClass n d su inner ct me at_) ->
      (if is_ctor then ct else me) = ms0 ++ [m] ->
      is_def_name (cmd_kind c) = true ->
      exists st',
        entercmd fl consumed c st = Ok st'
        /\ (let m' := {| m_name := m_name m; m_doc := m_doc m; m_parent := m_parent m;
                         m_types := m_types m;
                         m_params := m_params m ++ skipn 2 (map strip_mem (singles c));
                         m_ctor := m_ctor m;
                         m_macro := str_eqb (cmd_kind c) (s"macro");
                         m_docd := m_docd m |} in
            nth_error (documented st') cidx
            = Some (if is_ctor then EClass n d su inner (ms0 ++ [m']) me at_
                    else EClass n d su inner ct (ms0 ++ [m']) at_))
        /\ (forall i, i <> cidx -> nth_error (documented st') i = nth_error (documented st) i)
        /\ length (documented st') = length (documented st)
        /\ origins st' = origins st
        /\ class_stack st' = class_stack st
        /\ def_stack st' = (if consumed then def_stack st else None :: def_stack st)
        /\ awaiting st' = AwNone.
  Proof.
    intros fl consumed c st cidx is_ctor n d su inner ct me at_ ms0 m Haw Hn Hms Hdef.
    unfold cmd_kind in *.
    set (st2 := with_awaiting AwNone
                  (with_docs (upd_awaiting_entry (AwMethod cidx is_ctor)
                                (str_eqb (lower_ascii (c_name c)) (s"macro"))
                                (skipn 2 (map strip_mem (singles c)))) st)).
    assert (Hrun : entercmd fl consumed c st
                   = if consumed then Ok st2 else Ok (with_def_stack (None :: def_stack st2) st2)).
    { unfold enter_command. cbv zeta. rewrite Haw. rewrite skipn2_guard. fold st2.
      unfold is_def_name in Hdef. apply orb_true_iff in Hdef.
      destruct Hdef as [E|E]; apply str_eqb_eq in E; rewrite E; eval_closed;
        cbn [andb orb negb]; reflexivity. }
    assert (Hdocs : documented st2
                    = update_nth cidx
                        (fun e => match e with
                                  | EClass n d su inner ct me at_ =>
                                      if is_ctor
                                      then EClass n d su inner
                                             (update_last (upd_method (str_eqb (lower_ascii (c_name c)) (s"macro"))
                                                                      (skipn 2 (map strip_mem (singles c)))) ct) me at_
                                      else EClass n d su inner ct
                                             (update_last (upd_method (str_eqb (lower_ascii (c_name c)) (s"macro"))
                                                                      (skipn 2 (map strip_mem (singles c)))) me) at_
                                  | _ => e
                                  end) (documented st)) by reflexivity.
    exists (if consumed then st2 else with_def_stack (None :: def_stack st2) st2).
    split; [rewrite Hrun; destruct consumed; reflexivity|].
    assert (Hd2 : documented (if consumed then st2 else with_def_stack (None :: def_stack st2) st2)
                  = documented st2) by (destruct consumed; reflexivity).
    rewrite Hd2, Hdocs.
    split; [|split; [|split; [|split; [|split; [|split]]]]].
    - erewrite nth_error_update_nth_eq by exact Hn.
      destruct is_ctor; rewrite Hms, update_last_snoc; reflexivity.
    - intros i Hi. apply nth_error_update_nth_neq. exact Hi.
    - apply length_update_nth.
    - destruct consumed; reflexivity.
    - destruct consumed; reflexivity.
    - destruct consumed; reflexivity.
    - destruct consumed; reflexivity.
  Qed.

  (* ---- what one element does, by command kind -------------------------------------- *)

  Ltac unfold_step Hk :=
    unfold agg_step, enter_documented, enter_command; cbv zeta;
    unfold cmd_kind in Hk; rewrite ?Hk; eval_closed; eval_lookup;
    cbn [andb orb negb run_handler include_flag].

  Lemma step_member : forall fl doc c st,
      cmd_kind c = s"cpp_member" ->
      (doc = None -> inc_cpp_member fl = true) ->
      step fl st (elem_of doc c) = Ok (process_member false c (doc_of doc) (docd_of doc) st).
  Proof.
    intros fl [d|] c st Hk Hfl; cbn [elem_of doc_of docd_of].
    - unfold_step Hk. reflexivity.
    - unfold_step Hk. rewrite (Hfl eq_refl). reflexivity.
  Qed.

  Lemma step_ctor : forall fl doc c st,
      cmd_kind c = s"cpp_constructor" ->
      (doc = None -> inc_cpp_constructor fl = true) ->
      step fl st (elem_of doc c) = Ok (process_member true c (doc_of doc) (docd_of doc) st).
  Proof.
    intros fl [d|] c st Hk Hfl; cbn [elem_of doc_of docd_of].
    - unfold_step Hk. reflexivity.
    - unfold_step Hk. rewrite (Hfl eq_refl). reflexivity.
  Qed.

  Lemma step_attr : forall fl doc c st,
      cmd_kind c = s"cpp_attr" ->
      (doc = None -> inc_cpp_attr fl = true) ->
      step fl st (elem_of doc c) = Ok (process_attr c (doc_of doc) (docd_of doc) st).
  Proof.
    intros fl [d|] c st Hk Hfl; cbn [elem_of doc_of docd_of].
    - unfold_step Hk. reflexivity.
    - unfold_step Hk. rewrite (Hfl eq_refl). reflexivity.
  Qed.

  Lemma step_class : forall fl doc c st,
      cmd_kind c = s"cpp_class" ->
      inc_cpp_class fl = true ->
      step fl st (elem_of doc c) = Ok (process_class c (doc_of doc) (docd_of doc) st).
  Proof.
    intros fl [d|] c st Hk Hfl; cbn [elem_of doc_of docd_of].
    - unfold_step Hk. rewrite Hfl. reflexivity.
    - unfold_step Hk. rewrite Hfl. reflexivity.
  Qed.

  (* F9: with the class flag off, a doccomment-carrying cpp_class pushes twice *)
  Lemma step_class_doc_flag_off : forall fl d c st,
      cmd_kind c = s"cpp_class" ->
      inc_cpp_class fl = false ->
      step fl st (EDocCmd d c)
      = Ok (with_class_stack (None :: class_stack (process_class c (clean_doc_text d) true st))
                             (process_class c (clean_doc_text d) true st)).
  Proof.
    intros fl d c st Hk Hfl. unfold_step Hk. rewrite Hfl. reflexivity.
  Qed.

  Lemma step_class_undoc_flag_off : forall fl c st,
      cmd_kind c = s"cpp_class" ->
      inc_cpp_class fl = false ->
      step fl st (ECmd c) = Ok (with_class_stack (None :: class_stack st) st).
  Proof.
    intros fl c st Hk Hfl. unfold_step Hk. rewrite Hfl. reflexivity.
  Qed.

  Lemma step_end_class : forall fl c st,
      cmd_kind c = s"cpp_end_class" ->
      step fl st (ECmd c) = match class_stack st with
                            | [] => Crash
                            | _ :: cs => Ok (with_class_stack cs st)
                            end.
  Proof.
    intros fl c st Hk. unfold_step Hk. reflexivity.
  Qed.


  (* ---- frames: what the other commands leave alone ---------------------------------- *)

  Lemma cview_set_kwargs : forall e, cview (set_kwargs e) = cview e.
  Proof. intros e; destruct e; reflexivity. Qed.

  Ltac frame_solve :=
    split; [|split]; intros;
    try (exfalso; congruence);
    try reflexivity;
    try (apply cv_frame_same; reflexivity);
    try (eapply cv_frame_app; reflexivity).

  Lemma run_handler_frame : forall h c doc docd st st',
      runh h c doc docd st = Ok st' ->
      (h <> HClass -> class_stack st' = class_stack st)
      /\ (h <> HTest -> h <> HSection -> h <> HMember -> h <> HCtor ->
          awaiting st' = awaiting st)
      /\ (h <> HClass -> h <> HMember -> h <> HCtor -> h <> HAttr -> cv_frame st st').
  Proof.
    intros h c doc docd st st' H. destruct h; cbn [run_handler] in H.
    - unfold process_def in H. destruct (singles c) as [|nm ps]; [discriminate|].
      inversion H; subst; clear H. frame_solve.
    - unfold process_def in H. destruct (singles c) as [|nm ps]; [discriminate|].
      inversion H; subst; clear H. frame_solve.
    - inversion H; subst; clear H. unfold process_cpa.
      destruct (def_stack st) as [|[idx|] r]; frame_solve.
      apply cv_frame_upd. apply cview_set_kwargs.
    - inversion H; subst; clear H. unfold process_test.
      destruct (Nat.ltb (length (singles c)) 2); [frame_solve|].
      destruct (scan_name (singles c) []); frame_solve.
    - inversion H; subst; clear H. unfold process_test.
      destruct (Nat.ltb (length (singles c)) 2); [frame_solve|].
      destruct (scan_name (singles c) []); frame_solve.
    - unfold process_set in H. destruct (singles c) as [|nm vals]; [inversion H; subst; frame_solve|].
      destruct vals as [|v [|v2 vals]].
      + inversion H; subst; frame_solve.
      + destruct (unquote v); [|discriminate]. inversion H; subst; frame_solve.
      + inversion H; subst; frame_solve.
    - inversion H; subst; clear H. frame_solve.
      unfold process_class. destruct (singles c) as [|nm su]; [reflexivity|].
      destruct (class_stack st) as [|[ci|] r]; reflexivity.
    - inversion H; subst; clear H. unfold process_member.
      destruct (Nat.ltb (length (singles c)) 2); [frame_solve|].
      destruct (class_stack st) as [|[ci|] r] eqn:Ecs; frame_solve;
        cbn [class_stack with_awaiting with_docs]; congruence.
    - inversion H; subst; clear H. unfold process_member.
      destruct (Nat.ltb (length (singles c)) 2); [frame_solve|].
      destruct (class_stack st) as [|[ci|] r] eqn:Ecs; frame_solve;
        cbn [class_stack with_awaiting with_docs]; congruence.
    - inversion H; subst; clear H. unfold process_attr.
      destruct (Nat.ltb (length (singles c)) 2); [frame_solve|].
      destruct (class_stack st) as [|[ci|] r] eqn:Ecs; frame_solve;
        cbn [class_stack with_awaiting with_docs]; congruence.
    - inversion H; subst; clear H. unfold process_add_test.
      destruct (Nat.ltb (length (singles c)) 2); [frame_solve|].
      destruct (scan_name_idx (singles c) 0 (None, [])) as [[ix nm]|]; frame_solve.
    - inversion H; subst; clear H. unfold process_option.
      destruct (singles c) as [|a [|b [|v [|w r]]]]; frame_solve.
  Qed.

  Lemma cview_upd_awaiting : forall a mac extra,
      forall e, cview (match a with
                       | AwNone => e
                       | AwTop _ => match e with
                                    | ETest sec n d xf ps _ => ETest sec n d xf (ps ++ extra) mac
                                    | _ => e
                                    end
                       | AwMethod _ is_ctor =>
                           match e with
                           | EClass n d su inner ct me at_ =>
                               if is_ctor
                               then EClass n d su inner (update_last (upd_method mac extra) ct) me at_
                               else EClass n d su inner ct (update_last (upd_method mac extra) me) at_
                           | _ => e
                           end
                       end) = cview e.
  Proof.
    intros a mac extra e. destruct a as [|idx|cidx is_ctor]; [reflexivity| |].
    - destruct e; reflexivity.
    - destruct e; try reflexivity. destruct is_ctor; cbn [cview]; f_equal;
        rewrite map_update_last_view; reflexivity.
  Qed.

  Lemma cv_frame_upd_awaiting : forall a mac extra st,
      cv_frame st (with_docs (upd_awaiting_entry a mac extra) st).
  Proof.
    intros a mac extra st. destruct a as [|idx|cidx is_ctor]; cbn [upd_awaiting_entry].
    - apply cv_frame_same. reflexivity.
    - apply cv_frame_upd. intros e. apply (cview_upd_awaiting (AwTop idx)).
    - apply cv_frame_upd. intros e. apply (cview_upd_awaiting (AwMethod cidx is_ctor)).
  Qed.


  Lemma handler_not_class : forall h, ~ k_class_cmd (kind_name h) -> h <> HClass.
  Proof. intros h H E; subst; apply H; left; reflexivity. Qed.

  Lemma handler_not_decl : forall h, ~ k_decl_cmd (kind_name h) ->
      h <> HTest /\ h <> HSection /\ h <> HMember /\ h <> HCtor.
  Proof.
    intros h H. repeat split; intros E; subst; apply H; unfold k_decl_cmd; cbn [kind_name]; tauto.
  Qed.

  Lemma handler_not_item : forall h, ~ k_class_item (kind_name h) ->
      h <> HClass /\ h <> HMember /\ h <> HCtor /\ h <> HAttr.
  Proof.
    intros h H. repeat split; intros E; subst; apply H; unfold k_class_item; cbn [kind_name]; tauto.
  Qed.

  Lemma enter_documented_frame : forall d c st st',
      enterdoc d c st = Ok st' ->
      (~ k_class_cmd (cmd_kind c) -> class_stack st' = class_stack st)
      /\ (~ k_decl_cmd (cmd_kind c) -> awaiting st' = awaiting st)
      /\ (~ k_class_item (cmd_kind c) -> cv_frame st st').
  Proof.
    intros d c st st' H. unfold enter_documented in H. fold (cmd_kind c) in H.
    destruct (lookup (cmd_kind c) handler_table) as [h|] eqn:L.
    - apply lookup_handler_kind in L. rewrite L.
      apply run_handler_frame in H. destruct H as (H1 & H2 & H3).
      split; [|split].
      + intros Hk. apply H1. apply handler_not_class; exact Hk.
      + intros Hk. apply handler_not_decl in Hk. destruct Hk as (A & B & C & D). auto.
      + intros Hk. apply handler_not_item in Hk. destruct Hk as (A & B & C & D). auto.
    - inversion H; subst; clear H. unfold process_generic. frame_solve.
  Qed.

  Lemma enter_command_frame : forall fl consumed c st st',
      entercmd fl consumed c st = Ok st' ->
      (~ k_class_cmd (cmd_kind c) -> class_stack st' = class_stack st)
      /\ (is_def_name (cmd_kind c) = false -> ~ k_decl_cmd (cmd_kind c) ->
          awaiting st' = awaiting st)
      /\ (~ k_class_item (cmd_kind c) -> cv_frame st st').
  Proof.
    intros fl consumed c st st' H. unfold enter_command in H. cbv zeta in H.
    fold (cmd_kind c) in H.
    destruct (str_eqb (cmd_kind c) (s"cpp_class")) eqn:E1.
    { apply str_eqb_eq in E1.
      split; [|split].
      - intros Hk; exfalso; apply Hk; left; exact E1.
      - intros _ _. cbn [andb] in H. destruct (negb (inc_cpp_class fl)).
        + inversion H; subst; reflexivity.
        + rewrite E1 in H. revert H. eval_closed. eval_lookup. cbn [andb orb negb].
          destruct consumed; cbn [negb]; intro H.
          * inversion H; subst; reflexivity.
          * cbn [include_flag] in H. destruct (inc_cpp_class fl).
            -- cbn [run_handler] in H. inversion H; subst.
               unfold process_class. destruct (singles c) as [|nm su]; [reflexivity|].
               destruct (class_stack st) as [|[ci|] r]; reflexivity.
            -- inversion H; subst; reflexivity.
      - intros Hk; exfalso; apply Hk; left; exact E1. }
    cbn [andb] in H.
    destruct (str_eqb (cmd_kind c) (s"cpp_end_class")) eqn:E2.
    { apply str_eqb_eq in E2.
      destruct (class_stack st) as [|x cs] eqn:Ecs; [discriminate|]. inversion H; subst; clear H.
      split; [|split].
      - intros Hk; exfalso; apply Hk; right; exact E2.
      - intros _ _. reflexivity.
      - intros Hk; exfalso; apply Hk; right; left; exact E2. }
    destruct (str_eqb (cmd_kind c) (s"cmake_parse_arguments")) eqn:E3.
    { inversion H; subst; clear H. unfold process_cpa.
      destruct (def_stack st) as [|[idx|] r]; frame_solve.
      apply cv_frame_upd. apply cview_set_kwargs. }
    destruct (is_def_name (cmd_kind c) && match awaiting st with AwNone => false | _ => true end) eqn:E4.
    { apply andb_true_iff in E4. destruct E4 as [E4 _].
      destruct consumed; inversion H; subst; clear H.
      - split; [|split]; intros; try reflexivity; try congruence.
        apply (cv_frame_upd_awaiting _ _ _ st).
      - split; [|split]; intros; try reflexivity; try congruence.
        apply (cv_frame_upd_awaiting _ _ _ st). }
    destruct (str_eqb (cmd_kind c) (s"endfunction") || str_eqb (cmd_kind c) (s"endmacro")) eqn:E5.
    { destruct (def_stack st) as [|x ds]; [discriminate|]. inversion H; subst; clear H. frame_solve. }
    destruct (negb (str_eqb (cmd_kind c) (s"set")) && negb consumed) eqn:E6;
      [|inversion H; subst; frame_solve].
    destruct (lookup (cmd_kind c) handler_table) as [h|] eqn:L;
      [|inversion H; subst; frame_solve].
    apply lookup_handler_kind in L.
    destruct (include_flag fl h) as [[|]|] eqn:EF; [| |discriminate].
    - rewrite L. apply run_handler_frame in H. destruct H as (H1 & H2 & H3).
      split; [|split].
      + intros Hk. apply H1. apply handler_not_class; exact Hk.
      + intros _ Hk. apply handler_not_decl in Hk. destruct Hk as (A & B & C & D). auto.
      + intros Hk. apply handler_not_item in Hk. destruct Hk as (A & B & C & D). auto.
    - destruct (is_def_name (cmd_kind c)); inversion H; subst; frame_solve.
  Qed.


  Lemma step_frame : forall fl st e st',
      step fl st e = Ok st' ->
      (forall k, elem_kind e = Some k -> ~ k_class_cmd k -> class_stack st' = class_stack st)
      /\ (forall k, elem_kind e = Some k -> is_def_name k = false -> ~ k_decl_cmd k ->
                    awaiting st' = awaiting st)
      /\ (forall k, elem_kind e = Some k -> ~ k_class_item k -> cv_frame st st').
  Proof.
    intros fl st e st' H. destruct e as [d c|c|d]; cbn [agg_step] in H.
    - destruct (enterdoc d c st) as [st1|] eqn:E1; [|discriminate].
      apply enter_documented_frame in E1. destruct E1 as (A1 & A2 & A3).
      apply enter_command_frame in H. destruct H as (B1 & B2 & B3).
      split; [|split]; intros k Hk; inversion Hk; subst; clear Hk.
      + intros Hc. rewrite B1, A1 by exact Hc. reflexivity.
      + intros Hd Hc. rewrite B2, A2 by assumption. reflexivity.
      + intros Hc. eapply cv_frame_trans; [apply A3|apply B3]; exact Hc.
    - apply enter_command_frame in H. destruct H as (B1 & B2 & B3).
      split; [|split]; intros k Hk; inversion Hk; subst; clear Hk; auto.
    - inversion H; subst. split; [|split]; intros k Hk; discriminate Hk.
  Qed.

  (* Q4b: the awaiting slot survives every command that is neither a definition nor a
     test/member declaration, so it is consumed by exactly the next definition *)
  Theorem awaiting_persists : forall fl st e st',
      step fl st e = Ok st' ->
      (forall k, elem_kind e = Some k ->
                 is_def_name k = false /\ ~ k_decl_cmd k) ->
      awaiting st' = awaiting st.
  Proof.
    intros fl st e st' H Hk. destruct e as [d c|c|d].
    - apply step_frame in H. destruct H as (_ & H & _).
      destruct (Hk _ eq_refl) as [A B]. apply (H _ eq_refl A B).
    - apply step_frame in H. destruct H as (_ & H & _).
      destruct (Hk _ eq_refl) as [A B]. apply (H _ eq_refl A B).
    - cbn [agg_step] in H. inversion H; subst. reflexivity.
  Qed.


  (* ---- Q1: cpp_class / cpp_end_class blocks leave the class stack as it was --------- *)

  Lemma elem_kind_elem_of : forall doc c, elem_kind (elem_of doc c) = Some (cmd_kind c).
  Proof. intros [d|] c; reflexivity. Qed.

  Lemma process_class_stack : forall c doc docd st nm su,
      singles c = nm :: su ->
      class_stack (process_class c doc docd st) = Some (length (documented st)) :: class_stack st.
  Proof.
    intros c doc docd st nm su Hs. unfold process_class. rewrite Hs.
    destruct (class_stack st) as [|[ci|] r] eqn:Ecs;
      cbn [class_stack with_class_stack with_docs append]; rewrite Ecs; reflexivity.
  Qed.

  Lemma def_not_item : forall c, is_def_cmd c = true -> ~ k_class_item (cmd_kind c).
  Proof.
    unfold is_def_cmd, kind_is, k_class_item. intros c H X.
    repeat (destruct X as [X|X]; [rewrite X in H; vm_compute in H; discriminate H|]).
    rewrite X in H; vm_compute in H; discriminate H.
  Qed.

  Lemma end_def_not_item : forall c, is_end_def_cmd c = true -> ~ k_class_item (cmd_kind c).
  Proof.
    unfold is_end_def_cmd, kind_is, k_class_item. intros c H X.
    repeat (destruct X as [X|X]; [rewrite X in H; vm_compute in H; discriminate H|]).
    rewrite X in H; vm_compute in H; discriminate H.
  Qed.

  Lemma not_item_not_class : forall k, ~ k_class_item k -> ~ k_class_cmd k.
  Proof. unfold k_class_item, k_class_cmd. intros k H [X|X]; apply H; tauto. Qed.

  Lemma def_not_class : forall c, is_def_cmd c = true -> ~ k_class_cmd (cmd_kind c).
  Proof. intros c H. apply not_item_not_class, def_not_item, H. Qed.

  Lemma end_def_not_class : forall c, is_end_def_cmd c = true -> ~ k_class_cmd (cmd_kind c).
  Proof. intros c H. apply not_item_not_class, end_def_not_item, H. Qed.


  Lemma balanced_nodes_forallb : forall fl l, balanced_nodes fl l = forallb (balanced_node fl) l.
  Proof.
    intros fl l. unfold balanced_nodes, balanced_node, class_hdrs_ok, no_doc_class.
    destruct (inc_cpp_class fl); reflexivity.
  Qed.

  Lemma balanced_def : forall fl d h body e,
      balanced_node fl (NDef d h body e) = balanced_nodes fl body.
  Proof.
    intros fl d h body e. unfold balanced_node, balanced_nodes.
    destruct (inc_cpp_class fl); [apply hdrs_ok_def|apply no_doc_def].
  Qed.

  Lemma run_nodes_class_stack : forall fl nodes,
      Forall (fun n => wf_node n = true -> balanced_node fl n = true ->
                       forall st st', run fl st (flatten n) = Ok st' ->
                                      class_stack st' = class_stack st) nodes ->
      wf_nodes nodes = true -> balanced_nodes fl nodes = true ->
      forall st st', run fl st (flatten_all nodes) = Ok st' -> class_stack st' = class_stack st.
  Proof.
    intros fl nodes HF. rewrite balanced_nodes_forallb.
    induction HF as [|x r Hx _ IH]; intros Hwf Hb st st' Hrun.
    - cbn in Hrun. inversion Hrun; reflexivity.
    - cbn [wf_nodes forallb] in Hwf, Hb. apply andb_true_iff in Hwf, Hb.
      destruct Hwf as [W1 W2]. destruct Hb as [B1 B2].
      cbn [flatten_all flat_map] in Hrun. rewrite run_app in Hrun.
      destruct (run fl st (flatten x)) as [st1|] eqn:E1; [|discriminate].
      rewrite (IH W2 B2 _ _ Hrun). apply (Hx W1 B1 _ _ E1).
  Qed.

  Lemma node_class_stack : forall fl n,
      wf_node n = true -> balanced_node fl n = true ->
      forall st st', run fl st (flatten n) = Ok st' -> class_stack st' = class_stack st.
  Proof.
    intros fl. induction n as [d c|d|d h body e IH|d h body e IH] using node_ind2;
      intros Hwf Hb st st' Hrun.
    - (* plain command *)
      cbn [flatten agg_run] in Hrun.
      destruct (step fl st (elem_of d c)) as [st1|] eqn:E; [|discriminate].
      inversion Hrun; subst; clear Hrun.
      apply step_frame in E. destruct E as (E & _ & _).
      apply (E _ (elem_kind_elem_of d c)).
      apply wf_cmd_kinds in Hwf. destruct Hwf as (_ & _ & A & B).
      intros [X|X]; congruence.
    - cbn in Hrun. inversion Hrun; reflexivity.
    - (* definition block *)
      rewrite flatten_def in Hrun. rewrite wf_def in Hwf. rewrite balanced_def in Hb.
      apply andb_true_iff in Hwf. destruct Hwf as [Hwf W3].
      apply andb_true_iff in Hwf. destruct Hwf as [W1 W2].
      cbn [agg_run] in Hrun.
      destruct (step fl st (elem_of d h)) as [st1|] eqn:E1; [|discriminate].
      rewrite run_app in Hrun.
      destruct (run fl st1 (flatten_all body)) as [st2|] eqn:E2; [|discriminate].
      cbn [agg_run] in Hrun.
      destruct (step fl st2 (ECmd e)) as [st3|] eqn:E3; [|discriminate].
      inversion Hrun; subst; clear Hrun.
      apply step_frame in E1. destruct E1 as (E1 & _ & _).
      apply step_frame in E3. destruct E3 as (E3 & _ & _).
      rewrite (E3 _ eq_refl) by (apply end_def_not_class; exact W2).
      rewrite (run_nodes_class_stack fl body IH W3 Hb _ _ E2).
      apply (E1 _ (elem_kind_elem_of d h)). apply def_not_class; exact W1.
    - (* class block *)
      rewrite flatten_class in Hrun. rewrite wf_class in Hwf.
      apply andb_true_iff in Hwf. destruct Hwf as [Hwf W3].
      apply andb_true_iff in Hwf. destruct Hwf as [W1 W2].
      unfold is_class_cmd, kind_is in W1. apply str_eqb_eq in W1.
      unfold is_end_class_cmd, kind_is in W2. apply str_eqb_eq in W2.
      cbn [agg_run] in Hrun.
      destruct (step fl st (elem_of d h)) as [st1|] eqn:E1; [|discriminate].
      rewrite run_app in Hrun.
      destruct (run fl st1 (flatten_all body)) as [st2|] eqn:E2; [|discriminate].
      cbn [agg_run] in Hrun.
      destruct (step fl st2 (ECmd e)) as [st3|] eqn:E3; [|discriminate].
      inversion Hrun; subst; clear Hrun.
      rewrite step_end_class in E3 by exact W2.
      assert (Hpush : exists x, class_stack st1 = x :: class_stack st
                                /\ balanced_nodes fl body = true).
      { unfold balanced_node in Hb. unfold balanced_nodes.
        destruct (inc_cpp_class fl) eqn:Efl.
        - rewrite hdrs_ok_class in Hb. apply andb_true_iff in Hb. destruct Hb as [B1 B2].
          destruct (singles h) as [|nm su] eqn:Hs; [discriminate|].
          rewrite step_class in E1 by assumption. inversion E1; subst.
          eexists. split; [eapply process_class_stack; exact Hs|exact B2].
        - rewrite no_doc_class_class in Hb. apply andb_true_iff in Hb. destruct Hb as [B1 B2].
          destruct d as [d|]; [discriminate|]. cbn [elem_of] in E1.
          rewrite step_class_undoc_flag_off in E1 by assumption. inversion E1; subst.
          eexists. split; [reflexivity|exact B2]. }
      destruct Hpush as (x & Hp & Hbb).
      pose proof (run_nodes_class_stack fl body IH W3 Hbb _ _ E2) as Hbody.
      rewrite Hbody, Hp in E3. inversion E3; subst. reflexivity.
  Qed.

  Theorem class_stack_restored_gen : forall fl nodes st st',
      wf_nodes nodes = true -> balanced_nodes fl nodes = true ->
      run fl st (flatten_all nodes) = Ok st' -> class_stack st' = class_stack st.
  Proof.
    intros fl nodes st st' Hwf Hb Hrun.
    apply (run_nodes_class_stack fl nodes); try assumption.
    apply Forall_forall. intros n _. apply node_class_stack.
  Qed.

  Theorem class_stack_restored : forall fl nodes st st',
      inc_cpp_class fl = true -> wf_nodes nodes = true -> class_hdrs_ok nodes = true ->
      run fl st (flatten_all nodes) = Ok st' -> class_stack st' = class_stack st.
  Proof.
    intros fl nodes st st' Hfl Hwf Hok Hrun.
    apply (class_stack_restored_gen fl nodes); try assumption.
    unfold balanced_nodes. rewrite Hfl. exact Hok.
  Qed.

  (* with the flag off, blocks stay balanced as long as no class carries a doccomment *)
  Theorem class_stack_restored_flag_off : forall fl nodes st st',
      inc_cpp_class fl = false -> wf_nodes nodes = true -> no_doc_class nodes = true ->
      run fl st (flatten_all nodes) = Ok st' -> class_stack st' = class_stack st.
  Proof.
    intros fl nodes st st' Hfl Hwf Hok Hrun.
    apply (class_stack_restored_gen fl nodes); try assumption.
    unfold balanced_nodes. rewrite Hfl. exact Hok.
  Qed.


  (* ---- Q6: after cpp_end_class the enclosing class is the context again -------------- *)

  Theorem after_end_class_outer_context :
    forall fl doc hdr body endc st st1 cidx rest,
      inc_cpp_class fl = true ->
      wf_node (NClass doc hdr body endc) = true ->
      class_hdrs_ok [NClass doc hdr body endc] = true ->
      class_stack st = Some cidx :: rest ->
      run fl st (flatten (NClass doc hdr body endc)) = Ok st1 ->
      class_stack st1 = Some cidx :: rest
      /\ (forall d c parent name more n dd su inner ct me at_,
             cmd_kind c = s"cpp_attr" -> (d = None -> inc_cpp_attr fl = true) ->
             singles c = parent :: name :: more ->
             nth_error (documented st1) cidx = Some (EClass n dd su inner ct me at_) ->
             exists st2,
               step fl st1 (elem_of d c) = Ok st2
               /\ nth_error (documented st2) cidx
                  = Some (EClass n dd su inner ct me
                                 (at_ ++ [decl_attr c parent name (doc_of d) (docd_of d)]))
               /\ (forall i, i <> cidx ->
                             nth_error (documented st2) i = nth_error (documented st1) i))
      /\ (forall (is_ctor : bool) d c name parent types n dd su inner ct me at_,
             cmd_kind c = (if is_ctor then s"cpp_constructor" else s"cpp_member") ->
             (d = None -> (if is_ctor then inc_cpp_constructor fl else inc_cpp_member fl) = true) ->
             singles c = name :: parent :: types ->
             nth_error (documented st1) cidx = Some (EClass n dd su inner ct me at_) ->
             exists st2,
               step fl st1 (elem_of d c) = Ok st2
               /\ (let m := decl_method is_ctor name parent types (doc_of d) (docd_of d) in
                   nth_error (documented st2) cidx
                   = Some (if is_ctor then EClass n dd su inner (ct ++ [m]) me at_
                           else EClass n dd su inner ct (me ++ [m]) at_))
               /\ (forall i, i <> cidx ->
                             nth_error (documented st2) i = nth_error (documented st1) i)
               /\ awaiting st2 = AwMethod cidx is_ctor).
  Proof.
    intros fl doc hdr body endc st st1 cidx rest Hfl Hwf Hok Hcs Hrun.
    assert (Hcs1 : class_stack st1 = Some cidx :: rest).
    { rewrite <- Hcs.
      apply (class_stack_restored fl [NClass doc hdr body endc]); try assumption.
      - cbn [wf_nodes forallb]. rewrite Hwf. reflexivity.
      - cbn [flatten_all flat_map]. rewrite app_nil_r. exact Hrun. }
    split; [exact Hcs1|split].
    - intros d c parent name more n dd su inner ct me at_ Hk Hf Hs Hn.
      exists (process_attr c (doc_of d) (docd_of d) st1).
      split; [apply step_attr; assumption|].
      destruct (attr_attaches_to_top_only c (doc_of d) (docd_of d) st1 cidx rest parent name more
                  n dd su inner ct me at_ Hs Hcs1 Hn) as (A & B & _).
      split; [exact A|exact B].
    - intros is_ctor d c name parent types n dd su inner ct me at_ Hk Hf Hs Hn.
      exists (process_member is_ctor c (doc_of d) (docd_of d) st1).
      split; [destruct is_ctor; [apply step_ctor|apply step_member]; assumption|].
      destruct (member_attaches_to_top_only is_ctor c (doc_of d) (docd_of d) st1 cidx rest
                  name parent types n dd su inner ct me at_ Hs Hcs1 Hn) as (A & B & _ & _ & _ & _ & C).
      split; [exact A|split; [exact B|exact C]].
  Qed.

  (* ---- Q5: a class entry reflects its body ------------------------------------------- *)

  Lemma cv_ext_none : forall v, cv_ext no_items v = v.
  Proof. intros [a b c d e f g]. unfold cv_ext, no_items. cbn. rewrite !app_nil_r. reflexivity. Qed.

  Lemma cv_ext_app : forall a b v, cv_ext (items_app a b) v = cv_ext b (cv_ext a v).
  Proof. intros a b v. unfold cv_ext, items_app. cbn. rewrite !app_assoc. reflexivity. Qed.

  Lemma class_run_frame : forall N st st',
      class_stack st' = class_stack st -> cv_frame st st' -> class_run N no_items st st'.
  Proof.
    intros N st st' Hcs [Hl Hf]. split; [exact Hcs|split; [exact Hl|split]].
    - intros i Hi _. apply Hf. exact Hi.
    - intros HN. rewrite Hf by exact HN. destruct (cview_at st N) as [v|]; cbn [option_map];
        [rewrite cv_ext_none|]; reflexivity.
  Qed.

  Lemma class_run_refl : forall N st, class_run N no_items st st.
  Proof. intros N st. apply class_run_frame; [reflexivity|apply cv_frame_refl]. Qed.

  Lemma class_run_trans : forall N a b st st1 st2,
      class_run N a st st1 -> class_run N b st1 st2 -> class_run N (items_app a b) st st2.
  Proof.
    intros N a b st st1 st2 (A1 & A2 & A3 & A4) (B1 & B2 & B3 & B4).
    split; [congruence|split; [lia|split]].
    - intros i Hi Hn. rewrite B3 by (try lia; exact Hn). apply A3; assumption.
    - intros HN. rewrite B4 by lia. rewrite A4 by exact HN.
      destruct (cview_at st N) as [v|]; cbn [option_map]; [rewrite cv_ext_app|]; reflexivity.
  Qed.

  Lemma class_run_upd : forall N it f st st',
      (forall e, cview (f e) = option_map (cv_ext it) (cview e)) ->
      documented st' = update_nth N f (documented st) ->
      class_stack st' = class_stack st ->
      class_run N it st st'.
  Proof.
    intros N it f st st' Hf Hd Hcs. split; [exact Hcs|split; [|split]].
    - rewrite Hd, length_update_nth. lia.
    - intros i _ Hn. unfold cview_at. rewrite Hd, nth_error_update_nth.
      apply Nat.eqb_neq in Hn. rewrite Hn. reflexivity.
    - intros _. unfold cview_at. rewrite Hd, nth_error_update_nth, Nat.eqb_refl.
      destruct (nth_error (documented st) N) as [e|]; cbn [option_map]; [apply Hf|reflexivity].
  Qed.

  Lemma cview_add_attr : forall a e,
      cview (add_attr a e)
      = option_map (cv_ext {| it_inner := []; it_ctors := []; it_members := [];
                              it_attrs := [attr_view a] |}) (cview e).
  Proof.
    intros a e. destruct e; try reflexivity. cbn [add_attr cview option_map]. unfold cv_ext. cbn.
    rewrite !app_nil_r, map_app. reflexivity.
  Qed.

  Lemma cview_add_method : forall (is_ctor : bool) m e,
      cview (add_method is_ctor m e)
      = option_map (cv_ext {| it_inner := [];
                              it_ctors := if is_ctor then [method_view m] else [];
                              it_members := if is_ctor then [] else [method_view m];
                              it_attrs := [] |}) (cview e).
  Proof.
    intros is_ctor m e. destruct e; try reflexivity.
    destruct is_ctor; cbn [add_method cview option_map]; unfold cv_ext; cbn;
      rewrite !app_nil_r, map_app; reflexivity.
  Qed.

  Lemma cview_add_inner : forall nm e,
      cview (add_inner nm e)
      = option_map (cv_ext {| it_inner := [nm]; it_ctors := []; it_members := [];
                              it_attrs := [] |}) (cview e).
  Proof.
    intros nm e. destruct e; try reflexivity. cbn [add_inner cview option_map]. unfold cv_ext. cbn.
    rewrite !app_nil_r. reflexivity.
  Qed.

  Lemma update_nth_app1 : forall A (f : A -> A) l r n,
      n < length l -> update_nth n f (l ++ r) = update_nth n f l ++ r.
  Proof.
    intros A f. induction l as [|x l IH]; intros r [|n] H; cbn in H |- *; try lia; [reflexivity|].
    f_equal. apply IH. lia.
  Qed.

  Lemma kind_is_false : forall c k, cmd_kind c <> k -> kind_is c k = false.
  Proof. intros c k H. unfold kind_is. apply str_eqb_neq. exact H. Qed.

  (* a plain command in a class body *)
  Lemma cmd_class_run : forall fl d c N rest st st',
      class_flags_on fl = true ->
      wf_node (NCmd d c) = true ->
      class_stack st = Some N :: rest ->
      step fl st (elem_of d c) = Ok st' ->
      class_run N (node_items (NCmd d c)) st st'.
  Proof.
    intros fl d c N rest st st' Hfl Hwf Hcs Hstep.
    unfold class_flags_on in Hfl.
    apply andb_true_iff in Hfl. destruct Hfl as [Hfl F4].
    apply andb_true_iff in Hfl. destruct Hfl as [Hfl F3].
    apply andb_true_iff in Hfl. destruct Hfl as [F1 F2].
    apply wf_cmd_kinds in Hwf. destruct Hwf as (_ & _ & K1 & K2).
    unfold node_items. cbn [node_inner node_method_decls node_attrs].
    unfold attr_item, method_item.
    destruct (str_eqb (cmd_kind c) (s"cpp_attr")) eqn:Ea.
    { apply str_eqb_eq in Ea.
      rewrite step_attr in Hstep by (try exact Ea; intros _; exact F2).
      inversion Hstep; subst st'; clear Hstep.
      unfold kind_is. rewrite Ea. eval_closed. cbv iota.
      destruct (singles c) as [|parent [|name more]] eqn:Hs.
      - rewrite attr_ignored by (left; rewrite Hs; cbn; lia). apply class_run_refl.
      - rewrite attr_ignored by (left; rewrite Hs; cbn; lia). apply class_run_refl.
      - apply (class_run_upd N _ (add_attr (decl_attr c parent name (doc_of d) (docd_of d)))).
        + intros e. rewrite cview_add_attr. unfold attr_view, decl_attr. cbn. rewrite Hs. reflexivity.
        + unfold process_attr, decl_attr. rewrite Hs, Hcs. reflexivity.
        + unfold process_attr. rewrite Hs, Hcs.
          cbn [length Nat.ltb Nat.leb class_stack with_docs with_awaiting]. exact Hcs. }
    destruct (str_eqb (cmd_kind c) (s"cpp_member")) eqn:Em.
    { apply str_eqb_eq in Em.
      rewrite step_member in Hstep by (try exact Em; intros _; exact F4).
      inversion Hstep; subst st'; clear Hstep.
      unfold kind_is. rewrite Em. eval_closed. cbv iota.
      destruct (singles c) as [|name [|parent types]] eqn:Hs.
      - rewrite member_ignored by (left; rewrite Hs; cbn; lia). apply class_run_refl.
      - rewrite member_ignored by (left; rewrite Hs; cbn; lia). apply class_run_refl.
      - apply (class_run_upd N _ (add_method false (decl_method false name parent types (doc_of d) (docd_of d)))).
        + intros e. rewrite cview_add_method. reflexivity.
        + unfold process_member. rewrite Hs, Hcs. reflexivity.
        + unfold process_member. rewrite Hs, Hcs.
          cbn [length Nat.ltb Nat.leb class_stack with_docs with_awaiting]. exact Hcs. }
    destruct (str_eqb (cmd_kind c) (s"cpp_constructor")) eqn:Ec.
    { apply str_eqb_eq in Ec.
      rewrite step_ctor in Hstep by (try exact Ec; intros _; exact F3).
      inversion Hstep; subst st'; clear Hstep.
      unfold kind_is. rewrite Ec. eval_closed. cbv iota.
      destruct (singles c) as [|name [|parent types]] eqn:Hs.
      - rewrite member_ignored by (left; rewrite Hs; cbn; lia). apply class_run_refl.
      - rewrite member_ignored by (left; rewrite Hs; cbn; lia). apply class_run_refl.
      - apply (class_run_upd N _ (add_method true (decl_method true name parent types (doc_of d) (docd_of d)))).
        + intros e. rewrite cview_add_method. reflexivity.
        + unfold process_member. rewrite Hs, Hcs. reflexivity.
        + unfold process_member. rewrite Hs, Hcs.
          cbn [length Nat.ltb Nat.leb class_stack with_docs with_awaiting]. exact Hcs. }
    unfold kind_is. rewrite Ea, Em, Ec. fold no_items.
    apply str_eqb_neq in Ea, Em, Ec.
    apply step_frame in Hstep. destruct Hstep as (S1 & _ & S3).
    assert (Hni : ~ k_class_item (cmd_kind c)).
    { unfold k_class_item. intros [X|[X|[X|[X|X]]]]; congruence. }
    apply class_run_frame.
    - apply (S1 _ (elem_kind_elem_of d c)). apply not_item_not_class. exact Hni.
    - apply (S3 _ (elem_kind_elem_of d c)). exact Hni.
  Qed.

  Definition class_run_spec (fl : flags) (n : node) : Prop :=
    wf_node n = true -> class_hdrs_ok_node n = true ->
    forall N rest st st',
      class_stack st = Some N :: rest -> N < length (documented st) ->
      run fl st (flatten n) = Ok st' ->
      class_run N (node_items n) st st'.

  Lemma nodes_class_run : forall fl nodes,
      Forall (class_run_spec fl) nodes ->
      wf_nodes nodes = true -> class_hdrs_ok nodes = true ->
      forall N rest st st',
        class_stack st = Some N :: rest -> N < length (documented st) ->
        run fl st (flatten_all nodes) = Ok st' ->
        class_run N (items_of nodes) st st'.
  Proof.
    intros fl nodes HF. induction HF as [|x r Hx _ IH]; intros Hwf Hok N rest st st' Hcs HN Hrun.
    - cbn in Hrun. inversion Hrun; subst. apply class_run_refl.
    - cbn [wf_nodes forallb] in Hwf. cbn [class_hdrs_ok forallb] in Hok.
      apply andb_true_iff in Hwf, Hok. destruct Hwf as [W1 W2]. destruct Hok as [B1 B2].
      cbn [flatten_all flat_map] in Hrun. rewrite run_app in Hrun.
      destruct (run fl st (flatten x)) as [st1|] eqn:E1; [|discriminate].
      pose proof (Hx W1 B1 N rest st st1 Hcs HN E1) as R1.
      assert (R2 : class_run N (items_of r) st1 st').
      { destruct R1 as (A1 & A2 & _).
        apply (IH W2 B2 N rest); [rewrite A1; exact Hcs|lia|exact Hrun]. }
      exact (class_run_trans N _ _ _ _ _ R1 R2).
  Qed.

  Lemma node_class_run : forall fl, class_flags_on fl = true -> forall n, class_run_spec fl n.
  Proof.
    intros fl Hfl. unfold class_run_spec.
    induction n as [d c|d|d h body e IH|d h body e IH] using node_ind2;
      intros Hwf Hok N rest st st' Hcs HN Hrun.
    - cbn [flatten agg_run] in Hrun.
      destruct (step fl st (elem_of d c)) as [st1|] eqn:E; [|discriminate].
      inversion Hrun; subst; clear Hrun.
      apply (cmd_class_run fl d c N rest); assumption.
    - cbn in Hrun. inversion Hrun; subst. apply class_run_refl.
    - (* definition block: transparent *)
      rewrite flatten_def in Hrun. rewrite wf_def in Hwf. rewrite hdrs_ok_def in Hok.
      apply andb_true_iff in Hwf. destruct Hwf as [Hwf W3].
      apply andb_true_iff in Hwf. destruct Hwf as [W1 W2].
      cbn [agg_run] in Hrun.
      destruct (step fl st (elem_of d h)) as [st1|] eqn:E1; [|discriminate].
      rewrite run_app in Hrun.
      destruct (run fl st1 (flatten_all body)) as [st2|] eqn:E2; [|discriminate].
      cbn [agg_run] in Hrun.
      destruct (step fl st2 (ECmd e)) as [st3|] eqn:E3; [|discriminate].
      inversion Hrun; subst; clear Hrun.
      apply step_frame in E1. destruct E1 as (E1a & _ & E1b).
      apply step_frame in E3. destruct E3 as (E3a & _ & E3b).
      assert (R1 : class_run N no_items st st1).
      { apply class_run_frame.
        - apply (E1a _ (elem_kind_elem_of d h)). apply def_not_class; exact W1.
        - apply (E1b _ (elem_kind_elem_of d h)). apply def_not_item; exact W1. }
      assert (R2 : class_run N (items_of body) st1 st2).
      { destruct R1 as (A1 & A2 & _).
        apply (nodes_class_run fl body IH W3 Hok N rest); [rewrite A1; exact Hcs|lia|exact E2]. }
      assert (R3 : class_run N no_items st2 st').
      { apply class_run_frame.
        - apply (E3a _ eq_refl). apply end_def_not_class; exact W2.
        - apply (E3b _ eq_refl). apply end_def_not_item; exact W2. }
      pose proof (class_run_trans N _ _ _ _ _ (class_run_trans N _ _ _ _ _ R1 R2) R3) as R.
      replace (node_items (NDef d h body e)) with (items_app (items_app no_items (items_of body)) no_items);
        [exact R|].
      unfold items_app, no_items, items_of, node_items. cbn. rewrite !app_nil_r. reflexivity.
    - (* nested class: registers its name, keeps its items to itself *)
      rewrite flatten_class in Hrun. rewrite wf_class in Hwf. rewrite hdrs_ok_class in Hok.
      apply andb_true_iff in Hwf. destruct Hwf as [Hwf W3].
      apply andb_true_iff in Hwf. destruct Hwf as [W1 W2].
      apply andb_true_iff in Hok. destruct Hok as [B1 B2].
      unfold is_class_cmd, kind_is in W1. apply str_eqb_eq in W1.
      unfold is_end_class_cmd, kind_is in W2. apply str_eqb_eq in W2.
      destruct (singles h) as [|nm su] eqn:Hs; [discriminate|].
      unfold class_flags_on in Hfl.
      assert (F1 : inc_cpp_class fl = true).
      { destruct (inc_cpp_class fl); [reflexivity|discriminate]. }
      cbn [agg_run] in Hrun.
      rewrite step_class in Hrun by assumption.
      rewrite run_app in Hrun.
      set (st1 := process_class h (doc_of d) (docd_of d) st) in *.
      destruct (run fl st1 (flatten_all body)) as [st2|] eqn:E2; [|discriminate].
      cbn [agg_run] in Hrun.
      rewrite step_end_class in Hrun by exact W2.
      assert (Hd1 : documented st1
                    = update_nth N (add_inner nm) (documented st)
                      ++ [EClass nm (doc_of d) su [] [] [] []]).
      { unfold st1, process_class. rewrite Hs, Hcs.
        cbn [with_class_stack with_docs append documented].
        apply update_nth_app1. exact HN. }
      assert (Hc1 : class_stack st1 = Some (length (documented st)) :: Some N :: rest).
      { unfold st1. rewrite (process_class_stack _ _ _ _ _ _ Hs), Hcs. reflexivity. }
      assert (Hl1 : length (documented st1) = S (length (documented st))).
      { rewrite Hd1, app_length, length_update_nth. cbn [length]. lia. }
      assert (R2 : class_run (length (documented st)) (items_of body) st1 st2).
      { apply (nodes_class_run fl body IH W3 B2 _ (Some N :: rest)); [exact Hc1|lia|exact E2]. }
      destruct R2 as (A1 & A2 & A3 & _).
      rewrite A1, Hc1 in Hrun. cbn [agg_run] in Hrun. inversion Hrun; subst st'; clear Hrun.
      unfold node_items. cbn [node_inner node_method_decls node_attrs]. rewrite Hs.
      split; [|split; [|split]].
      + cbn [with_class_stack class_stack]. symmetry. exact Hcs.
      + cbn [with_class_stack documented]. lia.
      + intros i Hi Hn. unfold cview_at at 1. cbn [with_class_stack documented].
        fold (cview_at st2 i). rewrite A3 by lia.
        unfold cview_at. rewrite Hd1, nth_error_app1 by (rewrite length_update_nth; exact Hi).
        rewrite nth_error_update_nth_neq by exact Hn. reflexivity.
      + intros _. unfold cview_at at 1. cbn [with_class_stack documented].
        fold (cview_at st2 N). rewrite A3 by lia.
        unfold cview_at. rewrite Hd1, nth_error_app1 by (rewrite length_update_nth; exact HN).
        rewrite nth_error_update_nth, Nat.eqb_refl.
        destruct (nth_error (documented st) N) as [e0|]; cbn [option_map]; [|reflexivity].
        apply cview_add_inner.
  Qed.


  Theorem class_entry_reflects_body :
    forall fl doc hdr body endc name supers st st',
      class_flags_on fl = true ->
      wf_node (NClass doc hdr body endc) = true ->
      class_hdrs_ok [NClass doc hdr body endc] = true ->
      singles hdr = name :: supers ->
      top_in_range st = true ->
      run fl st (flatten (NClass doc hdr body endc)) = Ok st' ->
      cview_at st' (length (documented st))
      = Some {| cv_name := name; cv_doc := doc_of doc; cv_supers := supers;
                cv_inner := class_inner body;
                cv_ctors := class_method_decls true body;
                cv_members := class_method_decls false body;
                cv_attrs := class_attrs body |}
      /\ class_stack st' = class_stack st
      /\ (forall i, i < length (documented st) ->
                    cview_at st' i
                    = if is_top i st
                      then option_map (cv_ext {| it_inner := [name]; it_ctors := [];
                                                 it_members := []; it_attrs := [] |})
                                      (cview_at st i)
                      else cview_at st i).
  Proof.
    intros fl doc hdr body endc name supers st st' Hfl Hwf Hok Hs Htop Hrun.
    rewrite flatten_class in Hrun. rewrite wf_class in Hwf.
    cbn [class_hdrs_ok forallb] in Hok. rewrite andb_true_r, hdrs_ok_class in Hok.
    apply andb_true_iff in Hwf. destruct Hwf as [Hwf W3].
    apply andb_true_iff in Hwf. destruct Hwf as [W1 W2].
    apply andb_true_iff in Hok. destruct Hok as [_ B2].
    unfold is_class_cmd, kind_is in W1. apply str_eqb_eq in W1.
    unfold is_end_class_cmd, kind_is in W2. apply str_eqb_eq in W2.
    assert (F1 : inc_cpp_class fl = true).
    { unfold class_flags_on in Hfl. destruct (inc_cpp_class fl); [reflexivity|discriminate]. }
    cbn [agg_run] in Hrun. rewrite step_class in Hrun by assumption.
    rewrite run_app in Hrun.
    set (st1 := process_class hdr (doc_of doc) (docd_of doc) st) in *.
    set (N := length (documented st)) in *.
    destruct (run fl st1 (flatten_all body)) as [st2|] eqn:E2; [|discriminate].
    cbn [agg_run] in Hrun. rewrite step_end_class in Hrun by exact W2.
    set (newc := EClass name (doc_of doc) supers [] [] [] []).
    assert (Hd1 : documented st1
                  = match class_stack st with
                    | Some ci :: _ => update_nth ci (add_inner name) (documented st)
                    | _ => documented st
                    end ++ [newc]).
    { unfold st1, process_class. rewrite Hs. unfold top_in_range in Htop.
      destruct (class_stack st) as [|[ci|] r] eqn:Ecs;
        cbn [with_class_stack with_docs append documented]; try reflexivity.
      apply update_nth_app1. apply Nat.ltb_lt. exact Htop. }
    assert (Hlen0 : length (match class_stack st with
                            | Some ci :: _ => update_nth ci (add_inner name) (documented st)
                            | _ => documented st
                            end) = N).
    { destruct (class_stack st) as [|[ci|] r]; try reflexivity. apply length_update_nth. }
    assert (Hc1 : class_stack st1 = Some N :: class_stack st).
    { unfold st1. apply (process_class_stack _ _ _ _ _ _ Hs). }
    assert (Hl1 : length (documented st1) = S N).
    { rewrite Hd1, app_length, Hlen0. cbn [length]. lia. }
    assert (R2 : class_run N (items_of body) st1 st2).
    { apply (nodes_class_run fl body) with (rest := class_stack st); try assumption; [|lia].
      apply Forall_forall. intros n _. apply node_class_run. exact Hfl. }
    destruct R2 as (A1 & A2 & A3 & A4).
    rewrite A1, Hc1 in Hrun. inversion Hrun; subst st'; clear Hrun.
    split; [|split].
    - unfold cview_at at 1. cbn [with_class_stack documented]. fold (cview_at st2 N).
      rewrite A4 by lia. unfold cview_at. rewrite Hd1, nth_error_app2 by lia.
      rewrite Hlen0, Nat.sub_diag. cbn [nth_error newc cview option_map].
      unfold cv_ext, items_of. cbn. reflexivity.
    - reflexivity.
    - intros i Hi. unfold cview_at at 1. cbn [with_class_stack documented]. fold (cview_at st2 i).
      rewrite A3 by lia. unfold cview_at at 1. rewrite Hd1, nth_error_app1 by lia.
      unfold is_top. destruct (class_stack st) as [|[ci|] r]; try reflexivity.
      rewrite nth_error_update_nth. unfold cview_at.
      destruct (Nat.eqb i ci); [|reflexivity].
      destruct (nth_error (documented st) i) as [e0|]; cbn [option_map]; [|reflexivity].
      apply cview_add_inner.
  Qed.

  (* the same in terms of the entry itself *)
  Corollary class_entry_reflects_body_entry :
    forall fl doc hdr body endc name supers st st',
      class_flags_on fl = true ->
      wf_node (NClass doc hdr body endc) = true ->
      class_hdrs_ok [NClass doc hdr body endc] = true ->
      singles hdr = name :: supers ->
      top_in_range st = true ->
      run fl st (flatten (NClass doc hdr body endc)) = Ok st' ->
      exists ctors members attrs,
        nth_error (documented st') (length (documented st))
        = Some (EClass name (doc_of doc) supers (class_inner body) ctors members attrs)
        /\ map method_view ctors = class_method_decls true body
        /\ map method_view members = class_method_decls false body
        /\ map attr_view attrs = class_attrs body.
  Proof.
    intros fl doc hdr body endc name supers st st' Hfl Hwf Hok Hs Htop Hrun.
    destruct (class_entry_reflects_body fl doc hdr body endc name supers st st'
                Hfl Hwf Hok Hs Htop Hrun) as (H & _).
    unfold cview_at in H.
    destruct (nth_error (documented st') (length (documented st))) as [e0|]; [|discriminate].
    destruct e0; try discriminate. cbn [cview] in H. inversion H; subst.
    eexists _, _, _. repeat split.
  Qed.

  Corollary class_entry_reflects_body_default :
    forall doc hdr body endc name supers st st',
      wf_node (NClass doc hdr body endc) = true ->
      class_hdrs_ok [NClass doc hdr body endc] = true ->
      singles hdr = name :: supers ->
      top_in_range st = true ->
      run default_flags st (flatten (NClass doc hdr body endc)) = Ok st' ->
      exists ctors members attrs,
        nth_error (documented st') (length (documented st))
        = Some (EClass name (doc_of doc) supers (class_inner body) ctors members attrs)
        /\ map method_view ctors = class_method_decls true body
        /\ map method_view members = class_method_decls false body
        /\ map attr_view attrs = class_attrs body.
  Proof.
    intros. eapply class_entry_reflects_body_entry; try eassumption. reflexivity.
  Qed.

  (* ---- reachable states keep the class stack inside the entry list -------------------- *)


  Definition range_step (st st' : agg) : Prop :=
    length (documented st) <= length (documented st')
    /\ (forall i, In (Some i) (class_stack st') ->
                  In (Some i) (class_stack st)
                  \/ (i = length (documented st) /\ i < length (documented st'))).

  Lemma stack_in_range_spec : forall st,
      stack_in_range st = true
      <-> (forall i, In (Some i) (class_stack st) -> i < length (documented st)).
  Proof.
    intros st. unfold stack_in_range. rewrite forallb_forall. split.
    - intros H i Hi. apply Nat.ltb_lt. apply (H _ Hi).
    - intros H [i|] Hi; [|reflexivity]. apply Nat.ltb_lt. apply H. exact Hi.
  Qed.

  Lemma range_step_inv : forall st st',
      range_step st st' -> stack_in_range st = true -> stack_in_range st' = true.
  Proof.
    intros st st' [L H]. rewrite !stack_in_range_spec. intros Hin i Hi.
    destruct (H i Hi) as [Ha|[Ha Hb]]; [apply Hin in Ha; lia|exact Hb].
  Qed.

  Ltac range_same :=
    split;
    [ cbn [documented with_docs with_awaiting with_def_stack with_class_stack append];
      rewrite ?length_update_nth, ?app_length; cbn [length]; lia
    | let i := fresh "i" in let Hi := fresh "Hi" in
      intros i Hi; left; exact Hi ].

  Lemma process_class_range : forall c doc docd st,
      range_step st (process_class c doc docd st).
  Proof.
    intros c doc docd st. unfold process_class.
    destruct (singles c) as [|nm su]; [range_same|].
    destruct (class_stack st) as [|[ci|] r] eqn:Ecs;
      (split;
       [ cbn [documented with_docs with_class_stack append];
         rewrite ?length_update_nth, ?app_length; cbn [length]; lia
       | intros i Hi; cbn [class_stack with_docs with_class_stack append] in Hi;
         destruct Hi as [Hi|Hi];
         [ inversion Hi; subst; right; split; [reflexivity|];
           cbn [documented with_docs with_class_stack append];
           rewrite ?length_update_nth, ?app_length; cbn [length]; lia
         | left; exact Hi ] ]).
  Qed.

  Lemma run_handler_range : forall h c doc docd st st',
      runh h c doc docd st = Ok st' -> range_step st st'.
  Proof.
    intros h c doc docd st st' H. destruct h; cbn [run_handler] in H.
    - unfold process_def in H. destruct (singles c) as [|nm ps]; [discriminate|].
      inversion H; subst; clear H. range_same.
    - unfold process_def in H. destruct (singles c) as [|nm ps]; [discriminate|].
      inversion H; subst; clear H. range_same.
    - inversion H; subst; clear H. unfold process_cpa.
      destruct (def_stack st) as [|[idx|] r]; range_same.
    - inversion H; subst; clear H. unfold process_test.
      destruct (Nat.ltb (length (singles c)) 2); [range_same|].
      destruct (scan_name (singles c) []); range_same.
    - inversion H; subst; clear H. unfold process_test.
      destruct (Nat.ltb (length (singles c)) 2); [range_same|].
      destruct (scan_name (singles c) []); range_same.
    - unfold process_set in H. destruct (singles c) as [|nm vals]; [inversion H; subst; range_same|].
      destruct vals as [|v [|v2 vals]].
      + inversion H; subst; range_same.
      + destruct (unquote v); [|discriminate]. inversion H; subst; range_same.
      + inversion H; subst; range_same.
    - inversion H; subst; clear H. apply process_class_range.
    - inversion H; subst; clear H. unfold process_member.
      destruct (Nat.ltb (length (singles c)) 2); [range_same|].
      destruct (class_stack st) as [|[ci|] r] eqn:Ecs; range_same.
    - inversion H; subst; clear H. unfold process_member.
      destruct (Nat.ltb (length (singles c)) 2); [range_same|].
      destruct (class_stack st) as [|[ci|] r] eqn:Ecs; range_same.
    - inversion H; subst; clear H. unfold process_attr.
      destruct (Nat.ltb (length (singles c)) 2); [range_same|].
      destruct (class_stack st) as [|[ci|] r] eqn:Ecs; range_same.
    - inversion H; subst; clear H. unfold process_add_test.
      destruct (Nat.ltb (length (singles c)) 2); [range_same|].
      destruct (scan_name_idx (singles c) 0 (None, [])) as [[ix nm]|]; range_same.
    - inversion H; subst; clear H. unfold process_option.
      destruct (singles c) as [|a [|b [|v [|w r]]]]; range_same.
  Qed.

  Lemma enter_documented_range : forall d c st st',
      enterdoc d c st = Ok st' -> range_step st st'.
  Proof.
    intros d c st st' H. unfold enter_documented in H.
    destruct (lookup (lower_ascii (c_name c)) handler_table) as [h|].
    - apply run_handler_range in H. exact H.
    - inversion H; subst. unfold process_generic. range_same.
  Qed.

  Lemma enter_command_range : forall fl consumed c st st',
      entercmd fl consumed c st = Ok st' -> range_step st st'.
  Proof.
    intros fl consumed c st st' H. unfold enter_command in H. cbv zeta in H.
    destruct (str_eqb (lower_ascii (c_name c)) (s"cpp_class") && negb (inc_cpp_class fl)).
    { inversion H; subst. split; [cbn; lia|].
      intros i Hi. cbn [class_stack with_class_stack] in Hi.
      destruct Hi as [Hi|Hi]; [discriminate Hi|left; exact Hi]. }
    destruct (str_eqb (lower_ascii (c_name c)) (s"cpp_end_class")).
    { destruct (class_stack st) as [|x cs] eqn:Ecs; [discriminate|]. inversion H; subst.
      split; [cbn; lia|]. intros i Hi. cbn [class_stack with_class_stack] in Hi.
      left. rewrite Ecs. right. exact Hi. }
    destruct (str_eqb (lower_ascii (c_name c)) (s"cmake_parse_arguments")).
    { inversion H; subst. unfold process_cpa. destruct (def_stack st) as [|[idx|] r]; range_same. }
    destruct (is_def_name (lower_ascii (c_name c))
              && match awaiting st with AwNone => false | _ => true end).
    { assert (L : forall a mac extra,
                 length (upd_awaiting_entry a mac extra (documented st)) = length (documented st)).
      { intros a mac extra. destruct a; cbn [upd_awaiting_entry]; rewrite ?length_update_nth; reflexivity. }
      destruct consumed; inversion H; subst;
        (split; [cbn [documented with_docs with_awaiting with_def_stack]; rewrite L; lia
                |intros i Hi; left; exact Hi]). }
    destruct (str_eqb (lower_ascii (c_name c)) (s"endfunction")
              || str_eqb (lower_ascii (c_name c)) (s"endmacro")).
    { destruct (def_stack st) as [|x ds]; [discriminate|]. inversion H; subst. range_same. }
    destruct (negb (str_eqb (lower_ascii (c_name c)) (s"set")) && negb consumed);
      [|inversion H; subst; range_same].
    destruct (lookup (lower_ascii (c_name c)) handler_table) as [h|];
      [|inversion H; subst; range_same].
    destruct (include_flag fl h) as [[|]|]; [| |discriminate].
    - apply run_handler_range in H. exact H.
    - destruct (is_def_name (lower_ascii (c_name c))); inversion H; subst; range_same.
  Qed.

  Lemma step_stack_in_range : forall fl st e st',
      step fl st e = Ok st' -> stack_in_range st = true -> stack_in_range st' = true.
  Proof.
    intros fl st e st' H Hin. destruct e as [d c|c|d]; cbn [agg_step] in H.
    - destruct (enterdoc d c st) as [st1|] eqn:E1; [|discriminate].
      apply enter_documented_range in E1. apply enter_command_range in H.
      apply (range_step_inv _ _ H). apply (range_step_inv _ _ E1). exact Hin.
    - apply enter_command_range in H. apply (range_step_inv _ _ H). exact Hin.
    - inversion H; subst. exact Hin.
  Qed.

  Theorem run_stack_in_range : forall fl es st st',
      run fl st es = Ok st' -> stack_in_range st = true -> stack_in_range st' = true.
  Proof.
    intros fl es. induction es as [|e r IH]; intros st st' H Hin; cbn [agg_run] in H.
    - inversion H; subst. exact Hin.
    - destruct (step fl st e) as [st1|] eqn:E; [|discriminate].
      apply (IH _ _ H). apply (step_stack_in_range _ _ _ _ E). exact Hin.
  Qed.

  Lemma stack_in_range_top : forall st, stack_in_range st = true -> top_in_range st = true.
  Proof.
    intros st H. unfold stack_in_range in H. unfold top_in_range.
    destruct (class_stack st) as [|[i|] r]; try reflexivity.
    cbn [forallb] in H. apply andb_true_iff in H. destruct H as [H _]. exact H.
  Qed.

  (* in particular: every state reached from the start of a file *)
  Corollary reachable_top_in_range : forall fl es st,
      run fl agg_init es = Ok st -> top_in_range st = true.
  Proof.
    intros fl es st H. apply stack_in_range_top.
    apply (run_stack_in_range fl es agg_init st H). reflexivity.
  Qed.

End WithParams.

(* ---- Q7: rendering of methods and attributes ------------------------------------------ *)

Definition method_heading (m : method) : str :=
  m_name m ++ s"(" ++ join (s", ") (m_params m)
         ++ (if mem_str (s"args") (m_types m) then s"[, ...]" else []) ++ s")".

Definition method_note : elem := Dir (s"note") [method_macro_note] [] [].

Definition dir_body (e : elem) : list elem :=
  match e with Dir _ _ _ b => b | _ => [] end.
Definition dir_opts (e : elem) : list (str * str) :=
  match e with Dir _ _ o _ => o | _ => [] end.

Lemma render_method_shape : forall m,
    render_method m
    = Dir (s"py:method") [method_heading m] []
          ((if m_macro m then [method_note] else [])
           ++ [Para (m_doc m)] ++ method_fields (m_doc m) (m_types m) (m_params m)).
Proof.
  intros m. unfold render_method, method_heading, method_note.
  rewrite <- (app_assoc (join (s", ") (m_params m))). reflexivity.
Qed.

Lemma mem_str_In : forall x l, mem_str x l = true <-> In x l.
Proof.
  intros x l. induction l as [|y l IH]; cbn [mem_str In].
  - split; [discriminate|tauto].
  - rewrite orb_true_iff, IH, str_eqb_eq. split; intros [H|H]; auto.
Qed.

(* the variadic marker appears iff  args  is among the declared types *)
Lemma method_heading_varargs : forall m,
    (In (s"args") (m_types m) ->
     method_heading m = m_name m ++ s"(" ++ join (s", ") (m_params m) ++ s"[, ...]" ++ s")")
    /\ (~ In (s"args") (m_types m) ->
        method_heading m = m_name m ++ s"(" ++ join (s", ") (m_params m) ++ s")").
Proof.
  intros m. unfold method_heading. split; intros H.
  - apply mem_str_In in H. rewrite H. reflexivity.
  - destruct (mem_str (s"args") (m_types m)) eqn:E; [apply mem_str_In in E; contradiction|].
    reflexivity.
Qed.

Lemma method_fields_are_fields : forall doc ts ps e,
    In e (method_fields doc ts ps) ->
    exists t p, In (t, p) (combine ts ps)
                /\ (e = Field (s"param " ++ p) [] \/ e = Field (s"type " ++ p) t).
Proof.
  intros doc ts. induction ts as [|t ts IH]; intros [|p ps] e H; cbn [method_fields] in H;
    try contradiction.
  apply in_app_or in H. destruct H as [H|H].
  { destruct (contains (s":param " ++ p ++ s":") doc); [contradiction|].
    destruct H as [H|[]]. exists t, p. split; [left; reflexivity|left; auto]. }
  apply in_app_or in H. destruct H as [H|H].
  { destruct (contains (s":type " ++ p ++ s":") doc); [contradiction|].
    destruct H as [H|[]]. exists t, p. split; [left; reflexivity|right; auto]. }
  destruct (IH _ _ H) as (t' & p' & A & B). exists t', p'. split; [right; exact A|exact B].
Qed.

(* the macro note is there iff the implementing definition was a macro *)
Lemma method_macro_note_iff : forall m,
    In method_note (dir_body (render_method m)) <-> m_macro m = true.
Proof.
  intros m. rewrite render_method_shape. cbn [dir_body]. split.
  - intros H. destruct (m_macro m); [reflexivity|]. cbn [app] in H.
    destruct H as [H|H]; [discriminate H|].
    apply method_fields_are_fields in H. destruct H as (t & p & _ & [H|H]); discriminate H.
  - intros H. rewrite H. left. reflexivity.
Qed.

(* types and parameter names are paired position-wise *)
Lemma method_fields_pairwise : forall doc ts ps,
    (forall p, In p ps -> contains (s":param " ++ p ++ s":") doc = false
                          /\ contains (s":type " ++ p ++ s":") doc = false) ->
    method_fields doc ts ps
    = flat_map (fun tp => [Field (s"param " ++ snd tp) []; Field (s"type " ++ snd tp) (fst tp)])
               (combine ts ps).
Proof.
  intros doc ts. induction ts as [|t ts IH]; intros [|p ps] H; try reflexivity.
  cbn [method_fields combine flat_map fst snd].
  destruct (H p (or_introl eq_refl)) as [A B]. rewrite A, B. cbn [app].
  rewrite IH; [reflexivity|]. intros q Hq. apply H. right. exact Hq.
Qed.

Lemma method_fields_length : forall doc ts ps,
    (forall p, In p ps -> contains (s":param " ++ p ++ s":") doc = false
                          /\ contains (s":type " ++ p ++ s":") doc = false) ->
    length (method_fields doc ts ps) = 2 * Nat.min (length ts) (length ps).
Proof.
  intros doc ts ps H. rewrite method_fields_pairwise by exact H.
  rewrite <- combine_length. induction (combine ts ps) as [|x l IH]; [reflexivity|].
  cbn [flat_map app length]. rewrite IH. lia.
Qed.

(* an attribute shows a value option iff a default was given *)
Lemma render_attribute_value : forall a,
    dir_opts (render_attribute a)
    = match a_default a with Some v => [(s"value", v)] | None => [] end.
Proof. intros a. reflexivity. Qed.

Lemma render_attribute_value_iff : forall a,
    dir_opts (render_attribute a) = [] <-> a_default a = None.
Proof.
  intros a. rewrite render_attribute_value. destruct (a_default a); split; intro H;
    try reflexivity; discriminate H.
Qed.

(* ---- examples: non-vacuity and counterexamples ----------------------------------------- *)

Module Examples.
  Local Open Scope string_scope.

  Definition mkc (name : string) (args : list string) : cmd :=
    {| c_name := of_string name;
       c_args := map (fun a => ASingle TUnquoted (of_string a)) args |}.
  Definition idf (x : str) : str := x.
  Definition trg : str := s":keyword".
  (* a three-line bracket doccomment; its cleaned text is the line Doc plus a newline *)
  Definition dtext : str := (s"#[[[" ++ [nl] ++ s"# Doc" ++ [nl] ++ s"#]]")%list.
  Definition ddoc : str := (s"Doc" ++ [nl])%list.

  (* a class with an attribute, a documented member implemented by a macro (with another
     attribute inside the macro body), a nested class with its own member, and then a
     constructor and another attribute of the outer class *)
  Definition ex_body : list node :=
    [ NCmd None (mkc "cpp_attr" ["Outer"; "color"; "red"]);
      NCmd (Some dtext) (mkc "cpp_member" ["run"; "Outer"; "int"; "args"]);
      NDef None (mkc "macro" ["${run}"; "self"; "a"; "b"])
           [ NCmd None (mkc "cpp_attr" ["Outer"; "inside"]) ] (mkc "endmacro" []);
      NClass None (mkc "cpp_class" ["Inner"])
             [ NCmd None (mkc "cpp_member" ["go"; "Inner"]);
               NDef None (mkc "function" ["${go}"; "self"]) [] (mkc "endfunction" []) ]
             (mkc "cpp_end_class" []);
      NCmd None (mkc "cpp_constructor" ["CTOR"; "Outer"; "str"]);
      NCmd None (mkc "cpp_attr" ["Outer"; "size"]) ].
  Definition ex : node :=
    NClass (Some dtext) (mkc "cpp_class" ["Outer"; "Base1"; "Base2"]) ex_body
           (mkc "cpp_end_class" []).

  Definition ex_outer : entry :=
    EClass (s"Outer") ddoc [s"Base1"; s"Base2"] [s"Inner"]
           [ {| m_name := s"CTOR"; m_doc := []; m_parent := s"Outer"; m_types := [s"str"];
                m_params := []; m_ctor := true; m_macro := false; m_docd := false |} ]
           [ {| m_name := s"run"; m_doc := ddoc; m_parent := s"Outer";
                m_types := [s"int"; s"args"]; m_params := [s"a"; s"b"]; m_ctor := false;
                m_macro := true; m_docd := true |} ]
           [ {| a_name := s"color"; a_doc := []; a_parent := s"Outer";
                a_default := Some (s"red"); a_docd := false |};
             {| a_name := s"inside"; a_doc := []; a_parent := s"Outer"; a_default := None;
                a_docd := false |};
             {| a_name := s"size"; a_doc := []; a_parent := s"Outer"; a_default := None;
                a_docd := false |} ].
  Definition ex_inner : entry :=
    EClass (s"Inner") [] [] [] []
           [ {| m_name := s"go"; m_doc := []; m_parent := s"Inner"; m_types := [];
                m_params := []; m_ctor := false; m_macro := false; m_docd := false |} ] [].

  Example ex_hypotheses : wf_node ex = true /\ class_hdrs_ok [ex] = true
                          /\ class_flags_on default_flags = true
                          /\ top_in_range agg_init = true.
  Proof. vm_compute. repeat split. Qed.

  (* the run succeeds (so Q1, Q5, Q6 are not vacuous) and yields exactly these two entries;
     Q4 is visible in run: its parameter names a b come from the macro, with the macro mark *)
  Example ex_run :
    agg_run default_flags trg idf idf idf agg_init (flatten ex)
    = Ok {| documented := [ex_outer; ex_inner]; origins := [true; false];
            class_stack := []; def_stack := []; awaiting := AwMethod 0 true |}.
  Proof. vm_compute. reflexivity. Qed.

  Example ex_spec_side :
    class_inner ex_body = [s"Inner"]
    /\ class_attrs ex_body = [(s"Outer", s"color", Some (s"red")); (s"Outer", s"inside", None);
                              (s"Outer", s"size", None)]
    /\ class_method_decls false ex_body = [(s"run", s"Outer", [s"int"; s"args"])]
    /\ class_method_decls true ex_body = [(s"CTOR", s"Outer", [s"str"])].
  Proof. vm_compute. repeat split. Qed.

  (* Q1 without the header hypothesis is false: an argument-less cpp_class pushes nothing,
     its cpp_end_class pops the frame of the enclosing class *)
  Definition st_open : agg :=
    {| documented := [EClass (s"A") [] [] [] [] [] []]; origins := [false];
       class_stack := [Some 0]; def_stack := []; awaiting := AwNone |}.
  Definition no_args_class : node :=
    NClass None (mkc "cpp_class" []) [] (mkc "cpp_end_class" []).

  Example class_no_args_unbalanced_refuted :
    inc_cpp_class default_flags = true
    /\ wf_nodes [no_args_class] = true
    /\ class_hdrs_ok [no_args_class] = false
    /\ agg_run default_flags trg idf idf idf st_open (flatten_all [no_args_class])
       = Ok (with_class_stack [] st_open)
    /\ class_stack (with_class_stack [] st_open) <> class_stack st_open.
  Proof. vm_compute. repeat split. discriminate. Qed.

  (* Q1 with the class flag off is false for a doccomment-carrying class (finding F9):
     two pushes, one pop *)
  Definition flags_class_off : flags :=
    {| inc_function := true; inc_macro := true; inc_cpp_class := false; inc_cpp_attr := true;
       inc_cpp_constructor := true; inc_cpp_member := true; inc_ct_add_test := true;
       inc_ct_add_section := true; inc_add_test := true; inc_option := true |}.
  Definition doc_class : node :=
    NClass (Some dtext) (mkc "cpp_class" ["A"]) [] (mkc "cpp_end_class" []).

  Example class_stack_restored_flag_off_refuted :
    wf_nodes [doc_class] = true
    /\ class_hdrs_ok [doc_class] = true
    /\ exists st', agg_run flags_class_off trg idf idf idf agg_init (flatten_all [doc_class]) = Ok st'
                   /\ class_stack st' = [Some 0]
                   /\ class_stack st' <> class_stack agg_init.
  Proof.
    split; [reflexivity|split; [reflexivity|]].
    exists {| documented := [EClass (s"A") ddoc [] [] [] [] []]; origins := [true];
              class_stack := [Some 0]; def_stack := []; awaiting := AwNone |}.
    vm_compute. repeat split. discriminate.
  Qed.

  (* ... while the same input is balanced under default flags, and an undocumented class is
     balanced with the flag off *)
  Example class_stack_restored_nonvacuous :
    exists st', agg_run default_flags trg idf idf idf agg_init (flatten_all [doc_class]) = Ok st'
                /\ class_stack st' = [].
  Proof.
    exists {| documented := [EClass (s"A") ddoc [] [] [] [] []]; origins := [true];
              class_stack := []; def_stack := []; awaiting := AwNone |}.
    vm_compute. split; reflexivity.
  Qed.

  Example class_stack_restored_flag_off_nonvacuous :
    no_doc_class [NClass None (mkc "cpp_class" ["A"]) [NCmd None (mkc "cpp_attr" ["A"; "x"])]
                         (mkc "cpp_end_class" [])] = true
    /\ agg_run flags_class_off trg idf idf idf agg_init
               (flatten_all [NClass None (mkc "cpp_class" ["A"])
                                    [NCmd None (mkc "cpp_attr" ["A"; "x"])]
                                    (mkc "cpp_end_class" [])]) = Ok agg_init.
  Proof. vm_compute. split; reflexivity. Qed.

  (* Q5 needs the top of the class stack to point at an existing entry: in this (unreachable)
     state the new class would be registered as an inner class of itself *)
  Definition st_bad_top : agg :=
    {| documented := []; origins := []; class_stack := [Some 0]; def_stack := [];
       awaiting := AwNone |}.
  Example class_entry_top_out_of_range_refuted :
    top_in_range st_bad_top = false
    /\ agg_run default_flags trg idf idf idf st_bad_top
               (flatten (NClass None (mkc "cpp_class" ["A"]) [] (mkc "cpp_end_class" [])))
       = Ok {| documented := [EClass (s"A") [] [] [s"A"] [] [] []]; origins := [false];
               class_stack := [Some 0]; def_stack := []; awaiting := AwNone |}
    /\ class_inner [] = [].
  Proof. vm_compute. repeat split. Qed.

  (* Q2 / Q3 on a concrete state *)
  Example member_attaches_example :
    documented (process_member false (mkc "cpp_member" ["f"; "A"; "int"]) ddoc true st_open)
    = [EClass (s"A") [] [] [] []
              [decl_method false (s"f") (s"A") [s"int"] ddoc true] []].
  Proof. vm_compute. reflexivity. Qed.

  Example inner_class_example :
    process_class (mkc "cpp_class" ["B"; "Base"]) ddoc true st_open
    = {| documented := [EClass (s"A") [] [] [s"B"] [] [] []; EClass (s"B") ddoc [s"Base"] [] [] [] []];
         origins := [false; true]; class_stack := [Some 1; Some 0]; def_stack := [];
         awaiting := AwNone |}.
  Proof. vm_compute. reflexivity. Qed.

  (* Q7 on the documented method of the example *)
  Example render_run_heading :
    method_heading {| m_name := s"run"; m_doc := ddoc; m_parent := s"Outer";
                      m_types := [s"int"; s"args"]; m_params := [s"a"; s"b"]; m_ctor := false;
                      m_macro := true; m_docd := true |}
    = s"run(a, b[, ...])".
  Proof. vm_compute. reflexivity. Qed.
End Examples.

(* ==== MAIN THEOREMS ====
   Q1  class_stack_restored, class_stack_restored_gen, class_stack_restored_flag_off
       Examples.class_no_args_unbalanced_refuted, Examples.class_stack_restored_flag_off_refuted (F9)
   Q2  member_attaches_to_top_only, attr_attaches_to_top_only, attr_default_iff, attr_default_third
   Q3  inner_class_registered, outer_class_registered, class_no_args_noop
   Q4  method_params_from_next_definition, awaiting_persists
   Q5  class_entry_reflects_body, class_entry_reflects_body_entry, class_entry_reflects_body_default
       (support: node_class_run, nodes_class_run, run_stack_in_range, reachable_top_in_range,
        Examples.class_entry_top_out_of_range_refuted)
   Q6  after_end_class_outer_context
   Q7  render_method_shape, method_heading_varargs, method_macro_note_iff, method_fields_pairwise,
       method_fields_length, method_fields_are_fields, render_attribute_value_iff
   step characterisations: step_member, step_ctor, step_attr, step_class, step_end_class,
       step_class_doc_flag_off, step_class_undoc_flag_off, step_frame *)
Print Assumptions class_stack_restored.
Print Assumptions class_stack_restored_gen.
Print Assumptions class_stack_restored_flag_off.
Print Assumptions member_attaches_to_top_only.
Print Assumptions attr_attaches_to_top_only.
Print Assumptions attr_default_iff.
Print Assumptions inner_class_registered.
Print Assumptions outer_class_registered.
Print Assumptions method_params_from_next_definition.
Print Assumptions awaiting_persists.
Print Assumptions class_entry_reflects_body.
Print Assumptions class_entry_reflects_body_entry.
Print Assumptions class_entry_reflects_body_default.
Print Assumptions run_stack_in_range.
Print Assumptions reachable_top_in_range.
Print Assumptions after_end_class_outer_context.
Print Assumptions render_method_shape.
Print Assumptions method_macro_note_iff.
Print Assumptions method_fields_pairwise.
Print Assumptions method_fields_length.
Print Assumptions render_attribute_value_iff.
Print Assumptions step_frame.
Print Assumptions Examples.ex_run.
Print Assumptions Examples.class_no_args_unbalanced_refuted.
Print Assumptions Examples.class_stack_restored_flag_off_refuted.
