(* Proofs/AggClass.v -- property C09: class entries reflect the cpp_class structure.
   Theorems about Model/Aggregator.v (state machine) against the nested view of Spec/AggSpec.v. *)
From Coq Require Import String List NArith Bool Arith Lia.
From CMinx Require Import Base.Str Model.Lexer Model.Parser Model.Writer Model.DocTypes
     Model.Aggregator Spec.AggSpec.
Import ListNotations.

(* ---- spec ---- *)

(* every cpp_class header in the forest has at least one single argument *)
Fixpoint class_hdrs_ok_node (n : node) : bool :=
  match n with
  | NCmd _ _ => true
  | NDangling _ => true
  | NDef _ _ body _ =>
      (fix all (l : list node) : bool :=
         match l with [] => true | x :: r => class_hdrs_ok_node x && all r end) body
  | NClass _ hdr body _ =>
      negb (match singles hdr with [] => true | _ :: _ => false end)
      && (fix all (l : list node) : bool :=
            match l with [] => true | x :: r => class_hdrs_ok_node x && all r end) body
  end.
Definition class_hdrs_ok (l : list node) : bool := forallb class_hdrs_ok_node l.

(* no cpp_class in the forest carries a doccomment (the shape for which F9 cannot strike) *)
Fixpoint no_doc_class_node (n : node) : bool :=
  match n with
  | NCmd _ _ => true
  | NDangling _ => true
  | NDef _ _ body _ =>
      (fix all (l : list node) : bool :=
         match l with [] => true | x :: r => no_doc_class_node x && all r end) body
  | NClass doc _ body _ =>
      (match doc with None => true | Some _ => false end)
      && (fix all (l : list node) : bool :=
            match l with [] => true | x :: r => no_doc_class_node x && all r end) body
  end.
Definition no_doc_class (l : list node) : bool := forallb no_doc_class_node l.

(* the method a cpp_member / cpp_constructor command declares *)
Definition decl_method (is_ctor : bool) (name parent : str) (types : list str)
           (doc : str) (docd : bool) : method :=
  {| m_name := name; m_doc := doc; m_parent := parent; m_types := types; m_params := [];
     m_ctor := is_ctor; m_macro := false; m_docd := docd |}.

(* the attribute a cpp_attr command declares *)
Definition decl_attr (c : cmd) (parent name : str) (doc : str) (docd : bool) : attribute :=
  {| a_name := name; a_doc := doc; a_parent := parent; a_default := nth_error (singles c) 2;
     a_docd := docd |}.

(* the doc text and ghost flag an element hands to its handler *)
Definition doc_of (doc : option str) : str :=
  match doc with Some d => clean_doc_text d | None => [] end.
Definition docd_of (doc : option str) : bool :=
  match doc with Some _ => true | None => false end.

(* items of a class body that belong to THIS class: NDef bodies are transparent,
   nested NClass nodes are not entered *)
Definition attr_item (c : cmd) : list (str * str * option str) :=
  if kind_is c (s"cpp_attr") then
    match singles c with
    | parent :: name :: _ => [(parent, name, nth_error (singles c) 2)]
    | _ => []
    end
  else [].

Definition method_item (is_ctor : bool) (c : cmd) : list (str * str * list str) :=
  if kind_is c (if is_ctor then s"cpp_constructor" else s"cpp_member") then
    match singles c with
    | name :: parent :: types => [(name, parent, types)]
    | _ => []
    end
  else [].

Fixpoint node_attrs (n : node) : list (str * str * option str) :=
  match n with
  | NCmd _ c => attr_item c
  | NDangling _ => []
  | NDef _ _ body _ =>
      (fix go (l : list node) := match l with [] => [] | x :: r => node_attrs x ++ go r end) body
  | NClass _ _ _ _ => []
  end.
Definition class_attrs (body : list node) : list (str * str * option str) :=
  flat_map node_attrs body.

Fixpoint node_method_decls (is_ctor : bool) (n : node) : list (str * str * list str) :=
  match n with
  | NCmd _ c => method_item is_ctor c
  | NDangling _ => []
  | NDef _ _ body _ =>
      (fix go (l : list node) :=
         match l with [] => [] | x :: r => node_method_decls is_ctor x ++ go r end) body
  | NClass _ _ _ _ => []
  end.
Definition class_method_decls (is_ctor : bool) (body : list node) : list (str * str * list str) :=
  flat_map (node_method_decls is_ctor) body.

Fixpoint node_inner (n : node) : list str :=
  match n with
  | NCmd _ _ => []
  | NDangling _ => []
  | NDef _ _ body _ =>
      (fix go (l : list node) := match l with [] => [] | x :: r => node_inner x ++ go r end) body
  | NClass _ hdr _ _ => match singles hdr with [] => [] | name :: _ => [name] end
  end.
Definition class_inner (body : list node) : list str := flat_map node_inner body.

Definition attr_view (a : attribute) : str * str * option str :=
  (a_parent a, a_name a, a_default a).
Definition method_view (m : method) : str * str * list str :=
  (m_name m, m_parent m, m_types m).

(* the four class-owned lists of an entry (empty for non-class entries) *)
Definition e_inner (e : entry) : list str :=
  match e with EClass _ _ _ inner _ _ _ => inner | _ => [] end.
Definition e_ctors (e : entry) : list method :=
  match e with EClass _ _ _ _ ct _ _ => ct | _ => [] end.
Definition e_members (e : entry) : list method :=
  match e with EClass _ _ _ _ _ me _ => me | _ => [] end.
Definition e_attrs (e : entry) : list attribute :=
  match e with EClass _ _ _ _ _ _ at_ => at_ | _ => [] end.
Definition is_class_entry (e : entry) : bool :=
  match e with EClass _ _ _ _ _ _ _ => true | _ => false end.

(* ---- generic list / string helpers ------------------------------------------------ *)

Lemma str_eqb_refl : forall a, str_eqb a a = true.
Proof.
  induction a as [|x a IH]; cbn [str_eqb]; [reflexivity|].
  rewrite N.eqb_refl, IH. reflexivity.
Qed.

Lemma str_eqb_eq : forall a b, str_eqb a b = true <-> a = b.
Proof.
  induction a as [|x a IH]; intros [|y b]; cbn [str_eqb]; split; intro H;
    try reflexivity; try discriminate.
  - apply andb_true_iff in H. destruct H as [H1 H2].
    apply N.eqb_eq in H1. apply IH in H2. subst. reflexivity.
  - inversion H; subst. rewrite N.eqb_refl. cbn [andb]. apply IH. reflexivity.
Qed.

Lemma str_eqb_neq : forall a b, str_eqb a b = false <-> a <> b.
Proof.
  intros a b. split.
  - intros H E. apply str_eqb_eq in E. congruence.
  - intros H. destruct (str_eqb a b) eqn:E; [|reflexivity].
    apply str_eqb_eq in E. contradiction.
Qed.

Lemma length_update_nth : forall A (f : A -> A) l n, length (update_nth n f l) = length l.
Proof.
  intros A f. induction l as [|x l IH]; intros [|n]; cbn [update_nth length]; auto.
Qed.

Lemma nth_error_update_nth_eq : forall A (f : A -> A) l n x,
    nth_error l n = Some x -> nth_error (update_nth n f l) n = Some (f x).
Proof.
  intros A f. induction l as [|y l IH]; intros [|n] x H; cbn in H |- *; try discriminate.
  - inversion H; reflexivity.
  - apply IH; exact H.
Qed.

Lemma nth_error_update_nth_neq : forall A (f : A -> A) l n i,
    i <> n -> nth_error (update_nth n f l) i = nth_error l i.
Proof.
  intros A f. induction l as [|y l IH]; intros [|n] [|i] H; cbn; try reflexivity.
  - contradiction.
  - apply IH. lia.
Qed.

Lemma update_nth_none : forall A (f : A -> A) l n,
    nth_error l n = None -> update_nth n f l = l.
Proof.
  intros A f. induction l as [|y l IH]; intros [|n] H; cbn in H |- *; try reflexivity.
  - discriminate.
  - f_equal. apply IH. exact H.
Qed.

Lemma update_last_snoc : forall A (f : A -> A) l x, update_last f (l ++ [x]) = l ++ [f x].
Proof.
  intros A f l x. unfold update_last. rewrite rev_app_distr. cbn [rev app].
  rewrite rev_involutive. reflexivity.
Qed.

Lemma update_last_nil : forall A (f : A -> A), update_last f [] = [].
Proof. reflexivity. Qed.

Lemma skipn2_guard : forall A (l : list A),
    (if Nat.ltb 2 (length l) then skipn 2 l else []) = skipn 2 l.
Proof.
  intros A [|a [|b [|c l]]]; reflexivity.
Qed.

(* evaluate str_eqb / is_def_name on closed arguments only *)
Ltac eval_closed :=
  repeat match goal with
         | |- context [str_eqb ?a ?b] =>
             let v := eval vm_compute in (str_eqb a b) in
             match v with
             | true => change (str_eqb a b) with true
             | false => change (str_eqb a b) with false
             end
         | |- context [is_def_name ?a] =>
             let v := eval vm_compute in (is_def_name a) in
             match v with
             | true => change (is_def_name a) with true
             | false => change (is_def_name a) with false
             end
         end.

(* ---- Q2: members and attributes attach to the top class only ----------------------- *)

Theorem member_attaches_to_top_only :
  forall is_ctor c doc docd st cidx rest name parent types n d su inner ct me at_,
    singles c = name :: parent :: types ->
    class_stack st = Some cidx :: rest ->
    nth_error (documented st) cidx = Some (EClass n d su inner ct me at_) ->
    let m := decl_method is_ctor name parent types doc docd in
    let st' := process_member is_ctor c doc docd st in
    nth_error (documented st') cidx
      = Some (if is_ctor then EClass n d su inner (ct ++ [m]) me at_
              else EClass n d su inner ct (me ++ [m]) at_)
    /\ (forall i, i <> cidx -> nth_error (documented st') i = nth_error (documented st) i)
    /\ length (documented st') = length (documented st)
    /\ origins st' = origins st
    /\ class_stack st' = class_stack st
    /\ def_stack st' = def_stack st
    /\ awaiting st' = AwMethod cidx is_ctor.
Proof.
  intros is_ctor c doc docd st cidx rest name parent types n d su inner ct me at_ Hs Hcs Hn m st'.
  subst st' m. unfold process_member. rewrite Hs, Hcs. cbn [length Nat.ltb Nat.leb nth skipn].
  cbn [with_awaiting with_docs documented origins class_stack def_stack awaiting].
  repeat split.
  - erewrite nth_error_update_nth_eq by exact Hn.
    cbn [add_method]. destruct is_ctor; reflexivity.
  - intros i Hi. apply nth_error_update_nth_neq. exact Hi.
  - apply length_update_nth.
  - exact Hcs.
Qed.

Theorem attr_attaches_to_top_only :
  forall c doc docd st cidx rest parent name more n d su inner ct me at_,
    singles c = parent :: name :: more ->
    class_stack st = Some cidx :: rest ->
    nth_error (documented st) cidx = Some (EClass n d su inner ct me at_) ->
    let a := decl_attr c parent name doc docd in
    let st' := process_attr c doc docd st in
    nth_error (documented st') cidx = Some (EClass n d su inner ct me (at_ ++ [a]))
    /\ (forall i, i <> cidx -> nth_error (documented st') i = nth_error (documented st) i)
    /\ length (documented st') = length (documented st)
    /\ origins st' = origins st
    /\ class_stack st' = class_stack st
    /\ def_stack st' = def_stack st
    /\ awaiting st' = awaiting st.
Proof.
  intros c doc docd st cidx rest parent name more n d su inner ct me at_ Hs Hcs Hn a st'.
  subst st' a. unfold process_attr, decl_attr. rewrite Hs, Hcs.
  cbn [length Nat.ltb Nat.leb nth].
  cbn [with_docs documented origins class_stack def_stack awaiting].
  repeat split.
  - erewrite nth_error_update_nth_eq by exact Hn. reflexivity.
  - intros i Hi. apply nth_error_update_nth_neq. exact Hi.
  - apply length_update_nth.
  - exact Hcs.
Qed.

(* the default is recorded iff a third argument is given ... *)
Lemma attr_default_iff : forall c parent name doc docd,
    a_default (decl_attr c parent name doc docd) = None <-> length (singles c) < 3.
Proof.
  intros c parent name doc docd. cbn [decl_attr a_default]. rewrite nth_error_None. lia.
Qed.

(* ... and then it is the third argument *)
Lemma attr_default_third : forall c parent name v more doc docd,
    singles c = parent :: name :: v :: more ->
    a_default (decl_attr c parent name doc docd) = Some v.
Proof.
  intros c parent name v more doc docd Hs. cbn [decl_attr a_default]. rewrite Hs. reflexivity.
Qed.

(* too few arguments, or no class open, or the open class is hidden: nothing happens *)
Lemma member_ignored : forall is_ctor c doc docd st,
    length (singles c) < 2 \/ class_stack st = [] \/ (exists r, class_stack st = None :: r) ->
    process_member is_ctor c doc docd st = st.
Proof.
  intros is_ctor c doc docd st H. unfold process_member.
  destruct (Nat.ltb (length (singles c)) 2) eqn:E; [reflexivity|].
  apply Nat.ltb_ge in E.
  destruct H as [H|[H|[r H]]]; [lia| |]; rewrite H; reflexivity.
Qed.

Lemma attr_ignored : forall c doc docd st,
    length (singles c) < 2 \/ class_stack st = [] \/ (exists r, class_stack st = None :: r) ->
    process_attr c doc docd st = st.
Proof.
  intros c doc docd st H. unfold process_attr.
  destruct (Nat.ltb (length (singles c)) 2) eqn:E; [reflexivity|].
  apply Nat.ltb_ge in E.
  destruct H as [H|[H|[r H]]]; [lia| |]; rewrite H; reflexivity.
Qed.

(* ---- Q3: a class inside a class --------------------------------------------------- *)

Theorem inner_class_registered :
  forall c doc docd st cidx rest name supers n d su inner ct me at_,
    singles c = name :: supers ->
    class_stack st = Some cidx :: rest ->
    nth_error (documented st) cidx = Some (EClass n d su inner ct me at_) ->
    let st' := process_class c doc docd st in
    documented st'
      = update_nth cidx (fun _ => EClass n d su (inner ++ [name]) ct me at_) (documented st)
        ++ [EClass name doc supers [] [] [] []]
    /\ nth_error (documented st') (length (documented st))
       = Some (EClass name doc supers [] [] [] [])
    /\ nth_error (documented st') cidx = Some (EClass n d su (inner ++ [name]) ct me at_)
    /\ (forall i, i <> cidx -> i < length (documented st) ->
                  nth_error (documented st') i = nth_error (documented st) i)
    /\ length (documented st') = S (length (documented st))
    /\ origins st' = origins st ++ [docd]
    /\ class_stack st' = Some (length (documented st)) :: class_stack st
    /\ def_stack st' = def_stack st
    /\ awaiting st' = awaiting st.
Proof.
  intros c doc docd st cidx rest name supers n d su inner ct me at_ Hs Hcs Hn st'.
  subst st'. unfold process_class. rewrite Hs, Hcs.
  cbn [with_class_stack with_docs append documented origins class_stack def_stack awaiting].
  assert (Hlt : cidx < length (documented st)).
  { apply nth_error_Some. rewrite Hn. discriminate. }
  assert (Hupd : update_nth cidx (add_inner name) (documented st ++ [EClass name doc supers [] [] [] []])
                 = update_nth cidx (fun _ => EClass n d su (inner ++ [name]) ct me at_) (documented st)
                   ++ [EClass name doc supers [] [] [] []]).
  { clear Hcs. revert cidx Hn Hlt. generalize (documented st) as l.
    induction l as [|y l IH]; intros [|k] Hn Hlt; cbn in Hn, Hlt |- *; try lia.
    - inversion Hn; subst. reflexivity.
    - f_equal. apply IH; [exact Hn|lia]. }
  rewrite Hupd.
  assert (Hlen : length (update_nth cidx (fun _ => EClass n d su (inner ++ [name]) ct me at_)
                                   (documented st)) = length (documented st))
    by apply length_update_nth.
  repeat split.
  - rewrite nth_error_app2 by lia. rewrite Hlen, Nat.sub_diag. reflexivity.
  - rewrite nth_error_app1 by lia. erewrite nth_error_update_nth_eq by exact Hn. reflexivity.
  - intros i Hi Hil. rewrite nth_error_app1 by lia. apply nth_error_update_nth_neq. exact Hi.
  - rewrite app_length, Hlen. cbn [length]. lia.
  - rewrite Hcs. reflexivity.
Qed.

(* with no class open (or a hidden one on top) the new class is only appended and pushed *)
Theorem outer_class_registered :
  forall c doc docd st name supers,
    singles c = name :: supers ->
    (class_stack st = [] \/ exists r, class_stack st = None :: r) ->
    let st' := process_class c doc docd st in
    documented st' = documented st ++ [EClass name doc supers [] [] [] []]
    /\ origins st' = origins st ++ [docd]
    /\ class_stack st' = Some (length (documented st)) :: class_stack st
    /\ def_stack st' = def_stack st
    /\ awaiting st' = awaiting st.
Proof.
  intros c doc docd st name supers Hs Hcs st'. subst st'. unfold process_class. rewrite Hs.
  destruct Hcs as [Hcs|[r Hcs]]; rewrite Hcs;
    cbn [with_class_stack with_docs append documented origins class_stack def_stack awaiting];
    repeat split; rewrite Hcs; reflexivity.
Qed.

(* an argument-less cpp_class does nothing at all -- in particular it pushes no frame *)
Lemma class_no_args_noop : forall c doc docd st,
    singles c = [] -> process_class c doc docd st = st.
Proof. intros c doc docd st Hs. unfold process_class. rewrite Hs. reflexivity. Qed.

(* ---- the command-kind dispatch ---------------------------------------------------- *)

Definition kind_name (h : handler) : str :=
  match h with
  | HFunction => s"function" | HMacro => s"macro" | HCpa => s"cmake_parse_arguments"
  | HTest => s"ct_add_test" | HSection => s"ct_add_section" | HSet => s"set"
  | HClass => s"cpp_class" | HMember => s"cpp_member" | HCtor => s"cpp_constructor"
  | HAttr => s"cpp_attr" | HAddTest => s"add_test" | HOption => s"option"
  end.

Lemma lookup_handler_kind : forall k h, lookup k handler_table = Some h -> k = kind_name h.
Proof.
  intros k h. unfold handler_table. cbn [lookup].
  repeat (let E := fresh "E" in
          destruct (str_eqb k _) eqn:E;
          [apply str_eqb_eq in E; intro H; inversion H; subst; reflexivity|]).
  discriminate.
Qed.

Lemma lookup_kind_name : forall h, lookup (kind_name h) handler_table = Some h.
Proof. intros h; destruct h; vm_compute; reflexivity. Qed.

Ltac eval_lookup :=
  repeat match goal with
         | |- context [@lookup handler ?a handler_table] =>
             let v := eval vm_compute in (@lookup handler a handler_table) in
             match v with
             | Some _ => change (@lookup handler a handler_table) with v
             | None => change (@lookup handler a handler_table) with v
             end
         end.

Section WithParams.
  Variable trigger : str.
  Variables strip_fn strip_mac strip_mem : str -> str.

  Notation step fl := (agg_step fl trigger strip_fn strip_mac strip_mem).
  Notation run fl := (agg_run fl trigger strip_fn strip_mac strip_mem).
  Notation entercmd fl := (enter_command fl trigger strip_fn strip_mac strip_mem).
  Notation enterdoc := (enter_documented trigger strip_fn strip_mac).
  Notation runh := (run_handler trigger strip_fn strip_mac).

  Lemma run_app : forall fl a b st,
      run fl st (a ++ b) = match run fl st a with Ok st1 => run fl st1 b | Crash => Crash end.
  Proof.
    intros fl a. induction a as [|e a IH]; intros b st; cbn [app agg_run]; [reflexivity|].
    destruct (step fl st e) as [st1|]; [apply IH|reflexivity].
  Qed.

  (* ---- Q4: the next definition supplies the parameter names ----------------------- *)

  Theorem method_params_from_next_definition :
    forall fl consumed c st cidx is_ctor n d su inner ct me at_ ms0 m,
      awaiting st = AwMethod cidx is_ctor ->
      nth_error (documented st) cidx = Some (EClass n d su inner ct me at_) ->
      (if is_ctor then ct else me) = ms0 ++ [m] ->
      is_def_name (cmd_kind c) = true ->
      exists st',
        entercmd fl consumed c st = Ok st'
        /\ (let m' := {| m_name := m_name m; m_doc := m_doc m; m_parent := m_parent m;
                         m_types := m_types m;
                         m_params := m_params m ++ skipn 2 (map strip_mem (singles c));
                         m_ctor := m_ctor m;
                         m_macro := str_eqb (cmd_kind c) (s"macro");
                         m_docd := m_docd m |} in
            nth_error (documented st') cidx
            = Some (if is_ctor then EClass n d su inner (ms0 ++ [m']) me at_
                    else EClass n d su inner ct (ms0 ++ [m']) at_))
        /\ (forall i, i <> cidx -> nth_error (documented st') i = nth_error (documented st) i)
        /\ length (documented st') = length (documented st)
        /\ origins st' = origins st
        /\ class_stack st' = class_stack st
        /\ def_stack st' = (if consumed then def_stack st else None :: def_stack st)
        /\ awaiting st' = AwNone.
  Proof.
    intros fl consumed c st cidx is_ctor n d su inner ct me at_ ms0 m Haw Hn Hms Hdef.
    unfold cmd_kind in *.
    set (st2 := with_awaiting AwNone
                  (with_docs (upd_awaiting_entry (AwMethod cidx is_ctor)
                                (str_eqb (lower_ascii (c_name c)) (s"macro"))
                                (skipn 2 (map strip_mem (singles c)))) st)).
    assert (Hrun : entercmd fl consumed c st
                   = if consumed then Ok st2 else Ok (with_def_stack (None :: def_stack st2) st2)).
    { unfold enter_command. cbv zeta. rewrite Haw. rewrite skipn2_guard. fold st2.
      unfold is_def_name in Hdef. apply orb_true_iff in Hdef.
      destruct Hdef as [E|E]; apply str_eqb_eq in E; rewrite E; eval_closed;
        cbn [andb orb negb]; reflexivity. }
    assert (Hdocs : documented st2
                    = update_nth cidx
                        (fun e => match e with
                                  | EClass n d su inner ct me at_ =>
                                      if is_ctor
                                      then EClass n d su inner
                                             (update_last (upd_method (str_eqb (lower_ascii (c_name c)) (s"macro"))
                                                                      (skipn 2 (map strip_mem (singles c)))) ct) me at_
                                      else EClass n d su inner ct
                                             (update_last (upd_method (str_eqb (lower_ascii (c_name c)) (s"macro"))
                                                                      (skipn 2 (map strip_mem (singles c)))) me) at_
                                  | _ => e
                                  end) (documented st)) by reflexivity.
    exists (if consumed then st2 else with_def_stack (None :: def_stack st2) st2).
    split; [rewrite Hrun; destruct consumed; reflexivity|].
    assert (Hd2 : documented (if consumed then st2 else with_def_stack (None :: def_stack st2) st2)
                  = documented st2) by (destruct consumed; reflexivity).
    rewrite Hd2, Hdocs.
    split; [|split; [|split; [|split; [|split; [|split]]]]].
    - erewrite nth_error_update_nth_eq by exact Hn.
      destruct is_ctor; rewrite Hms, update_last_snoc; reflexivity.
    - intros i Hi. apply nth_error_update_nth_neq. exact Hi.
    - apply length_update_nth.
    - destruct consumed; reflexivity.
    - destruct consumed; reflexivity.
    - destruct consumed; reflexivity.
    - destruct consumed; reflexivity.
  Qed.

  (* ---- what one element does, by command kind -------------------------------------- *)

  Ltac unfold_step Hk :=
    unfold agg_step, enter_documented, enter_command; cbv zeta;
    unfold cmd_kind in Hk; rewrite ?Hk; eval_closed; eval_lookup;
    cbn [andb orb negb run_handler include_flag].

  Lemma step_member : forall fl doc c st,
      cmd_kind c = s"cpp_member" ->
      (doc = None -> inc_cpp_member fl = true) ->
      step fl st (elem_of doc c) = Ok (process_member false c (doc_of doc) (docd_of doc) st).
  Proof.
    intros fl [d|] c st Hk Hfl; cbn [elem_of doc_of docd_of].
    - unfold_step Hk. rewrite Hk. eval_closed. reflexivity.
    - unfold_step Hk. rewrite (Hfl eq_refl). reflexivity.
  Qed.

  Lemma step_ctor : forall fl doc c st,
      cmd_kind c = s"cpp_constructor" ->
      (doc = None -> inc_cpp_constructor fl = true) ->
      step fl st (elem_of doc c) = Ok (process_member true c (doc_of doc) (docd_of doc) st).
  Proof.
    intros fl [d|] c st Hk Hfl; cbn [elem_of doc_of docd_of].
    - unfold_step Hk. rewrite Hk. eval_closed. reflexivity.
    - unfold_step Hk. rewrite (Hfl eq_refl). reflexivity.
  Qed.

  Lemma step_attr : forall fl doc c st,
      cmd_kind c = s"cpp_attr" ->
      (doc = None -> inc_cpp_attr fl = true) ->
      step fl st (elem_of doc c) = Ok (process_attr c (doc_of doc) (docd_of doc) st).
  Proof.
    intros fl [d|] c st Hk Hfl; cbn [elem_of doc_of docd_of].
    - unfold_step Hk. rewrite Hk. eval_closed. reflexivity.
    - unfold_step Hk. rewrite (Hfl eq_refl). reflexivity.
  Qed.

  Lemma step_class : forall fl doc c st,
      cmd_kind c = s"cpp_class" ->
      inc_cpp_class fl = true ->
      step fl st (elem_of doc c) = Ok (process_class c (doc_of doc) (docd_of doc) st).
  Proof.
    intros fl [d|] c st Hk Hfl; cbn [elem_of doc_of docd_of].
    - unfold_step Hk. rewrite Hk, Hfl. eval_closed. reflexivity.
    - unfold_step Hk. rewrite Hfl. reflexivity.
  Qed.

  (* F9: with the class flag off, a doccomment-carrying cpp_class pushes twice *)
  Lemma step_class_doc_flag_off : forall fl d c st,
      cmd_kind c = s"cpp_class" ->
      inc_cpp_class fl = false ->
      step fl st (EDocCmd d c)
      = Ok (with_class_stack (None :: class_stack (process_class c (clean_doc_text d) true st))
                             (process_class c (clean_doc_text d) true st)).
  Proof.
    intros fl d c st Hk Hfl. unfold_step Hk. rewrite Hk, Hfl. eval_closed. reflexivity.
  Qed.

  Lemma step_class_undoc_flag_off : forall fl c st,
      cmd_kind c = s"cpp_class" ->
      inc_cpp_class fl = false ->
      step fl st (ECmd c) = Ok (with_class_stack (None :: class_stack st) st).
  Proof.
    intros fl c st Hk Hfl. unfold_step Hk. rewrite Hfl. reflexivity.
  Qed.

  Lemma step_end_class : forall fl c st,
      cmd_kind c = s"cpp_end_class" ->
      step fl st (ECmd c) = match class_stack st with
                            | [] => Crash
                            | _ :: cs => Ok (with_class_stack cs st)
                            end.
  Proof.
    intros fl c st Hk. unfold_step Hk. reflexivity.
  Qed.

End WithParams.
