(* Proofs/NoCrashFacts.v -- property C05, aggregator part: a command sequence whose
   function/macro and class blocks are balanced (it is the flattening of a well-nested node
   list) and whose block headers carry a name is processed to completion: the one-pass
   specification never returns None, hence (AggInv.crash_iff_spec_none) the aggregator never
   crashes.  Proved on the specification side only. *)
From Coq Require Import String List NArith Bool Arith Lia.
From CMinx Require Import Base.Str Model.Lexer Model.Parser Model.Writer Model.DocTypes
     Model.Aggregator Spec.EntrySpec Spec.AggSpec Proofs.AggInv.
Import ListNotations.

(* ---- spec ---- *)

Definition has_single (c : cmd) : bool :=
  match singles c with [] => false | _ :: _ => true end.

(* every function()/macro() header and every cpp_class() header has at least one single
   argument (the name) *)
Fixpoint hdr_named (n : node) : bool :=
  match n with
  | NCmd _ _ => true
  | NDangling _ => true
  | NDef _ hdr body _ =>
      has_single hdr
      && (fix all (l : list node) : bool :=
            match l with [] => true | x :: r => hdr_named x && all r end) body
  | NClass _ hdr body _ =>
      has_single hdr
      && (fix all (l : list node) : bool :=
            match l with [] => true | x :: r => hdr_named x && all r end) body
  end.
Definition hdrs_named (l : list node) : bool := forallb hdr_named l.

(* one element of the specification pass *)
Definition spec_elem1 (st : sstate) (e : element) : option (list (ekind * str) * sstate) :=
  match e with
  | EDangling _ => Some ([], st)
  | EDocCmd _ c => spec_step st true c
  | ECmd c => spec_step st false c
  end.

(* the pass gets through es from st, adding the keys ks and ending in st', whatever follows *)
Definition passes (st : sstate) (es : list element) (ks : list (ekind * str)) (st' : sstate) : Prop :=
  forall rest, spec_run st (es ++ rest) = option_map (app ks) (spec_run st' rest).

(* ---- unquote never fails ---- *)

Theorem unquote_total : forall v, unquote v <> None.
Proof.
  intros v. unfold unquote. destruct v as [|a r]; [discriminate|].
  destruct (a =? 34)%N; [|discriminate].
  destruct (last_opt r) as [z|]; [|discriminate].
  destruct (z =? 34)%N; discriminate.
Qed.

(* ---- structure lemmas ---- *)

Lemma flatten_def : forall doc hdr body endc,
  flatten (NDef doc hdr body endc) = elem_of doc hdr :: flatten_all body ++ [ECmd endc].
Proof. reflexivity. Qed.
Lemma flatten_class : forall doc hdr body endc,
  flatten (NClass doc hdr body endc) = elem_of doc hdr :: flatten_all body ++ [ECmd endc].
Proof. reflexivity. Qed.
Lemma wf_node_def : forall doc hdr body endc,
  wf_node (NDef doc hdr body endc) = is_def_cmd hdr && is_end_def_cmd endc && wf_nodes body.
Proof. reflexivity. Qed.
Lemma wf_node_class : forall doc hdr body endc,
  wf_node (NClass doc hdr body endc) = is_class_cmd hdr && is_end_class_cmd endc && wf_nodes body.
Proof. reflexivity. Qed.
Lemma hdr_named_def : forall doc hdr body endc,
  hdr_named (NDef doc hdr body endc) = has_single hdr && hdrs_named body.
Proof. reflexivity. Qed.
Lemma hdr_named_class : forall doc hdr body endc,
  hdr_named (NClass doc hdr body endc) = has_single hdr && hdrs_named body.
Proof. reflexivity. Qed.

Section node_ind_nested.
  Variable P : node -> Prop.
  Variable Q : list node -> Prop.
  Hypothesis HCmd : forall doc c, P (NCmd doc c).
  Hypothesis HDangling : forall d, P (NDangling d).
  Hypothesis HDef : forall doc hdr body endc, Q body -> P (NDef doc hdr body endc).
  Hypothesis HClass : forall doc hdr body endc, Q body -> P (NClass doc hdr body endc).
  Hypothesis HNil : Q [].
  Hypothesis HCons : forall x r, P x -> Q r -> Q (x :: r).

  Fixpoint node_ind_nested (n : node) : P n :=
    match n with
    | NCmd doc c => HCmd doc c
    | NDangling d => HDangling d
    | NDef doc hdr body endc =>
        HDef doc hdr body endc
             ((fix go (l : list node) : Q l :=
                 match l with [] => HNil | x :: r => HCons x r (node_ind_nested x) (go r) end) body)
    | NClass doc hdr body endc =>
        HClass doc hdr body endc
               ((fix go (l : list node) : Q l :=
                   match l with [] => HNil | x :: r => HCons x r (node_ind_nested x) (go r) end) body)
    end.

  Lemma nodes_ind_nested : forall l, Q l.
  Proof.
    intro l. induction l as [|x r IH]; [exact HNil|apply HCons; [apply node_ind_nested|exact IH]].
  Qed.
End node_ind_nested.

(* ---- the pass, compositionally ---- *)

Lemma spec_run_cons : forall st e r,
  spec_run st (e :: r)
  = match spec_elem1 st e with
    | Some (ks, st') => option_map (app ks) (spec_run st' r)
    | None => None
    end.
Proof.
  intros st e r. destruct e as [d c|c|d]; cbn [spec_run spec_elem1]; try reflexivity.
  destruct (spec_run st r); reflexivity.
Qed.

Lemma option_map_app_app : forall (k1 k2 : list (ekind * str)) x,
  option_map (app k1) (option_map (app k2) x) = option_map (app (k1 ++ k2)) x.
Proof. intros k1 k2 x. destruct x as [l|]; cbn [option_map]; [rewrite app_assoc|]; reflexivity. Qed.

Lemma passes_nil : forall st, passes st [] [] st.
Proof. intros st rest. cbn [app]. destruct (spec_run st rest); reflexivity. Qed.

Lemma passes_single : forall st e ks st', spec_elem1 st e = Some (ks, st') -> passes st [e] ks st'.
Proof. intros st e ks st' H rest. cbn [app]. rewrite spec_run_cons, H. reflexivity. Qed.

Lemma passes_app : forall st a k1 st1 b k2 st2,
  passes st a k1 st1 -> passes st1 b k2 st2 -> passes st (a ++ b) (k1 ++ k2) st2.
Proof.
  intros st a k1 st1 b k2 st2 H1 H2 rest.
  rewrite <- app_assoc, H1, H2. apply option_map_app_app.
Qed.

Lemma spec_elem1_elem_of : forall st doc c,
  spec_elem1 st (elem_of doc c) = spec_step st (match doc with Some _ => true | None => false end) c.
Proof. intros st doc c. destruct doc; reflexivity. Qed.

(* ---- spec_step on the block commands ---- *)

Lemma kind_is_eq : forall c k, kind_is c k = true -> cmd_kind c = k.
Proof. intros c k H. unfold kind_is in H. apply AggInv.str_eqb_eq. exact H. Qed.

Lemma spec_step_def : forall st docd c, is_def_cmd c = true ->
  spec_step st docd c
  = if pending st && negb docd
    then Some ([], {| pending := false; depth := depth st; defs := S (defs st) |})
    else match singles c with
         | [] => None
         | n :: _ => Some ([(if str_eqb (cmd_kind c) (s"macro") then KMacro else KFunction, n)],
                           {| pending := false; depth := depth st; defs := S (defs st) |})
         end.
Proof.
  intros st docd c H. unfold is_def_cmd in H. apply orb_true_iff in H.
  unfold spec_step. destruct H as [H|H]; apply kind_is_eq in H; rewrite H; reflexivity.
Qed.

Lemma spec_step_end_def : forall st docd c, is_end_def_cmd c = true ->
  spec_step st docd c
  = match defs st with
    | O => None
    | S d => Some (if docd then [(KGeneric, cmd_kind c)] else [],
                   {| pending := pending st; depth := depth st; defs := d |})
    end.
Proof.
  intros st docd c H. unfold is_end_def_cmd in H. apply orb_true_iff in H.
  unfold spec_step. destruct H as [H|H]; apply kind_is_eq in H; rewrite H; reflexivity.
Qed.

Lemma spec_step_class : forall st docd c, is_class_cmd c = true ->
  spec_step st docd c
  = match singles c with
    | [] => Some ([], st)
    | n :: _ => Some ([(KClass, n)],
                      {| pending := pending st; depth := S (depth st); defs := defs st |})
    end.
Proof.
  intros st docd c H. unfold is_class_cmd in H. apply kind_is_eq in H.
  unfold spec_step. rewrite H. reflexivity.
Qed.

Lemma spec_step_end_class : forall st docd c, is_end_class_cmd c = true ->
  spec_step st docd c
  = match depth st with
    | O => None
    | S d => Some (if docd then [(KGeneric, cmd_kind c)] else [],
                   {| pending := pending st; depth := d; defs := defs st |})
    end.
Proof.
  intros st docd c H. unfold is_end_class_cmd in H. apply kind_is_eq in H.
  unfold spec_step. rewrite H. reflexivity.
Qed.

(* any command that opens or closes no block: never None, depth and defs unchanged *)
Ltac step_done := do 2 eexists; split; [reflexivity|split; reflexivity].

Lemma spec_step_plain : forall st docd c,
  is_def_cmd c = false -> is_end_def_cmd c = false ->
  is_class_cmd c = false -> is_end_class_cmd c = false ->
  exists ks st', spec_step st docd c = Some (ks, st')
                 /\ depth st' = depth st /\ defs st' = defs st.
Proof.
  intros st docd c H1 H2 H3 H4.
  unfold is_def_cmd, is_end_def_cmd, is_class_cmd, is_end_class_cmd, kind_is in H1, H2, H3, H4.
  unfold spec_step. generalize dependent (cmd_kind c). intros k H1 H2 H3 H4.
  cbv zeta. rewrite H1, H2, H4, H3.
  destruct (str_eqb k (s"ct_add_test") || str_eqb k (s"ct_add_section")).
  { destruct (test_name c); step_done. }
  destruct (str_eqb k (s"add_test")).
  { destruct (test_name c); step_done. }
  destruct (str_eqb k (s"option")).
  { destruct (Nat.leb 2 (nargs c) && Nat.leb (nargs c) 3); step_done. }
  destruct (str_eqb k (s"cpp_member") || str_eqb k (s"cpp_constructor")).
  { destruct (Nat.leb 2 (nargs c) && negb (Nat.eqb (depth st) 0)); step_done. }
  destruct (str_eqb k (s"cpp_attr") || str_eqb k (s"cmake_parse_arguments")).
  { step_done. }
  destruct (str_eqb k (s"set")).
  { destruct docd; [|step_done].
    destruct (singles c) as [|n [|v [|w r]]]; try step_done.
    destruct (unquote v) eqn:E; [step_done|]. exfalso. exact (unquote_total v E). }
  destruct docd; step_done.
Qed.

(* ================================================================== *)
(* N1: a balanced sequence runs through                                *)
(* ================================================================== *)

Theorem spec_run_balanced_gen : forall nodes,
  wf_nodes nodes = true -> hdrs_named nodes = true ->
  forall st, exists ks st',
    depth st' = depth st /\ defs st' = defs st
    /\ forall rest, spec_run st (flatten_all nodes ++ rest) = option_map (app ks) (spec_run st' rest).
Proof.
  apply (nodes_ind_nested
    (fun n => wf_node n = true -> hdr_named n = true ->
              forall st, exists ks st', depth st' = depth st /\ defs st' = defs st
                                        /\ passes st (flatten n) ks st')
    (fun l => wf_nodes l = true -> hdrs_named l = true ->
              forall st, exists ks st', depth st' = depth st /\ defs st' = defs st
                                        /\ passes st (flatten_all l) ks st')).
  - (* NCmd *)
    intros doc c Hwf _ st. cbn [wf_node] in Hwf.
    apply andb_true_iff in Hwf. destruct Hwf as [Hwf W4].
    apply andb_true_iff in Hwf. destruct Hwf as [Hwf W3].
    apply andb_true_iff in Hwf. destruct Hwf as [W1 W2].
    apply negb_true_iff in W1, W2, W3, W4.
    destruct (spec_step_plain st (match doc with Some _ => true | None => false end) c W1 W2 W3 W4)
      as [ks [st' [Hs [Hd Hf]]]].
    exists ks, st'. split; [exact Hd|]. split; [exact Hf|].
    cbn [flatten]. apply passes_single. rewrite spec_elem1_elem_of. exact Hs.
  - (* NDangling *)
    intros d _ _ st. exists [], st. split; [reflexivity|]. split; [reflexivity|].
    cbn [flatten]. apply passes_single. reflexivity.
  - (* NDef *)
    intros doc hdr body endc IH Hwf Hn st.
    rewrite wf_node_def in Hwf. apply andb_true_iff in Hwf. destruct Hwf as [Hwf Wb].
    apply andb_true_iff in Hwf. destruct Hwf as [Wh We].
    rewrite hdr_named_def in Hn. apply andb_true_iff in Hn. destruct Hn as [Nh Nb].
    (* header *)
    assert (Hh : exists k1 st1, spec_elem1 st (elem_of doc hdr) = Some (k1, st1)
                                /\ depth st1 = depth st /\ defs st1 = S (defs st)).
    { rewrite spec_elem1_elem_of, (spec_step_def _ _ _ Wh).
      destruct (pending st && negb (match doc with Some _ => true | None => false end)).
      - do 2 eexists. split; [reflexivity|split; reflexivity].
      - unfold has_single in Nh. destruct (singles hdr) as [|n r]; [discriminate Nh|].
        do 2 eexists. split; [reflexivity|split; reflexivity]. }
    destruct Hh as [k1 [st1 [E1 [D1 F1]]]].
    destruct (IH Wb Nb st1) as [k2 [st2 [D2 [F2 P2]]]].
    assert (E3 : spec_elem1 st2 (ECmd endc)
                 = Some ([], {| pending := pending st2; depth := depth st2; defs := defs st |})).
    { cbn [spec_elem1]. rewrite (spec_step_end_def _ _ _ We), F2, F1. reflexivity. }
    exists (k1 ++ k2 ++ []), {| pending := pending st2; depth := depth st2; defs := defs st |}.
    split; [cbn [depth]; congruence|]. split; [reflexivity|].
    rewrite flatten_def. change (elem_of doc hdr :: flatten_all body ++ [ECmd endc])
      with ([elem_of doc hdr] ++ flatten_all body ++ [ECmd endc]).
    eapply passes_app; [apply passes_single; exact E1|].
    eapply passes_app; [exact P2|]. apply passes_single. exact E3.
  - (* NClass *)
    intros doc hdr body endc IH Hwf Hn st.
    rewrite wf_node_class in Hwf. apply andb_true_iff in Hwf. destruct Hwf as [Hwf Wb].
    apply andb_true_iff in Hwf. destruct Hwf as [Wh We].
    rewrite hdr_named_class in Hn. apply andb_true_iff in Hn. destruct Hn as [Nh Nb].
    assert (Hh : exists k1 st1, spec_elem1 st (elem_of doc hdr) = Some (k1, st1)
                                /\ depth st1 = S (depth st) /\ defs st1 = defs st).
    { rewrite spec_elem1_elem_of, (spec_step_class _ _ _ Wh).
      unfold has_single in Nh. destruct (singles hdr) as [|n r]; [discriminate Nh|].
      do 2 eexists. split; [reflexivity|split; reflexivity]. }
    destruct Hh as [k1 [st1 [E1 [D1 F1]]]].
    destruct (IH Wb Nb st1) as [k2 [st2 [D2 [F2 P2]]]].
    assert (E3 : spec_elem1 st2 (ECmd endc)
                 = Some ([], {| pending := pending st2; depth := depth st; defs := defs st2 |})).
    { cbn [spec_elem1]. rewrite (spec_step_end_class _ _ _ We), D2, D1. reflexivity. }
    exists (k1 ++ k2 ++ []), {| pending := pending st2; depth := depth st; defs := defs st2 |}.
    split; [reflexivity|]. split; [cbn [defs]; congruence|].
    rewrite flatten_class. change (elem_of doc hdr :: flatten_all body ++ [ECmd endc])
      with ([elem_of doc hdr] ++ flatten_all body ++ [ECmd endc]).
    eapply passes_app; [apply passes_single; exact E1|].
    eapply passes_app; [exact P2|]. apply passes_single. exact E3.
  - (* [] *)
    intros _ _ st. exists [], st. split; [reflexivity|]. split; [reflexivity|]. apply passes_nil.
  - (* x :: r *)
    intros x r IHx IHr Hwf Hn st.
    unfold wf_nodes in Hwf. cbn [forallb] in Hwf. apply andb_true_iff in Hwf.
    destruct Hwf as [Wx Wr].
    unfold hdrs_named in Hn. cbn [forallb] in Hn. apply andb_true_iff in Hn.
    destruct Hn as [Nx Nr].
    destruct (IHx Wx Nx st) as [k1 [st1 [D1 [F1 P1]]]].
    destruct (IHr Wr Nr st1) as [k2 [st2 [D2 [F2 P2]]]].
    exists (k1 ++ k2), st2. split; [congruence|]. split; [congruence|].
    change (flatten_all (x :: r)) with (flatten x ++ flatten_all r).
    eapply passes_app; eassumption.
Qed.

Theorem spec_run_balanced : forall nodes st,
  wf_nodes nodes = true -> hdrs_named nodes = true ->
  spec_run st (flatten_all nodes) <> None.
Proof.
  intros nodes st Hwf Hn.
  destruct (spec_run_balanced_gen nodes Hwf Hn st) as [ks [st' [_ [_ H]]]].
  specialize (H []). rewrite app_nil_r in H. rewrite H. cbn [spec_run option_map]. discriminate.
Qed.

(* ================================================================== *)
(* N2: the aggregator does not crash on a balanced file                *)
(* ================================================================== *)

Theorem balanced_file_never_crashes : forall trigger sf sm sme f nodes,
  f_elems f = flatten_all nodes -> wf_nodes nodes = true -> hdrs_named nodes = true ->
  aggregate default_flags trigger sf sm sme f <> Crash.
Proof.
  intros trigger sf sm sme f nodes Hf Hwf Hn Hc.
  apply crash_iff_spec_none in Hc. unfold expected_keys in Hc. rewrite Hf in Hc.
  destruct (spec_run {| pending := false; depth := 0; defs := 0 |} (flatten_all nodes)) eqn:E.
  - discriminate Hc.
  - exact (spec_run_balanced nodes _ Hwf Hn E).
Qed.

(* ================================================================== *)
(* N3: non-vacuity, and the hypotheses are needed                      *)
(* ================================================================== *)

Module NoCrashExamples.
  Import AggInv.Examples.
  Open Scope string_scope.

  (* a documented class with a member implemented by an undocumented function, a nested
     function with a documented endfunction, a documented set with one quoted value, a
     dangling doccomment *)
  Definition nodes1 : list node :=
    [ NClass (Some dtext) (mk "cpp_class" ["A"])
        [ NCmd (Some dtext) (mk "cpp_member" ["m"; "A"; "int"]);
          NDef None (mk "function" ["x"; "self"])
            [ NCmd None (mk "cmake_parse_arguments" []);
              NDef (Some dtext) (mk "MACRO" ["inner"]) [NDangling dtext] (mk "endmacro" []) ]
            (mk "endfunction" []) ]
        (mk "cpp_end_class" []);
      NCmd (Some dtext) {| c_name := s"set"; c_args := [ASingle TIdent (s"v"); ASingle TQuoted [dq]] |};
      NDangling dtext;
      NCmd None (mk "message" ["hi"]) ].

  Example balanced_hyps_satisfiable :
    wf_nodes nodes1 = true /\ hdrs_named nodes1 = true
    /\ length (flatten_all nodes1) = 12
    /\ keys_of (agr {| f_module := None; f_elems := flatten_all nodes1 |})
       = Some [(KClass, s"A"); (KMacro, s"inner"); (KVariable, s"v")].
  Proof. vm_compute. repeat split. Qed.

  (* without balance, or without a name on a header, the aggregator does crash *)
  Example unbalanced_or_unnamed_crash :
    agr {| f_module := None; f_elems := [U "endfunction" []] |} = Crash
    /\ agr {| f_module := None; f_elems := [U "function" []; U "endfunction" []] |} = Crash
    /\ agr {| f_module := None; f_elems := [U "cpp_class" []; U "cpp_end_class" []] |} = Crash
    /\ agr {| f_module := None; f_elems := [U "cpp_class" ["A"]; U "endfunction" []; U "cpp_end_class" []] |}
       = Crash.
  Proof. vm_compute. repeat split. Qed.

  (* the second and third are flattenings of well-nested node lists: hdrs_named is needed *)
  Example unnamed_is_well_nested :
    let n2 := [NDef None (mk "function" []) [] (mk "endfunction" [])] in
    let n3 := [NClass None (mk "cpp_class" []) [] (mk "cpp_end_class" [])] in
    wf_nodes n2 = true /\ flatten_all n2 = [U "function" []; U "endfunction" []]
    /\ hdrs_named n2 = false
    /\ wf_nodes n3 = true /\ flatten_all n3 = [U "cpp_class" []; U "cpp_end_class" []]
    /\ hdrs_named n3 = false.
  Proof. vm_compute. repeat split. Qed.
End NoCrashExamples.

(* ==== MAIN THEOREMS ====
   unquote_total
   spec_run_balanced_gen, spec_run_balanced        (N1)
   balanced_file_never_crashes                      (N2)
   NoCrashExamples.balanced_hyps_satisfiable, NoCrashExamples.unbalanced_or_unnamed_crash,
   NoCrashExamples.unnamed_is_well_nested           (N3) *)
Print Assumptions unquote_total.
Print Assumptions spec_run_balanced_gen.
Print Assumptions spec_run_balanced.
Print Assumptions balanced_file_never_crashes.
Print Assumptions NoCrashExamples.balanced_hyps_satisfiable.
Print Assumptions NoCrashExamples.unbalanced_or_unnamed_crash.
Print Assumptions NoCrashExamples.unnamed_is_well_nested.
