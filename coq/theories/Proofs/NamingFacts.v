(* Proofs/NamingFacts.v -- lemmas; see DESIGN.md section 7 *)
