(* Proofs/NamingFacts.v -- property C12: title and module name of a page, the @module rules,
   the head of a rendered page; and the two path facts used for C12/C17. *)
From Coq Require Import String List NArith Bool Arith Lia.
From CMinx Require Import Base.Str Model.Writer Model.DocTypes Model.Pipeline Model.Naming
     Model.Path.
Import ListNotations.

(* ---- spec ---- *)

(* the page name built from an optional prefix, with the extension kept or dropped *)
Definition expected_name (prefix : option str) (sep stem : str) (keep_ext : bool) : str :=
  (match prefix with Some p => p ++ sep | None => [] end)
  ++ stem ++ (if keep_ext then cmake_ext else []).

Definition starts_with_module (docs : list entry) : bool :=
  match docs with EModule _ _ :: _ => true | _ => false end.

(* a path component: non-empty and without a slash *)
Definition comp_ok (c : str) : bool := negb (str_eqb c []) && negb (mem slash c).

(* an absolute path given by its components *)
Definition abs_of (comps : list str) : str := [slash] ++ join [slash] comps.

(* ---- helpers ---- *)

Lemma str_eqb_refl : forall a, str_eqb a a = true.
Proof. induction a as [|x a IH]; [reflexivity|]. cbn [str_eqb]. rewrite N.eqb_refl. exact IH. Qed.

Lemma str_eqb_eq : forall a b, str_eqb a b = true -> a = b.
Proof.
  induction a as [|x a IH]; intros [|y b] H; try discriminate H; [reflexivity|].
  cbn [str_eqb] in H. apply andb_prop in H. destruct H as [H1 H2].
  apply N.eqb_eq in H1. subst y. f_equal. apply IH. exact H2.
Qed.

Lemma startswith_app : forall p x, startswith p (p ++ x) = true.
Proof.
  induction p as [|a p IH]; intros x; [reflexivity|].
  cbn [app startswith]. rewrite N.eqb_refl. apply IH.
Qed.

Lemma endswith_app : forall e x, endswith e (x ++ e) = true.
Proof. intros e x. unfold endswith. rewrite rev_app_distr. apply startswith_app. Qed.

Lemma firstn_app_exact : forall (A : Type) (x y : list A), firstn (length x) (x ++ y) = x.
Proof.
  intros A x y. induction x as [|a x IH]; [reflexivity|].
  cbn [length app firstn]. rewrite IH. reflexivity.
Qed.

Lemma last_opt_app1 : forall (A : Type) (l : list A) (x : A), last_opt (l ++ [x]) = Some x.
Proof.
  intros A l x. induction l as [|a l IH]; [reflexivity|].
  cbn [app last_opt]. destruct (l ++ [x]) eqn:E.
  - destruct l; discriminate E.
  - exact IH.
Qed.

(* ---- P1: the extension strip ---- *)

Theorem strip_cmake_ext_app : forall x, strip_cmake_ext (x ++ cmake_ext) = x.
Proof.
  intros x. unfold strip_cmake_ext. rewrite endswith_app.
  rewrite app_length, Nat.add_sub. apply firstn_app_exact.
Qed.

Theorem strip_cmake_ext_other : forall x, endswith cmake_ext x = false -> strip_cmake_ext x = x.
Proof. intros x H. unfold strip_cmake_ext. rewrite H. reflexivity. Qed.

(* ---- P2: names from prefix, separator and relative name ---- *)

Theorem names_from_prefix : forall (p sep : str) (et em : bool) (stem : str),
  str_eqb (stem ++ cmake_ext) sep = false ->
  header_and_module (Some p) sep et em (stem ++ cmake_ext)
  = (p ++ sep ++ stem ++ (if et then cmake_ext else []),
     p ++ sep ++ stem ++ (if em then cmake_ext else [])).
Proof.
  intros p sep et em stem H. unfold header_and_module, prefixed. rewrite H.
  assert (E : strip_cmake_ext (p ++ sep ++ stem ++ cmake_ext) = p ++ sep ++ stem ++ []).
  { rewrite app_nil_r. rewrite !app_assoc. rewrite strip_cmake_ext_app. reflexivity. }
  destruct et, em; rewrite ?E; reflexivity.
Qed.

Theorem names_without_prefix : forall (sep : str) (et em : bool) (stem : str),
  header_and_module None sep et em (stem ++ cmake_ext)
  = (stem ++ (if et then cmake_ext else []), stem ++ (if em then cmake_ext else [])).
Proof.
  intros sep et em stem. unfold header_and_module, prefixed.
  rewrite strip_cmake_ext_app. destruct et, em; rewrite ?app_nil_r; reflexivity.
Qed.

(* both cases in one statement *)
Theorem names_expected : forall (pfx : option str) (sep : str) (et em : bool) (stem : str),
  str_eqb (stem ++ cmake_ext) sep = false ->
  header_and_module pfx sep et em (stem ++ cmake_ext)
  = (expected_name pfx sep stem et, expected_name pfx sep stem em).
Proof.
  intros [p|] sep et em stem H; unfold expected_name.
  - rewrite (names_from_prefix p sep et em stem H). rewrite <- !app_assoc. reflexivity.
  - apply names_without_prefix.
Qed.

(* the extension is dropped iff the respective flag is false, independently *)
Theorem extension_dropped_iff : forall (p sep : str) (et em : bool) (stem : str),
  str_eqb (stem ++ cmake_ext) sep = false ->
  fst (header_and_module (Some p) sep et em (stem ++ cmake_ext))
    = (if et then p ++ sep ++ stem ++ cmake_ext else p ++ sep ++ stem)
  /\ snd (header_and_module (Some p) sep et em (stem ++ cmake_ext))
    = (if em then p ++ sep ++ stem ++ cmake_ext else p ++ sep ++ stem).
Proof.
  intros p sep et em stem H. rewrite (names_from_prefix p sep et em stem H).
  cbn [fst snd]. destruct et, em; rewrite ?app_nil_r; split; reflexivity.
Qed.

(* any relative name: with both flags set nothing is stripped *)
Theorem names_keep_ext : forall (p sep name : str),
  str_eqb name sep = false ->
  header_and_module (Some p) sep true true name = (p ++ sep ++ name, p ++ sep ++ name).
Proof. intros p sep name H. unfold header_and_module, prefixed. rewrite H. reflexivity. Qed.

Example names_from_prefix_nonvacuous :
  str_eqb (s"sub/a" ++ cmake_ext) (s".") = false
  /\ header_and_module (Some (s"proj")) (s".") false true (s"sub/a.cmake")
     = (s"proj.sub/a", s"proj.sub/a.cmake").
Proof. vm_compute. split; reflexivity. Qed.

(* ---- P3 ---- *)

Theorem names_start_with_prefix : forall (p sep : str) (et em : bool) (stem : str),
  str_eqb (stem ++ cmake_ext) sep = false ->
  startswith (p ++ sep) (fst (header_and_module (Some p) sep et em (stem ++ cmake_ext))) = true
  /\ startswith (p ++ sep) (snd (header_and_module (Some p) sep et em (stem ++ cmake_ext))) = true.
Proof.
  intros p sep et em stem H. rewrite (names_from_prefix p sep et em stem H). cbn [fst snd].
  rewrite !(app_assoc p sep). split; apply startswith_app.
Qed.

(* ---- P4: different files get different names ---- *)

Lemma expected_name_inj : forall pfx sep k s1 s2,
  expected_name pfx sep s1 k = expected_name pfx sep s2 k -> s1 = s2.
Proof.
  intros pfx sep k s1 s2 H. unfold expected_name in H.
  apply app_inv_head in H. apply app_inv_tail in H. exact H.
Qed.

Theorem title_injective : forall (pfx : option str) (sep : str) (et em : bool) (s1 s2 : str),
  str_eqb (s1 ++ cmake_ext) sep = false -> str_eqb (s2 ++ cmake_ext) sep = false ->
  fst (header_and_module pfx sep et em (s1 ++ cmake_ext))
  = fst (header_and_module pfx sep et em (s2 ++ cmake_ext)) ->
  s1 ++ cmake_ext = s2 ++ cmake_ext.
Proof.
  intros pfx sep et em s1 s2 H1 H2 H.
  rewrite (names_expected pfx sep et em s1 H1), (names_expected pfx sep et em s2 H2) in H.
  cbn [fst] in H. rewrite (expected_name_inj _ _ _ _ _ H). reflexivity.
Qed.

Theorem module_name_injective : forall (pfx : option str) (sep : str) (et em : bool) (s1 s2 : str),
  str_eqb (s1 ++ cmake_ext) sep = false -> str_eqb (s2 ++ cmake_ext) sep = false ->
  snd (header_and_module pfx sep et em (s1 ++ cmake_ext))
  = snd (header_and_module pfx sep et em (s2 ++ cmake_ext)) ->
  s1 ++ cmake_ext = s2 ++ cmake_ext.
Proof.
  intros pfx sep et em s1 s2 H1 H2 H.
  rewrite (names_expected pfx sep et em s1 H1), (names_expected pfx sep et em s2 H2) in H.
  cbn [snd] in H. rewrite (expected_name_inj _ _ _ _ _ H). reflexivity.
Qed.

Theorem names_injective : forall (pfx : option str) (sep : str) (et em : bool) (s1 s2 : str),
  str_eqb (s1 ++ cmake_ext) sep = false -> str_eqb (s2 ++ cmake_ext) sep = false ->
  header_and_module pfx sep et em (s1 ++ cmake_ext)
  = header_and_module pfx sep et em (s2 ++ cmake_ext) ->
  s1 ++ cmake_ext = s2 ++ cmake_ext.
Proof.
  intros pfx sep et em s1 s2 H1 H2 H.
  apply (title_injective pfx sep et em s1 s2 H1 H2). rewrite H. reflexivity.
Qed.

Example names_injective_nonvacuous :
  str_eqb (s"a/x" ++ cmake_ext) (s".") = false /\ str_eqb (s"a/y" ++ cmake_ext) (s".") = false
  /\ header_and_module (Some (s"p")) (s".") false false (s"a/x" ++ cmake_ext) = (s"p.a/x", s"p.a/x")
  /\ header_and_module (Some (s"p")) (s".") false false (s"a/y" ++ cmake_ext) = (s"p.a/y", s"p.a/y").
Proof. vm_compute. repeat split. Qed.

(* F16: is_cmake_name is case-insensitive, the strip is case-sensitive: two accepted files
   with the same title.  This is why both names must end in the lower-case extension. *)
Example F16_case_collision_refuted :
  is_cmake_name (s"x.CMAKE") = true /\ is_cmake_name (s"x.CMAKE.cmake") = true
  /\ s"x.CMAKE" <> s"x.CMAKE.cmake"
  /\ fst (header_and_module None (s".") false false (s"x.CMAKE"))
     = fst (header_and_module None (s".") false false (s"x.CMAKE.cmake"))
  /\ header_and_module (Some (s"p")) (s".") false false (s"x.CMAKE")
     = header_and_module (Some (s"p")) (s".") false false (s"x.CMAKE.cmake").
Proof. vm_compute. repeat split. discriminate. Qed.

(* ---- P5: the @module rules ---- *)

Theorem finalize_named_module : forall title m name doc rest,
  name <> [] ->
  finalize title m (EModule name doc :: rest) = (name, EModule name doc :: rest).
Proof. intros title m [|a name] doc rest H; [contradiction H; reflexivity|reflexivity]. Qed.

Theorem finalize_unnamed_module : forall title m doc rest,
  finalize title m (EModule [] doc :: rest) = (title, EModule m doc :: rest).
Proof. reflexivity. Qed.

Theorem finalize_no_module : forall title m docs,
  starts_with_module docs = false ->
  finalize title m docs = (title, EModule m [] :: docs).
Proof.
  intros title m [|e docs] H; [reflexivity|]. destruct e; try reflexivity. discriminate H.
Qed.

Theorem finalize_spec : forall title m docs,
  finalize title m docs =
  match docs with
  | EModule name doc :: rest =>
      if str_eqb name [] then (title, EModule m doc :: rest) else (name, EModule name doc :: rest)
  | _ => (title, EModule m [] :: docs)
  end.
Proof.
  intros title m [|e docs]; [reflexivity|]. destruct e; try reflexivity.
  destruct name; reflexivity.
Qed.

(* the entry list always starts with exactly the module entry, the rest is unchanged *)
Theorem finalize_head : forall title m docs,
  exists n d, snd (finalize title m docs)
              = EModule n d :: (if starts_with_module docs then tl docs else docs).
Proof.
  intros title m [|e docs]; [exists m, []; reflexivity|].
  destruct e; try (exists m, []; reflexivity).
  destruct name as [|a name]; [exists m, doc|exists (a :: name), doc]; reflexivity.
Qed.

Theorem render_module_entry : forall n doc, doc <> [] ->
  render_entry (EModule n doc) = Dir (s"module") [n] [] [Para doc].
Proof. intros n [|a doc] H; [contradiction H; reflexivity|reflexivity]. Qed.

Theorem render_module_entry_empty : forall n,
  render_entry (EModule n []) = Dir (s"module") [n] [] [].
Proof. reflexivity. Qed.

(* ---- P6: the head of a page ---- *)

Lemma repeat_str_single : forall n c, repeat_str n [c] = repeat c n.
Proof. induction n as [|n IH]; intros c; [reflexivity|]. cbn [repeat_str repeat app]. rewrite IH. reflexivity. Qed.

Theorem heading_text_single : forall c t,
  heading_text [c] t
  = [nl] ++ repeat c (length t) ++ [nl] ++ t ++ [nl] ++ repeat c (length t).
Proof. intros c t. unfold heading_text. rewrite repeat_str_single. reflexivity. Qed.

Theorem page_head : forall hdrs title m docs t n d rest,
  finalize title m docs = (t, EModule n d :: rest) ->
  render_page hdrs title m docs
  = heading_text (nth 0 hdrs []) t ++ [nl]
    ++ elem_text hdrs 0 0 (render_entry (EModule n d)) ++ [nl]
    ++ body_text hdrs 0 0 (map render_entry rest).
Proof.
  intros hdrs title m docs t n d rest H. unfold render_page. rewrite H.
  unfold doc_text, header_char, body_text. cbn [map concat].
  rewrite <- !app_assoc. reflexivity.
Qed.

(* the finalize premise of page_head always has a solution *)
Theorem page_head_exists : forall title m docs,
  exists t n d rest, finalize title m docs = (t, EModule n d :: rest).
Proof.
  intros title m docs. destruct (finalize_head title m docs) as [n [d H]].
  exists (fst (finalize title m docs)), n, d,
         (if starts_with_module docs then tl docs else docs).
  rewrite <- H. destruct (finalize title m docs); reflexivity.
Qed.

(* the module directive line itself *)
Theorem module_directive_text : forall hdrs n,
  elem_text hdrs 0 0 (render_entry (EModule n []))
  = [nl] ++ s".. module:: " ++ n ++ [nl].
Proof. intros hdrs n. cbn. reflexivity. Qed.

Example page_head_example :
  render_page [s"#"; s"*"] (s"ttl") (s"mod") [EModule (s"nm") (s"text"); EFunction false (s"f") (s"d") [] false]
  = [nl] ++ s"##" ++ [nl] ++ s"nm" ++ [nl] ++ s"##" ++ [nl]
    ++ [nl] ++ s".. module:: nm" ++ [nl] ++ [nl] ++ s"   text" ++ [nl] ++ [nl]
    ++ [nl] ++ s".. function:: f()" ++ [nl] ++ [nl] ++ s"   d" ++ [nl] ++ [nl].
Proof. vm_compute. reflexivity. Qed.

(* ---- P7: paths ---- *)

Lemma split_on_nonempty : forall c x, split_on c x <> [].
Proof.
  intros c x. destruct x as [|a r]; cbn [split_on]; [discriminate|].
  destruct (a =? c)%N; [discriminate|]. destruct (split_on c r); discriminate.
Qed.

Lemma split_on_app_sep : forall c x y,
  split_on c (x ++ c :: y) = split_on c x ++ split_on c y.
Proof.
  intros c x y. induction x as [|a x IH].
  - cbn [app split_on]. rewrite N.eqb_refl. reflexivity.
  - cbn [app split_on]. destruct (a =? c)%N.
    + rewrite IH. reflexivity.
    + rewrite IH. destruct (split_on c x) as [|h t] eqn:E.
      * exfalso. exact (split_on_nonempty c x E).
      * reflexivity.
Qed.

Lemma mem_false_not_in : forall c x, mem c x = false -> ~ In c x.
Proof.
  intros c x. induction x as [|a x IH]; intros H; [intros []|].
  cbn [mem] in H. apply orb_false_elim in H. destruct H as [H1 H2].
  intros [Hin|Hin]; [subst a; rewrite N.eqb_refl in H1; discriminate H1|exact (IH H2 Hin)].
Qed.

Lemma split_on_free : forall c x, ~ In c x -> split_on c x = [x].
Proof.
  intros c x. induction x as [|a x IH]; intros H; [reflexivity|].
  cbn [split_on]. destruct (N.eqb_spec a c) as [E|E].
  - exfalso. apply H. left. exact E.
  - rewrite IH; [reflexivity|]. intros Hin. apply H. right. exact Hin.
Qed.

Lemma split_on_join : forall c ls,
  ls <> [] -> Forall (fun l => ~ In c l) ls -> split_on c (join [c] ls) = ls.
Proof.
  intros c ls. induction ls as [|l ls IH]; intros Hne HF; [contradiction Hne; reflexivity|].
  inversion HF as [|l' ls' Hl HF']; subst.
  destruct ls as [|l2 ls2].
  - cbn [join]. apply split_on_free. exact Hl.
  - change (join [c] (l :: l2 :: ls2)) with (l ++ [c] ++ join [c] (l2 :: ls2)).
    cbn [app]. rewrite split_on_app_sep. rewrite (split_on_free c l Hl).
    rewrite IH; [reflexivity|discriminate|exact HF'].
Qed.

Lemma endswith_single : forall c d, endswith [c] d = true -> exists d', d = d' ++ [c].
Proof.
  intros c d H. unfold endswith in H. cbn [rev app] in H.
  destruct (rev d) as [|z r] eqn:E; [discriminate H|].
  cbn [startswith] in H. rewrite andb_true_r in H. apply N.eqb_eq in H. subst z.
  exists (rev r). rewrite <- (rev_involutive d), E. reflexivity.
Qed.

Theorem basename_join2 : forall d n,
  n <> [] -> ~ In slash n -> d <> [] -> basename (join2 d n) = n.
Proof.
  intros d n Hn Hs Hd. unfold join2.
  assert (Habs : isabs n = false).
  { destruct n as [|a n']; [reflexivity|]. cbn [isabs].
    destruct (N.eqb_spec a 47) as [E|E]; [|reflexivity].
    exfalso. apply Hs. left. exact E. }
  rewrite Habs. destruct d as [|a d']; [contradiction Hd; reflexivity|].
  unfold basename.
  destruct (endswith [slash] (a :: d')) eqn:E.
  - apply endswith_single in E. destruct E as [d0 E]. rewrite E.
    rewrite <- app_assoc. cbn [app]. rewrite split_on_app_sep, (split_on_free slash n Hs).
    rewrite last_opt_app1. reflexivity.
  - cbn [app]. change (a :: d' ++ slash :: n) with ((a :: d') ++ slash :: n).
    rewrite split_on_app_sep, (split_on_free slash n Hs).
    rewrite last_opt_app1. reflexivity.
Qed.

Example basename_join2_nonvacuous :
  basename (join2 (s"/a/b") (s"c.cmake")) = s"c.cmake"
  /\ basename (join2 (s"/a/b/") (s"c.cmake")) = s"c.cmake".
Proof. vm_compute. split; reflexivity. Qed.

Lemma comp_ok_spec : forall c, comp_ok c = true -> c <> [] /\ ~ In slash c.
Proof.
  intros c H. unfold comp_ok in H. apply andb_prop in H. destruct H as [H1 H2].
  split.
  - intros ->. discriminate H1.
  - apply mem_false_not_in. apply negb_true_iff. exact H2.
Qed.

Lemma forallb_comp_ok_free : forall cs, forallb comp_ok cs = true ->
  Forall (fun l => ~ In slash l) cs.
Proof.
  induction cs as [|c cs IH]; intros H; [constructor|].
  cbn [forallb] in H. apply andb_prop in H. destruct H as [H1 H2].
  constructor; [exact (proj2 (comp_ok_spec c H1))|exact (IH H2)].
Qed.

Lemma filter_nonempty_ok : forall cs, forallb comp_ok cs = true ->
  filter (fun c => negb (str_eqb c [])) cs = cs.
Proof.
  induction cs as [|c cs IH]; intros H; [reflexivity|].
  cbn [forallb] in H. apply andb_prop in H. destruct H as [H1 H2].
  cbn [filter]. unfold comp_ok in H1. apply andb_prop in H1. destruct H1 as [H1 _].
  rewrite H1, (IH H2). reflexivity.
Qed.

(* the non-empty components of a joined list of good components *)
Lemma filter_split_join : forall cs, forallb comp_ok cs = true ->
  filter (fun c => negb (str_eqb c [])) (split_on slash (join [slash] cs)) = cs.
Proof.
  intros cs H. destruct cs as [|c cs]; [reflexivity|].
  rewrite split_on_join; [apply filter_nonempty_ok; exact H|discriminate|].
  apply forallb_comp_ok_free. exact H.
Qed.

Lemma nonempty_comps_abs : forall cs, forallb comp_ok cs = true ->
  nonempty_comps (abs_of cs) = cs.
Proof.
  intros cs H. unfold nonempty_comps, abs_of. cbn [app].
  change (slash :: join [slash] cs) with ([] ++ slash :: join [slash] cs).
  rewrite split_on_app_sep. cbn [split_on app filter str_eqb negb].
  apply filter_split_join. exact H.
Qed.

Lemma nonempty_comps_child : forall bc rel,
  forallb comp_ok bc = true -> forallb comp_ok rel = true ->
  nonempty_comps (abs_of bc ++ [slash] ++ join [slash] rel) = bc ++ rel.
Proof.
  intros bc rel Hb Hr. unfold nonempty_comps, abs_of. cbn [app].
  change (slash :: join [slash] bc ++ slash :: join [slash] rel)
    with ([] ++ slash :: (join [slash] bc ++ slash :: join [slash] rel)).
  rewrite split_on_app_sep, split_on_app_sep. cbn [split_on app filter str_eqb negb].
  rewrite filter_app, (filter_split_join bc Hb), (filter_split_join rel Hr). reflexivity.
Qed.

Lemma common_prefix_len_app : forall a b, common_prefix_len a (a ++ b) = length a.
Proof.
  induction a as [|x a IH]; intros b; [reflexivity|].
  cbn [app common_prefix_len length]. rewrite str_eqb_refl, IH. reflexivity.
Qed.

Lemma skipn_app_exact : forall (A : Type) (x y : list A), skipn (length x) (x ++ y) = y.
Proof. intros A x y. induction x as [|a x IH]; [reflexivity|]. exact IH. Qed.

(* a file below an absolute base: its path relative to the base is the list of components
   below the base, whatever the base is *)
Theorem relpath_abs_child : forall bc rel,
  forallb comp_ok bc = true -> forallb comp_ok rel = true -> rel <> [] ->
  relpath_abs (abs_of bc ++ [slash] ++ join [slash] rel) (abs_of bc) = join [slash] rel.
Proof.
  intros bc rel Hb Hr Hne. unfold relpath_abs.
  rewrite (nonempty_comps_abs bc Hb), (nonempty_comps_child bc rel Hb Hr).
  rewrite common_prefix_len_app, Nat.sub_diag, skipn_app_exact. cbn [repeat app].
  destruct rel as [|r rel']; [contradiction Hne; reflexivity|reflexivity].
Qed.

(* hence it does not depend on where the tree is located *)
Corollary relpath_location_independent : forall bc1 bc2 rel,
  forallb comp_ok bc1 = true -> forallb comp_ok bc2 = true ->
  forallb comp_ok rel = true -> rel <> [] ->
  relpath_abs (abs_of bc1 ++ [slash] ++ join [slash] rel) (abs_of bc1)
  = relpath_abs (abs_of bc2 ++ [slash] ++ join [slash] rel) (abs_of bc2).
Proof.
  intros bc1 bc2 rel H1 H2 Hr Hne.
  rewrite (relpath_abs_child bc1 rel H1 Hr Hne), (relpath_abs_child bc2 rel H2 Hr Hne).
  reflexivity.
Qed.

Example relpath_abs_child_nonvacuous :
  forallb comp_ok [s"home"; s"u"; s"proj"] = true /\ forallb comp_ok [s"sub"; s"a.cmake"] = true
  /\ abs_of [s"home"; s"u"; s"proj"] = s"/home/u/proj"
  /\ relpath_abs (s"/home/u/proj/sub/a.cmake") (s"/home/u/proj") = s"sub/a.cmake"
  /\ relpath_abs (s"/sub/a.cmake") (abs_of []) = s"sub/a.cmake".
Proof. vm_compute. repeat split. Qed.

(* ==== MAIN THEOREMS ====
   strip_cmake_ext_app strip_cmake_ext_other
   names_from_prefix names_without_prefix names_expected extension_dropped_iff names_keep_ext
   names_start_with_prefix
   title_injective module_name_injective names_injective F16_case_collision_refuted
   finalize_named_module finalize_unnamed_module finalize_no_module finalize_spec finalize_head
   render_module_entry render_module_entry_empty
   heading_text_single page_head page_head_exists module_directive_text
   basename_join2 relpath_abs_child relpath_location_independent *)
Print Assumptions strip_cmake_ext_app.
Print Assumptions strip_cmake_ext_other.
Print Assumptions names_from_prefix.
Print Assumptions names_without_prefix.
Print Assumptions names_expected.
Print Assumptions extension_dropped_iff.
Print Assumptions names_keep_ext.
Print Assumptions names_start_with_prefix.
Print Assumptions title_injective.
Print Assumptions module_name_injective.
Print Assumptions names_injective.
Print Assumptions F16_case_collision_refuted.
Print Assumptions finalize_named_module.
Print Assumptions finalize_unnamed_module.
Print Assumptions finalize_no_module.
Print Assumptions finalize_spec.
Print Assumptions finalize_head.
Print Assumptions render_module_entry.
Print Assumptions render_module_entry_empty.
Print Assumptions heading_text_single.
Print Assumptions page_head.
Print Assumptions page_head_exists.
Print Assumptions module_directive_text.
Print Assumptions basename_join2.
Print Assumptions relpath_abs_child.
Print Assumptions relpath_location_independent.
