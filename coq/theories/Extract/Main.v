(* Extract/Main.v -- top-level dispatch and OCaml extraction (ExtrOcamlBasic only). *)
From Coq Require Import List NArith Bool Arith.
From CMinx Require Import Base.Str Extract.Tree Extract.Dispatch.
Import ListNotations.

Definition dispatch (t : tree) : tree :=
  match t with
  | L (I f :: a) =>
      match dispatch_base (N.to_nat f) a with
      | Some r => r
      | None => L [I 999%N]
      end
  | _ => L [I 998%N]
  end.
