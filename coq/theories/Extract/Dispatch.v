(* Extract/Dispatch.v -- one entry point  dispatch : tree -> tree  through which the
   harness runs every model and spec function.  Request = L (I fid :: args). *)
From Coq Require Import String List NArith Bool Arith.
From CMinx Require Import Base.Str Extract.Tree
     Model.Lexer Model.Parser Model.Writer Model.DocTypes Model.Aggregator Model.Pipeline
     Model.Path Model.Naming Model.Walk Model.Config Gen.ConfigData
     Model.CMakeLang Gen.CMinxCMake
     Spec.Projections Spec.EntrySpec.
Import ListNotations.

Definition e_token (t : token) : tree := L [e_nat (kind_id (fst t)); e_str (snd t)].

Definition e_lexres (r : lexres) : tree :=
  match r with
  | LexOk ps => L [I 1%N; e_list e_token ps]
  | LexErr p => L [I 0%N; e_nat p]
  end.

Fixpoint e_arg (a : arg) : tree :=
  match a with
  | ASingle k t => L [I 0%N; e_nat (kind_id k); e_str t]
  | ACompound l => L [I 1%N; L (map e_arg l)]
  end.

Definition e_cmd (c : cmd) : tree := L [e_str (c_name c); e_list e_arg (c_args c)].

Definition e_element (e : element) : tree :=
  match e with
  | EDocCmd d c => L [I 0%N; e_str d; e_cmd c]
  | ECmd c => L [I 1%N; e_cmd c]
  | EDangling d => L [I 2%N; e_str d]
  end.

Definition e_cfile (f : cfile) : tree :=
  L [e_opt e_str (f_module f); e_list e_element (f_elems f)].

Definition e_method (m : method) : tree :=
  L [e_str (m_name m); e_str (m_doc m); e_str (m_parent m); e_list e_str (m_types m);
     e_list e_str (m_params m); e_bool (m_ctor m); e_bool (m_macro m); e_bool (m_docd m)].

Definition e_attr (a : attribute) : tree :=
  L [e_str (a_name a); e_str (a_doc a); e_str (a_parent a); e_opt e_str (a_default a);
     e_bool (a_docd a)].

Definition e_vartype (t : vartype) : tree :=
  match t with VString => I 1%N | VList => I 2%N | VUnset => I 3%N end.

Definition e_entry (e : entry) : tree :=
  match e with
  | EFunction mac n d ps kw => L [I 0%N; e_bool mac; e_str n; e_str d; e_list e_str ps; e_bool kw]
  | EVariable n d ty v => L [I 1%N; e_str n; e_str d; e_vartype ty; e_opt e_str v]
  | EOption n d v h => L [I 2%N; e_str n; e_str d; e_opt e_str v; e_str h]
  | EGeneric n d ps => L [I 3%N; e_str n; e_str d; e_list e_str ps]
  | ECTest n d ps => L [I 4%N; e_str n; e_str d; e_list e_str ps]
  | ETest sec n d xf ps mac =>
      L [I 5%N; e_bool sec; e_str n; e_str d; e_bool xf; e_list e_str ps; e_bool mac]
  | EClass n d su inner ct me at_ =>
      L [I 6%N; e_str n; e_str d; e_list e_str su; e_list e_str inner; e_list e_method ct;
         e_list e_method me; e_list e_attr at_]
  | EModule n d => L [I 7%N; e_str n; e_str d]
  end.

Definition d_flags (t : tree) : flags :=
  let b i := d_bool (d_arg i (d_items t)) in
  {| inc_function := b 0; inc_macro := b 1; inc_cpp_class := b 2; inc_cpp_attr := b 3;
     inc_cpp_constructor := b 4; inc_cpp_member := b 5; inc_ct_add_test := b 6;
     inc_ct_add_section := b 7; inc_add_test := b 8; inc_option := b 9 |}.

(* a strip function given by a finite table (computed by the harness with re.sub);
   identity outside the table *)
Definition table_fn (tbl : list (str * str)) (p : str) : str :=
  match lookup p tbl with Some r => r | None => p end.

Definition d_table (t : tree) : list (str * str) := d_list (d_pair d_str d_str) t.

(* settings = [flags; trigger; fn table; macro table; member table; headers] *)
Record psettings := {
  ps_flags : flags; ps_trigger : str;
  ps_fn : list (str * str); ps_mac : list (str * str); ps_mem : list (str * str);
  ps_hdrs : list str }.

Definition d_psettings (t : tree) : psettings :=
  let a := d_items t in
  {| ps_flags := d_flags (d_arg 0 a); ps_trigger := d_str (d_arg 1 a);
     ps_fn := d_table (d_arg 2 a); ps_mac := d_table (d_arg 3 a); ps_mem := d_table (d_arg 4 a);
     ps_hdrs := d_list d_str (d_arg 5 a) |}.

Definition e_outcome (o : outcome) : tree :=
  match o with
  | OOk r => L [I 0%N; e_str r]
  | ODecodeErr => L [I 1%N]
  | OLexErr => L [I 2%N]
  | OParseErr => L [I 3%N]
  | OCrash => L [I 4%N]
  end.

Definition d_handle (t : tree) : handle := d_list d_nat t.

Definition d_wop (t : tree) : wop :=
  let a := d_items t in
  let h := d_handle (d_arg 1 a) in
  match d_nat (d_arg 0 a) with
  | 0 => OText h (d_str (d_arg 2 a))
  | 1 => OField h (d_str (d_arg 2 a)) (d_str (d_arg 3 a))
  | 2 => OBullets h (d_list d_str (d_arg 2 a))
  | 3 => OEnum h (d_list d_str (d_arg 2 a))
  | 4 => ODocTest h (d_str (d_arg 2 a)) (d_str (d_arg 3 a))
  | 5 => ODirective h (d_str (d_arg 2 a)) (d_list d_str (d_arg 3 a))
  | 6 => OSection h (d_str (d_arg 2 a))
  | 7 => OOption h (d_str (d_arg 2 a)) (d_str (d_arg 3 a))
  | 8 => OSetTitle h (d_str (d_arg 2 a))
  | 9 => OClear h
  | _ => OToText h
  end.

Definition e_wout (o : wout) : tree :=
  match o with
  | WNone => L [I 0%N]
  | WHandle h => L [I 1%N; e_list e_nat h]
  | WText t => L [I 2%N; e_str t]
  | WError => L [I 3%N]
  end.

Definition e_agg_result (r : option (result agg)) : tree :=
  match r with
  | None => L [I 2%N]
  | Some Crash => L [I 1%N]
  | Some (Ok st) => L [I 0%N; e_list e_entry (documented st); e_list e_bool (origins st)]
  end.

(* node = [0; name; bytes] | [1; name; children] *)
Fixpoint d_node_fuel (fuel : nat) (t : tree) : node :=
  match fuel with
  | O => F [] []
  | S f =>
      let a := d_items t in
      match d_nat (d_arg 0 a) with
      | 0 => F (d_str (d_arg 1 a)) (d_list d_n (d_arg 2 a))
      | _ => D (d_str (d_arg 1 a)) (map (d_node_fuel f) (d_items (d_arg 2 a)))
      end
  end.
Definition d_node (t : tree) : node := d_node_fuel 64 t.

Definition d_kind (t : tree) : input_kind :=
  let a := d_items t in
  match d_nat (d_arg 0 a) with
  | 0 => KMissing
  | 1 => KFile (d_list d_n (d_arg 1 a))
  | _ => KDir (map d_node (d_items (d_arg 1 a)))
  end.

(* [out; recursive; prefix option; auto_exclude; sep; ext_titles; ext_modules] *)
Definition d_wsettings (t : tree) : wsettings :=
  let a := d_items t in
  {| ws_out := d_bool (d_arg 0 a); ws_recursive := d_bool (d_arg 1 a);
     ws_prefix := d_opt d_str (d_arg 2 a); ws_auto_exclude := d_bool (d_arg 3 a);
     ws_sep := d_str (d_arg 4 a); ws_ext_titles := d_bool (d_arg 5 a);
     ws_ext_modules := d_bool (d_arg 6 a) |}.

(* exclusion oracle as a finite table of excluded (relative path, is directory) *)
Definition excl_of_table (tbl : list (list str * bool)) (rel : list str) (isdir : bool) : bool :=
  existsb (fun e => strs_eqb (fst e) rel && Bool.eqb (snd e) isdir) tbl.

Definition e_action (a : action) : tree :=
  match a with
  | AMkDirs rel => L [I 0%N; e_list e_str rel]
  | AWrite rel c => L [I 1%N; e_list e_str rel; e_str c]
  | APrint c => L [I 2%N; e_str c]
  | AAbort o => L [I 3%N; e_outcome o]
  | AExit255 => L [I 4%N]
  end.

Fixpoint d_yval_fuel (fuel : nat) (t : tree) : yval :=
  match fuel with
  | O => YNull
  | S f =>
      let a := d_items t in
      match d_nat (d_arg 0 a) with
      | 0 => YBool (d_bool (d_arg 1 a))
      | 1 => YStr (d_str (d_arg 1 a))
      | 2 => YInt (d_n (d_arg 1 a))
      | 3 => YNull
      | 4 => YList (map (d_yval_fuel f) (d_items (d_arg 1 a)))
      | _ => YMap (d_list d_str (d_arg 1 a))
      end
  end.
Definition d_yval (t : tree) : yval := d_yval_fuel 16 t.

Definition d_source (k : source_kind) (t : tree) : source :=
  let a := d_items t in
  {| src_kind := k; src_vals := d_list (d_pair d_str d_yval) (d_arg 0 a);
     src_dir := d_opt d_str (d_arg 1 a) |}.

Definition e_cval (v : cval) : tree :=
  match v with
  | CBool b => L [I 0%N; e_bool b]
  | CStr x => L [I 1%N; e_str x]
  | CNone => L [I 2%N]
  | CStrs l => L [I 3%N; e_list e_str l]
  | CDict => L [I 4%N]
  end.

Fixpoint e_yval (v : yval) : tree :=
  match v with
  | YBool b => L [I 0%N; e_bool b]
  | YStr x => L [I 1%N; e_str x]
  | YInt n => L [I 2%N; I n]
  | YNull => L [I 3%N]
  | YList l => L [I 4%N; L (map e_yval l)]
  | YMap ks => L [I 5%N; e_list e_str ks]
  end.

(* main(): argv, optional -s source, optional user source; the packaged defaults and the
   template come from Gen.ConfigData *)
Definition main_settings (cwd : str) (argv : list str) (sfile user : option source) : tree :=
  match parse_args cli_table argv with
  | None => L [I 2%N]                       (* usage error *)
  | Some p =>
      let stack := args_source cli_table p
                   :: (match sfile with Some x => [x] | None => [] end)
                   ++ (match user with Some x => [x] | None => [] end)
                   ++ [{| src_kind := SrcDefaults; src_vals := yaml_defaults; src_dir := None |}] in
      (* the order of main(): template validation, then the rst.headers check (a mapping is
         rejected by main() itself), then the exclude-filter loop; all three are confuse errors *)
      match settings_of cwd stack template,
            all_contents stack (s"input.exclude_filters") with
      | Some st, Some ex =>
          if headers_ok stack
          then L [I 0%N; e_list (e_pair e_str e_cval) st; e_list e_yval ex;
                  e_list e_str (p_positional p)]
          else L [I 1%N]                    (* ConfigTypeError raised by main(): rst.headers is a mapping *)
      | _, _ => L [I 1%N]                   (* confuse error *)
      end
  end.

Definition dispatch_base (fid : nat) (a : list tree) : option tree :=
  match fid with
  | 1 => Some (e_str (clean_doc_lines (d_list d_str (d_arg 0 a))))
  | 2 => Some (e_lexres (lex (d_str (d_arg 0 a))))
  | 3 => Some (e_lexres (lex_all (d_str (d_arg 0 a))))
  | 4 => Some (match lex (d_str (d_arg 0 a)) with
               | LexErr p => L [I 2%N; e_nat p]
               | LexOk ts => match parse ts with
                             | None => L [I 1%N]
                             | Some f => L [I 0%N; e_cfile f]
                             end
               end)
  | 5 => let st := d_psettings (d_arg 0 a) in
         Some (e_outcome (document_str (ps_flags st) (ps_trigger st) (table_fn (ps_fn st))
                            (table_fn (ps_mac st)) (table_fn (ps_mem st)) (ps_hdrs st)
                            (d_str (d_arg 1 a)) (d_str (d_arg 2 a)) (d_str (d_arg 3 a))))
  | 6 => let st := d_psettings (d_arg 0 a) in
         Some (e_agg_result (aggregate_str (ps_flags st) (ps_trigger st) (table_fn (ps_fn st))
                               (table_fn (ps_mac st)) (table_fn (ps_mem st))
                               (d_str (d_arg 1 a))))
  | 7 => let hdrs := d_list d_str (d_arg 0 a) in
         let '(_, outs) := wrun hdrs (winit (d_str (d_arg 1 a))) (d_list d_wop (d_arg 2 a)) in
         Some (e_list e_wout outs)
  | 8 => let st := d_psettings (d_arg 0 a) in
         Some (e_outcome (document_bytes (ps_flags st) (ps_trigger st) (table_fn (ps_fn st))
                            (table_fn (ps_mac st)) (table_fn (ps_mem st)) (ps_hdrs st)
                            (d_str (d_arg 1 a)) (d_str (d_arg 2 a)) (d_list d_n (d_arg 3 a))))
  | 9 => (* entries of a byte string, projected and rendered one by one *)
         let st := d_psettings (d_arg 0 a) in
         let mode := d_nat (d_arg 1 a) in
         Some (match decode_source (d_list d_n (d_arg 2 a)) with
               | None => L [I 1%N]
               | Some src =>
                   match lex src with
                   | LexErr _ => L [I 2%N]
                   | LexOk ts =>
                       match parse ts with
                       | None => L [I 3%N]
                       | Some f =>
                           match aggregate (ps_flags st) (ps_trigger st) (table_fn (ps_fn st))
                                           (table_fn (ps_mac st)) (table_fn (ps_mem st)) f with
                           | Crash => L [I 4%N]
                           | Ok ag =>
                               L [I 0%N;
                                  L (map (fun p => L [e_nat (entry_kind (fst p)); e_bool (snd p);
                                                      e_str (entry_text (ps_hdrs st)
                                                                        (project mode (fst p)))])
                                         (combine (documented ag) (origins ag)))]
                           end
                       end
                   end
               end)
  | 10 => Some (match decode_source (d_list d_n (d_arg 0 a)) with
                | None => L [I 3%N]
                | Some src =>
                    match lex src with
                    | LexErr p => L [I 2%N; e_nat p]
                    | LexOk ts => match parse ts with
                                  | None => L [I 1%N]
                                  | Some f => L [I 0%N; e_cfile f]
                                  end
                    end
                end)
  | 11 => (* document(): [wsettings; psettings; cwd; input spelling; kind; excl table] *)
          let ws := d_wsettings (d_arg 0 a) in
          let st := d_psettings (d_arg 1 a) in
          let base := basename (abspath (d_str (d_arg 2 a)) (d_str (d_arg 3 a))) in
          let docfn := document_bytes (ps_flags st) (ps_trigger st) (table_fn (ps_fn st))
                         (table_fn (ps_mac st)) (table_fn (ps_mem st)) (ps_hdrs st) in
          let tbl := d_list (d_pair (d_list d_str) d_bool) (d_arg 5 a) in
          Some (e_list e_action (document ws (ps_hdrs st) docfn (excl_of_table tbl) base
                                          (d_kind (d_arg 4 a))))
  | 12 => Some (L [e_str (normpath (d_str (d_arg 0 a)));
                   e_str (abspath (d_str (d_arg 1 a)) (d_str (d_arg 0 a)));
                   e_str (basename (d_str (d_arg 0 a)));
                   e_str (dirname (d_str (d_arg 0 a)));
                   e_str (relpath_abs (d_str (d_arg 0 a)) (d_str (d_arg 1 a)))])
  | 14 => Some (main_settings (d_str (d_arg 0 a)) (d_list d_str (d_arg 1 a))
                              (d_opt (d_source SrcFile) (d_arg 2 a))
                              (d_opt (d_source SrcUser) (d_arg 3 a)))
  | 15 => (* cminx_gen_rst(actuals...): [exe; actuals; directories (table for IS_DIRECTORY)] *)
          let dirs := d_list d_str (d_arg 2 a) in
          let launches := call (fun p => mem_str p dirs) gen_rst_def
                               [(s"CMINX_EXECUTABLE", d_str (d_arg 0 a))]
                               (d_list d_str (d_arg 1 a)) in
          Some (e_list (fun l => L [e_list e_str (fst l); e_bool (snd l)]) launches)
  | 16 => Some (e_list e_str (split_list (d_str (d_arg 0 a))))
  | 20 => Some (e_opt (e_pair e_str (e_list e_str)) (add_test_view (d_list d_str (d_arg 0 a))))
  | 21 => Some (e_opt (e_pair e_str e_bool) (ct_view (d_list d_str (d_arg 0 a))))
  | 22 => (* per command of a source text: name and arguments as written *)
          Some (match lex (d_str (d_arg 0 a)) with
                | LexErr _ => L []
                | LexOk ts =>
                    match parse ts with
                    | None => L []
                    | Some f =>
                        L (flat_map (fun e => match e with
                                              | EDocCmd _ c | ECmd c =>
                                                  [L [e_str (c_name c); e_list e_str (generic_args c)]]
                                              | EDangling _ => []
                                              end) (f_elems f))
                    end
                end)
  | 23 => Some (L [e_opt (fun v => L [e_str (fst (fst v)); e_vartype (snd (fst v)); e_opt e_str (snd v)])
                         (set_view (d_list d_str (d_arg 0 a)));
                   e_opt (fun v => L [e_str (fst (fst v)); e_str (snd (fst v)); e_str (snd v)])
                         (option_view (d_list d_str (d_arg 0 a)))])
  | _ => None
  end.
