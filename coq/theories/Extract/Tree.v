(* Extract/Tree.v -- the wire format between the harness and the model: nested lists
   of natural numbers.  Encoders/decoders are Gallina, so the very same dispatch
   function is run by the extracted binary and by vm_compute inside coqc. *)
From Coq Require Import List NArith Bool Arith.
From CMinx Require Import Base.Str.
Import ListNotations.

Inductive tree :=
| I (n : N)
| L (l : list tree).

Definition e_str (x : str) : tree := L (map I x).
Definition e_bool (b : bool) : tree := I (if b then 1 else 0)%N.
Definition e_nat (n : nat) : tree := I (N.of_nat n).
Definition e_list {A} (f : A -> tree) (l : list A) : tree := L (map f l).
Definition e_opt {A} (f : A -> tree) (o : option A) : tree :=
  match o with Some a => L [f a] | None => L [] end.
Definition e_pair {A B} (f : A -> tree) (g : B -> tree) (p : A * B) : tree :=
  L [f (fst p); g (snd p)].

Definition d_n (t : tree) : N := match t with I n => n | L _ => 0%N end.
Definition d_nat (t : tree) : nat := N.to_nat (d_n t).
Definition d_bool (t : tree) : bool := negb (d_n t =? 0)%N.
Definition d_items (t : tree) : list tree := match t with L l => l | I _ => [] end.
Definition d_str (t : tree) : str := map d_n (d_items t).
Definition d_list {A} (f : tree -> A) (t : tree) : list A := map f (d_items t).
Definition d_opt {A} (f : tree -> A) (t : tree) : option A :=
  match d_items t with x :: _ => Some (f x) | [] => None end.
Definition d_pair {A B} (f : tree -> A) (g : tree -> B) (t : tree) : A * B :=
  match d_items t with
  | a :: b :: _ => (f a, g b)
  | _ => (f (L []), g (L []))
  end.
Definition d_arg (i : nat) (args : list tree) : tree := nth i args (L []).

Fixpoint tree_eqb (a b : tree) : bool :=
  match a, b with
  | I x, I y => N.eqb x y
  | L l, L m =>
      (fix go (l m : list tree) : bool :=
         match l, m with
         | [], [] => true
         | x :: l', y :: m' => tree_eqb x y && go l' m'
         | _, _ => false
         end) l m
  | _, _ => false
  end.
