(* Base/PyWriterSem.v -- the object representation and the Gallina meaning of the Python
   constructs emitted by translators/pywriter2coq.py (the document-building API of
   src/cminx/rstwriter.py: classes RSTWriter and Directive).

   Objects.  An RSTWriter / Directive object is a pyobj: its class and one component per
   instance attribute of the declared attribute table of the translator

       python attribute        component               Gallina type
       (the class)             f_cls                   pyclass
       __title                 f_title                 str
       section_level           f_section_level         Z         (a Python int is an integer)
       settings                f_settings              py_settings
       heading_level_chars     f_heading_level_chars   list str
       indent                  f_indent                Z
       header_char             f_header_char           str
       document                f_document              list pyelem
       arguments               f_arguments             list str  (Directive only)
       options                 f_options               list str  (Directive only; see below)

   An element of self.document is a pyelem: inl t for an instance of one of the string-builder
   classes (Paragraph, Field, DocTest, RSTList, Heading, DirectiveHeading, Option), which is
   represented by the value t of its __str__ (the only thing the writer observes of it and
   fixed at construction: __init__ builds the string), and inr o for a nested writer o.  A list
   annotated List[Option] holds string-builder objects only and is a list str.

   A Settings object is represented by the only option rstwriter.py reads, settings.rst.headers.

   Exceptions.  Every translated method returns option: None = the method raised (IndexError
   of xs[i], AttributeError of a method the class does not have, a raise statement).
   py_bind sequences; py_for_exc is the for loop whose body may raise.

   Object identity.  A reference to an object that has been appended to self.document is its
   POSITION in that list (a nat); a reference to an object anywhere below a root writer is the
   path of such positions (py_get_at, py_call_at).  That is the only aliasing the translated
   methods create (section() and directive() return the object they appended). *)
From Coq Require Import String List NArith ZArith Bool Arith.
From CMinx Require Import Base.Str Base.PySem.
Import ListNotations.

(* ------------------------------------------------------------------ *)
(* objects                                                             *)

Inductive pyclass := CRSTWriter | CDirective.

Definition py_settings := option (list str).
(* Python:   settings.rst.headers   (None or a list of str) *)
Definition py_settings_rst_headers (x : py_settings) : option (list str) := x.

Inductive pyobj :=
  PyObj (cls : pyclass) (title : str) (section_level : Z) (settings : py_settings)
        (heading_level_chars : list str) (indent : Z) (header_char : str)
        (document : list (str + pyobj)) (arguments : list str) (options : list str).

Definition pyelem := (str + pyobj)%type.

Definition f_cls (o : pyobj) : pyclass := let 'PyObj c _ _ _ _ _ _ _ _ _ := o in c.
Definition f_title (o : pyobj) : str := let 'PyObj _ t _ _ _ _ _ _ _ _ := o in t.
Definition f_section_level (o : pyobj) : Z := let 'PyObj _ _ l _ _ _ _ _ _ _ := o in l.
Definition f_settings (o : pyobj) : py_settings := let 'PyObj _ _ _ x _ _ _ _ _ _ := o in x.
Definition f_heading_level_chars (o : pyobj) : list str := let 'PyObj _ _ _ _ h _ _ _ _ _ := o in h.
Definition f_indent (o : pyobj) : Z := let 'PyObj _ _ _ _ _ i _ _ _ _ := o in i.
Definition f_header_char (o : pyobj) : str := let 'PyObj _ _ _ _ _ _ c _ _ _ := o in c.
Definition f_document (o : pyobj) : list pyelem := let 'PyObj _ _ _ _ _ _ _ d _ _ := o in d.
Definition f_arguments (o : pyobj) : list str := let 'PyObj _ _ _ _ _ _ _ _ a _ := o in a.
Definition f_options (o : pyobj) : list str := let 'PyObj _ _ _ _ _ _ _ _ _ p := o in p.

(* Python:   self.<attribute> = v   (statement; the new value of self) *)
Definition set_title (o : pyobj) (v : str) : pyobj :=
  let 'PyObj c _ l x h i hc d a p := o in PyObj c v l x h i hc d a p.
Definition set_section_level (o : pyobj) (v : Z) : pyobj :=
  let 'PyObj c t _ x h i hc d a p := o in PyObj c t v x h i hc d a p.
Definition set_settings (o : pyobj) (v : py_settings) : pyobj :=
  let 'PyObj c t l _ h i hc d a p := o in PyObj c t l v h i hc d a p.
Definition set_heading_level_chars (o : pyobj) (v : list str) : pyobj :=
  let 'PyObj c t l x _ i hc d a p := o in PyObj c t l x v i hc d a p.
Definition set_indent (o : pyobj) (v : Z) : pyobj :=
  let 'PyObj c t l x h _ hc d a p := o in PyObj c t l x h v hc d a p.
Definition set_header_char (o : pyobj) (v : str) : pyobj :=
  let 'PyObj c t l x h i _ d a p := o in PyObj c t l x h i v d a p.
Definition set_document (o : pyobj) (v : list pyelem) : pyobj :=
  let 'PyObj c t l x h i hc _ a p := o in PyObj c t l x h i hc v a p.
Definition set_arguments (o : pyobj) (v : list str) : pyobj :=
  let 'PyObj c t l x h i hc d _ p := o in PyObj c t l x h i hc d v p.
Definition set_options (o : pyobj) (v : list str) : pyobj :=
  let 'PyObj c t l x h i hc d a _ := o in PyObj c t l x h i hc d a v.

(* an object of class c before __init__ has run and before the class attributes are filled
   in (the generated py_fresh does that).  Python has no attribute at all there; a read of an
   attribute that __init__ has not assigned yet would be an AttributeError, here it reads the
   blank value.  (Both __init__ methods assign every attribute before anything reads it.) *)
Definition py_blank (c : pyclass) : pyobj := PyObj c [] 0%Z None [] 0%Z [] [] [] [].

(* a string-builder object / a writer as an element of a List[Any] *)
Definition py_elem_of_builder (t : str) : pyelem := inl t.
Definition py_elem_of_writer (o : pyobj) : pyelem := inr o.

(* ------------------------------------------------------------------ *)
(* exceptions                                                          *)

Definition py_bind {A B : Type} (x : option A) (f : A -> option B) : option B :=
  match x with Some v => f v | None => None end.

(* Python:   for v in xs: BODY     where BODY may raise; the state as for PySem.py_for *)
Fixpoint py_for_exc {St A : Type} (xs : list A) (body : St -> A -> option St) (init : St)
  : option St :=
  match xs with
  | [] => Some init
  | x :: r => match body init x with
              | Some st => py_for_exc r body st
              | None => None
              end
  end.

(* ------------------------------------------------------------------ *)
(* ints, indexing                                                      *)

(* Python:   len(xs)  as an int *)
Definition py_zlen {A : Type} (xs : list A) : Z := Z.of_nat (length xs).

(* Python:   xs[i]   for a list and an int i, exactly: a negative index counts from the end,
   IndexError (None) outside  -len(xs) <= i < len(xs). *)
Definition py_norm_index {A : Type} (xs : list A) (i : Z) : option nat :=
  if (0 <=? i)%Z then
    (if (i <? py_zlen xs)%Z then Some (Z.to_nat i) else None)
  else
    (if (0 <=? py_zlen xs + i)%Z then Some (Z.to_nat (py_zlen xs + i)) else None).
Definition py_getitem {A : Type} (xs : list A) (i : Z) : option A :=
  py_bind (py_norm_index xs i) (fun k => nth_error xs k).
(* Python:   xs[i] = v   (statement; the new value of xs, None = IndexError) *)
Definition py_setitem {A : Type} (xs : list A) (i : Z) (v : A) : option (list A) :=
  py_bind (py_norm_index xs i) (fun k => Some (update_nth k (fun _ => v) xs)).
(* Python:   del xs[n:]   for a constant n >= 0  (statement; the new value of xs) *)
Definition py_del_from {A : Type} (xs : list A) (n : nat) : list A := firstn n xs.

(* an int passed where the already translated function (Gen/PySource.v) takes a natural number:
   get_indents(num) uses num only as the bound of range(0, num), which is empty for num <= 0,
   so get_indents(num) = get_indents(max(num, 0)) for every int. *)
Definition py_nat_of_int (z : Z) : nat := Z.to_nat z.

(* ------------------------------------------------------------------ *)
(* str(x) of a document element; recursion over the object tree        *)

(* Python:   str(x) / x inside an f-string, for an element x of a List[Any]:
   a string-builder object gives its string; a writer gives x.__str__(), which is passed in
   as str_of (open recursion, closed by py_obj_rec below) *)
Definition py_str_elem (str_of : pyobj -> option str) (x : pyelem) : option str :=
  match x with inl t => Some t | inr o => str_of o end.

(* nesting depth of an object tree *)
Fixpoint py_depth (o : pyobj) : nat :=
  let 'PyObj _ _ _ _ _ _ _ doc _ _ := o in
  S ((fix go (l : list (str + pyobj)) : nat :=
        match l with
        | [] => 0
        | inl _ :: r => go r
        | inr c :: r => Nat.max (py_depth c) (go r)
        end) doc).

(* Python:   def __str__(self): ... str(child) ...    a method whose recursive calls are all on
   elements of self.document (the translator checks that str() is only applied to elements of
   that list).  body is the method with the recursive call abstracted; the recursion is unrolled
   depth times, which it cannot exceed, so the default None is never returned
   (Proofs/WriterSourceMatch.v, py_str_fuel). *)
Definition py_obj_rec {R : Type} (body : (pyobj -> option R) -> pyobj -> option R) (o : pyobj)
  : option R :=
  py_fuel_fix (py_depth o) body None o.

(* ------------------------------------------------------------------ *)
(* references = paths                                                  *)

(* the object a path of document positions denotes, from the root object *)
Fixpoint py_get_at (p : list nat) (o : pyobj) : option pyobj :=
  match p with
  | [] => Some o
  | i :: r => match nth_error (f_document o) i with
              | Some (inr c) => py_get_at r c
              | _ => None
              end
  end.

(* Python:   x.m(args)   for a method m that mutates x, x the object at path p below the root:
   the new root and the result of m; None when the path does not denote a writer, or m raised *)
Fixpoint py_call_at {R : Type} (p : list nat) (m : pyobj -> option (pyobj * R)) (o : pyobj)
  : option (pyobj * R) :=
  match p with
  | [] => m o
  | i :: r =>
      match nth_error (f_document o) i with
      | Some (inr c) =>
          match py_call_at r m c with
          | Some (c', res) =>
              Some (set_document o (update_nth i (fun _ => inr c') (f_document o)), res)
          | None => None
          end
      | _ => None
      end
  end.
