(* Base/PyWalkSem.v -- the abstract world and the Gallina meaning of the operating-system and
   library calls emitted by translators/pywalk2coq.py  (document() and document_single_file() of
   src/cminx/__init__.py, regenerated into Gen/PyWalkSource.v on every run).

   The translator is syntax-directed; each Python construct / declared library call is rendered by
   exactly one combinator of this file (or of Base/PySem.v).  Proofs/WalkSourceMatch.v proves the
   generated functions equal to Model/Walk.v on this world.

   ASSUMPTIONS ABOUT THE LIBRARY AND THE OPERATING SYSTEM  (trusted base of the tie)

   A1  The world.  What the program can see of the file system is  abspath(input_file)  and what
       lies below it: a pyworld = the last component of that absolute path (pw_base) and what is
       there (pw_kind: nothing, a regular file with its bytes, or a directory with its tree
       Model.Walk.node), where the output directory is relative to it (pw_out_in_input, see
       A11), and which entries below it are symbolic links (pw_links, see A12).  The tree is what
       the calls that FOLLOW symbolic links see (os.path.isdir / isfile / exists, os.scandir with
       entry.is_file(), opening a file): a symbolic link to a regular file is a file F with the
       bytes of its target and a symbolic link to a directory is a directory D with the contents
       of its target.  The only calls that do not follow links are os.path.islink and the descent
       of os.walk with followlinks=False; both are given by pw_links (A12) -- so the followlinks
       argument of os.walk DOES have an effect in this world, exactly on the directories pw_links
       flags.  Broken links, links forming a cycle (an infinite tree under followlinks=True), sockets
       / FIFOs / devices are not represented (the final else branch of document() is unreachable in
       this world), there are no permission errors, and the tree does not change while the program runs.
   A2  Listing order.  os.walk and os.scandir list a directory in the order of the children list
       of the tree (the operating system's listing order); os.walk(top, topdown=True) hands the
       loop body, for each directory, its path, the names of its sub-directories and the names of
       its files, each in that order.
   A3  os.walk descends by name, after the body.  When the loop body has finished (normally or
       by continue) os.walk looks at the CURRENT contents of the very list object it handed out as
       the second component, and for each name in it, in order, walks  join(top, name)  if that
       is a directory (a name that is not a directory yields nothing: the scandir error is ignored
       since onerror is None) and if it may descend into it (A12: always with followlinks=True,
       only when it is not a symbolic link with followlinks=False).  A break in the body ends the whole walk.  py_walk_node is a structural
       recursion on the tree: no fuel.  Only in-place mutation of
       that list object is seen by os.walk; rebinding the Python name is not (the translator keeps
       the two apart, see py_os_walk).
   A4  Names.  A directory entry name is never empty, never . or .. and contains no slash (POSIX).
       Hence a path below the input (or the output directory) is faithfully a list of such
       components plus a trailing-slash flag, already normalised:
         apath  = anchor (abspath(input_file) | settings.output.directory) + components + flag
         rpath  = a RELATIVE path: components + flag  (results of os.path.relpath / dirname, and
                  plain names used as path arguments: a str expression in a path argument is a
                  directory entry name or built from one by replacing its extension, hence ONE
                  component, py_rpath_of_name; the constant empty string is py_rpath_empty, other
                  constants must be one plain component); only an rpath is ever used as a str, and
                  its text is py_rpath_text: dot for the empty path, the empty string for the empty
                  path with the flag set, else the components joined by slashes (plus a final slash).
       os.path.join / relpath / normpath / basename / dirname / curdir are posixpath on this
       representation (join with a relative second argument appends its components and takes its
       flag; relpath(p, start) strips the components of start; normpath drops the flag; basename is
       the last component, pw_base for the input anchor itself).  Comparing a relative path with
       os.curdir is structural (py_rpath_eq): by A4 no component is a dot.
       x.endswith(suffix) for an absolute path x and a constant suffix without slash looks at the
       last component only (py_apath_endswith): the separator in front of it is a slash, which the
       suffix does not contain.
   A5  Lookups are by name: the directory / file at a path is the FIRST child of that kind with that
       name.  A real directory has no two entries of the same name; the theorems carry that as the
       hypothesis names_distinct (boolean, on the tree).
   A6  pathspec.  PathSpec.from_lines(GitWildMatchPattern, settings.input.exclude_filters)
       .match_file(p) is an arbitrary predicate of the path below the input and its trailing-slash
       flag: excl comps flag, exactly the parameter excl of Model.Walk (pyfilters = pyspec).
   A7  The output directory.  os.makedirs(p, exist_ok=True) succeeds; afterwards
       os.path.isdir(settings.output.directory) is true.  Effects on the output side are recorded,
       not interpreted: AMkDirs / AWrite carry the components below the output directory.
   A8  Effects and exceptions.  The observable behaviour is the log (list Model.Walk.action) in
       program order.  An exception escaping (a failing Documenter...process(): AAbort) and
       exit(-1) (AExit255) end the program: once the log holds such an action nothing more is
       recorded (py_emit), which is what the remaining, never executed, statements contribute.
       The translated functions are total and return the log.
   A9  Documenter(file, header_name, module_name, settings).process() followed by to_text is the
       opaque parameter docfn header_name module_name (bytes of file), as in Model.Walk; it either
       gives the page text or raises.  logging calls have no observable effect (dropped).
   A10 RSTWriter / Directive calls are steps of Model.Writer.wstep, as in Base/PySem.v (the py_w_ combinators);
       w.write_to_file(p) writes w.to_text(); the value of a directive option is formatted by str().
   A11 Normalised absolute paths; where the output directory is.  os.path.abspath(p) of a path p of
       the representation A4 is the normalised absolute path (npath) with the same anchor and the
       same components, without the trailing slash: abspath(input_file) is absolute and normalised
       already, os.walk builds root from it by join with directory entry names, which need no
       normalisation (A4), so on the paths the walk produces abspath is the identity up to the
       trailing slash; under the output anchor it denotes abspath(settings.output.directory)
       followed by the components.  Two normalised absolute paths are equal as strs (==) iff they
       have the same components from the root of the file system, and (no symbolic links, A1) iff
       they denote the same position of the file tree.  Under one anchor that is equality of the
       component lists.  Across the anchors it is decided by the field pw_out_in_input of the
       world:  Some rel  when abspath(settings.output.directory) is abspath(input_file) followed
       by the components rel (the output directory IS the directory at the relative path rel below
       the input directory; rel = [] : the input directory itself),  None  when the output
       directory is not the input directory or below it (or no output directory is configured).
       So  APath AInput rel _  and  APath AOutput [] _  have the same abspath iff
       pw_out_in_input = Some rel  (py_npath_eq).  The comparison is exact for the output
       directory itself (no components), the only comparison the program makes; for a path
       strictly below the output directory it is exact when pw_out_in_input is Some, and when it is
       None such a path is taken to differ from every path below the input (not exact when the input
       lies below the output directory).  x == None is False for a path x (py_eq_optional).
       Remark on A1 (the tree does not change): with the output directory inside the input tree
       the program itself creates directories and files there while os.walk is running.  os.walk
       lists a directory before the loop body runs for it, the body writes only at or below the
       output directory, and the walk never descends into the output directory (the test
       translated with this assumption), so what is created is either never listed or listed only
       as the name of the output directory, which is pruned like a directory of the tree would be.
   A12 Symbolic links.  pw_links w rel  says that the directory entry at the relative position rel
       below the input is a symbolic link.  It is only ever consulted for positions of
       sub-directories (by os.walk and by the one os.path.islink call of the program); a symlinked
       FILE is just a file of the tree and needs no flag (every call made on files follows links).
       A symbolic link to a directory is an ordinary node D of the tree carrying the contents of
       the link target (A1) and flagged by pw_links.
         - os.walk(top, followlinks=fl) lists it among the sub-directories of its parent in BOTH
           modes (the listing uses entry.is_dir(), which follows links; A2 is unchanged).
         - After the body (A3), for each name still in the handed-out list, os.walk evaluates
             followlinks or not os.path.islink(join(top, name))
           and descends only if that holds: with followlinks=True it descends into a symlinked
           directory like into any directory; with followlinks=False it does NOT descend into it,
           even when the body left its name in the list (py_walk_node: py_may_descend).  The
           directory os.walk is called on (top itself) is always walked, link or not.
         - os.path.islink(p) is pw_links at the components of p for a path below the input without
           trailing slash; it is False for a path with a trailing slash (lstat resolves the link
           then), and False below the output directory (py_os_path_islink).  The flag of the empty
           position (the input itself) is never consulted by the program.
       Remark on A11: with symbolic links two different normalised absolute paths may denote the
       same directory; the program compares the strs (os.path.abspath does not resolve links), and
       so does py_npath_eq: pw_out_in_input is about the spelling of the two paths. *)
From Coq Require Import String List NArith ZArith Bool Arith.
From CMinx Require Import Base.Str Base.PySem Model.Writer Model.Path Model.Naming Model.Pipeline
     Model.Walk.
Import ListNotations.

(* ------------------------------------------------------------------ *)
(* control                                                             *)

(* how a statement list ended, relative to the innermost enclosing loop / the function *)
Inductive py_ctl := CNormal | CContinue | CBreak | CReturn.

Definition py_is_normal (c : py_ctl) : bool :=
  match c with CNormal => true | _ => false end.

(* Python:   for v in xs: BODY  [else: ...]     where BODY contains break / continue.
   BODY gives the new state and how it ended; the loop gives the state and whether a break was
   executed (the else clause runs iff it was not). *)
Fixpoint py_for_ctl {St A : Type} (xs : list A) (body : St -> A -> St * py_ctl) (init : St)
  : St * bool :=
  match xs with
  | [] => (init, false)
  | x :: r => let '(st, c) := body init x in
              match c with
              | CBreak | CReturn => (st, true)
              | CNormal | CContinue => py_for_ctl r body st
              end
  end.

(* ------------------------------------------------------------------ *)
(* paths                                                               *)

Record rpath := RPath { rp_comps : list str; rp_slash : bool }.
Inductive anchor := AInput | AOutput.
Record apath := APath { ap_anchor : anchor; ap_comps : list str; ap_slash : bool }.

(* a str used as a path argument: a directory entry name (never empty, no slash: A4), or a
   non-empty constant without slash; the constant empty string is py_rpath_empty *)
Definition py_rpath_of_name (n : str) : rpath := RPath [n] false.
Definition py_rpath_empty : rpath := RPath [] true.
(* a relative path used as a str *)
Definition py_rpath_text (p : rpath) : str :=
  match rp_comps p with
  | [] => if rp_slash p then [] else [dot]
  | _ :: _ => join [slash] (rp_comps p) ++ (if rp_slash p then [slash] else [])
  end.
(* Python:   os.curdir *)
Definition py_os_curdir : rpath := RPath [] false.
(* Python:   a == b   for two relative paths *)
Definition py_rpath_eq (a b : rpath) : bool :=
  strs_eqb (rp_comps a) (rp_comps b) && Bool.eqb (rp_slash a) (rp_slash b).

(* Python:   os.path.join(a, b)   a absolute, b relative *)
Definition py_os_path_join (a : apath) (b : rpath) : apath :=
  APath (ap_anchor a) (ap_comps a ++ rp_comps b) (rp_slash b).
(* Python:   os.path.join(a, b)   both relative *)
Definition py_os_path_join_rel (a b : rpath) : rpath :=
  RPath (rp_comps a ++ rp_comps b) (rp_slash b).

Fixpoint strip_prefix (pre l : list str) : option (list str) :=
  match pre, l with
  | [], _ => Some l
  | x :: pre', y :: l' => if str_eqb x y then strip_prefix pre' l' else None
  | _ :: _, [] => None
  end.
(* Python:   os.path.relpath(p, start)   for start an ancestor of p (or p itself) under the same
   anchor -- the only use the program makes of it; otherwise (not representable without ..) the
   components of p *)
Definition py_os_path_relpath (p start : apath) : rpath :=
  match strip_prefix (ap_comps start) (ap_comps p) with
  | Some r => RPath r false
  | None => RPath (ap_comps p) false
  end.
(* Python:   os.path.normpath(p) *)
Definition py_os_path_normpath (p : apath) : apath := APath (ap_anchor p) (ap_comps p) false.
(* Python:   os.path.dirname(p)   for a relative path without trailing slash *)
Definition py_os_path_dirname_rel (p : rpath) : rpath :=
  match drop_last (rp_comps p) with
  | [] => RPath [] true          (* the empty string *)
  | d => RPath d false
  end.
(* Python:   p.endswith(suffix)   for an absolute path with at least one component below the
   anchor, no trailing slash, and a constant suffix without slash (the translator checks that) *)
Definition py_apath_endswith (p : apath) (suffix : str) : bool :=
  match last_opt (ap_comps p) with
  | Some c => negb (ap_slash p) && endswith suffix c
  | None => false
  end.

(* ------------------------------------------------------------------ *)
(* the world                                                           *)

(* pw_out_in_input: where the output directory is relative to the input (A11)
   pw_links: the entry at this position below the input is a symbolic link (A12) *)
Record pyworld := PyWorld { pw_base : str; pw_kind : input_kind; pw_out_in_input : option (list str);
                            pw_links : list str -> bool }.

Definition dir_names (ch : list node) : list str :=
  flat_map (fun n => match n with D nm _ => [nm] | F _ _ => [] end) ch.
Definition file_names (ch : list node) : list str :=
  flat_map (fun n => match n with F nm _ => [nm] | D _ _ => [] end) ch.

Fixpoint find_dir (nm : str) (ch : list node) : option (list node) :=
  match ch with
  | [] => None
  | D n c :: r => if str_eqb n nm then Some c else find_dir nm r
  | F _ _ :: r => find_dir nm r
  end.
Fixpoint find_file (nm : str) (ch : list node) : option (list N) :=
  match ch with
  | [] => None
  | F n c :: r => if str_eqb n nm then Some c else find_file nm r
  | D _ _ :: r => find_file nm r
  end.
Fixpoint dir_at (ch : list node) (comps : list str) : option (list node) :=
  match comps with
  | [] => Some ch
  | c :: r => match find_dir c ch with Some ch' => dir_at ch' r | None => None end
  end.
Fixpoint file_at (ch : list node) (comps : list str) : option (list N) :=
  match comps with
  | [] => None
  | [c] => find_file c ch
  | c :: r => match find_dir c ch with Some ch' => file_at ch' r | None => None end
  end.

Definition pw_dir_at (w : pyworld) (comps : list str) : option (list node) :=
  match pw_kind w with KDir ch => dir_at ch comps | _ => None end.
Definition pw_file_at (w : pyworld) (comps : list str) : option (list N) :=
  match pw_kind w, comps with
  | KFile c, [] => Some c
  | KDir ch, _ => file_at ch comps
  | _, _ => None
  end.

(* sibling names are pairwise distinct, among the directories and among the files, at every
   level (assumption A5 as a boolean predicate) *)
Fixpoint nodup_names (l : list str) : bool :=
  match l with [] => true | x :: r => negb (mem_str x r) && nodup_names r end.
Definition level_distinct (ch : list node) : bool :=
  nodup_names (dir_names ch) && nodup_names (file_names ch).
Fixpoint node_distinct (n : node) : bool :=
  match n with
  | F _ _ => true
  | D _ ch => level_distinct ch && forallb node_distinct ch
  end.
Definition names_distinct (ch : list node) : bool :=
  level_distinct ch && forallb node_distinct ch.

(* Python:   os.path.abspath(input_file)   the world is what is there (A1) *)
Definition py_os_path_abspath (w : pyworld) (input_file : str) : apath := APath AInput [] false.
(* Python:   os.path.isdir(p) / isfile(p) / exists(p) *)
Definition py_os_path_isdir (w : pyworld) (p : apath) : bool :=
  match ap_anchor p with
  | AInput => match pw_dir_at w (ap_comps p) with Some _ => true | None => false end
  | AOutput => true                                                              (* A7 *)
  end.
Definition py_os_path_isfile (w : pyworld) (p : apath) : bool :=
  match ap_anchor p with
  | AInput => match pw_file_at w (ap_comps p) with Some _ => negb (ap_slash p) | None => false end
  | AOutput => false
  end.
Definition py_os_path_exists (w : pyworld) (p : apath) : bool :=
  py_os_path_isdir w p || py_os_path_isfile w p.
(* Python:   os.path.islink(p)   (A12; with a trailing slash lstat resolves the link: False) *)
Definition py_os_path_islink (w : pyworld) (p : apath) : bool :=
  match ap_anchor p with
  | AInput => pw_links w (ap_comps p) && negb (ap_slash p)
  | AOutput => false
  end.
(* Python:   os.path.basename(p) *)
Definition py_os_path_basename (w : pyworld) (p : apath) : str :=
  if ap_slash p then []
  else match last_opt (ap_comps p) with
       | Some c => c
       | None => match ap_anchor p with AInput => pw_base w | AOutput => [] end
       end.

(* normalised absolute paths (A11): the results of os.path.abspath on the path representation *)
Record npath := NPath { np_anchor : anchor; np_comps : list str }.
(* Python:   os.path.abspath(p)   for p a path of the representation (not the str input_file) *)
Definition py_os_path_abspath_of (p : apath) : npath := NPath (ap_anchor p) (ap_comps p).
(* the path  i  below the input and the path  o  below the output directory are the same position *)
Definition py_same_position (w : pyworld) (i o : list str) : bool :=
  match pw_out_in_input w with
  | Some q => strs_eqb i (q ++ o)
  | None => false
  end.
(* Python:   a == b   for two normalised absolute paths *)
Definition py_npath_eq (w : pyworld) (a b : npath) : bool :=
  match np_anchor a, np_anchor b with
  | AInput, AInput | AOutput, AOutput => strs_eqb (np_comps a) (np_comps b)
  | AInput, AOutput => py_same_position w (np_comps a) (np_comps b)
  | AOutput, AInput => py_same_position w (np_comps b) (np_comps a)
  end.
(* Python:   a == b   where b is Optional: a value is never equal to None *)
Definition py_eq_optional {A : Type} (eq : A -> A -> bool) (a : A) (b : option A) : bool :=
  match b with Some b' => eq a b' | None => false end.

(* Python:   os.scandir(p)   entries in listing order (A2); e.name  e.path  e.is_file() *)
Record pydirentry := PyDirEntry { de_name : str; de_path : apath; de_is_file : bool }.
Definition py_os_scandir (w : pyworld) (p : apath) : list pydirentry :=
  match ap_anchor p with
  | AInput =>
      match pw_dir_at w (ap_comps p) with
      | Some ch => map (fun n => PyDirEntry (node_name n)
                                            (py_os_path_join p (py_rpath_of_name (node_name n)))
                                            (match n with F _ _ => true | D _ _ => false end)) ch
      | None => []
      end
  | AOutput => []
  end.

(* ------------------------------------------------------------------ *)
(* os.walk                                                             *)

(* the entry of the first sub-directory named nm in a table  (name, Some what-to-do-with-it) ,
   one row per child, None for the children that are files *)
Fixpoint py_assoc_dir {R : Type} (tbl : list (str * option R)) (nm : str) : option R :=
  match tbl with
  | [] => None
  | (n, Some r) :: l => if str_eqb n nm then Some r else py_assoc_dir l nm
  | (_, None) :: l => py_assoc_dir l nm
  end.
(* visit the names in order until one visit reports a break *)
Fixpoint py_walk_each {St : Type} (step : str -> St -> St * bool) (names : list str) (st : St)
  : St * bool :=
  match names with
  | [] => (st, false)
  | nm :: r => let '(st', stop) := step nm st in
               if stop then (st', true) else py_walk_each step r st'
  end.

(* what os.walk evaluates before descending into new_path = join(top, name)  (A12):
     followlinks or not os.path.islink(new_path) *)
Definition py_may_descend (w : pyworld) (followlinks : bool) (new_path : apath) : bool :=
  followlinks || negb (py_os_path_islink w new_path).

Section OsWalk.
  Context {St : Type}.
  Variable w : pyworld.
  Variable followlinks : bool.
  (* the loop body: root, the sub-directory names, the file names, the state  |->  the state, the
     contents of the handed-out sub-directory list when the body ended, how it ended *)
  Variable body : apath -> list str -> list str -> St -> St * list str * py_ctl.

  (* walk the directory n at path top; the flag: a break ended the walk *)
  Fixpoint py_walk_node (top : apath) (n : node) (st : St) {struct n} : St * bool :=
    match n with
    | F _ _ => (st, false)
    | D _ ch =>
        let '(st1, dirs, c) := body top (dir_names ch) (file_names ch) st in
        match c with
        | CBreak | CReturn => (st1, true)
        | CNormal | CContinue =>
            (* how to walk each child that is a directory *)
            let table :=
              map (fun c => (node_name c,
                             match c with
                             | D _ _ => Some (fun tp st' => py_walk_node tp c st')
                             | F _ _ => None
                             end)) ch in
            py_walk_each
              (fun nm st' =>
                 let new_path := py_os_path_join top (py_rpath_of_name nm) in
                 if py_may_descend w followlinks new_path then
                   match py_assoc_dir table nm with
                   | Some walk => walk new_path st'
                   | None => (st', false)        (* not a directory: yields nothing *)
                   end
                 else (st', false)               (* a symbolic link that is not followed (A12) *)
              )
              dirs st1
        end
    end.
End OsWalk.

(* Python:   for root, subdirs, filenames in os.walk(top, topdown=True, followlinks=fl): BODY
   BODY is the function described above; the state is the variables BODY assigns that exist
   before the loop.  The second component BODY returns is the object os.walk handed out (the
   translator returns the variable that still denotes it: the loop variable as long as it has
   only been mutated in place, its value at the moment of the first rebinding afterwards).
   fl decides, together with pw_links of the world, which of the names left in that object are
   descended into (A12); top itself is walked whether it is a link or not. *)
Definition py_os_walk {St : Type} (w : pyworld) (top : apath) (followlinks : bool)
           (body : apath -> list str -> list str -> St -> St * list str * py_ctl) (init : St) : St :=
  match ap_anchor top with
  | AInput => match pw_dir_at w (ap_comps top) with
              | Some ch => fst (py_walk_node w followlinks body top (D [] ch) init)
              | None => init
              end
  | AOutput => init
  end.

(* ------------------------------------------------------------------ *)
(* lists and strs                                                      *)

(* Python:   copy.copy(xs)  /  copy.deepcopy(x)   values: the identity *)
Definition py_copy {A : Type} (x : A) : A := x.
(* Python:   xs.remove(x)   (statement; the new value of xs): the first occurrence.
   ValueError when absent; here unchanged (the program removes elements it iterates over). *)
Fixpoint py_list_remove (xs : list str) (x : str) : list str :=
  match xs with
  | [] => []
  | y :: r => if str_eqb y x then r else y :: py_list_remove r x
  end.
(* Python:   sorted(xs)   for a list of str *)
Definition py_sorted (xs : list str) : list str := sort_by (fun x => x) xs.
(* Python:   x.lower() *)
Definition py_lower (x : str) : str := lower_py x.
(* Python:   x.endswith(suffix) *)
Definition py_endswith (x suffix : str) : bool := endswith suffix x.
(* Python:   x is not None   for x that is statically not Optional (always true) *)
Definition py_is_not_none_value {A : Type} (x : A) : bool := true.

(* ------------------------------------------------------------------ *)
(* settings                                                            *)

Definition pyfilters := list str -> bool -> bool.
Definition pyspec := list str -> bool -> bool.

(* settings.<group>.<option>  =  st_<group>_<option> settings  (the table of the translator) *)
Record pysettings := PySettings {
  st_output_directory : option apath;
  st_input_recursive : bool;
  st_input_follow_symlinks : bool;
  st_input_auto_exclude_directories_without_cmake : bool;
  st_input_exclude_filters : pyfilters;
  st_rst_prefix : option str;
  st_rst_module_path_separator : str;
  st_rst_file_extensions_in_titles : bool;
  st_rst_file_extensions_in_modules : bool;
  st_rst_headers : list str }.

(* Python:   settings.rst.prefix = v   (statement; the new value of settings) *)
Definition set_st_rst_prefix (x : pysettings) (v : option str) : pysettings :=
  PySettings (st_output_directory x) (st_input_recursive x) (st_input_follow_symlinks x)
             (st_input_auto_exclude_directories_without_cmake x) (st_input_exclude_filters x)
             v (st_rst_module_path_separator x) (st_rst_file_extensions_in_titles x)
             (st_rst_file_extensions_in_modules x) (st_rst_headers x).

(* Python:   pathspec.PathSpec.from_lines(pathspec.patterns.GitWildMatchPattern, filters)   (A6) *)
Definition py_pathspec_from_lines (f : pyfilters) : pyspec := f.
(* Python:   spec.match_file(p) *)
Definition py_spec_match_file (sp : pyspec) (p : apath) : bool :=
  match ap_anchor p with
  | AInput => sp (ap_comps p) (ap_slash p)
  | AOutput => false
  end.

(* ------------------------------------------------------------------ *)
(* effects                                                             *)

Definition pylog := list action.
Definition py_is_stop (a : action) : bool :=
  match a with AAbort _ | AExit255 => true | _ => false end.
Definition py_stopped (log : pylog) : bool := existsb py_is_stop log.
Definition py_emit (log : pylog) (a : action) : pylog :=
  if py_stopped log then log else log ++ [a].

(* Python:   os.makedirs(p, exist_ok=True) *)
Definition py_os_makedirs (log : pylog) (p : apath) : pylog :=
  match ap_anchor p with
  | AOutput => py_emit log (AMkDirs (ap_comps p))
  | AInput => log
  end.
(* Python:   print(x) *)
Definition py_print (log : pylog) (x : str) : pylog := py_emit log (APrint x).
(* Python:   exit(-1) *)
Definition py_exit_minus_one (log : pylog) : pylog := py_emit log AExit255.

(* ------------------------------------------------------------------ *)
(* writers                                                             *)

Record pywriter := PyWriter { wr_hdrs : list str; wr_state : wstate }.
Definition py_wr_top : handle := [].
(* Python:   RSTWriter(title, settings=settings) *)
Definition py_RSTWriter (title : str) (settings : pysettings) : pywriter :=
  PyWriter (st_rst_headers settings) (winit title).
(* Python:   w.title   /   w.title = t *)
Definition py_wr_title (w : pywriter) : str := w_title (wr_state w).
Definition py_wr_set_title (w : pywriter) (t : str) : pywriter :=
  PyWriter (wr_hdrs w) (fst (wstep [] (wr_state w) (OSetTitle py_wr_top t))).
(* Python:   d = x.directive(name)   x the writer itself (handle py_wr_top) or a directive of it *)
Definition py_wr_directive (w : pywriter) (h : handle) (name : str) (args : list str)
  : pywriter * handle :=
  let '(st, d) := py_w_directive (wr_state w) h name args in (PyWriter (wr_hdrs w) st, d).
(* Python:   d.option(name, value) *)
Definition py_wr_option (w : pywriter) (h : handle) (n v : str) : pywriter :=
  PyWriter (wr_hdrs w) (py_w_option (wr_state w) h n v).
(* Python:   d.text(t) *)
Definition py_wr_text (w : pywriter) (h : handle) (t : str) : pywriter :=
  PyWriter (wr_hdrs w) (py_w_text (wr_state w) h t).
(* Python:   w.to_text() *)
Definition py_wr_to_text (w : pywriter) : str :=
  match snd (wstep (wr_hdrs w) (wr_state w) (OToText py_wr_top)) with
  | WText t => t
  | _ => []
  end.
(* Python:   w.write_to_file(p) *)
Definition py_wr_write_to_file (log : pylog) (w : pywriter) (p : apath) : pylog :=
  match ap_anchor p with
  | AOutput => py_emit log (AWrite (ap_comps p) (py_wr_to_text w))
  | AInput => log
  end.

(* ------------------------------------------------------------------ *)
(* the documenter (A9)                                                 *)

Definition pydocfn := str -> str -> list N -> outcome.
Record pydocumenter := PyDocumenter { dc_file : apath; dc_header : str; dc_module : str }.
(* Python:   Documenter(file, header_name, module_name, settings) *)
Definition py_Documenter (file : apath) (header_name module_name : str) (settings : pysettings)
  : pydocumenter := PyDocumenter file header_name module_name.
(* Python:   output_writer = d.process()    the rendered page (its text); a failure is recorded *)
Definition py_documenter_process (w : pyworld) (docfn : pydocfn) (log : pylog) (d : pydocumenter)
  : pylog * str :=
  let content := match pw_file_at w (ap_comps (dc_file d)) with Some c => c | None => [] end in
  match docfn (dc_header d) (dc_module d) content with
  | OOk text => (log, text)
  | o => (py_emit log (AAbort o), [])
  end.
(* Python:   str(output_writer) *)
Definition py_rendered_str (text : str) : str := text.
(* Python:   output_writer.write_to_file(p) *)
Definition py_rendered_write_to_file (log : pylog) (text : str) (p : apath) : pylog :=
  match ap_anchor p with
  | AOutput => py_emit log (AWrite (ap_comps p) text)
  | AInput => log
  end.
