(* Base/PyMainSem.v -- the Gallina meaning of the Python constructs and library calls emitted
   by translators/pymain2coq.py for the function main() of src/cminx/__init__.py.

   Everything here is DEFINED IN TERMS OF Model/Config.v (source stack, resolve, effective,
   args_source, parse_args, truthy), Model/Path.v (abspath) and Model/Walk.v (action).
   The definitions below ARE the assumptions made about confuse / argparse / os / logging;
   they belong to the trusted base.  Listed one by one:

   ENVIRONMENT (pyenv).  What main() reads from outside the process is a parameter:
     env_cwd            os.getcwd()
     env_user app       the user configuration confuse finds for the application name app
                        (an empty source when there is none)
     env_defaults mod   config_default.yaml of the package of module mod
     env_load path      YamlSource(path): the source read from the file, None = ConfigReadError
     A1  Configuration(app, mod) loads exactly [user; defaults], user first, and does not raise.
   CONFUSE (a Configuration object = its list of sources, highest priority first: py_config).
     A2  c.set_file(f)            pushes env_load f on top; ConfigReadError if the file cannot be read.
     A3  c.set_args(ns, dots=True) pushes Config.args_source of the namespace on top.
     A4  c[k1][k2]                is the view of the dotted option path k1.k2 (sections are mappings:
                                  the flat option paths of Model/Config.v; a source whose section is
                                  not a mapping -- ConfigTypeError while resolving -- is NOT represented).
     A5  view.resolve()           yields (value, source) for every source that has the path, highest
                                  priority first (py_resolve_all; its head is Config.resolve, see
                                  Proofs/MainSourceMatch.v resolve_all_head).
     A6  view.get()               the value of the first such source; NotFoundError when there is none.
     A7  c.get(template)          validates every option of the template in template order:
                                  Config.effective per option (py_settings_with; equal to
                                  Config.settings_of when the flag passed to config_template is
                                  Config.rel_to_config, see settings_with_rel).  A ConfigError
                                  (NotFoundError or ConfigTypeError, not distinguished by Config.v) = ExcConfig.
     A8  config_template(b)       is the table Gen/ConfigData.template (rendered by config2coq.py) together
                                  with the flag b that selects the Filename variant;
         dict_to_settings(d)      keeps every option of d (the settings object is represented by the same
                                  association list, option path -> validated value; the field lists of the
                                  dataclasses are checked against the template in ConfigFacts K5).
   ARGPARSE.
     A9  parser.parse_args(toks)  is Config.parse_args over the table Gen/ConfigData.cli_table (the
                                  add_argument calls, rendered by config2coq.py); SystemExit of argparse
                                  (usage error, or --version) = ExcArgparseExit.
     A10 ns.files / ns.settings   the positional list / the last value stored for the destination
                                  (None when the option was not given).
   PYTHON VALUES (a value read from a source is a Config.yval).
     A11 isinstance, iteration (list: its items, str: its characters, mapping: its keys, anything else:
         TypeError), truthiness (Config.truthy), x is None.
     A12 obj.input.exclude_filters = xs   replaces that option of the settings object.  A list with a
         non-string member has no representation as a validated value: ExcUnrepresentable (proved
         unreachable from main() in Proofs/MainSourceMatch.v).
   OS.
     A13 os.path.abspath(p) = Path.abspath env_cwd p.
   THE PER-INPUT RUN.
     A14 document(input_file, settings_obj) is an opaque function returning the list of actions it
         performs (as in Model/Walk.v); if the list contains AAbort / AExit255 the process ends there
         (exit(-1) or an exception escaping document), exactly the test of Walk.run_inputs.
   DROPPED (no Gallina counterpart, by declared rules of the translator): logging.config.dictConfig,
     logging.getLogger, logger.debug / logger.info, the global statement, the message of a raised
     exception, a variable that is only read by dropped calls.  In particular a logging dictionary
     rejected by dictConfig (ValueError) is NOT represented.

   The monad.  A statement sequence is an M A = function from the actions performed so far to
   an outcome and the actions performed then: Ret v (normal), Raise e (an exception escapes),
   Halt (the process ended inside document). *)
From Coq Require Import String List NArith Bool Arith.
From CMinx Require Import Base.Str Model.Path Model.Pipeline Model.Walk Model.Config.
Import ListNotations.

(* ------------------------------------------------------------------ *)
(* outcomes and the monad                                              *)

Inductive mexc :=
| ExcArgparseExit          (* SystemExit raised by argparse *)
| ExcConfigRead            (* confuse.ConfigReadError raised by set_file *)
| ExcConfig                (* confuse.NotFoundError / ConfigTypeError raised inside view.get *)
| ExcKeyError              (* d[k] for a missing key *)
| ExcTypeError             (* iteration over a value that is not iterable *)
| ExcRaised (cls : str)    (* a raise statement of main(): the class name of the exception *)
| ExcUnrepresentable.      (* see A12 *)

Inductive pyout (A : Type) :=
| Ret (v : A)
| Raise (e : mexc)
| Halt.
Arguments Ret {A} v.
Arguments Raise {A} e.
Arguments Halt {A}.

Definition M (A : Type) : Type := list action -> pyout A * list action.

Definition py_ret {A : Type} (v : A) : M A := fun w => (Ret v, w).
Definition py_raise {A : Type} (e : mexc) : M A := fun w => (Raise e, w).
Definition py_bind {A B : Type} (m : M A) (f : A -> M B) : M B :=
  fun w => match m w with
           | (Ret v, w') => f v w'
           | (Raise e, w') => (Raise e, w')
           | (Halt, w') => (Halt, w')
           end.

(* Python:   for v in xs: BODY     st = the variables BODY assigns *)
Fixpoint py_for {St A : Type} (xs : list A) (body : St -> A -> M St) (init : St) : M St :=
  match xs with
  | [] => py_ret init
  | x :: r => py_bind (body init x) (fun st => py_for r body st)
  end.

(* what the process did, from its start *)
Inductive mainres :=
| Returned (acts : list action)              (* main() returned *)
| Raised (e : mexc) (acts : list action)     (* an exception escaped main(): traceback, status 1 *)
| Halted (acts : list action).               (* ended inside document() (last action) *)

Definition py_run {A : Type} (m : M A) : mainres :=
  match m [] with
  | (Ret _, w) => Returned w
  | (Raise e, w) => Raised e w
  | (Halt, w) => Halted w
  end.

(* ------------------------------------------------------------------ *)
(* the environment                                                     *)

Record pyenv := {
  env_cwd : str;
  env_user : str -> source;
  env_defaults : str -> source;
  env_load : str -> option source }.

(* Python:   os.path.abspath(p) *)
Definition py_os_path_abspath (env : pyenv) (p : str) : str := abspath (env_cwd env) p.

(* ------------------------------------------------------------------ *)
(* argparse                                                            *)

(* Python:   parser.parse_args(toks)   parser = the table of its add_argument calls *)
Definition py_parse_args (tbl : list cli_arg) (toks : list str) : M parsed :=
  match parse_args tbl toks with
  | Some ns => py_ret ns
  | None => py_raise ExcArgparseExit
  end.

(* Python:   ns.<dest>   for a store option without default: None or the last value given *)
Definition py_ns_opt (ns : parsed) (dest : str) : option str := assoc dest (p_stored ns).
(* Python:   ns.<dest>   for the positional with nargs=+ *)
Definition py_ns_list (tbl : list cli_arg) (ns : parsed) (dest : str) : list str :=
  if str_eqb dest (positional_dest tbl) then p_positional ns else [].

(* ------------------------------------------------------------------ *)
(* confuse                                                             *)

Definition py_config := list source.
Definition py_view := (py_config * str)%type.

(* Python:   Configuration(app, mod) *)
Definition cfg_Configuration (env : pyenv) (app modname : str) : M py_config :=
  py_ret [env_user env app; env_defaults env modname].

(* Python:   c.set_file(filename)   (statement; the new value of c) *)
Definition cfg_set_file (env : pyenv) (c : py_config) (filename : str) : M py_config :=
  match env_load env filename with
  | Some src => py_ret (src :: c)
  | None => py_raise ExcConfigRead
  end.

(* Python:   c.set_args(ns, dots=True)   (statement; the new value of c) *)
Definition cfg_set_args (tbl : list cli_arg) (c : py_config) (ns : parsed) : M py_config :=
  py_ret (args_source tbl ns :: c).

(* Python:   c   as the root view,   view[k] *)
Definition cfg_root (c : py_config) : py_view := (c, []).
Definition cfg_sub (v : py_view) (k : str) : py_view :=
  (fst v, match snd v with [] => k | _ :: _ => snd v ++ [dot] ++ k end).

(* every source that has the key, highest priority first *)
Fixpoint py_resolve_all (stack : list source) (key : str) : list (yval * source) :=
  match stack with
  | [] => []
  | src :: r => match assoc key (src_vals src) with
                | Some v => (v, src) :: py_resolve_all r key
                | None => py_resolve_all r key
                end
  end.

(* Python:   view.resolve() *)
Definition cfg_view_resolve (v : py_view) : list (yval * source) := py_resolve_all (fst v) (snd v).

(* Python:   view.get() *)
Definition cfg_view_get (v : py_view) : M yval :=
  match resolve (fst v) (snd v) with
  | Some (x, _) => py_ret x
  | None => py_raise ExcConfig
  end.

(* settings_of of Model/Config.v with the relative_to_config flag as an argument *)
Fixpoint py_settings_with (cwd : str) (rc : bool) (stack : list source) (tmpl : list (str * oty))
  : option (list (str * cval)) :=
  match tmpl with
  | [] => Some []
  | (k, ty) :: r =>
      match effective cwd rc stack k ty, py_settings_with cwd rc stack r with
      | COk v, Some rest => Some ((k, v) :: rest)
      | _, _ => None
      end
  end.

Definition py_template := (list (str * oty) * bool)%type.
Definition py_settings_dict := list (str * cval).
Definition py_settings_obj := list (str * cval).

(* Python:   config_template(b)   tmpl = the table config2coq.py renders from that function *)
Definition py_config_template (tmpl : list (str * oty)) (b : bool) : py_template := (tmpl, b).

(* Python:   c.get(template) *)
Definition cfg_get (env : pyenv) (c : py_config) (t : py_template) : M py_settings_dict :=
  match py_settings_with (env_cwd env) (snd t) c (fst t) with
  | Some d => py_ret d
  | None => py_raise ExcConfig
  end.

(* Python:   dict_to_settings(d) *)
Definition py_dict_to_settings (d : py_settings_dict) : py_settings_obj := d.

(* Python:   d[k1][k2]  for the validated dictionary *)
Definition py_dictview := (py_settings_dict * str)%type.
Definition py_dict_root (d : py_settings_dict) : py_dictview := (d, []).
Definition py_dict_sub (v : py_dictview) (k : str) : py_dictview :=
  (fst v, match snd v with [] => k | _ :: _ => snd v ++ [dot] ++ k end).
Definition py_dict_value (v : py_dictview) : M cval :=
  match assoc (snd v) (fst v) with
  | Some x => py_ret x
  | None => py_raise ExcKeyError
  end.

Fixpoint py_set_key {A : Type} (k : str) (v : A) (l : list (str * A)) : list (str * A) :=
  match l with
  | [] => [(k, v)]
  | (k', v') :: r => if str_eqb k k' then (k, v) :: r else (k', v') :: py_set_key k v r
  end.

(* Python:   obj.a.b = xs   (statement; the new value of obj), xs a python list *)
Definition py_setattr_list (o : py_settings_obj) (path : str) (xs : list yval) : M py_settings_obj :=
  match all_strs xs with
  | Some l => py_ret (py_set_key path (CStrs l) o)
  | None => py_raise ExcUnrepresentable
  end.

(* ------------------------------------------------------------------ *)
(* python values                                                       *)

Inductive pytype := PyT_list | PyT_tuple | PyT_str | PyT_dict | PyT_bool | PyT_int.

Definition py_has_type (v : yval) (t : pytype) : bool :=
  match v, t with
  | YList _, PyT_list => true
  | YStr _, PyT_str => true
  | YMap _, PyT_dict => true
  | YBool _, PyT_bool => true
  | YBool _, PyT_int => true       (* bool is a subclass of int *)
  | YInt _, PyT_int => true
  | _, _ => false
  end.

(* Python:   isinstance(v, (t1, t2, ..)) *)
Definition py_isinstance (v : yval) (ts : list pytype) : bool := existsb (py_has_type v) ts.

(* Python:   v is None *)
Definition py_yval_is_none (v : yval) : bool := match v with YNull => true | _ => false end.
Definition py_cval_is_none (v : cval) : bool := match v with CNone => true | _ => false end.

(* Python:   bool(v) *)
Definition py_truthy (v : yval) : bool := truthy v.

(* Python:   iter(v)  (for v in .., list.extend(v), all(.. for x in v)) *)
Definition py_iter (v : yval) : M (list yval) :=
  match v with
  | YList l => py_ret l
  | YStr x => py_ret (map (fun c => YStr [c]) x)
  | YMap ks => py_ret (map YStr ks)
  | _ => py_raise ExcTypeError
  end.

(* Python:   all(P(x) for x in xs) *)
Definition py_all {A : Type} (p : A -> bool) (xs : list A) : bool := forallb p xs.

(* Python:   xs.extend(ys)   (statement; the new value of xs) *)
Definition py_extend {A : Type} (xs ys : list A) : list A := xs ++ ys.

(* ------------------------------------------------------------------ *)
(* the per-input run                                                   *)

(* Python:   document(input_file, settings_obj)   (statement) *)
Definition py_call_document (document : str -> py_settings_obj -> list action)
           (input_file : str) (o : py_settings_obj) : M unit :=
  fun w =>
    let acts := document input_file o in
    if existsb (fun a => match a with AAbort _ | AExit255 => true | _ => false end) acts
    then (Halt, w ++ acts)
    else (Ret tt, w ++ acts).
