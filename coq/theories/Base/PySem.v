(* Base/PySem.v -- Gallina meaning of the Python constructs emitted by translators/py2coq.py.

   The translator is syntax-directed: every Python construct of its subset is rendered by
   exactly ONE combinator of this file (or by a plain Gallina let / if / ++ / + , see the
   table in the header of Gen/PySource.v).  Python str = Base.Str.str (list of code points);
   a Python int that the subset can produce is a natural number (constants >= 0, len, +);
   a Python list / tuple of str = list str.  A one-character Python string (the result of
   indexing or iterating a str) is a str of length one, exactly as in Python.

   Totality: Python raises IndexError on an out-of-range index; the combinators below are
   total and return a default there (the empty string, 0, the unchanged list).  Each place
   says which hypothesis of the theorems in Proofs/SourceMatch.v excludes the raising case.

   Where a combinator is an existing Base/Str.v function it is defined as an alias and the
   trivial lemma  <combinator>_is  is proved here. *)
From Coq Require Import String List NArith ZArith Bool Arith.
From CMinx Require Import Base.Str Model.Writer Model.Lexer Model.Parser Model.DocTypes Model.Naming.
Import ListNotations.

(* ------------------------------------------------------------------ *)
(* loops                                                               *)

(* Python:   for v in xs: BODY        (BODY without break)
   The local variables that BODY assigns and that exist before the loop are the state St
   (a tuple when there are several); BODY is a function from the state and the loop
   variable to the new state. *)
Definition py_for {St A : Type} (xs : list A) (body : St -> A -> St) (init : St) : St :=
  fold_left body xs init.

(* Python:   for v in xs: BODY        (BODY containing break)
   BODY returns the new state and a flag: true = a break statement was executed. *)
Fixpoint py_for_break {St A : Type} (xs : list A) (body : St -> A -> St * bool) (init : St) : St :=
  match xs with
  | [] => init
  | x :: r => let '(st, brk) := body init x in
              if brk then st else py_for_break r body st
  end.

(* Python:   range(a, b)    range(n) is py_range 0 n *)
Definition py_range (a b : nat) : list nat := seq a (b - a).

(* Python:   iterating over a str  (for c in text)  yields its one-character strings *)
Definition py_chars (x : str) : list str := map (fun c => [c]) x.

(* Python:   [ELT for v in xs]  with  f = fun v => ELT *)
Definition py_listcomp {A B : Type} (f : A -> B) (xs : list A) : list B := map f xs.

(* Python:   map(str, xs)  for a sequence of str: str(x) is x *)
Definition py_map_str (xs : list str) : list str := xs.

(* ------------------------------------------------------------------ *)
(* indexing and slicing                                                *)

(* Python:   len(x)   for a str or a list *)
Definition py_len {A : Type} (x : list A) : nat := length x.

(* Python:   x[i]  for a str x and an int i >= 0: a one-character str.
   Python raises IndexError when i >= len(x); here the result is the empty string.
   (clean_doc_lines reads lines[-1][i] only for i < len(lines[-1]) and cleaned_line[0] only
   behind the test that cleaned_line is not empty, so the default is never observed.) *)
Definition py_index_str (x : str) (i : nat) : str :=
  match nth_error x i with Some c => [c] | None => [] end.

(* Python:   x[-1]  for a str x.  IndexError on the empty string; here the empty string. *)
Definition py_last_str (x : str) : str :=
  match last_opt x with Some c => [c] | None => [] end.

(* Python:   xs[i]  for a list xs and an int i >= 0.
   IndexError when i >= len(xs); here the default dflt.  (RSTList.build_list_string reads
   items[i] only for i in range(0, len(items)).) *)
Definition py_list_index {A : Type} (dflt : A) (xs : list A) (i : nat) : A := nth i xs dflt.

(* Python:   xs[-1]  for a list xs.  IndexError on the empty list; here the default dflt.
   (Excluded by the hypothesis  lines <> []  of clean_doc_lines_matches_source: the only
   caller passes text.split(...), which is never empty.) *)
Definition py_list_last {A : Type} (dflt : A) (xs : list A) : A :=
  match last_opt xs with Some x => x | None => dflt end.

(* Python:   xs[-1] = v   (statement).  IndexError on the empty list; here xs is unchanged. *)
Definition py_set_last {A : Type} (xs : list A) (v : A) : list A := update_last (fun _ => v) xs.

(* Python:   x[n:]   for a str or list x and an int n >= 0 *)
Definition py_slice_from {A : Type} (x : list A) (n : nat) : list A := skipn n x.

(* Python:   x[:-1]  for a str or list x *)
Definition py_slice_drop_last {A : Type} (x : list A) : list A := drop_last x.

(* Python:   xs.append(e)   (statement; the new value of xs) *)
Definition py_append {A : Type} (xs : list A) (e : A) : list A := xs ++ [e].

(* ------------------------------------------------------------------ *)
(* str methods (receiver first)                                        *)

(* Python:   x.lstrip(chars) *)
Definition py_lstrip (x chars : str) : str := lstrip_set chars x.
(* Python:   x.rstrip(chars) *)
Definition py_rstrip (x chars : str) : str := rstrip_set chars x.
(* Python:   x.split(sep)   The translator only emits this for a constant separator of
   exactly one character (it fails closed otherwise); for any other sep this definition
   is NOT Python's split and is never used. *)
Definition py_split (x sep : str) : list str :=
  match sep with [c] => split_on c x | _ => [x] end.
(* Python:   sep.join(xs) *)
Definition py_join (sep : str) (xs : list str) : str := join sep xs.
(* Python:   x.startswith(p) *)
Definition py_startswith (x p : str) : bool := startswith p x.
(* Python:   sub in x   for strs *)
Definition py_in_str (sub x : str) : bool := contains sub x.
(* Python:   x in xs    for a str x and a list of str xs *)
Definition py_in_list (x : str) (xs : list str) : bool := mem_str x xs.

(* Python:   str(n) / an int inside an f-string *)
Definition py_str_of_nat (n : nat) : str := dec_of_nat n.

(* ------------------------------------------------------------------ *)
(* tests                                                               *)

(* Python:   a == b  /  a != b   for strs *)
Definition py_str_eq (a b : str) : bool := str_eqb a b.
Definition py_str_ne (a b : str) : bool := negb (str_eqb a b).
(* Python:   a == b  /  a != b   for ints *)
Definition py_int_eq (a b : nat) : bool := Nat.eqb a b.
Definition py_int_ne (a b : nat) : bool := negb (Nat.eqb a b).
(* Python:   a < b, a <= b, a > b, a >= b   for ints *)
Definition py_int_lt (a b : nat) : bool := Nat.ltb a b.
Definition py_int_le (a b : nat) : bool := Nat.leb a b.
Definition py_int_gt (a b : nat) : bool := Nat.ltb b a.
Definition py_int_ge (a b : nat) : bool := Nat.leb b a.

(* Python:   truth value of a str / list in a condition: non-empty *)
Definition py_truth {A : Type} (x : list A) : bool :=
  match x with [] => false | _ :: _ => true end.
(* Python:   truth value of an int in a condition: non-zero *)
Definition py_truth_int (n : nat) : bool := negb (Nat.eqb n 0).

(* Python:   x is None / x is not None   for an Optional[str] *)
Definition py_is_none {A : Type} (x : option A) : bool :=
  match x with None => true | Some _ => false end.
Definition py_is_not_none {A : Type} (x : option A) : bool := negb (py_is_none x).

(* Python:   x == C   where x is a member of the Enum class E or a str, and C a member of E
   (a str never equals an Enum member) *)
Definition py_union_is {E : Type} (eqb : E -> E -> bool) (x : E + str) (c : E) : bool :=
  match x with inl e => eqb e c | inr _ => false end.

(* Python:   str(x) / x inside an f-string, for an Optional[str] *)
Definition py_str_of_opt (x : option str) : str :=
  match x with Some v => v | None => s"None" end.
(* Python:   str(x) / x inside an f-string, for a member of the Enum class E or a str;
   show = the generated <E>_str *)
Definition py_str_of_union {E : Type} (show : E -> str) (x : E + str) : str :=
  match x with inl e => show e | inr v => v end.

(* ------------------------------------------------------------------ *)
(* the RSTWriter API (functions that take an RSTWriter / Directive)    *)

(* A Python RSTWriter / Directive object is a handle (Model.Writer.handle) into the one RST
   document under construction, the wstate `world` that the translation threads through the
   function; a call of the writer API is one step of the writer state machine Model.Writer.wstep
   (whose agreement with rstwriter.py is established by the differential tests of the harness).
   The heading characters only matter for section() and to_text(), which are not in the subset. *)

(* Python:   d = w.directive(name, *args)     (the new document and the handle of the directive) *)
Definition py_w_directive (world : wstate) (w : handle) (name : str) (args : list str)
  : wstate * handle :=
  match wstep [] world (ODirective w name args) with
  | (world', WHandle d) => (world', d)
  | (world', _) => (world', w)        (* dangling handle: cannot happen for handles obtained here *)
  end.
(* Python:   w.text(t) *)
Definition py_w_text (world : wstate) (w : handle) (t : str) : wstate :=
  fst (wstep [] world (OText w t)).
(* Python:   w.field(name, text) *)
Definition py_w_field (world : wstate) (w : handle) (n t : str) : wstate :=
  fst (wstep [] world (OField w n t)).
(* Python:   w.doctest(line, expected) *)
Definition py_w_doctest (world : wstate) (w : handle) (l x : str) : wstate :=
  fst (wstep [] world (ODocTest w l x)).
(* Python:   w.option(name, value) *)
Definition py_w_option (world : wstate) (w : handle) (n v : str) : wstate :=
  fst (wstep [] world (OOption w n v)).
(* Python:   w.bulleted_list(items...) and w.enumerated_list(items...) *)
Definition py_w_bulleted_list (world : wstate) (w : handle) (items : list str) : wstate :=
  fst (wstep [] world (OBullets w items)).
Definition py_w_enumerated_list (world : wstate) (w : handle) (items : list str) : wstate :=
  fst (wstep [] world (OEnum w items)).

(* ------------------------------------------------------------------ *)
(* ints that may be negative                                           *)

(* A Python int expression that can be negative (a negative literal, a subtraction, or anything
   computed from those) is an integer Z; every other int of the subset is a natural number and is
   injected with py_zint_of_int where the two meet.  Indices, slice bounds and range bounds must
   be natural numbers (the translator rejects a Z there). *)
Definition py_zint_of_int (n : nat) : Z := Z.of_nat n.
(* Python:   a + b  /  a - b   where an operand may be negative *)
Definition py_zint_add (a b : Z) : Z := (a + b)%Z.
Definition py_zint_sub (a b : Z) : Z := (a - b)%Z.
(* Python:   a == b, a != b, a < b, a <= b, a > b, a >= b   where an operand may be negative *)
Definition py_zint_eq (a b : Z) : bool := Z.eqb a b.
Definition py_zint_ne (a b : Z) : bool := negb (Z.eqb a b).
Definition py_zint_lt (a b : Z) : bool := Z.ltb a b.
Definition py_zint_le (a b : Z) : bool := Z.leb a b.
Definition py_zint_gt (a b : Z) : bool := Z.ltb b a.
Definition py_zint_ge (a b : Z) : bool := Z.leb b a.

(* ------------------------------------------------------------------ *)
(* more loops and comprehensions                                       *)

(* Python:   for v in xs: BODY        (BODY containing return, no break)
   BODY yields inl st (the new state, go on) or inr r (a return statement was executed and the
   function result is r); so does the loop. *)
Fixpoint py_for_ret {St A R : Type} (xs : list A) (body : St -> A -> St + R) (init : St) : St + R :=
  match xs with
  | [] => inl init
  | x :: r => match body init x with
              | inl st => py_for_ret r body st
              | inr res => inr res
              end
  end.

(* Python:   enumerate(xs) *)
Definition py_enumerate {A : Type} (xs : list A) : list (nat * A) := combine (seq 0 (length xs)) xs.

(* Python:   [ELT for v in xs if COND]  with  p = fun v => COND,  f = fun v => ELT *)
Definition py_listcomp_if {A B : Type} (p : A -> bool) (f : A -> B) (xs : list A) : list B :=
  map f (filter p xs).

(* ------------------------------------------------------------------ *)
(* the ANTLR parse-tree protocol (parameters that are parser contexts) *)

(* A CMakeParser.Command_invocationContext is a Model.Parser.cmd; a Single_argumentContext or
   Compound_argumentContext (and a parameter annotated ParserRuleContext, which the aggregator
   only ever passes such a context) is a Model.Parser.arg.  The translator understands exactly
   this vocabulary on them: *)

(* Python:   isinstance(a, CMakeParser.Compound_argumentContext) *)
Definition py_is_compound (a : arg) : bool :=
  match a with ACompound _ => true | ASingle _ _ => false end.
(* Python:   a.getText()   for an argument context: the concatenated token texts *)
Definition py_get_text (a : arg) : str := arg_text a.
(* Python:   ctx.getText()   for a command invocation (only used to build log messages) *)
Definition py_cmd_text (c : cmd) : str :=
  c_name c ++ [lpar] ++ concat (map arg_text (c_args c)) ++ [rpar].
(* Python:   [.. for v in a.getChildren()
                 if isinstance(v, (CMakeParser.Single_argumentContext,
                                   CMakeParser.Compound_argumentContext))]
   the iterated list: the children that are arguments (not the parenthesis tokens) *)
Definition py_argument_children (a : arg) : list arg :=
  match a with ACompound l => l | ASingle _ _ => [] end.
(* the same for  ctx.getChildren()  of a command invocation *)
Definition py_cmd_argument_children (c : cmd) : list arg := c_args c.
(* Python:   ctx.single_argument()   the direct single_argument children, in order *)
Definition py_single_arguments (c : cmd) : list arg :=
  filter (fun a => negb (py_is_compound a)) (c_args c).
(* default for the total py_list_index on a list of contexts (never observed under the bounds
   tests the Python code makes before indexing) *)
Definition py_no_arg : arg := ASingle TIdent [].

(* nesting depth of an argument *)
Fixpoint py_arg_depth (a : arg) : nat :=
  match a with
  | ASingle _ _ => 0
  | ACompound l => S (fold_right (fun x m => Nat.max (py_arg_depth x) m) 0 l)
  end.

(* Python:   def f(a): ... f(child) ...     a function over an argument context whose recursive
   calls are all on argument children of its parameter (the translator checks this).  body is
   the function body with the recursive call abstracted; the recursion is unrolled depth + 1
   times, which such a function cannot exceed, so dflt is never returned. *)
Fixpoint py_fuel_fix {A R : Type} (n : nat) (body : (A -> R) -> A -> R) (dflt : R) (a : A) : R :=
  match n with
  | O => dflt
  | S k => body (py_fuel_fix k body dflt) a
  end.
Definition py_arg_rec {R : Type} (dflt : R) (body : (arg -> R) -> arg -> R) (a : arg) : R :=
  py_fuel_fix (S (py_arg_depth a)) body dflt a.

(* ------------------------------------------------------------------ *)
(* more str functions                                                  *)

(* Python:   x.replace(old, new)   The translator only emits this for a non-empty constant old
   (Str.replace_all is Python's replace for a non-empty pattern). *)
Definition py_replace (x old new : str) : str := replace_all old new x.
(* Python:   x.strip()   (no argument: Python whitespace) *)
Definition py_strip (x : str) : str := strip_ws x.
(* Python:   re.sub(r'\.cmake$', '', x)   The translator accepts re.sub ONLY with exactly this
   pattern and replacement.  Model.Naming.strip_cmake_ext is that substitution for every x that
   does not end in a line feed (for x ending in .cmake followed by a line feed, the dollar also
   matches before the final line feed; CMinx applies it to path names). *)
Definition py_re_sub_cmake_ext (x : str) : str := strip_cmake_ext x.

(* ------------------------------------------------------------------ *)
(* references to documentation objects held in a list                  *)

(* A documentation object is a Model.DocTypes.entry (a value).  Where Python keeps a second
   reference to an object that is an element of a list L of documentation objects and mutates it
   through that reference, the reference is the POSITION of the object in L:
     refs = [x for x in L if isinstance(x, ModuleDocumentation)]   the positions of those elements
     L.insert(0, e)                                                every position moves up by one
     for r in refs:  r.name  /  r.name = v                         read / update the element at r
   The translator rejects every other use of such a reference. *)

(* Python:   isinstance(x, ModuleDocumentation) *)
Definition py_is_module_entry (e : entry) : bool :=
  match e with EModule _ _ => true | _ => false end.
Definition py_no_entry : entry := EModule [] [].
(* Python:   [x for x in xs if P(x)]   as references into xs *)
Definition py_refs_where (p : entry -> bool) (xs : list entry) : list nat :=
  map fst (filter (fun ie => p (snd ie)) (combine (seq 0 (length xs)) xs)).
(* Python:   xs.insert(0, e)   (statement; the new value of xs) *)
Definition py_insert_front {A : Type} (xs : list A) (e : A) : list A := e :: xs.
(* ... and what it does to the references into xs *)
Definition py_shift_refs (rs : list nat) : list nat := map S rs.
(* the object a reference denotes (the default is never observed: references are positions
   of existing elements) *)
Definition py_deref (xs : list entry) (r : nat) : entry := nth r xs py_no_entry.
(* Python:   r.name   for a documentation object *)
Definition py_entry_name (e : entry) : str :=
  match e with
  | EFunction _ n _ _ _ => n
  | EVariable n _ _ _ => n
  | EOption n _ _ _ => n
  | EGeneric n _ _ => n
  | ECTest n _ _ => n
  | ETest _ n _ _ _ _ => n
  | EClass n _ _ _ _ _ _ => n
  | EModule n _ => n
  end.
Definition py_entry_with_name (v : str) (e : entry) : entry :=
  match e with
  | EFunction m _ d p k => EFunction m v d p k
  | EVariable _ d t x => EVariable v d t x
  | EOption _ d x h => EOption v d x h
  | EGeneric _ d p => EGeneric v d p
  | ECTest _ d p => ECTest v d p
  | ETest sec _ d xf p m => ETest sec v d xf p m
  | EClass _ d su inn ct me at_ => EClass v d su inn ct me at_
  | EModule _ d => EModule v d
  end.
(* Python:   r.name = v   for a reference r into xs (statement; the new value of xs) *)
Definition py_set_ref_name (xs : list entry) (r : nat) (v : str) : list entry :=
  update_nth r (py_entry_with_name v) xs.

(* ------------------------------------------------------------------ *)
(* the trivial alias lemmas                                            *)

Lemma py_for_is : forall (St A : Type) (xs : list A) (body : St -> A -> St) (init : St),
  py_for xs body init = fold_left body xs init.
Proof. reflexivity. Qed.
Lemma py_range_is : forall a b, py_range a b = seq a (b - a).
Proof. reflexivity. Qed.
Lemma py_lstrip_is : forall x chars, py_lstrip x chars = lstrip_set chars x.
Proof. reflexivity. Qed.
Lemma py_rstrip_is : forall x chars, py_rstrip x chars = rstrip_set chars x.
Proof. reflexivity. Qed.
Lemma py_split_is : forall x c, py_split x [c] = split_on c x.
Proof. reflexivity. Qed.
Lemma py_join_is : forall sep xs, py_join sep xs = join sep xs.
Proof. reflexivity. Qed.
Lemma py_startswith_is : forall x p, py_startswith x p = startswith p x.
Proof. reflexivity. Qed.
Lemma py_str_of_nat_is : forall n, py_str_of_nat n = dec_of_nat n.
Proof. reflexivity. Qed.
Lemma py_slice_from_is : forall (A : Type) (x : list A) n, py_slice_from x n = skipn n x.
Proof. reflexivity. Qed.
Lemma py_slice_drop_last_is : forall (A : Type) (x : list A), py_slice_drop_last x = drop_last x.
Proof. reflexivity. Qed.
Lemma py_append_is : forall (A : Type) (xs : list A) e, py_append xs e = xs ++ [e].
Proof. reflexivity. Qed.
Lemma py_listcomp_is : forall (A B : Type) (f : A -> B) xs, py_listcomp f xs = map f xs.
Proof. reflexivity. Qed.
Lemma py_len_is : forall (A : Type) (x : list A), py_len x = length x.
Proof. reflexivity. Qed.

(* ------------------------------------------------------------------ *)
(* generic loop facts, used by Proofs/SourceMatch.v                    *)

(* a loop whose body never signals break is a plain fold *)
Lemma py_for_break_no_break :
  forall (St A : Type) (xs : list A) (body : St -> A -> St * bool) (init : St),
    (forall st x, snd (body st x) = false) ->
    py_for_break xs body init = fold_left (fun st x => fst (body st x)) xs init.
Proof.
  intros St A xs body. induction xs as [|x r IH]; intros init Hnb.
  - reflexivity.
  - cbn [py_for_break fold_left]. specialize (Hnb init x) as Hx.
    destruct (body init x) as [st brk] eqn:E. cbn [snd] in Hx. subst brk.
    cbn [fst]. apply IH. intros st' x'. apply Hnb.
Qed.

(* a loop that appends one string per element to an accumulator string *)
Lemma py_for_concat :
  forall (A : Type) (f : A -> str) (xs : list A) (acc : str),
    py_for xs (fun a x => a ++ f x) acc = acc ++ concat (map f xs).
Proof.
  intros A f xs. unfold py_for. induction xs as [|x r IH]; intros acc.
  - cbn [fold_left map concat]. rewrite app_nil_r. reflexivity.
  - cbn [fold_left map concat]. rewrite IH. rewrite <- app_assoc. reflexivity.
Qed.

(* a loop that appends one element per element to an accumulator list *)
Lemma py_for_append_map :
  forall (A B : Type) (f : A -> B) (xs : list A) (acc : list B),
    py_for xs (fun a x => py_append a (f x)) acc = acc ++ map f xs.
Proof.
  intros A B f xs. unfold py_for, py_append. induction xs as [|x r IH]; intros acc.
  - cbn [fold_left map]. rewrite app_nil_r. reflexivity.
  - cbn [fold_left map]. rewrite IH. rewrite <- app_assoc. reflexivity.
Qed.

(* bodies that agree pointwise give the same loop *)
Lemma py_for_ext :
  forall (St A : Type) (xs : list A) (f g : St -> A -> St) (init : St),
    (forall st x, f st x = g st x) -> py_for xs f init = py_for xs g init.
Proof.
  intros St A xs f g init H. unfold py_for. revert init.
  induction xs as [|x r IH]; intros init.
  - reflexivity.
  - cbn [fold_left]. rewrite H. apply IH.
Qed.

(* the same, needing agreement only on the elements of the list *)
Lemma py_for_ext_in :
  forall (St A : Type) (xs : list A) (f g : St -> A -> St) (init : St),
    (forall st x, In x xs -> f st x = g st x) -> py_for xs f init = py_for xs g init.
Proof.
  intros St A xs f g init H. unfold py_for. revert init.
  induction xs as [|x r IH]; intros init.
  - reflexivity.
  - cbn [fold_left]. rewrite H by (left; reflexivity). apply IH.
    intros st y Hy. apply H. right. exact Hy.
Qed.

Lemma py_for_break_ext_in :
  forall (St A : Type) (xs : list A) (f g : St -> A -> St * bool) (init : St),
    (forall st x, In x xs -> f st x = g st x) -> py_for_break xs f init = py_for_break xs g init.
Proof.
  intros St A xs f g. induction xs as [|x r IH]; intros init H.
  - reflexivity.
  - cbn [py_for_break]. rewrite H by (left; reflexivity).
    destruct (g init x) as [st brk]. destruct brk.
    + reflexivity.
    + apply IH. intros st' y Hy. apply H. right. exact Hy.
Qed.

(* ------------------------------------------------------------------ *)
(* batch 4: the stateful methods of DocumentationAggregator            *)

(* The settings object held in a field (self.settings).  An option self.settings.<group>.<option> is
   looked up BY NAME (the str <group>.<option>) in the one settings argument of the translated method,
   so that exchanging two options in the Python source changes the generated term (not only the name
   of a binder).  The translator checks in config.py that the option exists and has the type used.
     self.settings.G.O                  py_setting_str / py_setting_bool  settings (s G.O)
     re.sub(self.settings.G.O, '', x)   py_setting_re_sub settings (s G.O) x
   (what deleting every match of the regular expression held in that option does to x; regular
   expressions themselves are outside the model, exactly as the strip functions of Model.Aggregator) *)
Record py_settings := {
  py_setting_str : str -> str;
  py_setting_bool : str -> bool;
  py_setting_re_sub : str -> str -> str }.

(* Objects of the classes AbstractCommandDefinitionDocumentation (Function/MacroDocumentation) and
   ClassDocumentation that are held in a field, in a dataclass record or in a list of the aggregator
   are elements of self.documented; such a reference is the POSITION of the object in self.documented
   (the list is append-only in the aggregator, so positions are stable), None stays None.
     x = C(..); self.documented.append(x)      let x_index := py_len self_documented in ...
     .. x used where a reference is kept ..    x_index  /  Some x_index
   A mutation of the object through a reference r updates the element at r: *)
Definition py_ref_update (xs : list entry) (r : nat) (f : entry -> entry) : list entry :=
  update_nth r f xs.
(* the same through an Optional reference.  Python raises AttributeError on None; here xs is unchanged
   (every such statement of the aggregator stands behind an  is not None / isinstance  test) *)
Definition py_optref_update (xs : list entry) (r : option nat) (f : entry -> entry) : list entry :=
  match r with Some i => update_nth i f xs | None => xs end.
(* Python:   isinstance(r, C)   for an Optional reference r (None is an instance of no class) *)
Definition py_optref_test (xs : list entry) (r : option nat) (p : entry -> bool) : bool :=
  match r with Some i => p (py_deref xs i) | None => false end.
(* Python:   isinstance(x, AbstractCommandDefinitionDocumentation) / isinstance(x, ClassDocumentation) *)
Definition py_is_command_definition_entry (e : entry) : bool :=
  match e with EFunction _ _ _ _ _ => true | _ => false end.
Definition py_is_class_entry (e : entry) : bool :=
  match e with EClass _ _ _ _ _ _ _ => true | _ => false end.

(* Python:   x.has_kwargs = v    (only Function/MacroDocumentation have the field in DocTypes.entry;
   on another object Python would create an attribute that nothing reads) *)
Definition py_entry_set_has_kwargs (v : bool) (e : entry) : entry :=
  match e with EFunction m n d p _ => EFunction m n d p v | _ => e end.
(* Python:   x.inner_classes.append(c)   Model.DocTypes keeps the NAMES of the inner classes (all that
   ClassDocumentation.process reads of them) *)
Definition py_entry_add_inner_class (c : entry) (e : entry) : entry :=
  match e with
  | EClass n d su inner ct me at_ => EClass n d su (inner ++ [py_entry_name c]) ct me at_
  | _ => e
  end.
(* Python:   x.constructors.append(m) / x.members.append(m) / x.attributes.append(a) *)
Definition py_entry_add_constructor (m : method) (e : entry) : entry :=
  match e with
  | EClass n d su inner ct me at_ => EClass n d su inner (ct ++ [m]) me at_
  | _ => e
  end.
Definition py_entry_add_member (m : method) (e : entry) : entry :=
  match e with
  | EClass n d su inner ct me at_ => EClass n d su inner ct (me ++ [m]) at_
  | _ => e
  end.
Definition py_entry_add_attribute (a : attribute) (e : entry) : entry :=
  match e with
  | EClass n d su inner ct me at_ => EClass n d su inner ct me (at_ ++ [a])
  | _ => e
  end.
(* Python:   MethodDocumentation(name, doc, parent_class, param_types, params, is_constructor)
   is_macro has its dataclass default False.  m_docd / a_docd are ghost fields of the model (did the
   declaration carry a doccomment) that no Python object has: false here, and the theorems of
   Proofs/SourceMatch2.v compare documented lists up to these two fields. *)
Definition py_new_method (name doc parent : str) (types params : list str) (is_ctor : bool) : method :=
  {| m_name := name; m_doc := doc; m_parent := parent; m_types := types; m_params := params;
     m_ctor := is_ctor; m_macro := false; m_docd := false |}.
(* Python:   AttributeDocumentation(name, doc, parent_class, default_value) *)
Definition py_new_attribute (name doc parent : str) (default : option str) : attribute :=
  {| a_name := name; a_doc := doc; a_parent := parent; a_default := default; a_docd := false |}.
(* A MethodDocumentation lives inside its class entry.  After  r.constructors.append(m)  /
   r.members.append(m)  a reference to m that is stored in the awaiting slot is
   Aggregator.AwMethod r true / false : the NEWEST constructor / member of the class at r (every such
   append in the aggregator is followed by the assignment of the slot, so the newest one is m). *)

(* ---- batch 4, part 2: enterCommand_invocation ---- *)
From CMinx Require Model.Aggregator.

(* Python:   ctx.Identifier().getText()   the command name of a command invocation *)
Definition py_cmd_identifier (c : cmd) : str := c_name c.
(* Python:   x.lower()   The translator emits it only for the text of an Identifier token, which the grammar
   restricts to ASCII letters, digits and the underscore, where str.lower() is ASCII lower-casing. *)
Definition py_lower_ascii (x : str) : str := lower_ascii x.
(* Python:   xs.pop()   (statement).  None = IndexError: pop from empty list; Some = the new value of xs *)
Definition py_pop {A : Type} (xs : list A) : option (list A) :=
  match xs with [] => None | _ :: _ => Some (drop_last xs) end.
(* Python:   self.settings.<group>.__dict__[key]   for a key whose possible values are the bool options
   `declared` of that group (listed by the translator from config.py).  None = KeyError. *)
Definition py_setting_dict_bool (st : py_settings) (group : str) (declared : list str) (key : str)
  : option bool :=
  if mem_str key declared then Some (py_setting_bool st (group ++ [46%N] ++ key)) else None.

(* The awaiting slot  self.documented_awaiting_function_def : Aggregator.await  refers to
     AwNone              None
     AwTop i             the Test/SectionDocumentation at position i of self.documented (the translator checks
                         the class of the object at the assignment of the slot)
     AwMethod i is_ctor  the newest constructor / member of the class at position i
   Python:   slot is None / is not None / isinstance(slot, MethodDocumentation) *)
Definition py_await_is_none (a : Aggregator.await) : bool :=
  match a with Aggregator.AwNone => true | _ => false end.
Definition py_await_is_not_none (a : Aggregator.await) : bool := negb (py_await_is_none a).
Definition py_await_is_method (a : Aggregator.await) : bool :=
  match a with Aggregator.AwMethod _ _ => true | _ => false end.
(* a mutation of the object the slot refers to: fe on a documentation object of self.documented, fm on a
   method inside a class entry.  On None Python raises AttributeError; here xs is unchanged (the statements
   of the aggregator stand behind  slot is not None). *)
Definition py_await_update (xs : list entry) (a : Aggregator.await)
           (fe : entry -> entry) (fm : method -> method) : list entry :=
  match a with
  | Aggregator.AwNone => xs
  | Aggregator.AwTop i => update_nth i fe xs
  | Aggregator.AwMethod i is_ctor =>
      update_nth i (fun e => match e with
                             | EClass n d su inner ct me at_ =>
                                 if is_ctor then EClass n d su inner (update_last fm ct) me at_
                                 else EClass n d su inner ct (update_last fm me) at_
                             | _ => e
                             end) xs
  end.
(* Python:   x.is_macro = v   and   x.params.extend(ps)   for a Test/SectionDocumentation x ... *)
Definition py_entry_set_is_macro (v : bool) (e : entry) : entry :=
  match e with ETest sec n d xf ps _ => ETest sec n d xf ps v | _ => e end.
Definition py_entry_extend_params (ps' : list str) (e : entry) : entry :=
  match e with ETest sec n d xf ps m => ETest sec n d xf (ps ++ ps') m | _ => e end.
(* ... and for a MethodDocumentation *)
Definition py_method_set_is_macro (v : bool) (m : method) : method :=
  {| m_name := m_name m; m_doc := m_doc m; m_parent := m_parent m; m_types := m_types m;
     m_params := m_params m; m_ctor := m_ctor m; m_macro := v; m_docd := m_docd m |}.
Definition py_method_extend_params (ps' : list str) (m : method) : method :=
  {| m_name := m_name m; m_doc := m_doc m; m_parent := m_parent m; m_types := m_types m;
     m_params := m_params m ++ ps'; m_ctor := m_ctor m; m_macro := m_macro m; m_docd := m_docd m |}.

(* ------------------------------------------------------------------ *)
(* batch 5: the rendering loop (ClassDocumentation.process, the dynamic dispatch, process_docs) *)

(* Python:   w.title = t   for an RSTWriter / Directive w (the property setter): one more step of the
   writer state machine *)
Definition py_w_set_title (world : wstate) (w : handle) (t : str) : wstate :=
  fst (wstep [] world (OSetTitle w t)).

(* Python:   c.name   for an inner class c held in a class entry.  Model.DocTypes.EClass keeps the NAMES of
   the inner classes (py_entry_add_inner_class), so the element is the name; the translator rejects every
   other attribute of such an element. *)
Definition py_inner_class_name (c : str) : str := c.

(* Python:   for v in xs: BODY     where xs is a list of documentation objects and BODY calls the dynamically
   dispatched method v.m(w).  Such a method may assign fields of its object (so BODY yields, beside the new
   state, the object v after the call, and the loop yields the list of the objects after their calls -- the
   objects of such a list are distinct, as everywhere in this translation) and may raise (None; the loop
   then raises as well and nothing after it runs). *)
Fixpoint py_for_obj_raise {St A : Type} (xs : list A) (body : St -> A -> option (St * A)) (init : St)
  : option (St * list A) :=
  match xs with
  | [] => Some (init, [])
  | x :: r =>
      match body init x with
      | None => None
      | Some (st, x') =>
          match py_for_obj_raise r body st with
          | None => None
          | Some (st', r') => Some (st', x' :: r')
          end
      end
  end.

(* ---- batch 5, part 3: the glue of Documenter ---- *)
(* Python:   self.writer = RSTWriter(title, settings=settings)   (section_level and indent keep their defaults 0)
   The function creates the RST document; the new object is its top-level writer.  RSTWriter.__init__ raises
   IndexError when the heading characters chosen by the settings are an empty list; that case is outside this
   combinator (Proofs/WriterSourceMatch.v: RSTWriter_new_matches gives None there, init_matches assumes a
   non-empty list and gives exactly winit). *)
Definition py_w_new (title : str) : wstate := winit title.
Definition py_w_top : handle := [].
