(* Base/Str.v -- Python-string operations used by CMinx, as total Gallina functions.
   char = Unicode code point (N), str = list of code points.
   Definitions only; characterising lemmas live in Proofs/StrFacts.v. *)
From Coq Require Import String Ascii List NArith Bool Arith.
Import ListNotations.

Definition char := N.
Definition str := list char.

Fixpoint of_string (x : string) : str :=
  match x with
  | EmptyString => []
  | String a r => N_of_ascii a :: of_string r
  end.

(* ASCII literals are written  (s "text")  *)
Notation "'s' x" := (of_string x) (at level 1, x at level 0, only parsing).

Definition ch (a : ascii) : char := N_of_ascii a.

Definition nl : char := 10%N.
Definition cr : char := 13%N.
Definition sp : char := 32%N.
Definition tab : char := 9%N.
Definition hash : char := 35%N.
Definition dq : char := 34%N.
Definition bsl : char := 92%N.
Definition lbr : char := 91%N.
Definition rbr : char := 93%N.
Definition lpar : char := 40%N.
Definition rpar : char := 41%N.
Definition eqc : char := 61%N.
Definition dot : char := 46%N.
Definition slash : char := 47%N.

Fixpoint str_eqb (a b : str) : bool :=
  match a, b with
  | [], [] => true
  | x :: a', y :: b' => N.eqb x y && str_eqb a' b'
  | _, _ => false
  end.

Fixpoint mem (c : char) (l : list char) : bool :=
  match l with
  | [] => false
  | x :: r => N.eqb c x || mem c r
  end.

Fixpoint strs_eqb (a b : list str) : bool :=
  match a, b with
  | [], [] => true
  | x :: a', y :: b' => str_eqb x y && strs_eqb a' b'
  | _, _ => false
  end.

Fixpoint mem_str (x : str) (l : list str) : bool :=
  match l with
  | [] => false
  | y :: r => str_eqb x y || mem_str x r
  end.

Fixpoint nodup_str (l : list str) : list str :=
  match l with
  | [] => []
  | x :: r => x :: filter (fun y => negb (str_eqb x y)) (nodup_str r)
  end.

(* Python  x.split(c)  for a single separator character: never empty *)
Fixpoint split_on (c : char) (x : str) : list str :=
  match x with
  | [] => [[]]
  | a :: r =>
      if N.eqb a c then [] :: split_on c r
      else match split_on c r with
           | [] => [[a]]
           | h :: t => (a :: h) :: t
           end
  end.

(* Python  sep.join(l) *)
Fixpoint join (sep : str) (l : list str) : str :=
  match l with
  | [] => []
  | x :: r => match r with
              | [] => x
              | _ :: _ => x ++ sep ++ join sep r
              end
  end.

Fixpoint drop_while (p : char -> bool) (x : str) : str :=
  match x with
  | [] => []
  | a :: r => if p a then drop_while p r else x
  end.

Fixpoint take_while (p : char -> bool) (x : str) : str :=
  match x with
  | [] => []
  | a :: r => if p a then a :: take_while p r else []
  end.

(* Python  x.lstrip(set) / x.rstrip(set)  with an explicit character set *)
Definition lstrip_set (set : list char) (x : str) : str := drop_while (fun c => mem c set) x.

Definition rstrip_pred (p : char -> bool) (x : str) : str :=
  fold_right (fun a acc => match acc with
                           | [] => if p a then [] else [a]
                           | _ :: _ => a :: acc
                           end) [] x.
Definition rstrip_set (set : list char) (x : str) : str := rstrip_pred (fun c => mem c set) x.

Fixpoint startswith (p x : str) : bool :=
  match p, x with
  | [], _ => true
  | a :: p', b :: x' => N.eqb a b && startswith p' x'
  | _ :: _, [] => false
  end.

Definition endswith (p x : str) : bool := startswith (rev p) (rev x).

(* Python  sub in x *)
Fixpoint contains (sub x : str) : bool :=
  startswith sub x ||
  match x with
  | [] => false
  | _ :: r => contains sub r
  end.

(* Python  x.replace(old, new)  for non-empty old: leftmost, non-overlapping *)
Fixpoint replace_go (old new : str) (skip : nat) (x : str) : str :=
  match x with
  | [] => []
  | a :: r =>
      match skip with
      | S k => replace_go old new k r
      | O => if startswith old x then new ++ replace_go old new (length old - 1) r
             else a :: replace_go old new 0 r
      end
  end.
Definition replace_all (old new x : str) : str := replace_go old new 0 x.

(* Python  str.isspace()  per code point (Unicode White_Space plus the four
   information separators 0x1c-0x1f, as CPython defines it) *)
Definition py_isspace (c : char) : bool :=
  ((9 <=? c) && (c <=? 13) || (28 <=? c) && (c <=? 32) || (c =? 133) || (c =? 160)
   || (c =? 5760) || (8192 <=? c) && (c <=? 8202) || (c =? 8232) || (c =? 8233)
   || (c =? 8239) || (c =? 8287) || (c =? 12288))%N.

(* Python  x.strip()  *)
Definition strip_ws (x : str) : str := rstrip_pred py_isspace (drop_while py_isspace x).

Definition lower_char (c : char) : char :=
  if ((65 <=? c) && (c <=? 90))%N then (c + 32)%N else c.
Definition upper_char_ascii (c : char) : char :=
  if ((97 <=? c) && (c <=? 122))%N then (c - 32)%N else c.

(* ASCII lower-casing; exact for str.lower() on ASCII text (command identifiers).
   For the comparison  name.lower().endswith(".cmake")  the only non-ASCII code point
   whose lower() lands in [.cmake] is U+212A KELVIN SIGN -> k (checked exhaustively by the
   harness over all code points at start-up). *)
Definition lower_char_py (c : char) : char :=
  if (c =? 8490)%N then 107%N else lower_char c.
Definition lower_ascii (x : str) : str := map lower_char x.
Definition lower_py (x : str) : str := map lower_char_py x.

(* str.upper() restricted to what can matter for  == "NAME" / == "EXPECTFAIL":
   ASCII plus U+0131 (dotless i) -> I; every other code point is left alone, which is
   sound for those two comparisons (harness sweep over all code points). *)
Definition upper_char_py (c : char) : char :=
  if (c =? 305)%N then 73%N else upper_char_ascii c.
Definition upper_py (x : str) : str := map upper_char_py x.

Fixpoint repeat_str (n : nat) (x : str) : str :=
  match n with
  | O => []
  | S k => x ++ repeat_str k x
  end.

Definition spaces (n : nat) : str := repeat sp n.

(* decimal rendering of a nat (for enumerated lists / integer option values) *)
Definition digit_char (d : nat) : char := (48 + N.of_nat d)%N.
Fixpoint dec_go (fuel n : nat) (acc : str) : str :=
  match fuel with
  | O => acc
  | S f => let acc' := digit_char (n mod 10) :: acc in
           if n / 10 =? 0 then acc' else dec_go f (n / 10) acc'
  end.
Definition dec_of_nat (n : nat) : str := dec_go (S n) n [].

(* drop the last element (Python  l[:-1]) and last element *)
Fixpoint drop_last {A} (l : list A) : list A :=
  match l with
  | [] => []
  | x :: r => match r with [] => [] | _ :: _ => x :: drop_last r end
  end.

Fixpoint last_opt {A} (l : list A) : option A :=
  match l with
  | [] => None
  | x :: r => match r with [] => Some x | _ :: _ => last_opt r end
  end.

Fixpoint list_eqb {A} (eqb : A -> A -> bool) (a b : list A) : bool :=
  match a, b with
  | [], [] => true
  | x :: a', y :: b' => eqb x y && list_eqb eqb a' b'
  | _, _ => false
  end.

Fixpoint update_nth {A} (n : nat) (f : A -> A) (l : list A) : list A :=
  match l with
  | [] => []
  | x :: r => match n with
              | O => f x :: r
              | S k => x :: update_nth k f r
              end
  end.

Definition update_last {A} (f : A -> A) (l : list A) : list A :=
  match rev l with
  | [] => []
  | x :: r => rev (f x :: r)
  end.
