(* Model/Pipeline.v -- src/cminx/documenter.py: bytes -> text -> tokens -> tree ->
   documentation objects -> reST text. *)
From Coq Require Import String List NArith Bool Arith.
From CMinx Require Import Base.Str Model.Lexer Model.Parser Model.Writer Model.DocTypes
     Model.Aggregator.
Import ListNotations.

(* strict UTF-8 decoding, as Python's utf-8 codec (no surrogates, no overlong forms) *)
Definition is_cont (b : N) : bool := ((128 <=? b) && (b <=? 191))%N.
Definition cont_bits (b : N) : N := (b - 128)%N.

Fixpoint utf8_decode (bs : list N) : option str :=
  match bs with
  | [] => Some []
  | b0 :: r0 =>
      if (b0 <? 128)%N then option_map (cons b0) (utf8_decode r0)
      else if ((194 <=? b0) && (b0 <=? 223))%N then
        match r0 with
        | b1 :: r1 =>
            if is_cont b1
            then option_map (cons ((b0 - 192) * 64 + cont_bits b1)%N) (utf8_decode r1)
            else None
        | _ => None
        end
      else if ((224 <=? b0) && (b0 <=? 239))%N then
        match r0 with
        | b1 :: b2 :: r2 =>
            let lo := if (b0 =? 224)%N then 160%N else 128%N in
            let hi := if (b0 =? 237)%N then 159%N else 191%N in
            if ((lo <=? b1) && (b1 <=? hi))%N && is_cont b2
            then option_map (cons ((b0 - 224) * 4096 + cont_bits b1 * 64 + cont_bits b2)%N)
                            (utf8_decode r2)
            else None
        | _ => None
        end
      else if ((240 <=? b0) && (b0 <=? 244))%N then
        match r0 with
        | b1 :: b2 :: b3 :: r3 =>
            let lo := if (b0 =? 240)%N then 144%N else 128%N in
            let hi := if (b0 =? 244)%N then 143%N else 191%N in
            if ((lo <=? b1) && (b1 <=? hi))%N && is_cont b2 && is_cont b3
            then option_map (cons ((b0 - 240) * 262144 + cont_bits b1 * 4096
                                   + cont_bits b2 * 64 + cont_bits b3)%N)
                            (utf8_decode r3)
            else None
        | _ => None
        end
      else None
  end.

(* FileStream(file, encoding="utf-8-sig"): one leading byte-order mark is dropped *)
Definition decode_source (bs : list N) : option str :=
  match bs with
  | 239%N :: 187%N :: 191%N :: r => utf8_decode r
  | _ => utf8_decode bs
  end.

Definition utf8_encode_char (c : char) : list N :=
  if (c <? 128)%N then [c]
  else if (c <? 2048)%N then [192 + c / 64; 128 + c mod 64]%N
  else if (c <? 65536)%N then [224 + c / 4096; 128 + (c / 64) mod 64; 128 + c mod 64]%N
  else [240 + c / 262144; 128 + (c / 4096) mod 64; 128 + (c / 64) mod 64; 128 + c mod 64]%N.

Definition utf8_encode (x : str) : list N := flat_map utf8_encode_char x.

(* a code point Python's str can hold and utf-8 can encode *)
Definition is_scalar (c : char) : bool :=
  ((c <? 55296) || (57343 <? c) && (c <? 1114112))%N.

Inductive outcome :=
| OOk (rst : str)
| ODecodeErr      (* UnicodeDecodeError from FileStream *)
| OLexErr         (* token recognition error *)
| OParseErr       (* syntax error reported by the parser *)
| OCrash.         (* exception escaping the aggregator *)

Section Pipeline.
  Variable fl : flags.
  Variable trigger : str.
  Variables strip_fn strip_mac strip_mem : str -> str.
  Variable hdrs : list str.           (* settings.rst.headers *)

  (* Documenter.process_docs: the entries actually rendered and the final title *)
  Definition finalize (title module_name : str) (docs : list entry) : str * list entry :=
    match docs with
    | EModule name doc :: rest =>
        match name with
        | [] => (title, EModule module_name doc :: rest)
        | _ :: _ => (name, docs)
        end
    | _ => (title, EModule module_name [] :: docs)
    end.

  Definition render_page (title module_name : str) (docs : list entry) : str :=
    let '(t, ds) := finalize title module_name docs in
    doc_text hdrs t (map render_entry ds).

  (* from decoded text *)
  Definition document_str (title module_name : str) (src : str) : outcome :=
    match lex src with
    | LexErr _ => OLexErr
    | LexOk ts =>
        match parse ts with
        | None => OParseErr
        | Some f =>
            match aggregate fl trigger strip_fn strip_mac strip_mem f with
            | Crash => OCrash
            | Ok st => OOk (render_page title module_name (documented st))
            end
        end
    end.

  (* Documenter(file, title, module_name, settings).process().to_text() *)
  Definition document_bytes (title module_name : str) (bytes : list N) : outcome :=
    match decode_source bytes with
    | None => ODecodeErr
    | Some src => document_str title module_name src
    end.

End Pipeline.

(* the documentation objects only (DocumentationAggregator.documented) *)
Definition aggregate_str (fl : flags) (trigger : str) (sf sm sme : str -> str) (src : str)
  : option (result agg) :=
  match lex src with
  | LexErr _ => None
  | LexOk ts =>
      match parse ts with
      | None => None
      | Some f => Some (aggregate fl trigger sf sm sme f)
      end
  end.
