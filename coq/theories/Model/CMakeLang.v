(* Model/CMakeLang.v -- a small evaluator for the CMake subset used by
   cmake/cminx.cmake:cminx_gen_rst.  The function body itself is not written here: it is
   translated from the source into Gen/CMinxCMake.v on every run. *)
From Coq Require Import String List NArith Bool Arith ZArith.
From CMinx Require Import Base.Str.
Import ListNotations.

Inductive frag :=
| FLit (x : str)
| FVar (name : str).            (* ${name} *)

Record carg := { ca_quoted : bool; ca_frags : list frag }.

Inductive cond :=
| CIsDirectory (a : carg)       (* if(IS_DIRECTORY <path>) *)
| CGreater (a b : carg).        (* if(<a> GREATER <b>) *)

Inductive stmt :=
| SSet (var : str) (vals : list carg)            (* set(var vals...) *)
| SListAppend (var : str) (vals : list carg)     (* list(APPEND var vals...) *)
| SIf (c : cond) (body : list stmt)              (* if(c) body endif() *)
| SExec (args : list carg).                      (* execute_process(args...) *)

Record cm_function := { fn_name : str; fn_params : list str; fn_body : list stmt }.

Definition env := list (str * str).

Fixpoint lookup_var (e : env) (k : str) : str :=
  match e with
  | [] => []
  | (k', v) :: r => if str_eqb k k' then v else lookup_var r k
  end.

Definition set_var (e : env) (k v : str) : env := (k, v) :: e.

Definition expand (e : env) (fs : list frag) : str :=
  concat (map (fun f => match f with FLit x => x | FVar n => lookup_var e n end) fs).

(* cmExpandList: split on ';' outside square brackets; backslash-semicolon is a literal
   semicolon; empty elements are dropped *)
Fixpoint split_list_go (x : str) (depth : Z) (cur : str) : list str :=
  match x with
  | [] => match cur with [] => [] | _ :: _ => [rev cur] end
  | c :: r =>
      if (c =? 92)%N then
        match r with
        | c2 :: r' => if (c2 =? 59)%N then split_list_go r' depth (c2 :: cur)
                      else split_list_go r depth (c :: cur)
        | [] => split_list_go r depth (c :: cur)
        end
      else if (c =? 91)%N then split_list_go r (depth + 1)%Z (c :: cur)
      else if (c =? 93)%N then split_list_go r (depth - 1)%Z (c :: cur)
      else if (c =? 59)%N && (depth =? 0)%Z then
        match cur with
        | [] => split_list_go r depth []
        | _ :: _ => rev cur :: split_list_go r depth []
        end
      else split_list_go r depth (c :: cur)
  end.
Definition split_list (x : str) : list str := split_list_go x 0%Z [].

(* the arguments a command receives from one written argument *)
Definition eval_arg (e : env) (a : carg) : list str :=
  if ca_quoted a then [expand e (ca_frags a)] else split_list (expand e (ca_frags a)).

Definition eval_args (e : env) (l : list carg) : list str := flat_map (eval_arg e) l.

Definition semi : str := [59%N].

(* decimal value of a string of digits; None otherwise *)
Fixpoint nat_of_digits (x : str) (acc : N) : option N :=
  match x with
  | [] => Some acc
  | c :: r => if ((48 <=? c) && (c <=? 57))%N then nat_of_digits r (acc * 10 + (c - 48))%N else None
  end.
Definition parse_num (x : str) : option N :=
  match x with [] => None | _ :: _ => nat_of_digits x 0%N end.

(* keywords of execute_process (CMake 3.25) *)
Definition exec_keywords : list str :=
  [ s"COMMAND"; s"WORKING_DIRECTORY"; s"TIMEOUT"; s"RESULT_VARIABLE"; s"RESULTS_VARIABLE";
    s"OUTPUT_VARIABLE"; s"ERROR_VARIABLE"; s"INPUT_FILE"; s"OUTPUT_FILE"; s"ERROR_FILE";
    s"OUTPUT_QUIET"; s"ERROR_QUIET"; s"COMMAND_ECHO"; s"OUTPUT_STRIP_TRAILING_WHITESPACE";
    s"ERROR_STRIP_TRAILING_WHITESPACE"; s"ENCODING"; s"ECHO_OUTPUT_VARIABLE";
    s"ECHO_ERROR_VARIABLE"; s"COMMAND_ERROR_IS_FATAL" ].

Definition is_kw (x : str) : bool := mem_str x exec_keywords.

(* the words following the first COMMAND keyword up to the next keyword *)
Fixpoint take_command (l : list str) : list str :=
  match l with
  | [] => []
  | x :: r => if is_kw x then [] else x :: take_command r
  end.
Fixpoint first_command (l : list str) : option (list str) :=
  match l with
  | [] => None
  | x :: r => if str_eqb x (s"COMMAND") then Some (take_command r) else first_command r
  end.
Fixpoint count_commands (l : list str) : nat :=
  match l with
  | [] => 0
  | x :: r => (if str_eqb x (s"COMMAND") then 1 else 0) + count_commands r
  end.
(* COMMAND_ERROR_IS_FATAL ANY | LAST *)
Fixpoint fatal_mode (l : list str) : bool :=
  match l with
  | x :: (y :: _) as r =>
      (str_eqb x (s"COMMAND_ERROR_IS_FATAL") && (str_eqb y (s"ANY") || str_eqb y (s"LAST")))
      || fatal_mode r
  | _ => false
  end.

(* one launched process: argv and whether a failure is fatal *)
Definition launch := (list str * bool)%type.

Section Exec.
  Variable isdir : str -> bool.     (* the file system, as far as IS_DIRECTORY asks *)

  Definition eval_cond (e : env) (c : cond) : bool :=
    match c with
    | CIsDirectory a =>
        match eval_arg e a with
        | [p] => isdir p
        | _ => false
        end
    | CGreater a b =>
        match eval_arg e a, eval_arg e b with
        | [x], [y] =>
            match parse_num x, parse_num y with
            | Some n, Some m => (m <? n)%N
            | _, _ => false
            end
        | _, _ => false
        end
    end.

  Fixpoint exec_stmt (e : env) (st : stmt) {struct st} : env * list launch :=
    match st with
    | SSet v vals => (set_var e v (join semi (eval_args e vals)), [])
    | SListAppend v vals =>
        match eval_args e vals with
        | [] => (e, [])
        | items =>
            let cur := lookup_var e v in
            (set_var e v (match cur with
                          | [] => join semi items
                          | _ :: _ => cur ++ semi ++ join semi items
                          end), [])
        end
    | SIf c body =>
        if eval_cond e c
        then (fix go (e : env) (l : list stmt) : env * list launch :=
                match l with
                | [] => (e, [])
                | x :: r => let '(e1, l1) := exec_stmt e x in
                            let '(e2, l2) := go e1 r in (e2, l1 ++ l2)
                end) e body
        else (e, [])
    | SExec args =>
        let words := eval_args e args in
        match first_command words with
        | Some argv => (e, [(argv, fatal_mode words)])
        | None => (e, [])
        end
    end.

  Fixpoint exec_body (e : env) (l : list stmt) : env * list launch :=
    match l with
    | [] => (e, [])
    | x :: r => let '(e1, l1) := exec_stmt e x in
                let '(e2, l2) := exec_body e1 r in (e2, l1 ++ l2)
    end.

  Fixpoint bind_params (ps : list str) (actuals : list str) (e : env) : env :=
    match ps, actuals with
    | p :: ps', a :: as' => bind_params ps' as' (set_var e p a)
    | _, _ => e
    end.

  (* calling f(actuals...) with the given global variables *)
  Definition call (f : cm_function) (globals : env) (actuals : list str) : list launch :=
    let n := length (fn_params f) in
    let e0 := bind_params (fn_params f) actuals globals in
    let e1 := set_var e0 (s"ARGC") (dec_of_nat (length actuals)) in
    let e2 := set_var e1 (s"ARGV") (join semi actuals) in
    let e3 := set_var e2 (s"ARGN") (join semi (skipn n actuals)) in
    snd (exec_body e3 (fn_body f)).
End Exec.

(* what CMake does after the launches: fatal error iff a fatal-mode process fails *)
Inductive cm_result := CMDone | CMFatal.
Definition after_launch (fatal : bool) (exit_code : Z) : cm_result :=
  if fatal && negb (exit_code =? 0)%Z then CMFatal else CMDone.
